/-
C13, continued — mDNS replies contain exactly the matching records.

  1. SRV targets: `Op.OKT` / `ReachableOKT` (operations whose registered records also have
     targets with labels shorter than 256 bytes), `ReachableOKT.targets`,
     `additional_sound_of_reachable'` (no hypothesis besides reachability), and the fact that
     every record the wire parser returns qualifies (`parsed_record_okt`).
  2. Multiplicity: one question never yields the same record twice (`answersFor_pairwise`);
     over several questions the answer section is the concatenation of the per-question lists
     (`reply_answers_eq_flatMap`, `reply_answers_length`), so a record appears once per
     question it matches (`answer_multiplicity`), and a query made of `n` copies of a question
     gets `n` copies of its answers (`reply_answers_replicate`).
  3. End to end on datagrams: `responder_reply_exact`, `responder_reply_exact'`.
-/
import SimpleDnsModel.Props.C13
import SimpleDnsModel.Props.C14
namespace Dns.Mdns

/-! ### 1. SRV targets -/

/-- the target of the record, if it is an SRV record, has labels shorter than 256 bytes -/
def TargetOK (rd : RData) : Prop := ∀ t, srvTarget rd = some t → NameOK t

instance (rd : RData) : Decidable (TargetOK rd) :=
  match h : srvTarget rd with
  | none => isTrue (fun t ht => by rw [h] at ht; cases ht)
  | some t =>
    if hn : NameOK t then isTrue (fun t' ht => by rw [h] at ht; cases ht; exact hn)
    else isFalse (fun hall => hn (hall t h))

/-- `Op.OK`, and the target of a locally registered SRV record is decodable from its key as well.
Nothing is asked of the targets of cached records: a cached record that is registered later keeps
its stored copy, whose RDATA is that of the registered one. -/
def Op.OKT (op : Op) : Prop :=
  op.OK ∧ match op with
    | .addAuth r => TargetOK r.rdata
    | _ => True

instance (op : Op) : Decidable op.OKT := by
  cases op <;> unfold Op.OKT <;> infer_instance

theorem Op.OKT.ok {op : Op} (h : op.OKT) : op.OK := h.1

/-- every stored authoritative SRV record has a target with labels shorter than 256 bytes -/
def TargetsOK (s : Store) : Prop :=
  ∀ k b, (k, b) ∈ s.entries → ∀ a, (a, Kind.auth) ∈ b → TargetOK a.rdata

theorem TargetsOK.empty : TargetsOK Store.empty := by simp [TargetsOK, Store.empty]

theorem TargetsOK.getD {s : Store} (h : TargetsOK s) (k : Key) :
    ∀ a, (a, Kind.auth) ∈ (s.bucket k).getD [] → TargetOK a.rdata := by
  cases hb : s.bucket k with
  | none => simp
  | some b => exact h k b (Store.bucket_mem hb)

theorem TargetsOK.setBucket {s : Store} (h : TargetsOK s) {k : Key} {b : Bucket}
    (hb : ∀ a, (a, Kind.auth) ∈ b → TargetOK a.rdata) : TargetsOK (s.setBucket k b) := by
  intro k' b' hm
  rcases Store.mem_setBucket hm with hm | hm
  · cases hm; exact hb
  · exact h k' b' hm.1

/-- inserting a record whose target is fine, or inserting anything as a cache entry, keeps the
targets of the authoritative records fine -/
theorem TargetsOK.insert {s : Store} (h : TargetsOK s) (r : RR) (kind : Kind)
    (hr : kind = .auth → TargetOK r.rdata) :
    TargetsOK (s.setBucket (getKey r.name) (((s.bucket (getKey r.name)).getD []).insert r kind)) := by
  apply h.setBucket
  intro a ha
  rcases Bucket.mem_insert ha with ha | ⟨hk, he, _⟩
  · exact h.getD _ a ha.1
  · simp only at hk he
    rw [(rrEq_iff.mp he).2.2]
    exact hr hk.symm

theorem TargetsOK.apply {s : Store} (h : TargetsOK s) {op : Op} (hop : op.OKT) :
    TargetsOK (s.apply op) := by
  cases op with
  | addAuth r => exact h.insert r .auth (fun _ => hop.2)
  | addCached r now =>
    simp only [Store.apply, Store.addCached]
    split
    · exact h
    · exact h.insert r _ (fun hk => by cases hk)
  | remove r =>
    simp only [Store.apply, Store.remove]
    split
    · rename_i b hb
      apply h.setBucket
      intro a ha; exact h _ b (Store.bucket_mem hb) a (Bucket.mem_remove.mp ha).1
    · exact h
  | clear => exact TargetsOK.empty

theorem TargetsOK.run {s : Store} (h : TargetsOK s) {ops : List Op} (hops : ∀ op ∈ ops, op.OKT) :
    TargetsOK (s.run ops) := by
  induction ops generalizing s with
  | nil => exact h
  | cons op ops ih =>
    exact ih (h.apply (hops op (by simp))) (fun o ho => hops o (by simp [ho]))

/-- reached from the empty store by operations whose added records have owner names, and whose
registered SRV records have targets, with labels shorter than 256 bytes -/
def ReachableOKT (s : Store) : Prop :=
  ∃ ops : List Op, (∀ op ∈ ops, op.OKT) ∧ s = Store.empty.run ops

theorem ReachableOKT.reachableOK {s : Store} (h : ReachableOKT s) : ReachableOK s := by
  obtain ⟨ops, hops, rfl⟩ := h; exact ⟨ops, fun op ho => (hops op ho).1, rfl⟩

theorem ReachableOKT.inv {s : Store} (h : ReachableOKT s) : Inv s := h.reachableOK.inv

theorem ReachableOKT.storeOK {s : Store} (h : ReachableOKT s) : StoreOK s := h.reachableOK.storeOK

/-- in such a store every registered SRV record has a decodable target -/
theorem ReachableOKT.targets {s : Store} (h : ReachableOKT s) : TargetsOK s := by
  obtain ⟨ops, hops, rfl⟩ := h; exact TargetsOK.empty.run hops

theorem ReachableOKT.empty : ReachableOKT Store.empty := ⟨[], by simp, rfl⟩

/-- the strengthened reachability is closed under further such operations (the responder's
`add_resource` calls) -/
theorem ReachableOKT.run {s : Store} (h : ReachableOKT s) {ops : List Op}
    (hops : ∀ op ∈ ops, op.OKT) : ReachableOKT (s.run ops) := by
  obtain ⟨ops0, h0, rfl⟩ := h
  refine ⟨ops0 ++ ops, ?_, by simp [Store.run_append]⟩
  intro op ho
  rcases List.mem_append.mp ho with ho | ho
  · exact h0 op ho
  · exact hops op ho

/-- the hypothesis `hT` of `additional_sound`: every answer of a reply built from a store with
`TargetsOK` has a decodable SRV target (answers are registered records) -/
theorem answers_targets_ok {q : Packet} {s : Store} {now : Nat} {r : Packet} {u : Bool}
    (hT : TargetsOK s) (h : buildReply q s now = some (r, u)) :
    ∀ a ∈ r.answers, ∀ t, srvTarget a.rdata = some t → NameOK t := by
  intro a ha
  rw [(buildReply_eq_some h).2.1] at ha
  obtain ⟨qu, _, hdom, _, _⟩ := mem_answersOf.mp ha
  obtain ⟨k, b, hk, hab⟩ := mem_getDomain_auth hdom
  exact hT k b hk a hab

/-- `ReachableOKT` implies the hypothesis `hT` of `additional_sound_of_reachable` -/
theorem ReachableOKT.answers_targets {q : Packet} {s : Store} {now : Nat} {r : Packet} {u : Bool}
    (hR : ReachableOKT s) (h : buildReply q s now = some (r, u)) :
    ∀ a ∈ r.answers, ∀ t, srvTarget a.rdata = some t → NameOK t :=
  answers_targets_ok hR.targets h

/-- **Additional records, with no hypothesis but reachability**: in a store built by operations on
records with decodable owner names and SRV targets, every additional record of a reply is a
registered address record (A or AAAA) whose owner IS the target of an SRV record in the answer
section (`additional_sound_of_reachable` without its `hT`). -/
theorem additional_sound_of_reachable' {q : Packet} {s : Store} {now : Nat} {r : Packet} {u : Bool}
    (hR : ReachableOKT s) (h : buildReply q s now = some (r, u)) :
    ∀ x ∈ r.additional,
      (∃ k b, (k, b) ∈ s.entries ∧ (x, Kind.auth) ∈ b) ∧
      (x.rdata.typeOf = .A ∨ x.rdata.typeOf = .AAAA) ∧
      ∃ srv ∈ r.answers, ∃ t, srvTarget srv.rdata = some t ∧ x.name = t :=
  additional_sound_of_reachable hR.reachableOK (hR.answers_targets h) h

/-- a well-formed RDATA has a well-formed SRV target: labels of 1 to 63 bytes -/
theorem srvTarget_wf_of_wfcore {rd : RData} (h : rd.WFcore) {t : Name}
    (ht : srvTarget rd = some t) : Name.WF t := by
  unfold srvTarget at ht
  split at ht
  · rename_i a b c t'
    cases ht
    have h1 : SchemaOK 33 [a, b, c, .name t] := h.1
    simp only [SchemaOK, schemaOf, AllOK] at h1
    exact h1.2.2.2.1
  · cases ht

/-- … in particular for the records a builder checked with `RR.WF` -/
theorem srvTarget_ok_of_wf {r : RR} (h : r.WF) : TargetOK r.rdata :=
  fun _ ht => NameOK_of_WF (srvTarget_wf_of_wfcore ((RR.WF_iff r).mp h).1.2.2.1 ht)

/-- **Records that came out of the parser qualify**: owner and SRV target of every record of the
three record sections of a parsed message are well-formed names (labels of 1 to 63 bytes, at most
255 bytes on the wire) -/
theorem parsed_record_wf_names {d : Bytes} {p : Packet} (h : Packet.parse d = .ok p) :
    ∀ r ∈ p.answers ++ (p.nameServers ++ p.additional),
      Name.WF r.name ∧ ∀ t, srvTarget r.rdata = some t → Name.WF t := by
  have hc := (Img.packet_ok h).1
  intro r hr
  have hw : r.WFcore := by
    rcases List.mem_append.mp hr with hr | hr
    · exact hc.2.2.2.2.2.2.1 r hr
    · rcases List.mem_append.mp hr with hr | hr
      · exact hc.2.2.2.2.2.2.2.1 r hr
      · exact hc.2.2.2.2.2.2.2.2.1 r hr
  exact ⟨hw.1, fun t ht => srvTarget_wf_of_wfcore hw.2.2.1 ht⟩

/-- … so registering (or caching) any parsed record is an `Op.OKT` operation -/
theorem parsed_record_okt {d : Bytes} {p : Packet} (h : Packet.parse d = .ok p) :
    ∀ r ∈ p.answers ++ (p.nameServers ++ p.additional),
      (Op.addAuth r).OKT ∧ ∀ now, (Op.addCached r now).OKT := by
  intro r hr
  obtain ⟨h1, h2⟩ := parsed_record_wf_names h r hr
  exact ⟨⟨NameOK_of_WF h1, fun t ht => NameOK_of_WF (h2 t ht)⟩, fun _ => ⟨NameOK_of_WF h1, trivial⟩⟩

/-- what the discovery listener caches from a datagram keeps the store in the strengthened class -/
theorem ingestOps_okt {d : Bytes} {p : Packet} (h : Packet.parse d = .ok p) (service full : Name)
    (now : Nat) : ∀ op ∈ ingestOps p service full now, op.OKT := by
  intro op hop
  obtain ⟨r, hr, rfl⟩ := List.mem_map.mp hop
  exact ⟨parsed_names_ok h r (List.mem_filter.mp hr).1, trivial⟩

/-- **the strengthened reachability survives every datagram** the discovery listener handles -/
theorem store_usable_okt {s s' : Store} {service full : Name} {d : Bytes} {now : Nat}
    {r : Option Bytes} (hR : ReachableOKT s) (h : handleDiscovery s service full d now = .ok (s', r)) :
    ReachableOKT s' := by
  rcases handleDiscovery_store h with rfl | ⟨p, hp, _, _, rfl⟩
  · exact hR
  · exact hR.run (ingestOps_okt hp service full now)

/-- `Op.OKT` cannot be weakened to `Op.OK` in `additional_sound_of_reachable'`: with a 256-byte
label in an SRV target (only constructible through `Name::new_unchecked`) the address record of
ANOTHER name (257 empty labels) is attached as additional record. -/
theorem additional_needs_target_ok :
    ∃ (ops : List Op) (q r : Packet) (u : Bool), (∀ op ∈ ops, op.OK) ∧
      buildReply q (Store.empty.run ops) 0 = some (r, u) ∧
      ∃ x ∈ r.additional, ∀ srv ∈ r.answers, ∀ t, srvTarget srv.rdata = some t → x.name ≠ t := by
  let tgt : Name := [List.replicate 256 0]
  let other : Name := List.replicate 257 []
  let srv : RR := { name := [[97]], cls := .IN, ttl := 1, flush := false,
                    rdata := .flat 33 [.int 0, .int 0, .int 80, .name tgt] }
  let adr : RR := { name := other, cls := .IN, ttl := 1, flush := false, rdata := .flat 1 [.int 1] }
  let q : Packet :=
    { header := { id := 0, opcode := .StandardQuery, rcode := .NoError, flags := 0, opt := none },
      questions := [{ name := [[97]], qtype := .ANY, qclass := .CLASS .IN, unicast := false }],
      answers := [], nameServers := [], additional := [] }
  let r : Packet :=
    { header := { id := 0, opcode := .StandardQuery, rcode := .NoError, flags := 0x8000, opt := none },
      questions := [], answers := [srv], nameServers := [], additional := [adr] }
  refine ⟨[.addAuth srv, .addAuth adr], q, r, false, by decide +kernel, by decide +kernel,
    adr, by simp [r], ?_⟩
  intro s hs t ht
  simp only [r, List.mem_singleton] at hs
  subst hs
  have : t = tgt := by
    have : srvTarget srv.rdata = some tgt := rfl
    rw [this] at ht; cases ht; rfl
  subst this
  decide +kernel

/-! ### 2. multiplicity -/

/-- the records of a bucket that pass a filter: no two equal ones -/
theorem pick_pairwise {b : Bucket} (hp : b.Pairwise (fun a c => rrEq a.1 c.1 = false))
    (p : RR × Kind → Bool) :
    ((b.filter p).map (·.1)).Pairwise (fun a c => rrEq a c = false) :=
  List.pairwise_map.mpr (hp.filter p)

theorem pairwise_flatten_filter {L : List (List RR)} {R : RR → RR → Prop}
    (h : L.flatten.Pairwise R) (p : List RR → Bool) : (L.filter p).flatten.Pairwise R := by
  rw [List.pairwise_flatten] at h ⊢
  exact ⟨fun l hl => h.1 l (List.mem_filter.mp hl).1, h.2.filter p⟩

/-- records filed under different keys are different records -/
theorem Inv.rrEq_false_of_keys {s : Store} (hI : Inv s) {e1 e2 : Key × Bucket}
    (h1 : e1 ∈ s.entries) (h2 : e2 ∈ s.entries) (hne : e1.1 ≠ e2.1) {x y : RR × Kind}
    (hx : x ∈ e1.2) (hy : y ∈ e2.2) : rrEq x.1 y.1 = false := by
  cases hq : rrEq x.1 y.1 with
  | false => rfl
  | true =>
    have a := hI.owner e1.1 e1.2 h1 x hx
    have b := hI.owner e2.1 e2.2 h2 y hy
    rw [rrEq_name hq] at a
    exact absurd (a.symm.trans b) hne

/-- **`get_domain_resources` never returns a record twice** (under the store invariant), whatever
the filter: neither within a group nor across groups -/
theorem Inv.getDomain_pairwise {s : Store} (hI : Inv s) (n : Name) (f : Filter) (now : Nat) :
    (s.getDomain n f now).flatten.Pairwise (fun a c => rrEq a c = false) := by
  unfold Store.getDomain
  simp only
  apply pairwise_flatten_filter
  by_cases hsub : f.subdomain = true
  · rw [if_pos hsub]
    split
    · rw [List.pairwise_flatten]
      constructor
      · intro l hl
        obtain ⟨e, he, rfl⟩ := List.mem_map.mp hl
        exact pick_pairwise (hI.nodup e.1 e.2 (List.mem_filter.mp he).1) _
      · rw [List.pairwise_map]
        apply List.Pairwise.filter
        refine hI.keys.imp_of_mem ?_
        intro e1 e2 h1 h2 hne x hx y hy
        obtain ⟨x', hx', rfl⟩ := List.mem_map.mp hx
        obtain ⟨y', hy', rfl⟩ := List.mem_map.mp hy
        exact hI.rrEq_false_of_keys h1 h2 hne (List.mem_filter.mp hx').1 (List.mem_filter.mp hy').1
    · simp
  · rw [if_neg hsub]
    cases hb : s.bucket (getKey n) with
    | none => simp
    | some b =>
      simp only [List.flatten_cons, List.flatten_nil, List.append_nil]
      exact pick_pairwise (hI.nodup _ b (Store.bucket_mem hb)) _

/-- **One question never yields the same record twice**: the answers collected for a single
question are pairwise different under the crate's record equality. -/
theorem answersFor_pairwise {s : Store} (hI : Inv s) (qu : Question) (now : Nat) :
    (answersFor s qu now).1.Pairwise (fun a c => rrEq a c = false) := by
  simp only [answersFor]
  exact (hI.getDomain_pairwise qu.name (Filter.auth true) now).filter _

/-- in particular no record occurs twice as the same value -/
theorem answersFor_nodup {s : Store} (hI : Inv s) (qu : Question) (now : Nat) :
    (answersFor s qu now).1.Nodup :=
  (answersFor_pairwise hI qu now).imp (fun {a c} h hac => by subst hac; simp at h)

/-- **Several questions: the answer section is the concatenation, question by question, of the
per-question answer lists** — nothing merges what two questions both match. -/
theorem reply_answers_eq_flatMap {q : Packet} {s : Store} {now : Nat} {r : Packet} {u : Bool}
    (h : buildReply q s now = some (r, u)) :
    r.answers = q.questions.flatMap (fun qu => (answersFor s qu now).1) := by
  rw [(buildReply_eq_some h).2.1, answersOf, List.flatMap_map]

/-- the number of answers is the sum over the questions: this is what lets a reply be arbitrarily
larger than its query -/
theorem reply_answers_length {q : Packet} {s : Store} {now : Nat} {r : Packet} {u : Bool}
    (h : buildReply q s now = some (r, u)) :
    r.answers.length = (q.questions.map (fun qu => (answersFor s qu now).1.length)).sum := by
  rw [reply_answers_eq_flatMap h, List.length_flatMap]

/-- in a list without `rrEq`-duplicates a record has one copy or none -/
theorem countP_rrEq_of_pairwise {l : List RR} (hp : l.Pairwise (fun a c => rrEq a c = false))
    (a : RR) : l.countP (rrEq a ·) = if l.any (rrEq a ·) then 1 else 0 := by
  induction l with
  | nil => rfl
  | cons x xs ih =>
    rw [List.pairwise_cons] at hp
    rw [List.countP_cons, List.any_cons, ih hp.2]
    cases hx : rrEq a x with
    | false => simp
    | true =>
      have : xs.any (rrEq a ·) = false := by
        rw [List.any_eq_false]
        intro y hy hay
        have := hp.1 y hy
        rw [rrEq_trans (rrEq_symm hx) hay] at this
        cases this
      simp [this]

/-- **Multiplicity, up to record equality**: the number of copies of a record in the answer
section is the number of questions whose answer list contains it. -/
theorem answer_count {q : Packet} {s : Store} {now : Nat} {r : Packet} {u : Bool} (hI : Inv s)
    (h : buildReply q s now = some (r, u)) (a : RR) :
    r.answers.countP (rrEq a ·) =
      q.questions.countP (fun qu => (answersFor s qu now).1.any (rrEq a ·)) := by
  rw [reply_answers_eq_flatMap h]
  generalize q.questions = qs
  induction qs with
  | nil => rfl
  | cons qu qs ih =>
    rw [List.flatMap_cons, List.countP_append, ih, List.countP_cons,
      countP_rrEq_of_pairwise (answersFor_pairwise hI qu now)]
    omega

/-- whether a registered record is an answer to a question, as `build_reply` decides it: the trie
has a node at the question's key, that key is a prefix of the owner's key, class and type match -/
def matchesQuestion (s : Store) (a : RR) (qu : Question) : Bool :=
  s.nodeExists (getKey qu.name) && isPrefixOf (getKey qu.name) (getKey a.name) &&
    a.matchQClass qu.qclass && a.matchQType qu.qtype

/-- a registered record is among the answers for a question exactly when it matches it -/
theorem mem_answersFor_iff_matches {s : Store} (hI : Inv s) {a : RR} (ha : s.hasAuth a)
    (qu : Question) (now : Nat) :
    a ∈ (answersFor s qu now).1 ↔ matchesQuestion s a qu = true := by
  obtain ⟨k, b, hk, hab⟩ := ha
  have hown : getKey a.name = k := hI.owner k b hk _ hab
  rw [mem_answersFor, hI.mem_getDomain]
  simp only [matchesQuestion, Bool.and_eq_true, Filter.auth, if_true]
  constructor
  · rintro ⟨⟨k', b', kind, hk', hab', _, hn, hp⟩, hc, ht⟩
    have : getKey a.name = k' := hI.owner k' b' hk' _ hab'
    exact ⟨⟨⟨hn, by rw [this]; exact hp⟩, hc⟩, ht⟩
  · rintro ⟨⟨⟨hn, hp⟩, hc⟩, ht⟩
    exact ⟨⟨k, b, .auth, hk, hab, rfl, hn, by rw [← hown]; exact hp⟩, hc, ht⟩

/-- in a list without `rrEq`-duplicates, equal records are the same entry -/
theorem eq_of_rrEq_of_pairwise {α : Type} {f : α → RR} {l : List α}
    (hp : l.Pairwise (fun a c => rrEq (f a) (f c) = false)) {x y : α} (hx : x ∈ l) (hy : y ∈ l)
    (h : rrEq (f x) (f y) = true) : x = y := by
  induction l with
  | nil => cases hx
  | cons z zs ih =>
    rw [List.pairwise_cons] at hp
    rcases List.mem_cons.mp hx with ex | mx <;> rcases List.mem_cons.mp hy with ey | my
    · rw [ex, ey]
    · rw [ex, hp.1 y my] at h; cases h
    · rw [ey, rrEq_comm, hp.1 x mx] at h; cases h
    · exact ih hp.2 mx my

/-- the copies of a registered record in an answer list are that record itself: the store holds
one representative of each class of equal records -/
theorem any_rrEq_answersFor {s : Store} (hI : Inv s) {a : RR} (ha : s.hasAuth a)
    (qu : Question) (now : Nat) :
    (answersFor s qu now).1.any (rrEq a ·) = matchesQuestion s a qu := by
  rw [Bool.eq_iff_iff, ← mem_answersFor_iff_matches hI ha qu now, List.any_eq_true]
  constructor
  · rintro ⟨x, hx, hax⟩
    have hx' := mem_answersFor.mp hx
    obtain ⟨k', b', kind, hk', hxb', hm, _⟩ := hI.mem_getDomain.mp hx'.1
    obtain ⟨k, b, hk, hab⟩ := ha
    have h1 : getKey a.name = k := hI.owner k b hk _ hab
    have h2 : getKey x.name = k' := hI.owner k' b' hk' _ hxb'
    have hkk : k = k' := by rw [← h1, ← h2, rrEq_name hax]
    subst hkk
    have hbb : b = b' := by
      have e1 := hI.bucket_of_mem hk
      have e2 := hI.bucket_of_mem hk'
      rw [e1] at e2; cases e2; rfl
    subst hbb
    -- two `rrEq`-equal entries of a bucket without duplicates are the same entry
    have : x = a := by
      have := eq_of_rrEq_of_pairwise (f := Prod.fst) (hI.nodup k b hk) hab hxb' hax
      cases this; rfl
    subst this
    exact hx
  · intro hx
    exact ⟨a, hx, rrEq_refl a⟩

/-- **Multiplicity ("exactly", as a multiset)**: a registered record appears in the answer section
once per question it matches — `k` times when it matches `k` questions, not at all when it matches
none. -/
theorem answer_multiplicity {q : Packet} {s : Store} {now : Nat} {r : Packet} {u : Bool}
    (hI : Inv s) (h : buildReply q s now = some (r, u)) {a : RR} (ha : s.hasAuth a) :
    r.answers.count a = q.questions.countP (matchesQuestion s a) ∧
    r.answers.countP (rrEq a ·) = q.questions.countP (matchesQuestion s a) := by
  have h2 : r.answers.countP (rrEq a ·) = q.questions.countP (matchesQuestion s a) := by
    rw [answer_count hI h a]
    congr 1
    funext qu
    exact any_rrEq_answersFor hI ha qu now
  refine ⟨?_, h2⟩
  rw [← h2, List.count_eq_countP]
  apply List.countP_congr
  intro x hx
  rw [reply_answers_eq_flatMap h, List.mem_flatMap] at hx
  obtain ⟨qu, _, hx⟩ := hx
  simp only [beq_iff_eq]
  constructor
  · intro e; subst e; exact rrEq_refl _
  · intro e
    have hany : (answersFor s qu now).1.any (rrEq a ·) = true := List.any_eq_true.mpr ⟨x, hx, e⟩
    rw [any_rrEq_answersFor hI ha, ← mem_answersFor_iff_matches hI ha qu now] at hany
    -- both `a` and `x` are in the duplicate-free list and are `rrEq`-equal
    exact (eq_of_rrEq_of_pairwise (f := id) (answersFor_pairwise hI qu now) hany hx e).symm

/-- **Amplification**: a query that repeats one question `n` times gets `n` copies of that
question's answers. -/
theorem reply_answers_replicate {q : Packet} {s : Store} {now : Nat} {r : Packet} {u : Bool}
    {qu : Question} {n : Nat} (hq : q.questions = List.replicate n qu)
    (h : buildReply q s now = some (r, u)) :
    r.answers = (List.replicate n (answersFor s qu now).1).flatten ∧
    r.answers.length = n * (answersFor s qu now).1.length := by
  have e := reply_answers_eq_flatMap h
  rw [hq, List.flatMap_replicate] at e
  refine ⟨e, ?_⟩
  rw [e]
  induction n with
  | zero => simp
  | succ n ih => simp [List.replicate_succ, Nat.succ_mul]; omega

/-! ### 3. end to end on datagrams -/

/-- `Header::parse` reads the flag word the peek functions read -/
theorem header_parse_flags {d : Bytes} {h0 : Header} (h : Header.parse d = .ok h0) :
    ∃ w, peekU16 d 2 = .ok w ∧ h0.flags = flagsTruncate w := by
  unfold Header.parse at h
  split at h
  · cases h
  · obtain ⟨fb, hfb, h⟩ := Out.bind_eq_ok h
    dsimp only at h
    split at h
    · cases h
    · obtain ⟨ib, _, h⟩ := Out.bind_eq_ok h
      cases h
      unfold slice at hfb
      split at hfb
      · rename_i hle
        cases hfb
        exact ⟨_, by simp only [peekU16, sliceOpt, if_pos hle], rfl⟩
      · cases hfb

/-- the flag peek the responder performs before parsing agrees with the parsed header -/
theorem peek_hasFlags_of_parse {d : Bytes} {q : Packet} (h : Packet.parse d = .ok q) (f : Nat) :
    Peek.hasFlags d f = .ok (q.header.hasFlags f) := by
  unfold Packet.parse at h
  obtain ⟨h0, hh0, h⟩ := Out.bind_eq_ok h
  obtain ⟨qd, _, h⟩ := Out.bind_eq_ok h
  obtain ⟨⟨qs, p1⟩, _, h⟩ := Out.bind_eq_ok h
  dsimp only at h
  obtain ⟨an, _, h⟩ := Out.bind_eq_ok h
  obtain ⟨⟨as, p2⟩, _, h⟩ := Out.bind_eq_ok h
  dsimp only at h
  obtain ⟨ns, _, h⟩ := Out.bind_eq_ok h
  obtain ⟨⟨nss, p3⟩, _, h⟩ := Out.bind_eq_ok h
  dsimp only at h
  obtain ⟨ar, _, h⟩ := Out.bind_eq_ok h
  obtain ⟨⟨all, p4⟩, _, h⟩ := Out.bind_eq_ok h
  dsimp only at h
  obtain ⟨h1, hh1, h⟩ := Out.bind_eq_ok h
  cases h
  have hfl : h1.flags = h0.flags := by
    unfold Header.extractOpt at hh1
    split at hh1
    · cases hh1; rfl
    · split at hh1
      · cases hh1; rfl
      · cases hh1
  obtain ⟨w, hw, hfw⟩ := header_parse_flags hh0
  simp only [Peek.hasFlags, hw, Header.hasFlags, hfl, hfw]
  rfl

/-- the responder only answers datagrams whose RESPONSE bit is clear -/
theorem handleResponder_some_query {s : Store} {d : Bytes} {now : Nat} {bytes : Bytes}
    (h : handleResponder s d now = .ok (some bytes)) : Peek.hasFlags d 0x8000 = .ok false := by
  unfold handleResponder at h
  split at h
  · cases h
  · cases h
  · cases h
  · assumption

/-- question names that come out of `Packet::parse` have labels of at most 63 bytes -/
theorem parsed_question_names_ok {d : Bytes} {q : Packet} (h : Packet.parse d = .ok q) :
    ∀ qu ∈ q.questions, NameOK qu.name :=
  fun qu hqu => NameOK_of_WF ((Img.packet_ok h).1.2.2.2.2.2.1 qu hqu).1

/-- **C13 on datagrams.** When the responder answers datagram `d` with the datagram `bytes`
(store built by the public operations on decodable names; the reply within DNS limits, as
`reply_parseable` needs): `d` is a query `q`; `bytes` is a DNS message `r`, the very packet
`build_reply` assembled; `r` carries the query's id and the RESPONSE flag, no questions, at least
one answer; and every answer of `r` is a locally registered record that matches some question of
`q` — owner equal to, or label-wise below, the question's name, type and class matching. -/
theorem responder_reply_exact {s : Store} {d : Bytes} {now : Nat} {bytes : Bytes}
    (hR : ReachableOK s) (h : handleResponder s d now = .ok (some bytes))
    (hf : ∀ q, Packet.parse d = .ok q → ReplyFits s q now) :
    ∃ q r u, Packet.parse d = .ok q ∧ q.header.hasFlags 0x8000 = false ∧
      Packet.parse bytes = .ok r ∧ buildReply q s now = some (r, u) ∧
      r.header.id = q.header.id ∧ r.header.hasFlags 0x8000 = true ∧
      r.questions = [] ∧ r.answers ≠ [] ∧
      ∀ a ∈ r.answers, s.hasAuth a ∧
        ∃ qu ∈ q.questions, (a.name = qu.name ∨ a.name.isSubdomainOf qu.name = true) ∧
          a.matchQType qu.qtype = true ∧ a.matchQClass qu.qclass = true := by
  obtain ⟨r, hr, q, u, hq, hb⟩ := reply_parseable h hf
  have hflag := handleResponder_some_query h
  rw [peek_hasFlags_of_parse hq] at hflag
  have hsh := reply_shape hb
  refine ⟨q, r, u, hq, Out.ok.inj hflag, hr, hb, (reply_header hb).1, ?_, hsh.1,
    reply_nonempty hb, ?_⟩
  · simp only [Header.hasFlags, hsh.2.2.1]; decide
  · exact reply_sound_of_reachable hR (parsed_question_names_ok hq) hb

/-- **… and the additional section**, for stores whose registered SRV records have decodable
targets (`ReachableOKT`, e.g. everything a parser or a checked builder produced): every additional
record is a locally registered A or AAAA record owned by the target of an SRV answer, and no record
is attached twice. -/
theorem responder_reply_exact' {s : Store} {d : Bytes} {now : Nat} {bytes : Bytes}
    (hR : ReachableOKT s) (h : handleResponder s d now = .ok (some bytes))
    (hf : ∀ q, Packet.parse d = .ok q → ReplyFits s q now) :
    ∃ q r u, Packet.parse d = .ok q ∧ q.header.hasFlags 0x8000 = false ∧
      Packet.parse bytes = .ok r ∧ buildReply q s now = some (r, u) ∧
      r.header.id = q.header.id ∧ r.header.hasFlags 0x8000 = true ∧
      r.questions = [] ∧ r.nameServers = [] ∧ r.answers ≠ [] ∧
      (∀ a ∈ r.answers, s.hasAuth a ∧
        ∃ qu ∈ q.questions, (a.name = qu.name ∨ a.name.isSubdomainOf qu.name = true) ∧
          a.matchQType qu.qtype = true ∧ a.matchQClass qu.qclass = true) ∧
      (∀ x ∈ r.additional, s.hasAuth x ∧ (x.rdata.typeOf = .A ∨ x.rdata.typeOf = .AAAA) ∧
        ∃ srv ∈ r.answers, ∃ t, srvTarget srv.rdata = some t ∧ x.name = t) ∧
      r.additional.Pairwise (fun a b => rrEq b a = false) ∧
      (∀ a, s.hasAuth a → r.answers.count a = q.questions.countP (matchesQuestion s a)) := by
  obtain ⟨q, r, u, hq, hfl, hr, hb, hid, hresp, hqs, hne, hans⟩ :=
    responder_reply_exact hR.reachableOK h hf
  exact ⟨q, r, u, hq, hfl, hr, hb, hid, hresp, hqs, (reply_shape hb).2.1, hne, hans,
    additional_sound_of_reachable' hR hb, additional_nodup hb,
    fun a ha => (answer_multiplicity hR.inv hb ha).1⟩

namespace C13MoreEx
open C13Ex

/-- the hypotheses of `additional_sound_of_reachable'` hold of the example store of C13 -/
example : ReachableOKT st := ⟨ops, by decide, rfl⟩
example : (Op.addAuth srvB).OKT := by decide

/-- the question `a.local ANY IN` -/
def qA : Question := { name := nA, qtype := .ANY, qclass := .CLASS .IN, unicast := false }

/-- a query asking the same question `n` times -/
def queryN (n : Nat) : Packet := { query nA .ANY false with questions := List.replicate n qA }

/-- **Two identical questions**: both answers twice, in question order; the additional record
(deduplicated by `build_reply`) once. -/
example : buildReply (queryN 2) st 5 = some (reply [recA, srvB, recA, srvB] [recA], false) := by
  decide

/-- `answer_multiplicity` on it: `a.local A` matches both questions and is there twice; `x.local A`
is registered, matches none and is absent -/
example : st.hasAuth recA ∧ (queryN 2).questions.countP (matchesQuestion st recA) = 2 ∧
    st.hasAuth recX ∧ (queryN 2).questions.countP (matchesQuestion st recX) = 0 := by
  refine ⟨⟨getKey recA.name, [(recA, Kind.auth)], by decide, by decide⟩, by decide,
    ⟨getKey recX.name, [(recX, Kind.auth)], by decide, by decide⟩, by decide⟩

/-- `reply_answers_replicate`: a query of 300 questions (about 5 KB) for this name asks for 600
records -/
example {r : Packet} {u : Bool} (h : buildReply (queryN 300) st 5 = some (r, u)) :
    r.answers.length = 600 := by
  have := (reply_answers_replicate (qu := qA) (n := 300) rfl h).2
  rw [this]
  have : (answersFor st qA 5).1.length = 2 := by decide
  rw [this]

/-- one question: no record twice (`answersFor_pairwise` through its hypothesis) -/
example : (answersFor st qA 5).1.Pairwise (fun a c => rrEq a c = false) :=
  answersFor_pairwise (Reachable.inv ⟨ops, rfl⟩) qA 5

/-- the hypotheses of `responder_reply_exact'` are met by the responder run of C14: the reply
bytes computed there parse to a reply with the stated properties -/
example : ∃ q r u, Packet.parse C14Ex.qbytes = .ok q ∧ q.header.hasFlags 0x8000 = false ∧
    Packet.parse C14Ex.rbytes = .ok r ∧ buildReply q C14Ex.st 5 = some (r, u) ∧
    r.header.id = q.header.id := by
  have hR : ReachableOKT C14Ex.st := ⟨[.addAuth C14Ex.recA, .addAuth C14Ex.srvB], by decide, rfl⟩
  have hwf : AuthWF C14Ex.st := by
    intro k b hk r hr
    have : ∀ e ∈ C14Ex.st.entries, ∀ x ∈ e.2, x.1.WF := by decide
    exact this (k, b) hk (r, .auth) hr
  obtain ⟨q, r, u, h1, h2, h3, h4, h5, _⟩ :=
    responder_reply_exact' hR C14Ex.responder_reply (fun q hq => by
      rw [C14Ex.qbytes_parse] at hq
      cases hq
      exact replyFits_of_size hwf (by decide) (by decide))
  exact ⟨q, r, u, h1, h2, h3, h4, h5⟩

end C13MoreEx

end Dns.Mdns
