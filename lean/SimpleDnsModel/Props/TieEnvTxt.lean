/-
Structural tie, part 2d: the text and attribute API of TXT records (`rdata/txt.rs`). Same scheme as
`Props/TieEnv.lean`: the model's functions are the generic functions at the values `tools/translate_env.py`
reads from the source on every run; a module of its own so that a change of this code is attributed to the
properties about TXT text and attributes.
-/
import SimpleDnsModel.Generated.Envelope
import SimpleDnsModel.Model.Txt
namespace Dns.TieEnv
open Dns

/-- how an entry goes into the map: `entry(k).or_insert(v)` keeps the first value of a key, `insert(k, v)`
the last -/
def putWith (mode : String) (m : Attrs) (k : String) (v : Option String) : Attrs :=
  if mode = "or_insert" then m.insertIfAbsent k v
  else if m.has k then m.map (fun e => if e.1 == k then (k, v) else e) else m ++ [(k, v)]

/-- one character-string of `TXT::attributes` split at the given octet -/
def attrOfCharStrWith (sep : UInt8) (cs : Bytes) : Option (String × Option String) :=
  let keyB := cs.takeWhile (· != sep)
  let rest := cs.dropWhile (· != sep)
  match stringOfBytes? keyB with
  | none => none
  | some key =>
    match rest with
    | [] => some (key, none)
    | _ :: valB =>
      if valB.isEmpty then some (key, some "")
      else match stringOfBytes? valB with
        | some v => some (key, some v)
        | none => some (key, some "")

def attributesWith (sep : UInt8) (mode : String) (ss : List Bytes) : Attrs :=
  ss.foldl (fun m cs => match attrOfCharStrWith sep cs with
    | some (k, v) => putWith mode m k v
    | none => m) []

def attrOfPartWith (kv : Char) (part : List Char) : String × Option String :=
  let key := part.takeWhile (· != kv)
  match part.dropWhile (· != kv) with
  | [] => (String.ofList key, none)
  | _ :: v => (String.ofList key, some (String.ofList v))

def longAttributesWith (sep kv : Char) (mode : String) (ss : List Bytes) : Out Attrs :=
  match Txt.toStr ss with
  | .ok full => .ok ((splitChars sep full.toList).foldl (fun m part =>
      let e := attrOfPartWith kv part
      if e.1.isEmpty then m else putWith mode m e.1 e.2) [])
  | .err => .err
  | .panic => .panic

def attrEntryBytesWith (sep : UInt8) (e : String × Option String) : Bytes :=
  match e.2 with
  | some v => bytesOfString e.1 ++ (sep :: bytesOfString v)
  | none => bytesOfString e.1

/-- **the text API of TXT records is the model's**: `attributes` splits each character-string at the
first `=` and the first occurrence of a key wins; `long_attributes` splits the whole text at `;` and
each part at its first `=`, skips parts with an empty key, first occurrence wins; `TryFrom<HashMap>`
joins key and value with `=` and writes a key without a value alone; `TryFrom<&str>` cuts the text
into chunks of `MAX_CHARACTER_STRING_LENGTH - 1` octets (`insert` for `or_insert`, `:` for `=`, chunks
of 255: each regenerates another value and this fails; a body of another shape - a swallowed error,
an extra string for an empty map - unties the item) -/
theorem txt_api_source (ss : List Bytes) (entries : Attrs) (s : String) :
    Txt.attributes ss = attributesWith (UInt8.ofNat (Gen.Env.txtAttrSep.getD 61)) (Gen.Env.txtAttrInsert.getD "or_insert") ss ∧
    Txt.longAttributes ss = longAttributesWith (Char.ofNat ((Gen.Env.txtLongSeps.getD (59, 61)).1))
      (Char.ofNat ((Gen.Env.txtLongSeps.getD (59, 61)).2)) (Gen.Env.txtLongInsert.getD "or_insert") ss ∧
    Txt.ofMap entries = charStrsNew (entries.map (attrEntryBytesWith (UInt8.ofNat (Gen.Env.txtMapSep.getD 61)))) ∧
    Txt.ofStr s = charStrsNew (chunks (255 - Gen.Env.txtChunkMinus.getD 1) (bytesOfString s)) := by
  have h1 : UInt8.ofNat (Gen.Env.txtAttrSep.getD 61) = 61 := by decide
  have h2 : Gen.Env.txtAttrInsert.getD "or_insert" = "or_insert" := by decide
  have h3 : Char.ofNat ((Gen.Env.txtLongSeps.getD (59, 61)).1) = ';' := by decide
  have h4 : Char.ofNat ((Gen.Env.txtLongSeps.getD (59, 61)).2) = '=' := by decide
  have h5 : Gen.Env.txtLongInsert.getD "or_insert" = "or_insert" := by decide
  have h6 : UInt8.ofNat (Gen.Env.txtMapSep.getD 61) = 61 := by decide
  have h7 : 255 - Gen.Env.txtChunkMinus.getD 1 = 254 := by decide
  rw [h1, h2, h3, h4, h5, h6, h7]
  have hput : ∀ (m : Attrs) (k : String) (v : Option String), putWith "or_insert" m k v = m.insertIfAbsent k v := by
    intro m k v; simp [putWith]
  have ha : ∀ cs, attrOfCharStrWith 61 cs = attrOfCharStr cs := fun _ => rfl
  have hp : ∀ part, attrOfPartWith '=' part = attrOfPart part := fun _ => rfl
  have he : attrEntryBytesWith 61 = attrEntryBytes := by funext e; rfl
  refine ⟨?_, ?_, ?_, rfl⟩
  · simp only [Txt.attributes, attributesWith, ha, hput]
    congr 1
    first
      | done
      | (funext m cs; cases attrOfCharStr cs <;> rfl)
  · simp only [Txt.longAttributes, longAttributesWith, hp, hput]
    cases Txt.toStr ss <;> rfl
  · rw [he]; rfl

end Dns.TieEnv
