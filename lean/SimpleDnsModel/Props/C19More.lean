import SimpleDnsModel.Props.C19
import SimpleDnsModel.Lemmas.RoundTripC
import SimpleDnsModel.Lemmas.ParseImage
import SimpleDnsModel.Model.Observers
namespace Dns

/-! ## 1. the wire trip of the TXT text and attribute conversions -/

/-- the character-strings a receiver sees for a TXT value holding `ss`: `TXT::write_to` writes a
value without strings as the single byte `00`, which is one empty character-string -/
def txtWireStrings (ss : List Bytes) : List Bytes := if ss.isEmpty then [[]] else ss

theorem txtWireStrings_of_ne_nil {ss : List Bytes} (h : ss ≠ []) : txtWireStrings ss = ss := by
  cases ss <;> simp_all [txtWireStrings]

theorem txtWireStrings_nil : txtWireStrings [] = [[]] := rfl

theorem txtWireStrings_ne_nil (ss : List Bytes) : txtWireStrings ss ≠ [] := by
  cases ss <;> simp [txtWireStrings]

theorem txtWireStrings_flatten (ss : List Bytes) : (txtWireStrings ss).flatten = ss.flatten := by
  cases ss <;> simp [txtWireStrings]

theorem txtWireStrings_fit {ss : List Bytes} (h : ∀ s ∈ ss, s.length ≤ 255) :
    ∀ s ∈ txtWireStrings ss, s.length ≤ 255 := by
  cases ss with
  | nil => simp [txtWireStrings]
  | cons a l => simpa [txtWireStrings] using h

/-- `TXT::write_to` never fails and emits the character-strings of `txtWireStrings`: the strings
themselves, or the byte `00` when there are none -/
theorem txt_write_eq (ss : List Bytes) :
    RData.write (.flat 16 [.strs ss]) = .ok (encStrs (txtWireStrings ss)) := by
  cases ss <;> simp [RData.write, schemaOf, flatCheck, encAll, encField, txtWireStrings, encStrs,
    CharStr.write]

/-- a TXT value without strings is written as the single byte `00` -/
theorem txt_write_nil : RData.write (.flat 16 [.strs []]) = .ok [0] := by decide

theorem encStrs_wire_pos (ss : List Bytes) : 0 < (encStrs (txtWireStrings ss)).length := by
  cases ss <;> simp [txtWireStrings, encStrs, CharStr.write]

/-- `TXT::parse` on written character-strings (each within 255 bytes) that end the buffer returns
exactly these strings and stops at the end -/
theorem txt_parseTyped_encStrs (pre : Bytes) (ss : List Bytes) (hs : ∀ s ∈ ss, s.length ≤ 255) :
    parseTyped (pre ++ encStrs ss) pre.length .TXT
      = .ok (.flat 16 [.strs ss], pre.length + (encStrs ss).length) := by
  have h := parseTyped_flat (pre ++ encStrs ss) pre.length 16 [.strs] rfl
  have e : TYPE.ofCode 16 = .TXT := by decide
  rw [e] at h
  rw [h]
  simp [decAll, decField, strsLoop_frame ss pre [] hs, flatCheck]

/-- write then parse: the bytes `TXT::write_to` emits for any strings within 255 bytes, placed
after any prefix, parse back (never an error, never a panic) to the strings of
`txtWireStrings`, consuming exactly the bytes written -/
theorem txt_write_parse (pre : Bytes) (ss : List Bytes) (hs : ∀ s ∈ ss, s.length ≤ 255) :
    ∃ b, RData.write (.flat 16 [.strs ss]) = .ok b ∧
      parseTyped (pre ++ b) pre.length .TXT
        = .ok (.flat 16 [.strs (txtWireStrings ss)], pre.length + b.length) :=
  ⟨_, txt_write_eq ss, txt_parseTyped_encStrs pre _ (txtWireStrings_fit hs)⟩

example : ∀ s ∈ ([[97], [], [98, 99]] : List Bytes), s.length ≤ 255 := by decide

/-- the same inside a resource record: `RData::parse` at the TYPE field of a TXT record (TYPE 16,
six bytes of class and TTL, RDLENGTH, the written RDATA, then anything) returns the strings of
`txtWireStrings` and stops right after the RDATA -/
theorem txt_rdata_parse_frame (pre mid post : Bytes) (ss : List Bytes) (hmid : mid.length = 6)
    (hs : ∀ s ∈ ss, s.length ≤ 255) (hlen : (encStrs (txtWireStrings ss)).length < 65536) :
    RData.parse (pre ++ (beN 2 16 ++ (mid ++ (beN 2 (encStrs (txtWireStrings ss)).length ++
        (encStrs (txtWireStrings ss) ++ post))))) pre.length
      = .ok (.flat 16 [.strs (txtWireStrings ss)],
          pre.length + 10 + (encStrs (txtWireStrings ss)).length) := by
  rw [RData.parse_frame pre 16 mid _ post (by decide) hmid hlen]
  have e : TYPE.ofCode 16 = .TXT := by decide
  rw [e, if_neg (by decide), if_neg (by have := encStrs_wire_pos ss; omega)]
  have e2 : pre ++ (beN 2 16 ++ (mid ++ (beN 2 (encStrs (txtWireStrings ss)).length ++
      encStrs (txtWireStrings ss))))
      = (pre ++ (beN 2 16 ++ (mid ++ beN 2 (encStrs (txtWireStrings ss)).length))) ++
        encStrs (txtWireStrings ss) := by simp
  have e3 : pre.length + 10
      = (pre ++ (beN 2 16 ++ (mid ++ beN 2 (encStrs (txtWireStrings ss)).length))).length := by
    simp [hmid]
  rw [e2, e3, txt_parseTyped_encStrs _ _ (txtWireStrings_fit hs)]
  simp

example : ([1, 2, 3, 4, 5, 6] : Bytes).length = 6 ∧
    (encStrs (txtWireStrings [[97], [98, 99]])).length < 65536 := by decide

/-- joining the strings is blind to the difference between "no strings" and "one empty string" -/
theorem txt_toStr_wire (ss : List Bytes) : Txt.toStr (txtWireStrings ss) = Txt.toStr ss := by
  unfold Txt.toStr; rw [txtWireStrings_flatten]

/-- `TXT::try_from(s)`, `write_to`, `TXT::parse`, `String::try_from` returns `s`, for EVERY string
`s`, after any prefix: nothing is truncated (every piece fits its length octet) and the empty
string, although it comes back as one empty character-string instead of none, still joins to `""`-/
theorem txt_str_wire_roundtrip (s : String) (pre : Bytes) :
    ∃ ss b ss', Txt.ofStr s = .ok ss ∧ RData.write (.flat 16 [.strs ss]) = .ok b ∧
      parseTyped (pre ++ b) pre.length .TXT = .ok (.flat 16 [.strs ss'], pre.length + b.length) ∧
      ss' = txtWireStrings ss ∧ Txt.toStr ss' = .ok s := by
  have hfit : ∀ c ∈ chunks 254 (bytesOfString s), c.length ≤ 255 :=
    fun c hc => by have := chunks_length _ c hc; omega
  obtain ⟨b, hb, hp⟩ := txt_write_parse pre _ hfit
  refine ⟨_, b, _, txt_ofStr_eq s, hb, hp, rfl, ?_⟩
  rw [txt_toStr_wire]
  have := txt_split_join s
  rwa [txt_ofStr_eq, Out.bind_ok] at this

/-- the empty string, spelled out: no strings, the byte `00`, one empty string, `""` again -/
theorem txt_empty_str_wire (pre : Bytes) :
    Txt.ofStr "" = .ok [] ∧ RData.write (.flat 16 [.strs []]) = .ok [0] ∧
    parseTyped (pre ++ [0]) pre.length .TXT = .ok (.flat 16 [.strs [[]]], pre.length + 1) ∧
    Txt.toStr [[]] = .ok "" := by
  refine ⟨?_, txt_write_nil, ?_, by decide⟩
  · rw [txt_ofStr_eq, bytesOfString_empty, chunks_nil]
  · exact txt_parseTyped_encStrs pre [[]] (by simp)

/-- the text round trip through a whole record, for every string whose TXT RDATA fits the 16-bit
RDLENGTH -/
theorem txt_str_record_roundtrip (s : String) (pre mid post : Bytes) (hmid : mid.length = 6)
    (hlen : (encStrs (txtWireStrings (chunks 254 (bytesOfString s)))).length < 65536) :
    ∃ ss b ss', Txt.ofStr s = .ok ss ∧ RData.write (.flat 16 [.strs ss]) = .ok b ∧
      RData.parse (pre ++ (beN 2 16 ++ (mid ++ (beN 2 b.length ++ (b ++ post))))) pre.length
        = .ok (.flat 16 [.strs ss'], pre.length + 10 + b.length) ∧
      Txt.toStr ss' = .ok s := by
  have hfit : ∀ c ∈ chunks 254 (bytesOfString s), c.length ≤ 255 :=
    fun c hc => by have := chunks_length _ c hc; omega
  refine ⟨_, _, _, txt_ofStr_eq s, txt_write_eq _,
    txt_rdata_parse_frame pre mid post _ hmid hfit hlen, ?_⟩
  rw [txt_toStr_wire]
  have := txt_split_join s
  rwa [txt_ofStr_eq, Out.bind_ok] at this

/-! ### attribute maps over the wire -/

/-- map → TXT → bytes → TXT → attributes returns the map, for every admissible NON-EMPTY map -/
theorem attrs_wire_roundtrip (m : Attrs) (hm : MapOK m) (hne : m ≠ []) (pre : Bytes) :
    ∃ ss b ss', Txt.ofMap m = .ok ss ∧ RData.write (.flat 16 [.strs ss]) = .ok b ∧
      parseTyped (pre ++ b) pre.length .TXT = .ok (.flat 16 [.strs ss'], pre.length + b.length) ∧
      Txt.attributes ss' = m := by
  obtain ⟨ss, h1, h2⟩ := attrs_roundtrip m hm
  obtain ⟨e, hfit⟩ := (ofMap_ok_iff m ss).mp h1
  have hfit' : ∀ s ∈ ss, s.length ≤ 255 := by
    subst e; intro s hs
    obtain ⟨x, hx, rfl⟩ := List.mem_map.mp hs
    exact hfit x hx
  have hss : ss ≠ [] := by subst e; simpa using hne
  obtain ⟨b, hb, hp⟩ := txt_write_parse pre ss hfit'
  rw [txtWireStrings_of_ne_nil hss] at hp
  exact ⟨ss, b, ss, h1, hb, hp, h2⟩

example : MapOK sampleMap ∧ sampleMap ≠ [] := ⟨sampleMap_ok, by decide⟩

/-- the statement is FALSE for the empty map: it is admissible, converts to a TXT value without
strings, is written as the byte `00`, parses back as one empty character-string, and
`attributes()` of that has the key `""` (with an absent value): `{}` comes back as `{"": None}` -/
theorem attrs_wire_roundtrip_empty_fails (pre : Bytes) :
    MapOK [] ∧ Txt.ofMap [] = .ok [] ∧ RData.write (.flat 16 [.strs []]) = .ok [0] ∧
    parseTyped (pre ++ [0]) pre.length .TXT = .ok (.flat 16 [.strs [[]]], pre.length + 1) ∧
    Txt.attributes [[]] = [("", none)] ∧ Txt.attributes [[]] ≠ [] := by
  refine ⟨⟨by simp [Attrs.keys], by simp, by simp⟩, rfl, txt_write_nil,
    txt_parseTyped_encStrs pre [[]] (by simp), by decide, by decide⟩

/-- the wire trip of attribute maps is therefore not injective: the empty map and the map
`{"": None}` (admissible too) produce the same bytes -/
theorem attrs_wire_collision :
    MapOK [("", none)] ∧
    (Txt.ofMap [] >>= fun ss => RData.write (.flat 16 [.strs ss])) = .ok [0] ∧
    (Txt.ofMap [("", none)] >>= fun ss => RData.write (.flat 16 [.strs ss])) = .ok [0] := by
  refine ⟨⟨by decide, by decide, ?_⟩, by decide, ?_⟩
  · simp [attrEntryBytes, bytesOfString_empty]
  · have : Txt.ofMap [("", none)] = .ok [[]] := by
      simp [Txt.ofMap, attrEntryBytes, bytesOfString_empty, charStrsNew, CharStr.new]
    rw [this]; decide

/-- corrected statement, all admissible maps: what comes back is the map itself, or `{"": None}`
for the empty map -/
theorem attrs_wire_roundtrip_all (m : Attrs) (hm : MapOK m) (pre : Bytes) :
    ∃ ss b ss', Txt.ofMap m = .ok ss ∧ RData.write (.flat 16 [.strs ss]) = .ok b ∧
      parseTyped (pre ++ b) pre.length .TXT = .ok (.flat 16 [.strs ss'], pre.length + b.length) ∧
      Txt.attributes ss' = (if m.isEmpty then [("", none)] else m) := by
  cases m with
  | nil =>
    obtain ⟨_, h2, h3, h4, h5, _⟩ := attrs_wire_roundtrip_empty_fails pre
    exact ⟨[], [0], [[]], h2, h3, h4, h5⟩
  | cons e m => exact attrs_wire_roundtrip (e :: m) hm (by simp) pre

/-- the attribute round trip through a whole record, when the RDATA fits the 16-bit RDLENGTH -/
theorem attrs_record_roundtrip (m : Attrs) (hm : MapOK m) (hne : m ≠ []) (pre mid post : Bytes)
    (hmid : mid.length = 6) (hlen : (encStrs (m.map attrEntryBytes)).length < 65536) :
    ∃ ss b ss', Txt.ofMap m = .ok ss ∧ RData.write (.flat 16 [.strs ss]) = .ok b ∧
      RData.parse (pre ++ (beN 2 16 ++ (mid ++ (beN 2 b.length ++ (b ++ post))))) pre.length
        = .ok (.flat 16 [.strs ss'], pre.length + 10 + b.length) ∧
      Txt.attributes ss' = m := by
  obtain ⟨ss, h1, h2⟩ := attrs_roundtrip m hm
  obtain ⟨e, hfit⟩ := (ofMap_ok_iff m ss).mp h1
  subst e
  have hfit' : ∀ s ∈ m.map attrEntryBytes, s.length ≤ 255 := by
    intro s hs
    obtain ⟨x, hx, rfl⟩ := List.mem_map.mp hs
    exact hfit x hx
  have hss : m.map attrEntryBytes ≠ [] := by simpa using hne
  have hw := txtWireStrings_of_ne_nil hss
  have hp := txt_rdata_parse_frame pre mid post _ hmid hfit' (by rw [hw]; exact hlen)
  have hb := txt_write_eq (m.map attrEntryBytes)
  rw [hw] at hp hb
  exact ⟨_, _, _, h1, hb, hp, h2⟩

/-! ### refused, not truncated -/

/-- the length octet `CharacterString::write_to` emits (`self.data.len() as u8`) is the true
length exactly for data within 255 bytes: the writer itself would truncate, which is why the
constructors must refuse … -/
theorem charStr_length_octet_iff (s : Bytes) :
    (CharStr.write s).head?.map UInt8.toNat = some s.length ↔ s.length ≤ 255 := by
  simp only [CharStr.write, List.head?_cons, Option.map_some, Option.some.injEq,
    UInt8.toNat_ofNat']
  omega

/-- … and they do: whatever `CharacterString::new` accepts is written with its true length in
front, followed by all of its bytes -/
theorem charStr_new_written_exact (b c : Bytes) (h : CharStr.new b = .ok c) :
    CharStr.write c = UInt8.ofNat b.length :: b ∧ (UInt8.ofNat b.length).toNat = b.length := by
  obtain ⟨rfl, hl⟩ := CharStr.new_eq_ok h
  refine ⟨rfl, ?_⟩
  rw [UInt8.toNat_ofNat']; omega

example : CharStr.new [104, 105] = .ok [104, 105] := by decide

-- a 256-byte string would be written with length octet 0
example : (CharStr.write (List.replicate 256 7)).head? = some 0 := by
  show some (UInt8.ofNat (List.replicate 256 (7 : UInt8)).length) = some 0
  rw [List.length_replicate]; rfl

/-! ## 2. `CharacterString::try_from(&str)` and `String::try_from(CharacterString)` -/

/-- `String::try_from(CharacterString::try_from(s)?) == Ok(s)` whenever the first conversion
succeeds (that is, when `s` has at most 255 UTF-8 bytes) -/
theorem charStr_str_roundtrip (s : String) (b : Bytes) (h : CharStr.new (bytesOfString s) = .ok b) :
    CharStr.toString b = .ok s := by
  obtain ⟨rfl, _⟩ := CharStr.new_eq_ok h
  simp [CharStr.toString, stringOfBytes?_bytesOfString]

example : CharStr.new (bytesOfString "héĽ") = .ok [104, 195, 169, 196, 189] := by
  rw [bytesOfString_eq_flatMap]; decide

/-- as one statement: the composition is `Ok(s)` within 255 bytes and an error beyond -/
theorem charStr_str_roundtrip_total (s : String) :
    (CharStr.new (bytesOfString s) >>= CharStr.toString) =
      (if (bytesOfString s).length ≤ 255 then .ok s else .err) := by
  by_cases hl : (bytesOfString s).length ≤ 255
  · rw [(CharStr.new_ok_iff _).mpr hl, if_pos hl, Out.bind_ok]
    simp [CharStr.toString, stringOfBytes?_bytesOfString]
  · rw [(CharStr.new_err_iff _).mpr (by omega), if_neg hl, Out.bind_err]

/-- `String::try_from(CharacterString)` succeeds with `s` exactly when the data is the UTF-8
encoding of `s` -/
theorem charStr_toString_ok_iff (b : Bytes) (s : String) :
    CharStr.toString b = .ok s ↔ b = bytesOfString s := by
  rw [← stringOfBytes?_eq_some_iff]
  unfold CharStr.toString
  cases stringOfBytes? b <;> simp

/-- … and fails (`InvalidUtf8String`) exactly when `String::from_utf8` rejects the data -/
theorem charStr_toString_err_iff (b : Bytes) :
    CharStr.toString b = .err ↔ stringOfBytes? b = none := by
  unfold CharStr.toString
  cases stringOfBytes? b <;> simp

/-- equivalently: exactly when the data is the UTF-8 encoding of no string -/
theorem charStr_toString_err_iff_not_utf8 (b : Bytes) :
    CharStr.toString b = .err ↔ ∀ s : String, b ≠ bytesOfString s := by
  rw [charStr_toString_err_iff]
  constructor
  · intro h s hs
    rw [stringOfBytes?_eq_some_iff.mpr hs] at h; cases h
  · intro h
    cases hb : stringOfBytes? b with
    | none => rfl
    | some s => exact absurd (stringOfBytes?_eq_some hb) (h s)

theorem charStr_toString_ne_panic (b : Bytes) : CharStr.toString b ≠ .panic := by
  unfold CharStr.toString
  cases stringOfBytes? b <;> simp

-- a lone continuation byte is refused; the error case is inhabited
example : CharStr.toString [97, 187] = .err := by decide

/-! ## 3. the builder API of `TXT` and its cached `size` -/

/-- `struct TXT { strings: Vec<CharacterString>, size: usize }` -/
structure TxtB where
  strings : List Bytes
  size : Nat
deriving DecidableEq, Repr

namespace TxtB

/-- `TXT::new` -/
def new : TxtB := { strings := [], size := 0 }

/-- `TXT::add_char_string`: `self.size += char_string.len(); self.strings.push(char_string)` with
`CharacterString::len = data.len() + 1` -/
def addCharString (t : TxtB) (cs : Bytes) : TxtB :=
  { strings := t.strings ++ [cs], size := t.size + (cs.length + 1) }

/-- `TXT::add_string`: `self.add_char_string(char_string.try_into()?)`.  On `Err` the `?` returns
before `add_char_string` runs, so the receiver is left as it was. -/
def addString (t : TxtB) (s : String) : Out TxtB := do
  let cs ← CharStr.new (bytesOfString s)
  pure (t.addCharString cs)

/-- `TXT::with_string` (the consuming form of `add_string`) -/
def withString (t : TxtB) (s : String) : Out TxtB := do
  let cs ← CharStr.new (bytesOfString s)
  pure (t.addCharString cs)

/-- `TXT::with_char_string` -/
def withCharString (t : TxtB) (cs : Bytes) : TxtB := t.addCharString cs

/-- `WireFormat::len` of `TXT` -/
def len (t : TxtB) : Nat := if t.strings.isEmpty then 1 else t.size

/-- the RDATA value the rest of the model works with -/
def toRData (t : TxtB) : RData := .flat 16 [.strs t.strings]

/-- the cached size is the sum of the `len()` of the strings -/
def Inv (t : TxtB) : Prop := t.size = (t.strings.map (·.length + 1)).sum

/-- the type invariant of the elements: every `CharacterString` holds at most 255 bytes -/
def Fit (t : TxtB) : Prop := ∀ s ∈ t.strings, s.length ≤ 255

/-- one call of the builder API -/
inductive Op where
  | addCharString (cs : Bytes)
  | addString (s : String)
  | withString (s : String)
  | withCharString (cs : Bytes)
deriving DecidableEq, Repr

def apply (t : TxtB) : Op → Out TxtB
  | .addCharString cs => .ok (t.addCharString cs)
  | .addString s => t.addString s
  | .withString s => t.withString s
  | .withCharString cs => .ok (t.withCharString cs)

/-- a sequence of calls in which every `Result` is propagated with `?` -/
def run (t : TxtB) : List Op → Out TxtB
  | [] => .ok t
  | op :: ops => do
    let t' ← t.apply op
    run t' ops

/-- a sequence of calls in which a failed call is ignored (possible for `add_string`, which
borrows the receiver and leaves it unchanged on failure) -/
def runTolerant (t : TxtB) : List Op → TxtB
  | [] => t
  | op :: ops =>
    match t.apply op with
    | .ok t' => runTolerant t' ops
    | _ => runTolerant t ops

/-- a `CharacterString` argument obeys its type invariant -/
def Op.ArgFit : Op → Prop
  | .addCharString cs => cs.length ≤ 255
  | .withCharString cs => cs.length ≤ 255
  | _ => True

/-! ### the operations -/

theorem withString_eq_addString (t : TxtB) (s : String) : t.withString s = t.addString s := rfl

theorem withCharString_eq_addCharString (t : TxtB) (cs : Bytes) :
    t.withCharString cs = t.addCharString cs := rfl

/-- `add_string` refuses exactly the strings of more than 255 UTF-8 bytes … -/
theorem addString_err_iff (t : TxtB) (s : String) :
    t.addString s = .err ↔ 255 < (bytesOfString s).length := by
  unfold addString CharStr.new
  split <;> simp_all

/-- … and otherwise appends the whole string, untruncated, and adds its length plus one to the
cached size -/
theorem addString_ok_iff (t t' : TxtB) (s : String) :
    t.addString s = .ok t' ↔ (bytesOfString s).length ≤ 255 ∧
      t' = { strings := t.strings ++ [bytesOfString s],
             size := t.size + ((bytesOfString s).length + 1) } := by
  unfold addString CharStr.new addCharString
  split
  · simp; omega
  · simp only [Out.bind_ok, Out.pure_eq, Out.ok.injEq]
    constructor
    · rintro rfl; exact ⟨by omega, rfl⟩
    · rintro ⟨_, rfl⟩; rfl

theorem addString_ok (t : TxtB) (s : String) (h : (bytesOfString s).length ≤ 255) :
    t.addString s = .ok (t.addCharString (bytesOfString s)) :=
  (addString_ok_iff t _ s).mpr ⟨h, rfl⟩

theorem addString_ne_panic (t : TxtB) (s : String) : t.addString s ≠ .panic := by
  unfold addString CharStr.new
  split <;> simp

/-- the two outcomes, as one case distinction -/
theorem addString_cases (t : TxtB) (s : String) :
    ((bytesOfString s).length ≤ 255 ∧ t.addString s = .ok (t.addCharString (bytesOfString s))) ∨
    (255 < (bytesOfString s).length ∧ t.addString s = .err) := by
  by_cases h : (bytesOfString s).length ≤ 255
  · exact .inl ⟨h, addString_ok t s h⟩
  · exact .inr ⟨by omega, (addString_err_iff t s).mpr (by omega)⟩

example : (bytesOfString "version=0.1").length ≤ 255 := by
  rw [bytesOfString_eq_flatMap]; decide

-- 256 one-byte characters are refused
example : 255 < (bytesOfString (String.ofList (List.replicate 256 'k'))).length := by
  have h := length_le_length_bytesOfString (String.ofList (List.replicate 256 'k'))
  rw [String.toList_ofList, List.length_replicate] at h
  omega

/-- a successful `add_string` appends exactly one string, the UTF-8 bytes of its argument, after
the existing ones (which are untouched) -/
theorem addString_strings (t t' : TxtB) (s : String) (h : t.addString s = .ok t') :
    t'.strings = t.strings ++ [bytesOfString s] ∧ t'.strings.length = t.strings.length + 1 := by
  obtain ⟨_, rfl⟩ := (addString_ok_iff t t' s).mp h
  simp

/-! ### the invariant -/

theorem inv_new : new.Inv := rfl

theorem fit_new : new.Fit := by simp [Fit, new]

theorem inv_addCharString {t : TxtB} (h : t.Inv) (cs : Bytes) : (t.addCharString cs).Inv := by
  simp only [Inv, addCharString, List.map_append, List.sum_append, List.map_cons, List.map_nil,
    List.sum_cons, List.sum_nil] at h ⊢
  omega

theorem fit_addCharString {t : TxtB} (h : t.Fit) (cs : Bytes) (hc : cs.length ≤ 255) :
    (t.addCharString cs).Fit := by
  intro s hs
  simp only [addCharString, List.mem_append, List.mem_singleton] at hs
  rcases hs with hs | rfl
  · exact h s hs
  · exact hc

/-- every operation of the builder API keeps `size` equal to the sum of the string lengths + 1 -/
theorem inv_apply {t t' : TxtB} (h : t.Inv) (op : Op) (ho : t.apply op = .ok t') : t'.Inv := by
  cases op with
  | addCharString cs => simp only [apply, Out.ok.injEq] at ho; subst ho; exact inv_addCharString h cs
  | withCharString cs => simp only [apply, Out.ok.injEq] at ho; subst ho; exact inv_addCharString h cs
  | addString s =>
    obtain ⟨_, rfl⟩ := (addString_ok_iff t t' s).mp ho
    exact inv_addCharString h _
  | withString s =>
    obtain ⟨_, rfl⟩ := (addString_ok_iff t t' s).mp ho
    exact inv_addCharString h _

/-- … and every string within 255 bytes (given that `CharacterString` arguments are) -/
theorem fit_apply {t t' : TxtB} (h : t.Fit) (op : Op) (ha : op.ArgFit)
    (ho : t.apply op = .ok t') : t'.Fit := by
  cases op with
  | addCharString cs => simp only [apply, Out.ok.injEq] at ho; subst ho; exact fit_addCharString h cs ha
  | withCharString cs => simp only [apply, Out.ok.injEq] at ho; subst ho; exact fit_addCharString h cs ha
  | addString s =>
    obtain ⟨hl, rfl⟩ := (addString_ok_iff t t' s).mp ho
    exact fit_addCharString h _ hl
  | withString s =>
    obtain ⟨hl, rfl⟩ := (addString_ok_iff t t' s).mp ho
    exact fit_addCharString h _ hl

theorem apply_ne_panic (t : TxtB) (op : Op) : t.apply op ≠ .panic := by
  cases op <;> simp [apply, withString_eq_addString, addString_ne_panic]

theorem inv_run_from {t t' : TxtB} (h : t.Inv) (ops : List Op) (hr : t.run ops = .ok t') :
    t'.Inv := by
  induction ops generalizing t with
  | nil => simp only [run, Out.ok.injEq] at hr; subst hr; exact h
  | cons op ops ih =>
    simp only [run] at hr
    obtain ⟨t1, h1, h2⟩ := Out.bind_eq_ok hr
    exact ih (inv_apply h op h1) h2

/-- for every sequence of builder calls starting from `TXT::new()`, the cached size of the result
is the sum over its strings of length + 1 -/
theorem inv_run (ops : List Op) (t : TxtB) (hr : new.run ops = .ok t) : t.Inv :=
  inv_run_from inv_new ops hr

theorem inv_runTolerant_from {t : TxtB} (h : t.Inv) (ops : List Op) : (t.runTolerant ops).Inv := by
  induction ops generalizing t with
  | nil => exact h
  | cons op ops ih =>
    simp only [runTolerant]
    split
    · rename_i t' ho; exact ih (inv_apply h op ho)
    · exact ih h

/-- the same when failed calls are ignored instead of propagated -/
theorem inv_runTolerant (ops : List Op) : (new.runTolerant ops).Inv :=
  inv_runTolerant_from inv_new ops

theorem fit_run_from {t t' : TxtB} (h : t.Fit) (ops : List Op) (ha : ∀ op ∈ ops, op.ArgFit)
    (hr : t.run ops = .ok t') : t'.Fit := by
  induction ops generalizing t with
  | nil => simp only [run, Out.ok.injEq] at hr; subst hr; exact h
  | cons op ops ih =>
    simp only [run] at hr
    obtain ⟨t1, h1, h2⟩ := Out.bind_eq_ok hr
    exact ih (fit_apply h op (ha op (by simp)) h1) (fun o ho => ha o (by simp [ho])) h2

theorem fit_run (ops : List Op) (ha : ∀ op ∈ ops, op.ArgFit) (t : TxtB)
    (hr : new.run ops = .ok t) : t.Fit :=
  fit_run_from fit_new ops ha hr

theorem run_ne_panic (t : TxtB) (ops : List Op) : t.run ops ≠ .panic := by
  induction ops generalizing t with
  | nil => simp [run]
  | cons op ops ih =>
    simp only [run]
    exact Out.bind_ne_panic (apply_ne_panic t op) (fun a _ => ih a)

/-- a sequence of calls fails exactly when one of its `add_string` / `with_string` arguments has
more than 255 bytes; the record as a whole has no limit at construction -/
theorem run_err_iff (t : TxtB) (ops : List Op) :
    t.run ops = .err ↔ ∃ s, (Op.addString s ∈ ops ∨ Op.withString s ∈ ops) ∧
      255 < (bytesOfString s).length := by
  induction ops generalizing t with
  | nil => simp [run]
  | cons op ops ih =>
    simp only [run]
    cases op with
    | addCharString cs => simp [apply, ih]
    | withCharString cs => simp [apply, ih]
    | addString s =>
      rcases addString_cases t s with ⟨hl, ho⟩ | ⟨hl, ho⟩
      · simp only [apply, ho, Out.bind_ok, ih]
        constructor
        · rintro ⟨s', hs', hl'⟩; exact ⟨s', by simpa using hs'.imp .inr id, hl'⟩
        · rintro ⟨s', hs', hl'⟩
          refine ⟨s', ?_, hl'⟩
          simp only [List.mem_cons, Op.addString.injEq, reduceCtorEq, false_or] at hs'
          rcases hs' with (rfl | h) | h
          · omega
          · exact .inl h
          · exact .inr h
      · simp only [apply, ho, Out.bind_err, true_iff]
        exact ⟨s, by simp, hl⟩
    | withString s =>
      rcases addString_cases t s with ⟨hl, ho⟩ | ⟨hl, ho⟩
      · simp only [apply, withString_eq_addString, ho, Out.bind_ok, ih]
        constructor
        · rintro ⟨s', hs', hl'⟩; exact ⟨s', by simpa using hs'.imp id .inr, hl'⟩
        · rintro ⟨s', hs', hl'⟩
          refine ⟨s', ?_, hl'⟩
          simp only [List.mem_cons, Op.withString.injEq, reduceCtorEq, false_or] at hs'
          rcases hs' with h | (rfl | h)
          · exact .inl h
          · omega
          · exact .inr h
      · simp only [apply, withString_eq_addString, ho, Out.bind_err, true_iff]
        exact ⟨s, by simp, hl⟩

/-- the test `parse_and_write_txt` of txt.rs, as a run of the model -/
example : new.run [.withCharString [118, 61, 49], .addString "p=2", .withString "",
      .addCharString []]
    = .ok { strings := [[118, 61, 49], [112, 61, 50], [], []], size := 10 } := by
  simp [run, apply, withCharString, addCharString, new, addString, withString, CharStr.new,
    bytesOfString_eq_flatMap]
  decide

/-! ### `len()` is the number of bytes written -/

/-- `TXT::len()` is the number of bytes `write_to` emits, both for a value without strings
(1, the byte `00`) and for one with strings (the cached size) -/
theorem len_eq_written {t : TxtB} (h : t.Inv) (b : Bytes) (hw : RData.write t.toRData = .ok b) :
    t.len = b.length := by
  rw [toRData, txt_write_eq] at hw
  cases hw
  unfold len txtWireStrings
  split
  · rfl
  · rw [encStrs_length]; exact h

theorem write_total (t : TxtB) : ∃ b, RData.write t.toRData = .ok b := ⟨_, txt_write_eq _⟩

/-- the empty case spelled out -/
theorem len_new : new.len = 1 ∧ RData.write new.toRData = .ok [0] := ⟨rfl, txt_write_nil⟩

/-- the non-empty case spelled out -/
theorem len_nonempty {t : TxtB} (h : t.Inv) (hne : t.strings ≠ []) :
    t.len = t.size ∧ RData.write t.toRData = .ok (encStrs t.strings) ∧
    (encStrs t.strings).length = t.size := by
  refine ⟨?_, ?_, ?_⟩
  · cases hs : t.strings <;> simp_all [len]
  · rw [toRData, txt_write_eq, txtWireStrings_of_ne_nil hne]
  · rw [encStrs_length]; exact h.symm

/-- `TXT::len()` agrees with the `len` of the model's RDATA value -/
theorem len_eq_rdata_len {t : TxtB} (h : t.Inv) : t.len = t.toRData.len := by
  simp only [len, toRData, RData.len, schemaOf, lenAll, lenField, Nat.add_zero]
  split
  · rfl
  · exact h

/-- for every value built by the API: `len()` is exact -/
theorem run_len_eq_written (ops : List Op) (t : TxtB) (hr : new.run ops = .ok t) (b : Bytes)
    (hw : RData.write t.toRData = .ok b) : t.len = b.length :=
  len_eq_written (inv_run ops t hr) b hw

/-- the invariant is needed: with a wrong cached size `len()` is wrong -/
example : ({ strings := [[1]], size := 5 } : TxtB).len = 5 ∧
    RData.write ({ strings := [[1]], size := 5 } : TxtB).toRData = .ok [1, 1] := by decide

/-- a value built by the API from fitting character-strings is written and parsed back to the
same strings (to one empty string if it has none) -/
theorem run_write_parse (ops : List Op) (ha : ∀ op ∈ ops, op.ArgFit) (t : TxtB)
    (hr : new.run ops = .ok t) (pre : Bytes) :
    ∃ b, RData.write t.toRData = .ok b ∧ b.length = t.len ∧
      parseTyped (pre ++ b) pre.length .TXT
        = .ok (.flat 16 [.strs (txtWireStrings t.strings)], pre.length + t.len) := by
  obtain ⟨b, hb, hp⟩ := txt_write_parse pre t.strings (fit_run ops ha t hr)
  have hl := run_len_eq_written ops t hr b hb
  exact ⟨b, hb, hl.symm, by rw [hl]; exact hp⟩

example : ∀ op ∈ [Op.withCharString [118, 61, 49], .addString "p=2"], op.ArgFit := by
  simp [Op.ArgFit]

/-! ### `TXT::parse` establishes the same invariant -/

/-- `TXT::parse`: the loop, then `size: *position - initial_position` -/
def parse (d : Bytes) (pos : Nat) : Out (TxtB × Nat) := do
  let (ss, p) ← strsLoop d pos []
  pure ({ strings := ss, size := p - pos }, p)

theorem inv_parse {d : Bytes} {pos : Nat} {t : TxtB} {p : Nat} (h : parse d pos = .ok (t, p)) :
    t.Inv ∧ t.Fit := by
  unfold parse at h
  obtain ⟨⟨ss, q⟩, hl, h⟩ := Out.bind_eq_ok h
  simp only [Out.pure_eq, Out.ok.injEq, Prod.mk.injEq] at h
  obtain ⟨rfl, rfl⟩ := h
  by_cases hp : pos ≤ d.length
  · obtain ⟨h1, _, _, _, h5⟩ := Img.strsLoop_ok hp (by simp) hl
    exact ⟨by simpa [Inv] using h5.symm, h1⟩
  · rw [strsLoop, dif_neg (by omega)] at hl
    simp only [List.reverse_nil, Out.ok.injEq, Prod.mk.injEq] at hl
    obtain ⟨rfl, rfl⟩ := hl
    exact ⟨by simp [Inv], by simp [Fit]⟩

/-- a parsed value then goes on through the builder API with the invariant intact -/
theorem inv_parse_run {d : Bytes} {pos : Nat} {t t' : TxtB} {p : Nat}
    (h : parse d pos = .ok (t, p)) (ops : List Op) (hr : t.run ops = .ok t') : t'.Inv :=
  inv_run_from (inv_parse h).1 ops hr

example : parse [1, 97, 0] 0 = .ok ({ strings := [[97], []], size := 3 }, 3) := by
  have h := strsLoop_frame [[97], []] [] [] (by decide)
  have e : ([] : Bytes) ++ encStrs [[97], []] = [1, 97, 0] := by decide
  rw [e] at h
  simp only [List.length_nil] at h
  unfold parse
  rw [h]
  decide

/-! ### the two `TryFrom` constructors are sequences of builder calls -/

/-- `let mut txt = TXT::new(); for v in … { txt.add_char_string(CharacterString::new(v)?) }` -/
def pushAll (t : TxtB) : List Bytes → Out TxtB
  | [] => .ok t
  | c :: cs => do
    let a ← CharStr.new c
    pushAll (t.addCharString a) cs

theorem pushAll_ok (t : TxtB) (l : List Bytes) (h : ∀ c ∈ l, c.length ≤ 255) :
    t.pushAll l = .ok { strings := t.strings ++ l,
                        size := t.size + (l.map (·.length + 1)).sum } := by
  induction l generalizing t with
  | nil => simp [pushAll]
  | cons c cs ih =>
    have hc := (CharStr.new_ok_iff c).mpr (h c (by simp))
    simp only [pushAll, hc, Out.bind_ok]
    rw [ih _ (fun x hx => h x (by simp [hx]))]
    simp [addCharString]; omega

theorem pushAll_err (t : TxtB) (l : List Bytes) (h : ∃ c ∈ l, 255 < c.length) :
    t.pushAll l = .err := by
  induction l generalizing t with
  | nil => simp at h
  | cons c cs ih =>
    by_cases hc : 255 < c.length
    · simp [pushAll, (CharStr.new_err_iff c).mpr hc]
    · have hc' := (CharStr.new_ok_iff c).mpr (by omega)
      obtain ⟨x, hx, hl⟩ := h
      have : ∃ c ∈ cs, 255 < c.length := by
        rcases List.mem_cons.mp hx with rfl | hx
        · exact absurd hl hc
        · exact ⟨x, hx, hl⟩
      simp [pushAll, hc', ih _ this]

/-- the strings of the struct built by the `TryFrom` loop are those of the list model
`charStrsNew` used by C19, with the same failures -/
theorem pushAll_strings (l : List Bytes) :
    (new.pushAll l >>= fun t => pure t.strings) = charStrsNew l := by
  rcases charStrsNew_cases l with ⟨h, hl⟩ | ⟨h, hl⟩
  · rw [h, pushAll_ok _ _ hl]; simp [new]
  · rw [h, pushAll_err _ _ hl]; rfl

/-- `TXT::try_from(&str)` as the struct: the 254-byte chunks, with the cached size equal to the
byte length of the string plus the number of chunks, so `len()` is exact -/
theorem ofStr_struct (s : String) :
    ∃ t, new.pushAll (chunks 254 (bytesOfString s)) = .ok t ∧
      Txt.ofStr s = .ok t.strings ∧ t.Inv ∧ t.Fit ∧
      t.size = (bytesOfString s).length + (chunks 254 (bytesOfString s)).length := by
  have hfit : ∀ c ∈ chunks 254 (bytesOfString s), c.length ≤ 255 :=
    fun c hc => by have := chunks_length _ c hc; omega
  refine ⟨_, pushAll_ok _ _ hfit, by simpa [new] using txt_ofStr_eq s, by simp [Inv, new],
    by simpa [Fit, new] using hfit, ?_⟩
  simp only [new, Nat.zero_add]
  have hsum : ∀ l : List Bytes, (l.map (·.length + 1)).sum = l.flatten.length + l.length := by
    intro l
    induction l with
    | nil => rfl
    | cons a l ih => simp [ih]; omega
  rw [hsum, chunks_flatten (by decide)]

/-- `TXT::try_from(HashMap)` as the struct -/
theorem ofMap_struct (m : Attrs) (ss : List Bytes) (h : Txt.ofMap m = .ok ss) :
    ∃ t, new.pushAll (m.map attrEntryBytes) = .ok t ∧ t.strings = ss ∧ t.Inv ∧ t.Fit := by
  obtain ⟨rfl, hfit⟩ := (ofMap_ok_iff m ss).mp h
  have hfit' : ∀ s ∈ m.map attrEntryBytes, s.length ≤ 255 := by
    intro s hs
    obtain ⟨x, hx, rfl⟩ := List.mem_map.mp hs
    exact hfit x hx
  exact ⟨_, pushAll_ok _ _ hfit', by simp [new], by simp [Inv, new], by simpa [Fit, new] using hfit'⟩

end TxtB

end Dns
