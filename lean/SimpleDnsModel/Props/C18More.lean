/-
C18, further theorems — the whole of `match_qtype` / `match_qclass`, the round trips in the
direction value → code → value, injectivity of the code maps, the TYPE field of a parsed record,
and what holds for an `RData.empty t` with an arbitrary `t`.
-/
import SimpleDnsModel.Props.C18
import SimpleDnsModel.Lemmas.Rfc
namespace Dns

/-! ### 1. `match_qtype` / `match_qclass`, every arm -/

/-- **`ResourceRecord::match_qtype`, completely**: a record of type `t` answers a question of
type `q` exactly when `q` is ANY, `q` is AXFR (the code answers `true` for it), `q` names the
very type `t`, `q` is MAILB and `t` is one of MB/MG/MR, or `q` is MAILA and `t` is MX.  There is
no other way to match. -/
theorem match_qtype_full (t : TYPE) (q : QTYPE) :
    matchQType t q = true ↔
      q = .ANY ∨ q = .AXFR ∨ q = .TYPE t ∨
      (q = .MAILB ∧ (t = .MB ∨ t = .MG ∨ t = .MR)) ∨ (q = .MAILA ∧ t = .MX) := by
  cases q with
  | TYPE ty => simp [matchQType]
  | IXFR => simp [matchQType]
  | AXFR => simp [matchQType]
  | MAILB => cases t <;> simp [matchQType]
  | MAILA => simp [matchQType]
  | ANY => simp [matchQType]

/-- the arms of `match_qtype` one by one: ANY and AXFR match every record, IXFR matches none,
MAILA matches exactly MX, MAILB exactly MB/MG/MR, a plain type exactly itself -/
theorem match_qtype_arms (t : TYPE) :
    matchQType t .ANY = true ∧ matchQType t .AXFR = true ∧ matchQType t .IXFR = false ∧
    (matchQType t .MAILA = true ↔ t = .MX) ∧
    (matchQType t .MAILB = true ↔ (t = .MB ∨ t = .MG ∨ t = .MR)) ∧
    (∀ ty, matchQType t (.TYPE ty) = true ↔ ty = t) := by
  refine ⟨rfl, rfl, rfl, by simp [matchQType], ?_, fun ty => by simp [matchQType]⟩
  cases t <;> simp [matchQType]

/-- a record of an unknown type is matched by ANY, AXFR and the question that names exactly that
unknown code — MAILA and MAILB never pick it up -/
theorem match_qtype_unknown (n : Nat) (q : QTYPE) :
    matchQType (.Unknown n) q = true ↔ q = .ANY ∨ q = .AXFR ∨ q = .TYPE (.Unknown n) := by
  rw [match_qtype_full]
  simp

/-- **`ResourceRecord::match_qclass`, completely**: class `c` answers `q` exactly when `q` is
ANY or names the very class `c`. -/
theorem match_qclass_full (c : CLASS) (q : QCLASS) :
    matchQClass c q = true ↔ q = .ANY ∨ q = .CLASS c := by
  cases q <;> simp [matchQClass]

/-- `ResourceRecord::match_qtype` looks at nothing but the record's `type_code()` -/
theorem RR.matchQType_eq (r : RR) (q : QTYPE) : r.matchQType q = Dns.matchQType r.rdata.typeOf q := rfl

/-- `ResourceRecord::match_qclass` looks at nothing but the record's class -/
theorem RR.matchQClass_eq (r : RR) (q : QCLASS) : r.matchQClass q = Dns.matchQClass r.cls q := rfl

/-- the record-level form of `match_qtype_full` -/
theorem RR.matchQType_iff (r : RR) (q : QTYPE) :
    r.matchQType q = true ↔
      q = .ANY ∨ q = .AXFR ∨ q = .TYPE r.rdata.typeOf ∨
      (q = .MAILB ∧ (r.rdata.typeOf = .MB ∨ r.rdata.typeOf = .MG ∨ r.rdata.typeOf = .MR)) ∨
      (q = .MAILA ∧ r.rdata.typeOf = .MX) :=
  match_qtype_full _ _

/-- the record-level form of `match_qclass_full` -/
theorem RR.matchQClass_iff (r : RR) (q : QCLASS) :
    r.matchQClass q = true ↔ q = .ANY ∨ q = .CLASS r.cls :=
  match_qclass_full _ _

/-- two records are told apart by some question type exactly when their types differ: matching
is a function of the type and separates all types -/
theorem match_qtype_separates (t₁ t₂ : TYPE) :
    (∀ q, matchQType t₁ q = matchQType t₂ q) ↔ t₁ = t₂ := by
  constructor
  · intro h
    have h1 := h (.TYPE t₁)
    have : matchQType t₁ (.TYPE t₁) = true := by simp [matchQType]
    rw [this] at h1
    have h2 := ((match_qtype_arms t₂).2.2.2.2.2 t₁).1 h1.symm
    exact h2
  · intro h; subst h; intro q; rfl

/-! ### 2. value → code → value, and injectivity -/

/-- **CLASS, the other direction**: every CLASS converts to a code that converts back to it. -/
theorem class_toCode_roundtrip (c : CLASS) : CLASS.ofCode c.toCode = .ok c := by
  cases c <;> rfl

/-- **QCLASS, the other direction**: every QCLASS converts to a code that converts back to it. -/
theorem qclass_toCode_roundtrip (q : QCLASS) : QCLASS.ofCode q.toCode = .ok q := by
  cases q with
  | ANY => rfl
  | CLASS c => cases c <;> rfl

/-- **QTYPE, the other direction**: every QTYPE that is not `TYPE(Unknown(_))` converts to a code
that converts back to it. -/
theorem qtype_toCode_roundtrip (q : QTYPE) (h : ∀ t, q = .TYPE t → t.isUnknown = false) :
    QTYPE.ofCode q.toCode = .ok q := by
  cases q with
  | TYPE t =>
    cases t <;> first | rfl | skip
    have := h _ rfl
    simp [TYPE.isUnknown] at this
  | IXFR => rfl
  | AXFR => rfl
  | MAILB => rfl
  | MAILA => rfl
  | ANY => rfl

example : ∀ t, QTYPE.TYPE .CAA = .TYPE t → t.isUnknown = false := by
  intro t h; cases h; rfl

/-- `QTYPE::try_from` yields a plain type exactly for the supported type codes, and then it is the
type `TYPE::from` gives: it **never yields `TYPE(Unknown(_))`**. -/
theorem qtype_ofCode_type_iff (c : Nat) (t : TYPE) :
    QTYPE.ofCode c = .ok (.TYPE t) ↔ (TYPE.ofCode c = t ∧ t.isUnknown = false) := by
  by_cases hc : c ∈ [251, 252, 253, 254, 255]
  · simp at hc
    rcases hc with h | h | h | h | h <;> subst h <;> simp [QTYPE.ofCode, TYPE.ofCode] <;>
      intro h <;> subst h <;> simp [TYPE.isUnknown]
  · rw [QTYPE.ofCode_general c hc]
    cases hty : TYPE.ofCode c <;> simp [TYPE.isUnknown] <;>
      (intro h; subst h; rfl)

/-- `QTYPE::try_from` never yields `TYPE(Unknown(_))` -/
theorem qtype_ofCode_never_unknown (c n : Nat) : QTYPE.ofCode c ≠ .ok (.TYPE (.Unknown n)) := by
  intro h
  have := ((qtype_ofCode_type_iff c _).1 h).2
  simp [TYPE.isUnknown] at this

/-- every QTYPE that `QTYPE::try_from` can yield survives the round trip through its code -/
theorem qtype_ofCode_fixed (c : Nat) (q : QTYPE) (h : QTYPE.ofCode c = .ok q) :
    QTYPE.ofCode q.toCode = .ok q := by
  rw [(qtype_roundtrip c).1 q h]; exact h

/-- the round trip through the code holds for a QTYPE **exactly** when it is not
`TYPE(Unknown(_))`: those are the values `QTYPE::try_from` cannot produce -/
theorem qtype_ofCode_toCode_iff (q : QTYPE) :
    QTYPE.ofCode q.toCode = .ok q ↔ (∀ t, q = .TYPE t → t.isUnknown = false) := by
  constructor
  · intro h t ht
    subst ht
    exact ((qtype_ofCode_type_iff _ _).1 h).2
  · exact qtype_toCode_roundtrip q

/-- a TYPE survives the round trip through its code **exactly** when it is a supported type or
`Unknown(n)` for an unassigned `n` -/
theorem type_ofCode_toCode_iff (t : TYPE) :
    TYPE.ofCode t.toCode = t ↔ (∀ n, t = .Unknown n → (TYPE.ofCode n).isUnknown = true) := by
  constructor
  · intro h n hn
    subst hn
    simp only [TYPE.toCode] at h
    rw [h]; rfl
  · intro h
    cases t <;> first | rfl | skip
    rename_i n
    have hn := h n rfl
    simp only [TYPE.toCode]
    cases hty : TYPE.ofCode n <;> rw [hty] at hn <;> simp [TYPE.isUnknown] at hn
    rw [TYPE.ofCode_eq_unknown hty]

/-- **`u16::from(TYPE)` is injective on the supported types**: the 41 codes are pairwise
distinct. -/
theorem type_toCode_injective (t₁ t₂ : TYPE) (h₁ : t₁.isUnknown = false)
    (h₂ : t₂.isUnknown = false) (h : t₁.toCode = t₂.toCode) : t₁ = t₂ := by
  have e₁ : TYPE.ofCode t₁.toCode = t₁ :=
    type_roundtrip_supported t₁ (fun n hn => by subst hn; simp [TYPE.isUnknown] at h₁)
  have e₂ : TYPE.ofCode t₂.toCode = t₂ :=
    type_roundtrip_supported t₂ (fun n hn => by subst hn; simp [TYPE.isUnknown] at h₂)
  rw [← e₁, ← e₂, h]

example : TYPE.CAA.isUnknown = false ∧ TYPE.NULL.isUnknown = false := ⟨rfl, rfl⟩

/-- more generally the code is injective on the values `TYPE::from` can produce (supported types
and `Unknown(n)` with `n` unassigned) -/
theorem type_toCode_injective_canonical (t₁ t₂ : TYPE) (h₁ : TYPE.ofCode t₁.toCode = t₁)
    (h₂ : TYPE.ofCode t₂.toCode = t₂) (h : t₁.toCode = t₂.toCode) : t₁ = t₂ := by
  rw [← h₁, ← h₂, h]

/-- over *all* TYPE values the code is not injective: `Unknown(1)` and `A` share code 1 (the
supportedness hypotheses above are needed) -/
theorem type_toCode_not_injective :
    (TYPE.Unknown 1).toCode = TYPE.A.toCode ∧ TYPE.Unknown 1 ≠ TYPE.A := by decide

/-- **`CLASS as u16` is injective.** -/
theorem class_toCode_injective (c₁ c₂ : CLASS) (h : c₁.toCode = c₂.toCode) : c₁ = c₂ := by
  have := class_toCode_roundtrip c₁
  rw [h, class_toCode_roundtrip c₂] at this
  exact (Out.ok.inj this).symm

/-- **`u16::from(QCLASS)` is injective.** -/
theorem qclass_toCode_injective (q₁ q₂ : QCLASS) (h : q₁.toCode = q₂.toCode) : q₁ = q₂ := by
  have := qclass_toCode_roundtrip q₁
  rw [h, qclass_toCode_roundtrip q₂] at this
  exact (Out.ok.inj this).symm

/-- **`u16::from(QTYPE)` is injective on the supported QTYPEs** (everything but
`TYPE(Unknown(_))`). -/
theorem qtype_toCode_injective (q₁ q₂ : QTYPE)
    (h₁ : ∀ t, q₁ = .TYPE t → t.isUnknown = false) (h₂ : ∀ t, q₂ = .TYPE t → t.isUnknown = false)
    (h : q₁.toCode = q₂.toCode) : q₁ = q₂ := by
  have := qtype_toCode_roundtrip q₁ h₁
  rw [h, qtype_toCode_roundtrip q₂ h₂] at this
  exact (Out.ok.inj this).symm

/-- over all QTYPE values it is not: `TYPE(Unknown(255))` and `ANY` share code 255 -/
theorem qtype_toCode_not_injective :
    (QTYPE.TYPE (.Unknown 255)).toCode = QTYPE.ANY.toCode ∧ QTYPE.TYPE (.Unknown 255) ≠ QTYPE.ANY := by
  decide

/-- every CLASS code fits the 16-bit field it is written to -/
theorem class_toCode_lt (c : CLASS) : c.toCode < 65536 := by
  cases c <;> decide

/-- every supported TYPE code fits the 16-bit field it is written to -/
theorem type_toCode_lt (t : TYPE) (h : t.isUnknown = false) : t.toCode < 65536 := by
  cases t <;> first | decide | simp [TYPE.isUnknown] at h

/-! ### 3. the TYPE field of a parsed record -/

/-- **A parsed record has the type its TYPE field denotes, is written back under that same code,
and matches questions as that type does.**  `ne` is the offset just after the owner name (where
the RFC walk puts it) and `c` is the 16-bit number in the two bytes there.  The record's
`type_code()` is `TYPE::from(c)`; `write_common` starts with the two bytes of `c` again (so the
TYPE field survives parse-then-write byte for byte); and `match_qtype` answers what the type
`TYPE::from(c)` answers. -/
theorem RR.parse_type_field {d : Bytes} {pos : Nat} {r : RR} {p : Nat}
    (h : RR.parse d pos = .ok (r, p)) :
    ∃ ne c, Spec.skipName d (d.length + 1) pos = some ne ∧ ne + 2 ≤ d.length ∧
      c = deN ((d.drop ne).take 2) ∧ c < 65536 ∧
      r.rdata.typeOf = TYPE.ofCode c ∧
      r.writeCommon.take 2 = beN 2 c ∧ r.writeCommon.take 2 = (d.drop ne).take 2 ∧
      TYPE.ofCode (deN (r.writeCommon.take 2)) = r.rdata.typeOf ∧
      ∀ q, r.matchQType q = Dns.matchQType (TYPE.ofCode c) q := by
  obtain ⟨e, hw, _, _, _, _, hty, _⟩ := Framing.RR.parse_frame h
  obtain ⟨_, hskip, hf, _⟩ := Rfc.walkRecord_fields hw
  have hle := Framing.field_le hf
  rw [Framing.field_eq hle] at hf
  have hc : e.type = deN ((d.drop e.nameEnd).take 2) := (Option.some.inj hf).symm
  have hlen : ((d.drop e.nameEnd).take 2).length = 2 := by
    rw [List.length_take, List.length_drop]; omega
  have hlt : e.type < 65536 := by
    have := deN_lt ((d.drop e.nameEnd).take 2)
    rw [hlen] at this
    rw [hc]; exact this
  have hwr : r.writeCommon.take 2 = beN 2 e.type := by
    rw [type_code_written, hty, type_roundtrip]
  refine ⟨e.nameEnd, e.type, hskip, hle, hc, hlt, hty, hwr, ?_, ?_, ?_⟩
  · rw [hwr, hc]
    have := beN_deN ((d.drop e.nameEnd).take 2)
    rw [hlen] at this
    exact this
  · rw [hwr, deN_beN 2 e.type hlt, hty]
  · intro q
    rw [RR.matchQType_eq, hty]

/-- every parsed record carries a canonical type: converting its `type_code()` to a number and
back gives the same type (so `Unknown(n)` with a supported `n` never comes out of the parser) -/
theorem RR.parse_type_canonical {d : Bytes} {pos : Nat} {r : RR} {p : Nat}
    (h : RR.parse d pos = .ok (r, p)) : TYPE.ofCode r.rdata.typeOf.toCode = r.rdata.typeOf := by
  obtain ⟨_, c, _, _, _, _, hty, _⟩ := RR.parse_type_field h
  rw [hty, TYPE.ofCode_toCode_ofCode]

/-- **A record received with TYPE 10 is a NULL record for matching**: it matches the question
`TYPE(NULL)` (and ANY, AXFR), and nothing else. -/
theorem RR.parse_type10_matches {d : Bytes} {pos : Nat} {r : RR} {p ne : Nat}
    (h : RR.parse d pos = .ok (r, p)) (hne : Spec.skipName d (d.length + 1) pos = some ne)
    (hc : deN ((d.drop ne).take 2) = 10) :
    r.rdata.typeOf = .NULL ∧ r.matchQType (.TYPE .NULL) = true ∧
    ∀ q, r.matchQType q = true ↔ q = .ANY ∨ q = .AXFR ∨ q = .TYPE .NULL := by
  obtain ⟨ne', c, hskip, _, hcd, _, hty, _, _, _, _⟩ := RR.parse_type_field h
  rw [hne] at hskip
  cases hskip
  rw [hc] at hcd
  subst hcd
  have hty' : r.rdata.typeOf = .NULL := hty
  refine ⟨hty', ?_, ?_⟩
  · rw [RR.matchQType_eq, hty']; rfl
  · intro q
    rw [RR.matchQType_iff, hty']
    simp

/-- **A record received with an unassigned TYPE code `c` keeps that code**: its type is
`Unknown(c)`, and it matches exactly `TYPE(Unknown(c))`, ANY and AXFR. -/
theorem RR.parse_unassigned_matches {d : Bytes} {pos : Nat} {r : RR} {p ne : Nat}
    (h : RR.parse d pos = .ok (r, p)) (hne : Spec.skipName d (d.length + 1) pos = some ne)
    (hu : (TYPE.ofCode (deN ((d.drop ne).take 2))).isUnknown = true) :
    r.rdata.typeOf = .Unknown (deN ((d.drop ne).take 2)) ∧
    ∀ q, r.matchQType q = true ↔
      q = .ANY ∨ q = .AXFR ∨ q = .TYPE (.Unknown (deN ((d.drop ne).take 2))) := by
  obtain ⟨ne', c, hskip, _, hcd, _, hty, _, _, _, _⟩ := RR.parse_type_field h
  rw [hne] at hskip
  cases hskip
  subst hcd
  have hty' : r.rdata.typeOf = .Unknown (deN ((d.drop ne).take 2)) := by
    rw [hty]
    cases hk : TYPE.ofCode (deN ((d.drop ne).take 2)) <;> rw [hk] at hu <;>
      simp [TYPE.isUnknown] at hu
    rw [TYPE.ofCode_eq_unknown hk]
  refine ⟨hty', fun q => ?_⟩
  rw [RR.matchQType_eq, hty']
  exact match_qtype_unknown _ q

/-- a concrete message entry: owner name `a.`, TYPE 10 (NULL), CLASS IN, TTL 0, one byte of
RDATA -/
def c18NullRec : Bytes := [1, 97, 0, 0, 10, 0, 1, 0, 0, 0, 0, 0, 1, 0xAB]

/-- the same with the unassigned TYPE code 65280 -/
def c18UnkRec : Bytes := [1, 97, 0, 0xFF, 0, 0, 1, 0, 0, 0, 0, 0, 1, 0xAB]

/-- the hypotheses of `RR.parse_type10_matches` hold on a concrete entry (and the parser keeps the
opaque byte) -/
theorem c18NullRec_parses :
    RR.parse c18NullRec 0 =
      .ok ({ name := [[97]], cls := .IN, ttl := 0, rdata := .null 10 [0xAB], flush := false }, 14) ∧
    Spec.skipName c18NullRec (c18NullRec.length + 1) 0 = some 3 ∧
    deN ((c18NullRec.drop 3).take 2) = 10 := by
  refine ⟨?_, by decide, by decide⟩
  have hn : Name.parse c18NullRec 0 = .ok ([[97]], 3) := by
    unfold Name.parse
    rw [nameLoop]; simp [c18NullRec]
    rw [nameLoop]; simp
  unfold RR.parse
  rw [hn]
  decide +kernel

/-- the hypotheses of `RR.parse_unassigned_matches` hold on a concrete entry -/
theorem c18UnkRec_parses :
    RR.parse c18UnkRec 0 =
      .ok ({ name := [[97]], cls := .IN, ttl := 0, rdata := .null 65280 [0xAB], flush := false }, 14) ∧
    Spec.skipName c18UnkRec (c18UnkRec.length + 1) 0 = some 3 ∧
    (TYPE.ofCode (deN ((c18UnkRec.drop 3).take 2))).isUnknown = true := by
  refine ⟨?_, by decide, by decide⟩
  have hn : Name.parse c18UnkRec 0 = .ok ([[97]], 3) := by
    unfold Name.parse
    rw [nameLoop]; simp [c18UnkRec]
    rw [nameLoop]; simp
  unfold RR.parse
  rw [hn]
  decide +kernel

/-- so the received TYPE-10 record matches `TYPE(NULL)` and does not match `TYPE(Unknown(10))` -/
example : ∀ r p, RR.parse c18NullRec 0 = .ok (r, p) →
    r.matchQType (.TYPE .NULL) = true ∧ r.matchQType (.TYPE (.Unknown 10)) = false := by
  intro r p h
  obtain ⟨_, h1, h2⟩ := RR.parse_type10_matches h c18NullRec_parses.2.1 c18NullRec_parses.2.2
  refine ⟨h1, ?_⟩
  cases hm : r.matchQType (.TYPE (.Unknown 10))
  · rfl
  · have := (h2 _).1 hm
    simp at this

/-- and the received record with TYPE 65280 matches `TYPE(Unknown(65280))` -/
example : ∀ r p, RR.parse c18UnkRec 0 = .ok (r, p) →
    r.matchQType (.TYPE (.Unknown 65280)) = true := by
  intro r p h
  obtain ⟨_, h2⟩ := RR.parse_unassigned_matches h c18UnkRec_parses.2.1 c18UnkRec_parses.2.2
  exact (h2 _).2 (Or.inr (Or.inr (by decide +kernel)))

/-! ### 4. `RData.empty t` for an arbitrary `t` -/

/-- **An empty RDATA reports the type it was built with and is written under that type's code**,
whatever the type (`RData::Empty(t)`; `type_code_faithful` has the case `t = TYPE::from(c)`).
Reading the written code back with `TYPE::from` gives `t` again exactly when `t` is canonical:
a supported type or `Unknown(n)` with `n` unassigned. -/
theorem empty_type_code (t : TYPE) :
    (RData.empty t).typeOf = t ∧
    (∀ name cls ttl flush,
      (RR.writeCommon { name := name, cls := cls, ttl := ttl, rdata := .empty t, flush := flush }).take 2
        = beN 2 t.toCode) ∧
    (TYPE.ofCode (RData.empty t).typeOf.toCode = t ↔
      ∀ n, t = .Unknown n → (TYPE.ofCode n).isUnknown = true) := by
  refine ⟨rfl, fun _ _ _ _ => ?_, type_ofCode_toCode_iff t⟩
  rw [type_code_written]; rfl

/-- for `t = Unknown(n)` the written code is `n` itself and reads back as `TYPE::from(n)` — the
supported type when `n` is a supported code, so then **not** as `Unknown(n)` -/
theorem empty_unknown_reparse (n : Nat) :
    (RData.empty (.Unknown n)).typeOf.toCode = n ∧
    TYPE.ofCode (RData.empty (.Unknown n)).typeOf.toCode = TYPE.ofCode n ∧
    ((TYPE.ofCode n).isUnknown = false →
      TYPE.ofCode (RData.empty (.Unknown n)).typeOf.toCode ≠ (RData.empty (.Unknown n)).typeOf) := by
  refine ⟨rfl, rfl, fun h he => ?_⟩
  have he' : TYPE.ofCode n = .Unknown n := he
  rw [he'] at h
  simp [TYPE.isUnknown] at h

/-- the concrete case: an empty RDATA built with `Unknown(1)` is of type `Unknown(1)`, does not
answer a question for `A`, is written with TYPE field `00 01`, and whoever parses those two bytes
sees type `A`, which does answer a question for `A`.  (The parser itself never builds such a
value: `RR.parse_type_canonical`.) -/
theorem empty_unknown_one :
    (RData.empty (.Unknown 1)).typeOf = .Unknown 1 ∧
    matchQType (RData.empty (.Unknown 1)).typeOf (.TYPE .A) = false ∧
    (RR.writeCommon { name := [], cls := .IN, ttl := 0, rdata := .empty (.Unknown 1),
                      flush := false }).take 2 = [0, 1] ∧
    TYPE.ofCode (deN [0, 1]) = .A ∧ matchQType (TYPE.ofCode (deN [0, 1])) (.TYPE .A) = true := by
  refine ⟨rfl, by decide, ?_, by decide +kernel, by decide +kernel⟩
  rw [type_code_written]; rfl

end Dns
