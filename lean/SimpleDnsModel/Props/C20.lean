/-
C20 — Cached discovery records expire on time.

The record store of `simple-mdns/src/resource_record_manager.rs` with the clock
as an explicit `now : Nat` (milliseconds).  `abs s` is the store seen as a map
from records (up to the crate's record equality `rrEq`: name, class, RDATA —
TTL and cache-flush bit ignored) to `Kind` (`auth` or `cached expireAt refreshAt`); every
operation refines the transition function `absStep`, for every history
(`abs_run`).  The expiry theorems are then statements about what the queries
(`getDomain`) return, read through `abs`.
-/
import SimpleDnsModel.Lemmas.Mdns
namespace Dns.Mdns

/-! ### the store refines a map `RR → Option Kind` -/

theorem C20.abs_addAuth (s : Store) (r x : RR) :
    abs (s.addAuth r) x = if rrEq x r = true then some .auth else abs s x := Mdns.abs_addAuth s r x

theorem C20.abs_addCached (s : Store) (r : RR) (now : Nat) (x : RR) :
    abs (s.addCached r now) x =
      if rrEq x r = true then
        (if abs s r = some .auth then some .auth
         else some (.cached (now + 1000 * (if r.flush = true then 1 else r.ttl))
                (now + 1000 * refreshOffsetSecs (if r.flush = true then 1 else r.ttl))))
      else abs s x := Mdns.abs_addCached s r now x

theorem C20.abs_remove (s : Store) (r x : RR) :
    abs (s.remove r) x = if rrEq x r = true then none else abs s x := Mdns.abs_remove s r x

theorem C20.abs_clear (s : Store) (x : RR) : abs s.clear x = none := rfl

theorem C20.abs_empty (x : RR) : abs Store.empty x = none := rfl

/-- the abstract view after any history is the fold of the abstract transition function -/
theorem C20.abs_run (s : Store) (ops : List Op) : abs (s.run ops) = ops.foldl absStep (abs s) :=
  Mdns.abs_run s ops

theorem C20.abs_reachable (ops : List Op) :
    abs (Store.empty.run ops) = ops.foldl absStep (fun _ => none) := Mdns.abs_run _ ops

/-- the abstract view does not distinguish `rrEq` records -/
theorem C20.abs_congr (s : Store) {x y : RR} (h : rrEq x y = true) : abs s x = abs s y :=
  Mdns.abs_congr s h

/-- the time to live that counts: one second for a record received with the cache-flush bit -/
def effTtl (r : RR) : Nat := if r.flush = true then 1 else r.ttl

/-! ### cached records are returned exactly until their expiry instant -/

/-- whatever a cache query returns is a cache entry that has not expired -/
theorem cache_expiry {s : Store} (hI : Inv s) {name : Name} {now : Nat} {x : RR}
    (hx : x ∈ (s.getDomain name Filter.cachedOnly now).flatten) :
    ∃ e rf, abs s x = some (.cached e rf) ∧ now < e := by
  obtain ⟨kind, habs, hm⟩ := hI.abs_of_mem_getDomain hx
  obtain ⟨e, rf, rfl, he⟩ := Filter.cachedOnly_matches.mp hm
  exact ⟨e, rf, habs, he⟩

/-- a live cache entry is returned (as the stored representative of its `rrEq` class) by the cache
query for every name that has a trie node and whose key is a prefix of the owner's key -/
theorem cache_returned {s : Store} {x : RR} {e rf now : Nat} (hx : abs s x = some (.cached e rf))
    (hlt : now < e) {name : Name} (hn : s.nodeExists (getKey name) = true)
    (hp : isPrefixOf (getKey name) (getKey x.name) = true) :
    ∃ x', rrEq x' x = true ∧ x' ∈ (s.getDomain name Filter.cachedOnly now).flatten :=
  getDomain_of_abs hx (Filter.cachedOnly_matches.mpr ⟨e, rf, rfl, hlt⟩) (by simpa [Filter.cachedOnly] using ⟨hn, hp⟩)

/-- in particular by the query for the owner name itself -/
theorem cache_returned_self {s : Store} {x : RR} {e rf now : Nat} (hx : abs s x = some (.cached e rf))
    (hlt : now < e) :
    ∃ x', rrEq x' x = true ∧ x' ∈ (s.getDomain x.name Filter.cachedOnly now).flatten := by
  obtain ⟨b, _, hb, _, _⟩ := mem_of_abs hx
  exact cache_returned hx hlt (Store.nodeExists_of_mem (Store.bucket_mem hb)) (isPrefixOf_refl _)

/-- and by the query for every ancestor name at which the trie has a node -/
theorem cache_returned_ancestor {s : Store} {x : RR} {e rf now : Nat} (hx : abs s x = some (.cached e rf))
    (hlt : now < e) {name : Name} (hn : s.nodeExists (getKey name) = true) (hs : name <:+ x.name) :
    ∃ x', rrEq x' x = true ∧ x' ∈ (s.getDomain name Filter.cachedOnly now).flatten :=
  cache_returned hx hlt hn (key_prefix_of_suffix hs)

/-- the cache query for the owner name returns the record iff it is cached and `now` is before its
expiry instant -/
theorem cache_query_iff {s : Store} (hI : Inv s) (x : RR) (now : Nat) :
    (∃ x', rrEq x' x = true ∧ x' ∈ (s.getDomain x.name Filter.cachedOnly now).flatten) ↔
      ∃ e rf, abs s x = some (.cached e rf) ∧ now < e := by
  constructor
  · rintro ⟨x', he, hx'⟩
    obtain ⟨e, rf, h1, h2⟩ := cache_expiry hI hx'
    exact ⟨e, rf, by rw [← abs_congr s he]; exact h1, h2⟩
  · rintro ⟨e, rf, h1, h2⟩; exact cache_returned_self h1 h2

/-! ### the history statement -/

/-- receiving `r` at time `t` sets its expiry to `t + 1000 · effTtl r`, whatever was cached before,
and nothing but an operation on `r` itself (or `clear`) changes that -/
theorem abs_after_addCached {s : Store} {r : RR} (h : abs s r ≠ some .auth) (t : Nat)
    {ops : List Op} (hops : ∀ op ∈ ops, op.touches r = false) :
    abs ((s.addCached r t).run ops) r =
      some (.cached (t + 1000 * effTtl r) (t + 1000 * refreshOffsetSecs (effTtl r))) := by
  rw [abs_run_untouched _ hops, abs_addCached, if_pos (rrEq_refl r), if_neg h]; rfl

/-- If the last reception of `r` happened at time `t` and no later operation concerned `r`, a cache
query at `now` returns `r` iff `now < t + 1000 · TTL` (TTL = 1 with the cache-flush bit). -/
theorem cached_lifetime {s : Store} (hI : Inv s) {r : RR} (h : abs s r ≠ some .auth) (t : Nat)
    {ops : List Op} (hops : ∀ op ∈ ops, op.touches r = false) (now : Nat) :
    (∃ x, rrEq x r = true ∧
        x ∈ (((s.addCached r t).run ops).getDomain r.name Filter.cachedOnly now).flatten) ↔
      now < t + 1000 * effTtl r := by
  rw [cache_query_iff ((hI.addCached r t).run ops), abs_after_addCached h t hops]
  constructor
  · rintro ⟨e, rf, he, hlt⟩; cases he; exact hlt
  · intro hlt; exact ⟨_, _, rfl, hlt⟩

/-- the same for complete histories from the empty store -/
theorem cached_lifetime_history (pre : List Op) {r : RR}
    (h : abs (Store.empty.run pre) r ≠ some .auth) (t : Nat)
    {ops : List Op} (hops : ∀ op ∈ ops, op.touches r = false) (now : Nat) :
    (∃ x, rrEq x r = true ∧
        x ∈ ((Store.empty.run (pre ++ Op.addCached r t :: ops)).getDomain r.name
              Filter.cachedOnly now).flatten) ↔
      now < t + 1000 * effTtl r := by
  rw [Store.run_append, Store.run_cons]
  exact cached_lifetime (Inv.empty.run pre) h t hops now

/-- an expired entry is not returned by any query, under any filter, for any name, at the expiry
instant or at any later time -/
theorem expired_never_returned {s : Store} (hI : Inv s) {x : RR} {e rf now : Nat}
    (hx : abs s x = some (.cached e rf)) (he : e ≤ now) :
    ∀ now', now ≤ now' → ∀ (name : Name) (f : Filter) (x' : RR), rrEq x' x = true →
      x' ∉ (s.getDomain name f now').flatten := by
  intro now' hn name f x' heq hmem
  obtain ⟨kind, habs, hm⟩ := hI.abs_of_mem_getDomain hmem
  rw [abs_congr s heq, hx] at habs
  cases habs
  rw [Filter.matches_expired f (by omega)] at hm
  cases hm

/-- and it stays excluded until an operation concerns the record again (a new reception or a local
registration) -/
theorem expired_stays_excluded {s : Store} (hI : Inv s) {x : RR} {e rf now : Nat}
    (hx : abs s x = some (.cached e rf)) (he : e ≤ now)
    {ops : List Op} (hops : ∀ op ∈ ops, op.touches x = false) :
    ∀ now', now ≤ now' → ∀ (name : Name) (f : Filter) (x' : RR), rrEq x' x = true →
      x' ∉ ((s.run ops).getDomain name f now').flatten :=
  expired_never_returned (hI.run ops) (by rw [abs_run_untouched s hops]; exact hx) he

/-- a new reception revives it with the new expiry instant -/
theorem expired_revived {s : Store} {x : RR} {e rf : Nat} (hx : abs s x = some (.cached e rf))
    (t now : Nat) (hlt : now < t + 1000 * effTtl x) :
    ∃ x', rrEq x' x = true ∧
      x' ∈ ((s.addCached x t).getDomain x.name Filter.cachedOnly now).flatten := by
  have h : abs s x ≠ some .auth := by rw [hx]; intro h; cases h
  exact cache_returned_self (abs_after_addCached (ops := []) h t (by simp)) hlt

/-- cache entries, expired or not, are never returned by authoritative-only queries -/
theorem cached_not_in_auth_query {s : Store} (hI : Inv s) {x : RR} {e rf : Nat}
    (hx : abs s x = some (.cached e rf)) (sub : Bool) (name : Name) (now : Nat) (x' : RR)
    (heq : rrEq x' x = true) : x' ∉ (s.getDomain name (Filter.auth sub) now).flatten := by
  intro hmem
  obtain ⟨kind, habs, hm⟩ := hI.abs_of_mem_getDomain hmem
  rw [abs_congr s heq, hx, Filter.auth_matches.mp hm] at habs
  cases habs

/-! ### authoritative records -/

/-- a locally registered record is returned by authoritative queries for its name at every time -/
theorem auth_never_expires {s : Store} {r : RR} (h : abs s r = some .auth) (now : Nat) (sub : Bool) :
    ∃ x, rrEq x r = true ∧ x ∈ (s.getDomain r.name (Filter.auth sub) now).flatten := by
  apply getDomain_of_abs h (Filter.auth_matches.mpr rfl)
  obtain ⟨b, _, hb, _, _⟩ := mem_of_abs h
  cases sub with
  | false => simp [Filter.auth]
  | true => simpa [Filter.auth] using Store.nodeExists_of_mem (Store.bucket_mem hb)

/-- and by the all-inclusive query -/
theorem auth_never_expires_all {s : Store} {r : RR} (h : abs s r = some .auth) (now : Nat) :
    ∃ x, rrEq x r = true ∧ x ∈ (s.getDomain r.name Filter.all now).flatten := by
  apply getDomain_of_abs h (Filter.all_matches.mpr (.inl rfl))
  obtain ⟨b, _, hb, _, _⟩ := mem_of_abs h
  simpa [Filter.all] using Store.nodeExists_of_mem (Store.bucket_mem hb)

/-- cache-only queries never return a locally registered record -/
theorem auth_not_in_cache_only {s : Store} (hI : Inv s) {name : Name} {now : Nat} :
    ∀ x ∈ (s.getDomain name Filter.cachedOnly now).flatten, abs s x ≠ some .auth := by
  intro x hx h
  obtain ⟨e, rf, he, _⟩ := cache_expiry hI hx
  rw [h] at he; cases he

/-- … nor any record equal to one -/
theorem auth_not_in_cache_only' {s : Store} (hI : Inv s) {r : RR} (h : abs s r = some .auth)
    (name : Name) (now : Nat) (x : RR) (heq : rrEq x r = true) :
    x ∉ (s.getDomain name Filter.cachedOnly now).flatten := by
  intro hx
  exact auth_not_in_cache_only hI x hx (by rw [abs_congr s heq]; exact h)

/-- one step: only `clear` and the removal of an equal record end an authoritative registration; in
particular receiving the same record from the network does not demote it -/
theorem auth_step {s : Store} {r : RR} (h : abs s r = some .auth) {op : Op} (hc : op ≠ .clear)
    (hr : ∀ r', op = .remove r' → rrEq r' r = false) : abs (s.apply op) r = some .auth := by
  cases op with
  | addAuth r' =>
    simp only [Store.apply, abs_addAuth]
    split
    · rfl
    · exact h
  | addCached r' now =>
    simp only [Store.apply, abs_addCached]
    split
    · rename_i heq
      rw [← abs_congr s heq, h]; rfl
    · exact h
  | remove r' =>
    simp only [Store.apply, abs_remove]
    have := hr r' rfl
    rw [rrEq_comm] at this
    rw [if_neg (by simp [this])]
    exact h
  | clear => exact absurd rfl hc

theorem auth_until_removed {s : Store} {r : RR} (h : abs s r = some .auth) (ops : List Op)
    (hops : ∀ op ∈ ops, op ≠ .clear ∧ ∀ r', op = .remove r' → rrEq r' r = false) :
    abs (s.run ops) r = some .auth := by
  induction ops generalizing s with
  | nil => exact h
  | cons op ops ih =>
    rw [Store.run_cons]
    exact ih (auth_step h (hops op (by simp)).1 (hops op (by simp)).2)
      (fun o ho => hops o (by simp [ho]))

/-- hence returned at every time after every such history -/
theorem auth_returned_until_removed {s : Store} {r : RR} (h : abs s r = some .auth) (ops : List Op)
    (hops : ∀ op ∈ ops, op ≠ .clear ∧ ∀ r', op = .remove r' → rrEq r' r = false) (now : Nat)
    (sub : Bool) :
    ∃ x, rrEq x r = true ∧ x ∈ ((s.run ops).getDomain r.name (Filter.auth sub) now).flatten :=
  auth_never_expires (auth_until_removed h ops hops) now sub

/-- an authoritative registration disappears only through `remove` of an equal record or `clear` -/
theorem auth_lost_only_by_remove_or_clear {s : Store} {r : RR} (h : abs s r = some .auth) {op : Op}
    (hl : abs (s.apply op) r ≠ some .auth) :
    op = .clear ∨ ∃ r', op = .remove r' ∧ rrEq r' r = true := by
  cases op with
  | clear => exact .inl rfl
  | remove r' =>
    by_cases hq : rrEq r' r = true
    · exact .inr ⟨r', rfl, hq⟩
    · exact absurd (auth_step h (by simp) (fun r'' he => by cases he; simpa using hq)) hl
  | addAuth r' => exact absurd (auth_step h (by simp) (fun _ he => by cases he)) hl
  | addCached r' now => exact absurd (auth_step h (by simp) (fun _ he => by cases he)) hl

/-- and those two do end it -/
theorem removed_is_gone (s : Store) (r x : RR) (h : rrEq x r = true) : abs (s.remove r) x = none := by
  rw [abs_remove, if_pos h]

theorem removed_not_returned {s : Store} (hI : Inv s) (r : RR) (name : Name) (f : Filter)
    (now : Nat) (x : RR) (h : rrEq x r = true) : x ∉ ((s.remove r).getDomain name f now).flatten := by
  intro hx
  obtain ⟨kind, habs, _⟩ := (hI.remove r).abs_of_mem_getDomain hx
  rw [removed_is_gone s r x h] at habs; cases habs

theorem cleared_returns_nothing (s : Store) (name : Name) (f : Filter) (now : Nat) :
    (s.clear.getDomain name f now).flatten = [] := by
  cases hl : (s.clear.getDomain name f now).flatten with
  | nil => rfl
  | cons x l =>
    have hx : x ∈ (s.clear.getDomain name f now).flatten := by rw [hl]; simp
    obtain ⟨kind, habs, _⟩ := (Inv.clear s).abs_of_mem_getDomain hx
    cases habs

/-! ### a concrete store -/

namespace C20Ex

def lbl : Label := [108, 111, 99, 97, 108]           -- "local"
def nA : Name := [[97], lbl]                         -- a.local
def nBA : Name := [[98], [97], lbl]                  -- b.a.local
/-- `a.local A 10.0.0.1`, registered locally -/
def recA : RR := { name := nA, cls := .IN, ttl := 120, rdata := .flat 1 [.int 0x0A000001], flush := false }
/-- `b.a.local A 10.0.0.2` with TTL 2, learned from the network -/
def recB : RR := { name := nBA, cls := .IN, ttl := 2, rdata := .flat 1 [.int 0x0A000002], flush := false }
/-- `b.a.local A 10.0.0.4` with TTL 4500 and the cache-flush bit -/
def recF : RR := { name := nBA, cls := .IN, ttl := 4500, rdata := .flat 1 [.int 0x0A000004], flush := true }

/-- `recA` registered, `recB` received at time 0 -/
def st : Store := Store.empty.run [.addAuth recA, .addCached recB 0]

example : Inv st := Reachable.inv ⟨_, rfl⟩
example : abs st recA = some .auth := by decide
example : abs st recB = some (.cached 2000 1000) := by decide

/-- TTL 2 received at time 0: returned at 1999 ms, not at 2000 ms, neither through the owner name
nor through its parent -/
example : (st.getDomain nBA Filter.cachedOnly 1999).flatten = [recB] := by decide
example : (st.getDomain nBA Filter.cachedOnly 2000).flatten = [] := by decide
example : (st.getDomain nA Filter.cachedOnly 1999).flatten = [recB] := by decide
example : (st.getDomain nA Filter.cachedOnly 2000).flatten = [] := by decide
example : (st.getDomain nA Filter.all 1999).flatten = [recA, recB] := by decide
example : (st.getDomain nA Filter.all 2000).flatten = [recA] := by decide

/-- the general theorem instantiated: all its hypotheses hold here -/
example (now : Nat) :
    (∃ x, rrEq x recB = true ∧ x ∈ (st.getDomain nBA Filter.cachedOnly now).flatten) ↔ now < 2000 :=
  cached_lifetime_history [.addAuth recA] (r := recB) (by decide) 0 (ops := []) (by simp) now

/-- received anew at 5000 ms (whatever the TTL field of the stored copy): alive until 7000 ms -/
example : ((st.addCached recB 5000).getDomain nBA Filter.cachedOnly 6999).flatten = [recB] := by decide
example : ((st.addCached recB 5000).getDomain nBA Filter.cachedOnly 7000).flatten = [] := by decide

/-- the cache-flush bit: one second, not 4500 -/
example : abs (st.addCached recF 10) recF = some (.cached 1010 10) := by decide
example : ((st.addCached recF 10).getDomain nBA Filter.cachedOnly 1009).flatten = [recB, recF] := by decide
example : ((st.addCached recF 10).getDomain nBA Filter.cachedOnly 1010).flatten = [recB] := by decide

/-- the authoritative record: never in cache-only answers, in authoritative answers at any time, not
demoted by a reception of the same record, gone after `remove` -/
example : recA ∉ (st.getDomain nA Filter.cachedOnly 0).flatten := by decide
example : (st.getDomain nA (Filter.auth false) 1000000000000).flatten = [recA] := by decide
example : abs (st.addCached { recA with ttl := 1, flush := true } 5) recA = some .auth := by decide
example : ((st.addCached { recA with ttl := 1 } 5).getDomain nA (Filter.auth false) 999999).flatten = [recA] := by
  decide
example : ((st.remove { recA with ttl := 7 }).getDomain nA Filter.all 0).flatten = [recB] := by decide
example : (st.clear.getDomain [] Filter.all 0).flatten = [] := by decide

end C20Ex

end Dns.Mdns
