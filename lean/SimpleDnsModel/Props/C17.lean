/-
C17: textual name API — validation, display and suffix algebra.

Creating a name from text succeeds exactly when every dot-separated non-empty
label is 1–63 characters, starts with a letter, digit or underscore, continues
with letters, digits, hyphens or underscores, ends with a letter or digit, and
the encoded name is at most 255 bytes; displaying an accepted name gives back
the text without empty labels and re-creating it gives an equal name. One name
is a subdomain of another exactly when it is strictly longer and ends with the
other's labels, removing a suffix returns the remaining leading labels exactly
in that case, and a name is link-local exactly when its last label is `local`
in any letter case.

Model: Model/NameText.lean. Spec: Spec/LabelGrammar.lean. Proofs: Lemmas/NameText.lean.
Text is the list of UTF-8 bytes of the Rust `&str`.
-/
import SimpleDnsModel.Lemmas.NameText
namespace Dns

/-! ### concrete texts used to show that the statements are not vacuous -/

/-- `some-dash.local.` -/
def exDash : Bytes := [115, 111, 109, 101, 45, 100, 97, 115, 104, 46, 108, 111, 99, 97, 108, 46]
/-- `..a..b-c._tcp.` (leading, doubled and trailing dots) -/
def exDots : Bytes := [46, 46, 97, 46, 46, 98, 45, 99, 46, 95, 116, 99, 112, 46]
/-- `bad-.com` (label ends with a hyphen) -/
def exTrailHyphen : Bytes := [98, 97, 100, 45, 46, 99, 111, 109]
/-- `-bad.com` (label starts with a hyphen) -/
def exLeadHyphen : Bytes := [45, 98, 97, 100, 46, 99, 111, 109]
/-- `a_` (label ends with an underscore) -/
def exTrailUnderscore : Bytes := [97, 95]
/-- a label of `n` letters `a` -/
def exA (n : Nat) : Bytes := List.replicate n 97
/-- `aaa…a.aaa…a.aaa…a.aaa…a` with label lengths 63, 63, 63 and `k` -/
def exFour (k : Nat) : Bytes := exA 63 ++ 46 :: (exA 63 ++ 46 :: (exA 63 ++ 46 :: exA k))

def exSome : Label := [115, 111, 109, 101]
def exLocal : Label := [108, 111, 99, 97, 108]
/-- `LoCaL` -/
def exLoCaL : Label := [76, 111, 67, 97, 76]
def exCom : Label := [99, 111, 109]

/-! ### 1. the label iterator -/

/-- `LabelsIter` yields the dot-separated non-empty pieces of the text (`List.splitOn 46`
followed by dropping the empty pieces). -/
theorem splitLabels_eq_pieces (s : Bytes) : splitLabels s = Spec.pieces s :=
  splitLabels_spec s

example : splitLabels exDots = [[97], [98, 45, 99], [95, 116, 99, 112]] := by decide
example : splitLabels [46, 46, 46] = [] := by decide

/-- Intrinsic reading of the pieces: none is empty, none contains a dot, and they are the only
such list whose join by single dots is the text with runs of dots collapsed and outer dots
removed. -/
theorem pieces_characterised (s : Bytes) (ps : List Bytes) :
    ps = Spec.pieces s ↔
      ((∀ p ∈ ps, p ≠ []) ∧ (∀ p ∈ ps, (46 : UInt8) ∉ p) ∧
        [46].intercalate ps = Spec.normalised s) :=
  ⟨fun h => h ▸ ⟨Spec.pieces_ne_nil s, Spec.pieces_dot_free s, rfl⟩,
   fun ⟨h1, h2, h3⟩ => Spec.pieces_unique s ps h1 h2 h3⟩

/-! ### 2. `Label::new` -/

/-- the alphanumeric test is "letter or digit" -/
theorem is_alnum_iff (b : UInt8) : isAlnum b = true ↔ Spec.isLetter b ∨ Spec.isDigit b :=
  isAlnum_iff b

/-- `Label::new` accepts exactly the labels of the grammar, and returns the label unchanged. -/
theorem label_new_iff (l l' : Bytes) : Label.new l = .ok l' ↔ (Spec.LabelOK l ∧ l' = l) :=
  Label.new_ok_iff l l'

theorem label_new_no_panic (l : Bytes) : Label.new l ≠ .panic := Label.new_ne_panic l

theorem label_new_err_iff (l : Bytes) : Label.new l = .err ↔ ¬ Spec.LabelOK l :=
  Label.new_eq_err_iff l

example : Label.new [95, 116, 99, 112] = .ok [95, 116, 99, 112] := by decide
example : Spec.LabelOK [95, 116, 99, 112] :=
  ((label_new_iff _ [95, 116, 99, 112]).1 (by decide)).1
example : Label.new [98, 97, 100, 45] = .err := by decide
example : ¬ Spec.LabelOK [98, 97, 100, 45] := (label_new_err_iff _).1 (by decide)
example : Label.new (exA 63) = .ok (exA 63) := by decide
example : Label.new (exA 64) = .err := by decide
example : Label.new [] = .err := by decide

/-! ### 3. `Name::new` -/

/-- the length computed by `Name::len` is the spec's encoded length -/
theorem wire_len_eq_encoded_len (ls : List Bytes) : Name.wireLen ls = Spec.encodedLen ls :=
  Name.wireLen_eq_encodedLen ls

/-- `Name::new` succeeds exactly on acceptable texts, and then returns the pieces. -/
theorem name_new_iff (s : Bytes) (n : Name) :
    Name.new s = .ok n ↔ (Spec.NameTextOK s ∧ n = Spec.pieces s) :=
  Name.new_ok_iff s n

theorem name_new_no_panic (s : Bytes) : Name.new s ≠ .panic := Name.new_ne_panic s

theorem name_new_err_iff (s : Bytes) : Name.new s = .err ↔ ¬ Spec.NameTextOK s :=
  Name.new_err_iff s

example : Name.new exDash = .ok [[115, 111, 109, 101, 45, 100, 97, 115, 104], exLocal] := by decide
example : Spec.NameTextOK exDash :=
  ((name_new_iff _ [[115, 111, 109, 101, 45, 100, 97, 115, 104], exLocal]).1 (by decide)).1
example : Name.new exDots = .ok [[97], [98, 45, 99], [95, 116, 99, 112]] := by decide
/-- the empty text and a text of dots only are the root name -/
example : Name.new [] = .ok [] ∧ Name.new [46] = .ok [] := by decide
example : Name.new exTrailHyphen = .err := by decide
example : ¬ Spec.NameTextOK exTrailHyphen := (name_new_err_iff _).1 (by decide)
example : Name.new exLeadHyphen = .err := by decide
example : Name.new exTrailUnderscore = .err := by decide
/-- a label of 64 bytes -/
example : Name.new (exA 64 ++ 46 :: exCom) = .err := by decide
/-- 63+63+63+61 letters: 255 bytes encoded, accepted -/
example : Name.new (exFour 61) = .ok [exA 63, exA 63, exA 63, exA 61] := by decide
/-- 63+63+63+62 letters: 256 bytes encoded, rejected although every label is valid -/
example : Name.new (exFour 62) = .err := by decide
example : ¬ Spec.NameTextOK (exFour 62) := (name_new_err_iff _).1 (by decide)

/-! ### 4. `Display` and re-creation -/

/-- `Display` joins the labels with single dots. -/
theorem display_eq_intercalate (n : Name) : Name.display n = [46].intercalate n :=
  Name.display_eq_intercalate n

/-- Splitting a dot-joined list of non-empty dot-free labels gives the labels back. -/
theorem split_labels_intercalate (ps : List Bytes) (h1 : ∀ p ∈ ps, p ≠ [])
    (h2 : ∀ p ∈ ps, (46 : UInt8) ∉ p) : splitLabels ([46].intercalate ps) = ps :=
  splitLabels_intercalate ps h1 h2

/-- Displaying an accepted name gives the text without its empty labels, and re-creating a name
from the displayed text gives an equal name. -/
theorem display_new (s : Bytes) (n : Name) (h : Name.new s = .ok n) :
    Name.display n = Spec.normalised s ∧ Name.new (Name.display n) = .ok n := by
  obtain ⟨hok, rfl⟩ := (name_new_iff s n).1 h
  have hd : Name.display (Spec.pieces s) = Spec.normalised s := Name.display_eq_intercalate _
  refine ⟨hd, ?_⟩
  rw [hd, name_new_iff, Spec.NameTextOK, Spec.pieces_normalised]
  exact ⟨hok, rfl⟩

example : Name.display [[97], [98, 45, 99], [95, 116, 99, 112]]
    = [97, 46, 98, 45, 99, 46, 95, 116, 99, 112] ∧
    Name.new [97, 46, 98, 45, 99, 46, 95, 116, 99, 112] = .ok [[97], [98, 45, 99], [95, 116, 99, 112]] :=
  display_new exDots _ (by decide)

/-! ### 5. `is_subdomain_of` -/

/-- `a` is a subdomain of `b` exactly when it has strictly more labels and ends with `b`'s. -/
theorem subdomain_iff (a b : Name) :
    a.isSubdomainOf b = true ↔ (b.length < a.length ∧ b <:+ a) :=
  Name.isSubdomainOf_iff a b

example : Name.isSubdomainOf [exSome, exLocal] [exLocal] = true := by decide
example : [exLocal].length < [exSome, exLocal].length ∧ [exLocal] <:+ [exSome, exLocal] :=
  (subdomain_iff _ _).1 (by decide)
/-- every non-root name is a subdomain of the root -/
example : Name.isSubdomainOf [exSome, exLocal] [] = true := by decide
/-- equal names: not a subdomain -/
example : Name.isSubdomainOf [exSome, exLocal] [exSome, exLocal] = false := by decide
/-- the comparison is on bytes: letter case matters -/
example : Name.isSubdomainOf [exSome, exLocal] [exLoCaL] = false := by decide
example : Name.isSubdomainOf [exSome, exLocal] [exCom] = false := by decide
example : Name.isSubdomainOf [exLocal] [exSome, exLocal] = false := by decide
/-- a prefix is not a suffix -/
example : Name.isSubdomainOf [exSome, exLocal] [exSome] = false := by decide

/-! ### 6. `without` -/

/-- `a.without(b)` returns `pre` exactly when `a` is `pre` followed by `b` and `pre` is not empty. -/
theorem without_iff (a b pre : Name) :
    a.without b = some pre ↔ (b.length < a.length ∧ a = pre ++ b) :=
  Name.without_eq_some_iff a b pre

/-- `a.without(b)` is `None` exactly when `a` is not a subdomain of `b`. -/
theorem without_none_iff (a b : Name) :
    a.without b = none ↔ ¬ (b.length < a.length ∧ b <:+ a) :=
  Name.without_eq_none_iff a b

example : Name.without [exSome, exCom, exLocal] [exLocal] = some [exSome, exCom] := by decide
example : Name.without [exSome, exLocal] [] = some [exSome, exLocal] := by decide
example : Name.without [exSome, exLocal] [exSome, exLocal] = none := by decide
example : Name.without [exSome, exLocal] [exCom] = none := by decide

/-! ### 7. `is_link_local` -/

/-- `to_ascii_lowercase` moves exactly `A`..`Z` to `a`..`z` and fixes every other byte. -/
theorem ascii_lower_spec (b : UInt8) :
    (asciiLower b).toNat = if 65 ≤ b.toNat ∧ b.toNat ≤ 90 then b.toNat + 32 else b.toNat :=
  asciiLower_spec b

/-- A name is link-local exactly when its last label lower-cases to `local`. -/
theorem link_local_iff (n : Name) :
    n.isLinkLocal = true ↔
      ∃ l, n.getLast? = some l ∧ l.map asciiLower = [108, 111, 99, 97, 108] :=
  Name.isLinkLocal_iff n

/-- The same, letter by letter: the last label is `l|L`, `o|O`, `c|C`, `a|A`, `l|L`. -/
theorem link_local_iff_letters (n : Name) :
    n.isLinkLocal = true ↔ ∃ c0 c1 c2 c3 c4 : UInt8, n.getLast? = some [c0, c1, c2, c3, c4] ∧
      (c0 = 108 ∨ c0 = 76) ∧ (c1 = 111 ∨ c1 = 79) ∧ (c2 = 99 ∨ c2 = 67) ∧
      (c3 = 97 ∨ c3 = 65) ∧ (c4 = 108 ∨ c4 = 76) :=
  Name.isLinkLocal_iff_letters n

example : Name.isLinkLocal [exSome, exLocal] = true := by decide
example : Name.isLinkLocal [exSome, exLoCaL] = true := by decide
example : Name.isLinkLocal [exLocal, exCom] = false := by decide
example : Name.isLinkLocal [] = false := by decide
/-- `loca` + `l` shifted by 32 the other way (`0x8C`) is not `local` -/
example : Name.isLinkLocal [[108, 111, 99, 97, 140]] = false := by decide

end Dns
