/-
Helper lemmas for properties C10 (RDATA layouts follow their RFCs) and C09
(EDNS(0) per RFC 6891): the model's encoders against the reference encoders of
Spec/RdataSchemas.lean and Spec/Rfc6891.lean, one-field decoding of a reference
encoding, and the rejection rules of the triple / character-string parsers.

Everything is in the namespace `Dns.Rfc` (the round-trip lemma files use some
of the same short names in `Dns`).
-/
import SimpleDnsModel.Lemmas.Name
import SimpleDnsModel.Lemmas.NoPanic
import SimpleDnsModel.Model.WF
import SimpleDnsModel.Spec.RdataSchemas
import SimpleDnsModel.Spec.Rfc6891
namespace Dns
namespace Rfc

/-! ### big-endian integers: `to_be_bytes` is "most significant octet first" -/

theorem ofNat_mod_256 (x : Nat) : UInt8.ofNat (x % 256) = UInt8.ofNat x := by
  apply UInt8.toNat_inj.mp
  simp [UInt8.toNat_ofNat']

/-- the low `k` octets of `n` determine its `w ≤ k` low octets -/
theorem octetsOf_mod (w k n : Nat) (h : w ≤ k) :
    Spec.octetsOf w (n % 256 ^ k) = Spec.octetsOf w n := by
  induction w with
  | zero => rfl
  | succ w ih =>
    simp only [Spec.octetsOf]
    rw [ih (by omega)]
    congr 2
    have hk : 256 ^ k = 256 ^ w * 256 ^ (k - w) := by
      rw [← Nat.pow_add]; congr 1; omega
    rw [hk, Nat.mod_mul_right_div_self]
    apply Nat.mod_mod_of_dvd
    have : k - w = (k - w - 1) + 1 := by omega
    rw [this, Nat.pow_succ]
    exact Nat.dvd_mul_left _ _

/-- The model's `to_be_bytes` is the reference "most significant octet first", for every `n`
(a value wider than the field loses its high octets in both). -/
theorem beN_eq_octetsOf (w n : Nat) : beN w n = Spec.octetsOf w n := by
  induction w generalizing n with
  | zero => rfl
  | succ w ih =>
    simp only [beN, Spec.octetsOf]
    rw [ih, octetsOf_mod w w n (Nat.le_refl _), ofNat_mod_256]

/-! ### names, character-strings, triples -/

theorem nameWrite_eq_encLabels (n : Name) : Name.write n = Spec.encLabels n := by
  induction n with
  | nil => rfl
  | cons l rest ih => simp [Name.write, Spec.encLabels, ih]

theorem encStrs_eq_encStrings (ss : List Bytes) : encStrs ss = Spec.encStrings ss := by
  induction ss with
  | nil => rfl
  | cons s ss ih => simp [encStrs, Spec.encStrings, CharStr.write, ih]

theorem encTlvs_eq_encTriples (kw lw : Nat) (xs : List (Nat × Bytes)) :
    encTlvs kw lw xs = Spec.encTriples kw lw xs := by
  induction xs with
  | nil => rfl
  | cons x xs ih =>
    obtain ⟨k, v⟩ := x
    simp [encTlvs, Spec.encTriples, ih, beN_eq_octetsOf]

/-- strictly increasing keys are already in the order the writer sorts them into -/
theorem sortByKey_of_increasing (xs : List (Nat × Bytes)) (h : KeysIncreasing xs) :
    sortByKey xs = xs := by
  induction xs with
  | nil => rfl
  | cons x xs ih =>
    cases xs with
    | nil => rfl
    | cons y ys =>
      simp only [KeysIncreasing] at h
      rw [sortByKey, ih h.2]
      simp [insertByKey, h.1]

/-- EDNS options: the model's (code, length, value) writer is RFC 6891's option list -/
theorem encTlvs22_eq_encodeOptions (xs : List (Nat × Bytes)) :
    encTlvs 2 2 xs = Spec.Rfc6891.encodeOptions xs := by
  induction xs with
  | nil => rfl
  | cons x xs ih =>
    obtain ⟨k, v⟩ := x
    simp only [encTlvs, Spec.Rfc6891.encodeOptions, ih, beN_eq_octetsOf, Spec.octetsOf]
    simp [ofNat_mod_256]

end Rfc
end Dns
