/-
Helper lemmas for properties C10 (RDATA layouts follow their RFCs) and C09
(EDNS(0) per RFC 6891): the model's encoders against the reference encoders of
Spec/RdataSchemas.lean and Spec/Rfc6891.lean, one-field decoding of a reference
encoding, and the rejection rules of the triple / character-string parsers.

Everything is in the namespace `Dns.Rfc` (the round-trip lemma files use some
of the same short names in `Dns`).
-/
import SimpleDnsModel.Lemmas.Name
import SimpleDnsModel.Lemmas.Framing
import SimpleDnsModel.Model.WF
import SimpleDnsModel.Spec.RdataSchemas
import SimpleDnsModel.Spec.Rfc6891
namespace Dns
namespace Rfc

/-! ### big-endian integers: `to_be_bytes` is "most significant octet first" -/

theorem ofNat_mod_256 (x : Nat) : UInt8.ofNat (x % 256) = UInt8.ofNat x := by
  apply UInt8.toNat_inj.mp
  simp [UInt8.toNat_ofNat']

/-- the low `k` octets of `n` determine its `w ≤ k` low octets -/
theorem octetsOf_mod (w k n : Nat) (h : w ≤ k) :
    Spec.octetsOf w (n % 256 ^ k) = Spec.octetsOf w n := by
  induction w with
  | zero => rfl
  | succ w ih =>
    simp only [Spec.octetsOf]
    rw [ih (by omega)]
    congr 2
    have hk : 256 ^ k = 256 ^ w * 256 ^ (k - w) := by
      rw [← Nat.pow_add]; congr 1; omega
    rw [hk, Nat.mod_mul_right_div_self]
    apply Nat.mod_mod_of_dvd
    have : k - w = (k - w - 1) + 1 := by omega
    rw [this, Nat.pow_succ]
    exact Nat.dvd_mul_left _ _

/-- The model's `to_be_bytes` is the reference "most significant octet first", for every `n`
(a value wider than the field loses its high octets in both). -/
theorem beN_eq_octetsOf (w n : Nat) : beN w n = Spec.octetsOf w n := by
  induction w generalizing n with
  | zero => rfl
  | succ w ih =>
    simp only [beN, Spec.octetsOf]
    rw [ih, octetsOf_mod w w n (Nat.le_refl _), ofNat_mod_256]

/-! ### names, character-strings, triples -/

theorem nameWrite_eq_encLabels (n : Name) : Name.write n = Spec.encLabels n := by
  induction n with
  | nil => rfl
  | cons l rest ih => simp [Name.write, Spec.encLabels, ih]

theorem encStrs_eq_encStrings (ss : List Bytes) : encStrs ss = Spec.encStrings ss := by
  induction ss with
  | nil => rfl
  | cons s ss ih => simp [encStrs, Spec.encStrings, CharStr.write, ih]

theorem encTlvs_eq_encTriples (kw lw : Nat) (xs : List (Nat × Bytes)) :
    encTlvs kw lw xs = Spec.encTriples kw lw xs := by
  induction xs with
  | nil => rfl
  | cons x xs ih =>
    obtain ⟨k, v⟩ := x
    simp [encTlvs, Spec.encTriples, ih, beN_eq_octetsOf]

/-- strictly increasing keys are already in the order the writer sorts them into -/
theorem sortByKey_of_increasing (xs : List (Nat × Bytes)) (h : KeysIncreasing xs) :
    sortByKey xs = xs := by
  induction xs with
  | nil => rfl
  | cons x xs ih =>
    cases xs with
    | nil => rfl
    | cons y ys =>
      simp only [KeysIncreasing] at h
      rw [sortByKey, ih h.2]
      simp [insertByKey, Nat.le_of_lt h.1]

/-- EDNS options: the model's (code, length, value) writer is RFC 6891's option list -/
theorem encTlvs22_eq_encodeOptions (xs : List (Nat × Bytes)) :
    encTlvs 2 2 xs = Spec.Rfc6891.encodeOptions xs := by
  induction xs with
  | nil => rfl
  | cons x xs ih =>
    obtain ⟨k, v⟩ := x
    simp only [encTlvs, Spec.Rfc6891.encodeOptions, ih, beN_eq_octetsOf, Spec.octetsOf]
    simp [ofNat_mod_256]

/-! ### writers succeed on well-formed values -/

theorem encTlvs_length (kw lw : Nat) (xs : List (Nat × Bytes)) :
    (encTlvs kw lw xs).length = (xs.map (fun x => x.2.length + kw + lw)).sum := by
  induction xs with
  | nil => rfl
  | cons x xs ih =>
    obtain ⟨k, v⟩ := x
    simp [encTlvs, ih]; omega

/-- `OPT::len()` is the length of the option list it writes -/
theorem opt_len (o : OptData) : (RData.opt o).len = (Spec.Rfc6891.encodeOptions o.codes).length := by
  rw [← encTlvs22_eq_encodeOptions, encTlvs_length]
  simp only [RData.len]

theorem RData.write_ok {rd : RData} (h : rd.WF) : ∃ b, rd.write = .ok b := by
  cases rd with
  | flat code vs =>
    obtain ⟨hs, hc, _⟩ := h
    unfold SchemaOK at hs
    split at hs
    · rename_i ks hks
      exact ⟨encAll ks vs, by simp [RData.write, hks, hc]⟩
    · cases hs
  | ipseckey => exact ⟨_, rfl⟩
  | opt => exact ⟨_, rfl⟩
  | null => exact ⟨_, rfl⟩
  | empty => exact ⟨_, rfl⟩

theorem RR.write_ok {r : RR} (h : r.WF) : ∃ b, r.write = .ok b := by
  obtain ⟨b, hb⟩ := RData.write_ok h.2.2.1
  exact ⟨Name.write r.name ++ (r.writeCommon ++ (beN 2 r.rdata.len ++ b)), by simp [RR.write, hb]⟩

theorem writeRRs_ok : ∀ {rs : List RR}, (∀ r ∈ rs, r.WF) → ∃ b, writeRRs rs = .ok b
  | [], _ => ⟨[], rfl⟩
  | r :: rs, h => by
    obtain ⟨a, ha⟩ := RR.write_ok (h r (by simp))
    obtain ⟨b, hb⟩ := writeRRs_ok (rs := rs) (fun x hx => h x (by simp [hx]))
    exact ⟨a ++ b, by simp [writeRRs, ha, hb]⟩

/-! ### reading triples: what a successful read says about the bytes -/

theorem slice_val {d s : Bytes} {a b : Nat} (h : slice d a b = .ok s) :
    a ≤ b ∧ b ≤ d.length ∧ s = (d.drop a).take (b - a) := by
  unfold slice at h
  split at h
  · rename_i hc; cases h; exact ⟨hc.1, hc.2, rfl⟩
  · cases h

theorem take_take_drop (l : Bytes) (a m n : Nat) :
    (l.drop a).take m ++ (l.drop (a + m)).take n = (l.drop a).take (m + n) := by
  rw [List.take_add, List.drop_drop]

/-- what a successfully read triple says about the bytes it was read from -/
theorem tlvOne_bytes {b : Bytes} {kw lw : Nat} {strict : Bool} {prev : Option Nat} {pos : Nat}
    {k : Nat} {v : Bytes} {p : Nat} (h : tlvOne b kw lw strict prev pos = .ok ((k, v), p)) :
    p = pos + kw + lw + v.length ∧ p ≤ b.length ∧
    (b.drop pos).take (kw + lw + v.length) = beN kw k ++ (beN lw v.length ++ v) ∧
    k < 256 ^ kw ∧ v.length < 256 ^ lw ∧
    (strict = true → ∀ q, prev = some q → q < k) := by
  unfold tlvOne at h
  split at h
  · cases h
  · obtain ⟨kb, hkb, h⟩ := Out.bind_eq_ok h
    obtain ⟨lb, hlb, h⟩ := Out.bind_eq_ok h
    split at h
    · cases h
    · rename_i hstrict
      split at h
      · cases h
      · rename_i hfit
        obtain ⟨v', hv, h⟩ := Out.bind_eq_ok h
        simp only [Out.pure_eq, Out.ok.injEq, Prod.mk.injEq] at h
        obtain ⟨⟨hk, hvv⟩, hp⟩ := h
        subst hvv
        obtain ⟨_, _, hkb'⟩ := slice_val hkb
        obtain ⟨_, _, hlb'⟩ := slice_val hlb
        obtain ⟨_, _, hv'⟩ := slice_val hv
        have hkl : kb.length = kw := by rw [slice_length hkb]; omega
        have hll : lb.length = lw := by rw [slice_length hlb]; omega
        have hvl : v'.length = deN lb := by rw [slice_length hv]; omega
        refine ⟨by omega, by omega, ?_, ?_, ?_, ?_⟩
        · have e1 : beN kw (deN kb) = (b.drop pos).take kw := by
            have := beN_deN kb
            rw [hkl] at this
            rw [this, hkb', show pos + kw - pos = kw by omega]
          have e2 : beN lw (deN lb) = (b.drop (pos + kw)).take lw := by
            have := beN_deN lb
            rw [hll] at this
            rw [this, hlb', show pos + kw + lw - (pos + kw) = lw by omega]
          have e3 : v' = (b.drop (pos + kw + lw)).take (deN lb) := by
            rw [hv', show pos + kw + lw + deN lb - (pos + kw + lw) = deN lb by omega]
          rw [← hk, hvl, e1, e2]
          generalize deN lb = L at *
          rw [e3, take_take_drop, take_take_drop, Nat.add_assoc]
        · rw [← hk, ← hkl]; exact deN_lt kb
        · rw [hvl, ← hll]; exact deN_lt lb
        · intro hs q hq
          subst hq hs
          simp [keyNotAfter] at hstrict
          omega

/-- a successful option loop: the bytes from `pos` to the end of the buffer are the encoding of
the options it returns (after those already accumulated) -/
theorem optLoop_bytes {b : Bytes} {pos : Nat} {acc xs : List (Nat × Bytes)} {p : Nat}
    (hp : pos ≤ b.length) (h : optLoop b pos acc = .ok (xs, p)) :
    ∃ ys, xs = acc.reverse ++ ys ∧ b.drop pos = encTlvs 2 2 ys ∧
      (∀ y ∈ ys, y.1 < 65536 ∧ y.2.length < 65536) ∧ p = b.length := by
  induction hn : b.length - pos using Nat.strongRecOn generalizing pos acc with
  | _ n ih =>
    rw [optLoop] at h
    split at h
    · split at h
      · rename_i x p' hone
        obtain ⟨k, v⟩ := x
        obtain ⟨hp', hle, hbytes, hk, hv, _⟩ := tlvOne_bytes hone
        obtain ⟨ys, hxs, hdrop, hall, hend⟩ := ih (b.length - p') (by omega) hle h rfl
        refine ⟨(k, v) :: ys, by simp [hxs], ?_, ?_, hend⟩
        · rw [← List.take_append_drop (2 + 2 + v.length) (b.drop pos), hbytes, List.drop_drop,
            show pos + (2 + 2 + v.length) = p' by omega, hdrop]
          simp [encTlvs]
        · intro y hy
          rcases List.mem_cons.mp hy with rfl | hy
          · exact ⟨hk, hv⟩
          · exact hall y hy
      · cases h
      · cases h
    · cases h
      exact ⟨[], by simp, by simp [encTlvs]; omega, by simp, by omega⟩

/-! ### the OPT pseudo-record as parsed, against the walked entry -/

theorem version_bits (t : Nat) : ((t &&& 0xFF00) >>> 8) % 256 = t / 256 % 256 := by
  rw [Nat.shiftRight_and_distrib]
  have : (0xFF00 >>> 8 : Nat) = 2 ^ 8 - 1 := by decide
  rw [this, Nat.and_two_pow_sub_one_eq_mod, Nat.shiftRight_eq_div_pow]
  simp

theorem ofCode_eq_OPT {t : Nat} (h : TYPE.ofCode t = .OPT) : t = 41 := by
  have : (TYPE.ofCode t).toCode = t := by unfold TYPE.ofCode; split <;> rfl
  rw [h] at this
  exact this.symm

theorem walkRecord_fields {d : Bytes} {off : Nat} {e : Spec.REntry}
    (h : Spec.walkRecord d off = some e) :
    e.off = off ∧ Spec.skipName d (d.length + 1) off = some e.nameEnd ∧
    Spec.field d e.nameEnd 2 = some e.type ∧ Spec.field d (e.nameEnd + 2) 2 = some e.cls ∧
    Spec.field d (e.nameEnd + 4) 4 = some e.ttl ∧ Spec.field d (e.nameEnd + 8) 2 = some e.rdlen ∧
    e.nameEnd + 10 + e.rdlen ≤ d.length := by
  unfold Spec.walkRecord at h
  simp only [Option.bind_eq_bind, Option.bind_eq_some_iff] at h
  obtain ⟨ne, hne, t, ht, c, hc, ttl, httl, l, hl, h⟩ := h
  split at h
  · rename_i hle
    simp only [Option.pure_def, Option.some.injEq] at h
    subst h
    exact ⟨rfl, hne, ht, hc, httl, hl, hle⟩
  · cases h

/-- what a parsed record with OPT content has to do with the walked entry at its offset:
TYPE 41, UDP size = the CLASS field, version = the second-lowest TTL octet (the library's
position), and the RDLENGTH bytes of RDATA are RFC 6891's encoding of the parsed options -/
def OptOK (d : Bytes) (r : RR) (e : Spec.REntry) : Prop :=
  ∀ o, r.rdata = .opt o →
    e.type = 41 ∧ r.cls = .IN ∧ r.flush = false ∧ o.udp = e.cls ∧ o.version = e.ttl / 256 % 256 ∧
    (d.drop e.rdStart).take e.rdlen = Spec.Rfc6891.encodeOptions o.codes ∧
    (∀ y ∈ o.codes, y.1 < 65536 ∧ y.2.length < 65536)

theorem RR.parse_optOK {d : Bytes} {off : Nat} {r : RR} {p : Nat} {e : Spec.REntry}
    (h : RR.parse d off = .ok (r, p)) (he : Spec.walkRecord d off = some e) : OptOK d r e := by
  intro o ho
  obtain ⟨_, hskip, hty, hcls, httl, hlen, hfit⟩ := walkRecord_fields he
  unfold RR.parse at h
  obtain ⟨⟨name, q⟩, hname, h⟩ := Out.bind_eq_ok h
  dsimp only at h
  have hq : q = e.nameEnd := by
    have := Framing.skipName_of_parse hname
    rw [hskip] at this
    exact (Option.some.inj this).symm
  subst hq
  split at h
  · cases h
  · obtain ⟨cb, hcb, h⟩ := Out.bind_eq_ok h
    obtain ⟨tb, htb, h⟩ := Out.bind_eq_ok h
    obtain ⟨⟨rdata, p'⟩, hrd, h⟩ := Out.bind_eq_ok h
    dsimp only at h
    have hrdata : rdata = .opt o ∧ r.cls = .IN ∧ r.flush = false := by
      split at h
      · cases h; exact ⟨ho, rfl, rfl⟩
      · rename_i hno
        obtain ⟨cls, _, h⟩ := Out.bind_eq_ok h
        cases h
        simp only at ho
        rw [ho] at hno
        exact absurd rfl hno
    obtain ⟨hrdata, hcls', hflush⟩ := hrdata
    subst hrdata
    -- the type field says OPT
    obtain ⟨t, l, ht, hl, _, _, htyp⟩ := Framing.RData.parse_frame hrd
    rw [hty] at ht
    rw [hlen] at hl
    cases ht; cases hl
    have h41 : e.type = 41 := ofCode_eq_OPT htyp.symm
    rw [Framing.RData.parse_eq_rdataOn hlen hfit] at hrd
    unfold Framing.rdataOn at hrd
    have htake : deN (List.take 2 (List.drop e.nameEnd (List.take (e.nameEnd + 10 + e.rdlen) d)))
        = e.type := by
      have := Framing.field_take (d := d) (a := e.nameEnd) (w := 2) (k := e.nameEnd + 10 + e.rdlen)
        (by omega) hfit
      rw [hty, Framing.field_eq (by simp; omega)] at this
      exact Option.some.inj this
    simp only [htake, h41] at hrd
    rw [if_pos (by decide)] at hrd
    unfold optParse at hrd
    split at hrd
    · cases hrd
    · obtain ⟨ub, hub, hrd⟩ := Out.bind_eq_ok hrd
      obtain ⟨tb2, htb2, hrd⟩ := Out.bind_eq_ok hrd
      dsimp only at hrd
      obtain ⟨⟨codes, pc⟩, hloop, hrd⟩ := Out.bind_eq_ok hrd
      simp only [Out.pure_eq, Out.ok.injEq, Prod.mk.injEq, RData.opt.injEq] at hrd
      obtain ⟨ho', _⟩ := hrd
      subst ho'
      have hu : Spec.field d (e.nameEnd + 2) 2 = some (deN ub) := by
        rw [← Framing.field_take (k := e.nameEnd + 10 + e.rdlen) (by omega) hfit]
        exact Framing.field_of_slice rfl hub
      have ht4 : Spec.field d (e.nameEnd + 4) 4 = some (deN tb2) := by
        rw [← Framing.field_take (k := e.nameEnd + 10 + e.rdlen) (by omega) hfit]
        exact Framing.field_of_slice rfl htb2
      rw [hcls] at hu
      rw [httl] at ht4
      have hu := Option.some.inj hu
      have ht4 := Option.some.inj ht4
      obtain ⟨ys, hxs, hdrop, hall, _⟩ := optLoop_bytes (by simp; omega) hloop
      simp only [List.reverse_nil, List.nil_append] at hxs
      subst hxs
      refine ⟨h41, hcls', hflush, hu.symm, by rw [← ht4]; exact version_bits _, ?_, hall⟩
      rw [← encTlvs22_eq_encodeOptions, ← hdrop, List.drop_take]
      simp [Spec.REntry.rdStart]

theorem parseRRs_optOK {d : Bytes} {n off : Nat} {rs : List RR} {p : Nat}
    (h : parseRRs d n off = .ok (rs, p)) {es : List Spec.REntry} {p' : Nat}
    (hes : Spec.walkRecords d n off = some (es, p')) : Framing.Corr (OptOK d) rs es := by
  induction n generalizing off rs p es p' with
  | zero =>
    simp only [parseRRs] at h
    simp only [Spec.walkRecords, Option.some.injEq, Prod.mk.injEq] at hes
    cases h; rw [← hes.1]
    exact Framing.Corr.nil
  | succ n ih =>
    simp only [parseRRs] at h
    obtain ⟨⟨r, q⟩, hr, h⟩ := Out.bind_eq_ok h
    dsimp only at h
    obtain ⟨⟨rs', q'⟩, hrs, h⟩ := Out.bind_eq_ok h
    cases h
    obtain ⟨e, he, _, hq, _⟩ := Framing.RR.parse_frame hr
    subst hq
    simp only [Spec.walkRecords, he, Option.bind_eq_bind, Option.bind_some,
      Option.bind_eq_some_iff] at hes
    obtain ⟨⟨es', p''⟩, hes', hes⟩ := hes
    simp only [Option.pure_def, Option.some.injEq, Prod.mk.injEq] at hes
    rw [← hes.1]
    exact Framing.Corr.cons (RR.parse_optOK hr he) (ih hrs hes')

/-! ### decoding a reference encoding, one field at a time

`d = pre ++ (encoding ++ post)`, cursor at `pre.length`: the reader returns the value and the
cursor just past the encoding. Kinds that read to the end of the RDATA take `post = []`. -/

theorem slice_at {d a m z : Bytes} {x y : Nat} (hd : d = a ++ (m ++ z)) (hx : x = a.length)
    (hy : y = a.length + m.length) : slice d x y = .ok m := by
  subst hd; exact slice_mid a m z x y hx hy

theorem idx_at {d a z : Bytes} {b : UInt8} {x : Nat} (hd : d = a ++ (b :: z)) (hx : x = a.length) :
    idx d x = .ok b := by
  subst hd hx; simp [idx]

theorem decode_int (pre post : Bytes) (w n : Nat) (h : n < 256 ^ w) :
    decField (pre ++ (beN w n ++ post)) (.int w) pre.length = .ok (.int n, pre.length + w) := by
  simp only [decField]
  rw [if_neg (by simp), slice_at (a := pre) (m := beN w n) (z := post) rfl rfl (by simp)]
  simp [deN_beN w n h]

theorem charStr_decode (pre s post : Bytes) (hs : s.length ≤ 255) :
    CharStr.parse (pre ++ (CharStr.write s ++ post)) pre.length
      = .ok (s, pre.length + (s.length + 1)) := by
  have hlb : (UInt8.ofNat s.length).toNat = s.length := by
    simp [UInt8.toNat_ofNat']; omega
  unfold CharStr.parse
  rw [if_neg (by simp [CharStr.write])]
  rw [idx_at (b := UInt8.ofNat s.length) (a := pre) (z := s ++ post) (by simp [CharStr.write]) rfl]
  simp only [Out.bind_ok, hlb]
  rw [if_neg (by simp [CharStr.write]; omega)]
  rw [slice_at (a := pre ++ [UInt8.ofNat s.length]) (m := s) (z := post)
    (by simp [CharStr.write]) (by simp) (by simp)]
  simp only [Out.bind_ok, Out.pure_eq]
  congr 2

theorem decode_charstr (pre s post : Bytes) (hs : s.length ≤ 255) :
    decField (pre ++ (CharStr.write s ++ post)) .charstr pre.length
      = .ok (.bytes s, pre.length + (s.length + 1)) := by
  simp [decField, charStr_decode pre s post hs]

theorem decode_name (pre post : Bytes) (c : Bool) (n : Name) (h : Name.WF n) :
    decField (pre ++ (Name.write n ++ post)) (.name c) pre.length
      = .ok (.name n, pre.length + Name.wireLen n) := by
  simp [decField, Name.parse_write h pre post]

theorem decode_rest (pre b : Bytes) :
    decField (pre ++ b) .rest pre.length = .ok (.bytes b, pre.length + b.length) := by
  simp only [decField]
  rw [slice_at (a := pre) (m := b) (z := []) (by simp) rfl (by simp)]
  simp

theorem strsLoop_decode (ss : List Bytes) : ∀ (pre : Bytes) (acc : List Bytes),
    (∀ s ∈ ss, s.length ≤ 255) →
    strsLoop (pre ++ encStrs ss) pre.length acc
      = .ok (acc.reverse ++ ss, pre.length + (encStrs ss).length) := by
  induction ss with
  | nil =>
    intro pre acc _
    rw [strsLoop]
    simp [encStrs]
  | cons s ss ih =>
    intro pre acc hs
    have h1 := charStr_decode pre s (encStrs ss) (hs s (by simp))
    have h2 := ih (pre ++ CharStr.write s) (s :: acc) (fun x hx => hs x (by simp [hx]))
    simp only [encStrs]
    rw [strsLoop]
    rw [dif_pos (by simp [CharStr.write])]
    split
    · rename_i s' p' hcs
      rw [h1] at hcs
      cases hcs
      have e : pre ++ (CharStr.write s ++ encStrs ss) = (pre ++ CharStr.write s) ++ encStrs ss := by
        simp
      have e2 : pre.length + (s.length + 1) = (pre ++ CharStr.write s).length := by
        simp [CharStr.write]
      rw [e, e2, h2]
      simp [CharStr.write]; omega
    · rename_i hcs; rw [h1] at hcs; cases hcs
    · rename_i hcs; rw [h1] at hcs; cases hcs

theorem decode_strs (pre : Bytes) (ss : List Bytes) (hs : ∀ s ∈ ss, s.length ≤ 255) :
    decField (pre ++ encStrs ss) .strs pre.length
      = .ok (.strs ss, pre.length + (encStrs ss).length) := by
  simp [decField, strsLoop_decode ss pre [] hs]

theorem tlvOne_decode (pre : Bytes) (kw lw k : Nat) (v post : Bytes) (strict : Bool)
    (prev : Option Nat) (hk : k < 256 ^ kw) (hv : v.length < 256 ^ lw)
    (hord : (strict && keyNotAfter prev k) = false) :
    tlvOne (pre ++ (beN kw k ++ (beN lw v.length ++ (v ++ post)))) kw lw strict prev pre.length
      = .ok ((k, v), pre.length + kw + lw + v.length) := by
  unfold tlvOne
  rw [if_neg (by simp; omega)]
  rw [slice_at (a := pre) (m := beN kw k) (z := beN lw v.length ++ (v ++ post)) rfl rfl (by simp)]
  simp only [Out.bind_ok]
  rw [slice_at (a := pre ++ beN kw k) (m := beN lw v.length) (z := v ++ post) (by simp) (by simp)
    (by simp)]
  simp only [Out.bind_ok, deN_beN kw k hk, deN_beN lw v.length hv, hord]
  rw [if_neg (by simp)]
  rw [if_neg (by simp; omega)]
  rw [slice_at (a := pre ++ (beN kw k ++ beN lw v.length)) (m := v) (z := post) (by simp)
    (by simp; omega) (by simp; omega)]
  simp

/-- the ordering premise of the strict loop: the keys still to be read increase, starting above
the key read last -/
def KeysAfter (acc xs : List (Nat × Bytes)) : Prop :=
  KeysIncreasing xs ∧ ∀ a ∈ acc.head?, ∀ x ∈ xs.head?, a.1 < x.1

theorem tlvsLoop_decode (kw lw : Nat) (strict : Bool) (hkl : 0 < kw + lw)
    (xs : List (Nat × Bytes)) : ∀ (pre : Bytes) (acc : List (Nat × Bytes)),
    (∀ x ∈ xs, x.1 < 256 ^ kw ∧ x.2.length < 256 ^ lw) →
    (strict = true → KeysAfter acc xs) →
    tlvsLoop (pre ++ encTlvs kw lw xs) kw lw strict pre.length acc
      = .ok (acc.reverse ++ xs, pre.length + (encTlvs kw lw xs).length) := by
  induction xs with
  | nil =>
    intro pre acc _ _
    rw [tlvsLoop]
    rw [dif_neg (by omega)]
    simp [encTlvs]
  | cons x xs ih =>
    intro pre acc hx hord
    obtain ⟨k, v⟩ := x
    have hkv := hx (k, v) (by simp)
    simp only at hkv
    have hord1 : (strict && keyNotAfter (acc.head?.map (·.1)) k) = false := by
      cases strict
      · rfl
      · obtain ⟨_, h2⟩ := hord rfl
        cases hacc : acc.head? with
        | none => simp [keyNotAfter]
        | some a =>
          have := h2 a (by simp [hacc]) (k, v) (by simp)
          simp [keyNotAfter]; omega
    have h1 := tlvOne_decode pre kw lw k v (encTlvs kw lw xs) strict (acc.head?.map (·.1))
      hkv.1 hkv.2 hord1
    have h2 := ih (pre ++ (beN kw k ++ (beN lw v.length ++ v))) ((k, v) :: acc)
      (fun y hy => hx y (by simp [hy]))
      (by
        intro hs
        obtain ⟨hinc, _⟩ := hord hs
        cases xs with
        | nil => exact ⟨trivial, by simp⟩
        | cons y ys =>
          simp only [KeysIncreasing] at hinc
          exact ⟨hinc.2, by simpa using hinc.1⟩)
    simp only [encTlvs]
    rw [tlvsLoop]
    rw [dif_neg (by omega)]
    rw [dif_pos (by
      have : 0 < (beN kw k ++ (beN lw v.length ++ (v ++ encTlvs kw lw xs))).length := by
        simp; omega
      simp only [List.length_append] at this ⊢; omega)]
    split
    · rename_i x' p' hone
      rw [h1] at hone
      cases hone
      have e : pre ++ (beN kw k ++ (beN lw v.length ++ (v ++ encTlvs kw lw xs)))
          = (pre ++ (beN kw k ++ (beN lw v.length ++ v))) ++ encTlvs kw lw xs := by simp
      have e2 : pre.length + kw + lw + v.length
          = (pre ++ (beN kw k ++ (beN lw v.length ++ v))).length := by simp; omega
      rw [e, e2, h2]
      simp; omega
    · rename_i hone; rw [h1] at hone; cases hone
    · rename_i hone; rw [h1] at hone; cases hone

theorem decode_tlvs (pre : Bytes) (kw lw : Nat) (strict : Bool) (hkl : 0 < kw + lw)
    (xs : List (Nat × Bytes)) (hx : ∀ x ∈ xs, x.1 < 256 ^ kw ∧ x.2.length < 256 ^ lw)
    (hinc : strict = true → KeysIncreasing xs) :
    decField (pre ++ encTlvs kw lw xs) (.tlvs kw lw strict) pre.length
      = .ok (.tlvs xs, pre.length + (encTlvs kw lw xs).length) := by
  simp [decField, tlvsLoop_decode kw lw strict hkl xs pre [] hx
    (fun hs => ⟨hinc hs, by simp⟩)]

/-- kinds that read up to the end of the RDATA -/
def tailKind : FKind → Bool
  | .rest | .strs | .tlvs .. => true
  | _ => false

/-- every field that reads to the end of the RDATA is the last one -/
def tailLast : List FKind → Bool
  | [] => true
  | [_] => true
  | k :: ks => !tailKind k && tailLast ks

/-- One field of a reference encoding is read back as the value, with the cursor just past it;
a field that reads to the end of the RDATA must be followed by nothing. -/
theorem decode_field (k : FKind) (v : Val) (pre post : Bytes) (hv : FieldOK k v) (hs : k.Safe)
    (ht : tailKind k = true → post = []) :
    decField (pre ++ (encField k v ++ post)) k pre.length
      = .ok (v, pre.length + (encField k v).length) := by
  cases k <;> cases v <;> simp only [FieldOK] at hv
  · simpa [encField] using decode_int pre post _ _ hv
  · simpa [encField, CharStr.write] using decode_charstr pre _ post hv
  · simpa [encField, Name.write_length] using decode_name pre post _ _ hv
  · rw [ht rfl]; simpa [encField] using decode_rest pre _
  · rename_i ss
    have : ss.isEmpty = false := by
      cases ss with
      | nil => exact absurd rfl hv.1
      | cons _ _ => rfl
    rw [ht rfl]; simpa [encField, this] using decode_strs pre ss hv.2
  · rename_i kw lw strict xs
    have hsort : (if strict = true then sortByKey xs else xs) = xs := by
      cases strict with
      | false => rfl
      | true => simp [sortByKey_of_increasing xs (hv.2 rfl)]
    rw [ht rfl]
    simp only [encField, hsort, List.append_nil]
    exact decode_tlvs pre kw lw strict hs xs hv.1 hv.2

theorem decode_all (ks : List FKind) : ∀ (vs : List Val) (pre : Bytes), AllOK ks vs →
    (∀ k ∈ ks, k.Safe) → tailLast ks = true →
    decAll (pre ++ encAll ks vs) ks pre.length = .ok (vs, pre.length + (encAll ks vs).length) := by
  induction ks with
  | nil =>
    intro vs pre hok _ _
    cases vs with
    | nil => simp [decAll, encAll]
    | cons _ _ => simp [AllOK] at hok
  | cons k ks ih =>
    intro vs pre hok hsafe htl
    cases vs with
    | nil => simp [AllOK] at hok
    | cons v vs =>
      simp only [AllOK] at hok
      have htail : tailKind k = true → encAll ks vs = [] := by
        intro hk
        cases ks with
        | nil => cases vs <;> rfl
        | cons k' ks' => simp [tailLast, hk] at htl
      have htl' : tailLast ks = true := by
        cases ks with
        | nil => rfl
        | cons k' ks' => simp [tailLast] at htl; exact htl.2
      have h1 := decode_field k v pre (encAll ks vs) hok.1 (hsafe k (by simp)) htail
      have h2 := ih vs (pre ++ encField k v) hok.2 (fun x hx => hsafe x (by simp [hx])) htl'
      simp only [decAll, encAll, h1, Out.bind_ok]
      have e : pre ++ (encField k v ++ encAll ks vs) = (pre ++ encField k v) ++ encAll ks vs := by
        simp
      have e2 : pre.length + (encField k v).length = (pre ++ encField k v).length := by simp
      rw [e, e2, h2]
      simp; omega

/-! ### a whole RDATA, a whole record body -/

theorem type_toCode_ofCode (c : Nat) : (TYPE.ofCode c).toCode = c := by
  unfold TYPE.ofCode; split <;> rfl

theorem parseTyped_flat (d : Bytes) (pos code : Nat) (ks : List FKind)
    (h : schemaOf code = some ks) :
    parseTyped d pos (TYPE.ofCode code) = (do
      let (vs, p) ← decAll d ks pos
      if flatCheck code vs then pure (.flat code vs, p) else .err) := by
  unfold schemaOf at h
  split at h <;> first | (cases h; rfl) | cases h

/-- the first field of a row always occupies at least one octet -/
def minOne : FKind → Bool
  | .int w => decide (0 < w)
  | .charstr | .name _ | .strs => true
  | _ => false

theorem schemaOf_shape {code : Nat} {ks : List FKind} (h : schemaOf code = some ks) :
    tailLast ks = true ∧ (∃ k ks', ks = k :: ks' ∧ minOne k = true) ∧ code < 65536 ∧
    TYPE.ofCode code ≠ .OPT := by
  unfold schemaOf at h
  split at h <;> first
    | (cases h; exact ⟨by decide, ⟨_, _, rfl, by decide⟩, by decide, by decide⟩)
    | cases h

theorem encField_pos {k : FKind} {v : Val} (hv : FieldOK k v) (hm : minOne k = true) :
    0 < (encField k v).length := by
  cases k with
  | int w =>
    cases v <;> simp only [FieldOK] at hv
    simpa [encField, minOne] using hm
  | charstr =>
    cases v <;> simp only [FieldOK] at hv
    simp [encField, CharStr.write]
  | name c =>
    cases v <;> simp only [FieldOK] at hv
    rename_i n; cases n <;> simp [encField, Name.write]
  | strs =>
    cases v <;> simp only [FieldOK] at hv
    rename_i ss
    cases ss with
    | nil => exact absurd rfl hv.1
    | cons s ss => simp [encField, encStrs, CharStr.write]
  | rest => simp [minOne] at hm
  | tlvs => simp [minOne] at hm

theorem encAll_pos {code : Nat} {ks : List FKind} {vs : List Val} (h : schemaOf code = some ks)
    (hok : AllOK ks vs) : 0 < (encAll ks vs).length := by
  obtain ⟨_, ⟨k, ks', rfl, hm⟩, _⟩ := schemaOf_shape h
  cases vs with
  | nil => simp [AllOK] at hok
  | cons v vs =>
    have := encField_pos hok.1 hm
    simp [encAll]; omega

/-- the typed RDATA parser on the reference encoding of the fields -/
theorem parseTyped_enc {code : Nat} {ks : List FKind} {vs : List Val} (pre : Bytes)
    (hs : schemaOf code = some ks) (hok : AllOK ks vs) (hc : flatCheck code vs = true) :
    parseTyped (pre ++ encAll ks vs) pre.length (TYPE.ofCode code)
      = .ok (.flat code vs, pre.length + (encAll ks vs).length) := by
  rw [parseTyped_flat _ _ _ _ hs, decode_all ks vs pre hok (schemaOf_safe hs) (schemaOf_shape hs).1]
  simp [hc]

/-- `RData.parse` at the TYPE field of a record body: TYPE = the type's number, any CLASS and TTL
octets, RDLENGTH = the length of the reference encoding, the encoding, then anything -/
theorem rdataParse_enc {code : Nat} {ks : List FKind} {vs : List Val} (pre cb tb post : Bytes)
    (hcb : cb.length = 2) (htb : tb.length = 4)
    (hs : schemaOf code = some ks) (hok : AllOK ks vs) (hc : flatCheck code vs = true)
    (hlen : (encAll ks vs).length < 65536) :
    RData.parse (pre ++ (beN 2 code ++ (cb ++ (tb ++ (beN 2 (encAll ks vs).length ++
        (encAll ks vs ++ post)))))) pre.length
      = .ok (.flat code vs, pre.length + 10 + (encAll ks vs).length) := by
  obtain ⟨_, _, hcode, hnopt⟩ := schemaOf_shape hs
  have hpos := encAll_pos hs hok
  generalize hrd : encAll ks vs = rd at *
  unfold RData.parse
  rw [if_neg (by simp; omega)]
  rw [slice_at (a := pre) (m := beN 2 code) (z := cb ++ (tb ++ (beN 2 rd.length ++ (rd ++ post))))
    rfl rfl (by simp)]
  simp only [Out.bind_ok]
  rw [slice_at (a := pre ++ (beN 2 code ++ (cb ++ tb))) (m := beN 2 rd.length) (z := rd ++ post)
    (by simp) (by simp; omega) (by simp; omega)]
  simp only [Out.bind_ok, deN_beN 2 code (by simpa using hcode), deN_beN 2 rd.length (by simpa using hlen)]
  rw [if_neg (by simp; omega), if_neg hnopt, if_neg (by omega)]
  have htake : List.take (pre.length + 10 + rd.length)
      (pre ++ (beN 2 code ++ (cb ++ (tb ++ (beN 2 rd.length ++ (rd ++ post))))))
      = (pre ++ (beN 2 code ++ (cb ++ (tb ++ beN 2 rd.length)))) ++ rd := by
    have e : pre ++ (beN 2 code ++ (cb ++ (tb ++ (beN 2 rd.length ++ (rd ++ post)))))
        = ((pre ++ (beN 2 code ++ (cb ++ (tb ++ beN 2 rd.length)))) ++ rd) ++ post := by simp
    rw [e]
    exact List.take_left' (by simp; omega)
  have hpl : pre.length + 10 = (pre ++ (beN 2 code ++ (cb ++ (tb ++ beN 2 rd.length)))).length := by
    simp; omega
  simp only [htake]
  rw [hpl, ← hrd, parseTyped_enc _ hs hok hc]
  simp

/-! ### rejection: lengths that overrun the RDATA, keys that do not increase -/

/-- a <character-string> whose length octet announces more than what remains -/
theorem charStr_overrun {d : Bytes} {pos : Nat} (h : pos < d.length)
    (hl : d[pos].toNat + pos + 1 > d.length) : CharStr.parse d pos = .err := by
  unfold CharStr.parse
  rw [if_neg (by omega), idx_ok h]
  simp only [Out.bind_ok]
  rw [if_pos (Or.inr hl)]

theorem charStr_at_end {d : Bytes} {pos : Nat} (h : pos ≥ d.length) :
    CharStr.parse d pos = .err := by
  unfold CharStr.parse; rw [if_pos h]

/-- the (key, length) head of a triple does not fit in what remains -/
theorem tlvOne_overrun_head {d : Bytes} {kw lw : Nat} {strict : Bool} {prev : Option Nat}
    {pos : Nat} (h : pos + kw + lw > d.length) : tlvOne d kw lw strict prev pos = .err := by
  unfold tlvOne; rw [if_pos h]

/-- the length field of a triple announces more than what remains -/
theorem tlvOne_overrun_value {d : Bytes} {kw lw : Nat} {strict : Bool} {prev : Option Nat}
    {pos : Nat} (h : pos + kw + lw + deN ((d.drop (pos + kw)).take lw) > d.length) :
    tlvOne d kw lw strict prev pos = .err := by
  unfold tlvOne
  split
  · rfl
  · rename_i hfit
    rw [slice_ok (by omega) (by omega), slice_ok (by omega) (by omega)]
    simp only [Out.bind_ok]
    split
    · rfl
    · rw [show pos + kw + lw - (pos + kw) = lw by omega, if_pos h]

/-- strict order: a key that is not greater than the previous one -/
theorem tlvOne_key_not_increasing {d : Bytes} {kw lw : Nat} {prev pos : Nat}
    (h : deN ((d.drop pos).take kw) ≤ prev) : tlvOne d kw lw true (some prev) pos = .err := by
  unfold tlvOne
  split
  · rfl
  · rename_i hfit
    rw [slice_ok (by omega) (by omega), slice_ok (by omega) (by omega)]
    simp only [Out.bind_ok]
    rw [show pos + kw - pos = kw by omega, if_pos (by simp [keyNotAfter, h])]

/-- the loops stop with `Err` as soon as the element reader does -/
theorem strsLoop_err {d : Bytes} {pos : Nat} {acc : List Bytes} (hp : pos < d.length)
    (h : CharStr.parse d pos = .err) : strsLoop d pos acc = .err := by
  rw [strsLoop, dif_pos hp]
  split
  · rename_i hcs; rw [h] at hcs; cases hcs
  · rfl
  · rename_i hcs; rw [h] at hcs; cases hcs

theorem tlvsLoop_err {d : Bytes} {kw lw : Nat} {strict : Bool} {pos : Nat}
    {acc : List (Nat × Bytes)} (hkl : 0 < kw + lw) (hp : pos < d.length)
    (h : tlvOne d kw lw strict (acc.head?.map (·.1)) pos = .err) :
    tlvsLoop d kw lw strict pos acc = .err := by
  rw [tlvsLoop, dif_neg (by omega), dif_pos hp]
  split
  · rename_i hone; rw [h] at hone; cases hone
  · rfl
  · rename_i hone; rw [h] at hone; cases hone

theorem optLoop_err {d : Bytes} {pos : Nat} {acc : List (Nat × Bytes)} (hp : pos < d.length)
    (h : tlvOne d 2 2 false none pos = .err) : optLoop d pos acc = .err := by
  rw [optLoop, dif_pos hp]
  split
  · rename_i hone; rw [h] at hone; cases hone
  · rfl
  · rename_i hone; rw [h] at hone; cases hone


/-! the loops on a well-formed prefix followed by anything -/

theorem strsLoop_prefix (ss : List Bytes) : ∀ (pre post : Bytes) (acc : List Bytes),
    (∀ s ∈ ss, s.length ≤ 255) →
    strsLoop (pre ++ (encStrs ss ++ post)) pre.length acc
      = strsLoop ((pre ++ encStrs ss) ++ post) (pre ++ encStrs ss).length (ss.reverse ++ acc) := by
  induction ss with
  | nil => intro pre post acc _; simp [encStrs]
  | cons s ss ih =>
    intro pre post acc hs
    have h1 := charStr_decode pre s (encStrs ss ++ post) (hs s (by simp))
    have h2 := ih (pre ++ CharStr.write s) post (s :: acc) (fun x hx => hs x (by simp [hx]))
    have e : pre ++ (encStrs (s :: ss) ++ post)
        = pre ++ (CharStr.write s ++ (encStrs ss ++ post)) := by simp [encStrs]
    rw [e, strsLoop, dif_pos (by simp [CharStr.write])]
    split
    · rename_i s' p' hcs
      rw [h1] at hcs
      cases hcs
      have e1 : pre ++ (CharStr.write s ++ (encStrs ss ++ post))
          = (pre ++ CharStr.write s) ++ (encStrs ss ++ post) := by simp
      have e2 : pre.length + (s.length + 1) = (pre ++ CharStr.write s).length := by
        simp [CharStr.write]
      rw [e1, e2, h2]
      simp [encStrs]
    · rename_i hcs; rw [h1] at hcs; cases hcs
    · rename_i hcs; rw [h1] at hcs; cases hcs

/-- After any number of well-formed strings, a string whose length octet `lb` announces more than
the `rest` that remains makes the TXT loop fail. -/
theorem strs_overrun_rejected (pre : Bytes) (ss : List Bytes) (lb : UInt8) (rest : Bytes)
    (acc : List Bytes) (hs : ∀ s ∈ ss, s.length ≤ 255) (hbad : lb.toNat > rest.length) :
    strsLoop (pre ++ (encStrs ss ++ lb :: rest)) pre.length acc = .err := by
  rw [strsLoop_prefix ss pre (lb :: rest) acc hs]
  have hp : (pre ++ encStrs ss).length < ((pre ++ encStrs ss) ++ lb :: rest).length := by simp
  apply strsLoop_err hp
  apply charStr_overrun hp
  have : ((pre ++ encStrs ss) ++ lb :: rest)[(pre ++ encStrs ss).length] = lb := by
    rw [List.getElem_append_right (Nat.le_refl _)]; simp
  rw [this]
  simp only [List.length_append, List.length_cons] at hp ⊢
  omega

theorem tlvsLoop_prefix (kw lw : Nat) (strict : Bool) (hkl : 0 < kw + lw)
    (xs : List (Nat × Bytes)) : ∀ (pre post : Bytes) (acc : List (Nat × Bytes)),
    (∀ x ∈ xs, x.1 < 256 ^ kw ∧ x.2.length < 256 ^ lw) →
    (strict = true → KeysAfter acc xs) →
    tlvsLoop (pre ++ (encTlvs kw lw xs ++ post)) kw lw strict pre.length acc
      = tlvsLoop ((pre ++ encTlvs kw lw xs) ++ post) kw lw strict
          (pre ++ encTlvs kw lw xs).length (xs.reverse ++ acc) := by
  induction xs with
  | nil => intro pre post acc _ _; simp [encTlvs]
  | cons x xs ih =>
    intro pre post acc hx hord
    obtain ⟨k, v⟩ := x
    have hkv := hx (k, v) (by simp)
    simp only at hkv
    have hord1 : (strict && keyNotAfter (acc.head?.map (·.1)) k) = false := by
      cases strict
      · rfl
      · obtain ⟨_, h2⟩ := hord rfl
        cases hacc : acc.head? with
        | none => simp [keyNotAfter]
        | some a =>
          have := h2 a (by simp [hacc]) (k, v) (by simp)
          simp [keyNotAfter]; omega
    have h1 := tlvOne_decode pre kw lw k v (encTlvs kw lw xs ++ post) strict
      (acc.head?.map (·.1)) hkv.1 hkv.2 hord1
    have h2 := ih (pre ++ (beN kw k ++ (beN lw v.length ++ v))) post ((k, v) :: acc)
      (fun y hy => hx y (by simp [hy]))
      (by
        intro hs
        obtain ⟨hinc, _⟩ := hord hs
        cases xs with
        | nil => exact ⟨trivial, by simp⟩
        | cons y ys =>
          simp only [KeysIncreasing] at hinc
          exact ⟨hinc.2, by simpa using hinc.1⟩)
    have e : pre ++ (encTlvs kw lw ((k, v) :: xs) ++ post)
        = pre ++ (beN kw k ++ (beN lw v.length ++ (v ++ (encTlvs kw lw xs ++ post)))) := by
      simp [encTlvs]
    rw [e, tlvsLoop, dif_neg (by omega), dif_pos (by simp; omega)]
    split
    · rename_i x' p' hone
      rw [h1] at hone
      cases hone
      have e1 : pre ++ (beN kw k ++ (beN lw v.length ++ (v ++ (encTlvs kw lw xs ++ post))))
          = (pre ++ (beN kw k ++ (beN lw v.length ++ v))) ++ (encTlvs kw lw xs ++ post) := by simp
      have e2 : pre.length + kw + lw + v.length
          = (pre ++ (beN kw k ++ (beN lw v.length ++ v))).length := by simp; omega
      rw [e1, e2, h2]
      simp [encTlvs]
    · rename_i hone; rw [h1] at hone; cases hone
    · rename_i hone; rw [h1] at hone; cases hone

/-- Strict triples (NSEC windows, SVCB parameters) whose keys are not strictly increasing are
rejected, wherever in the list the order breaks. -/
theorem tlvs_unordered_rejected (kw lw : Nat) (hkl : 0 < kw + lw) (xs : List (Nat × Bytes)) :
    ∀ (pre post : Bytes) (acc : List (Nat × Bytes)),
    (∀ x ∈ xs, x.1 < 256 ^ kw ∧ x.2.length < 256 ^ lw) → ¬ KeysAfter acc xs →
    tlvsLoop (pre ++ (encTlvs kw lw xs ++ post)) kw lw true pre.length acc = .err := by
  induction xs with
  | nil => intro pre post acc _ hno; exact absurd ⟨trivial, by simp⟩ hno
  | cons x xs ih =>
    intro pre post acc hx hno
    obtain ⟨k, v⟩ := x
    have hkv := hx (k, v) (by simp)
    simp only at hkv
    have e : pre ++ (encTlvs kw lw ((k, v) :: xs) ++ post)
        = pre ++ (beN kw k ++ (beN lw v.length ++ (v ++ (encTlvs kw lw xs ++ post)))) := by
      simp [encTlvs]
    have hp : pre.length
        < (pre ++ (beN kw k ++ (beN lw v.length ++ (v ++ (encTlvs kw lw xs ++ post))))).length := by
      simp; omega
    rw [e]
    by_cases hhead : ∀ a ∈ acc.head?, a.1 < k
    · -- this key is fine: the order breaks later
      have hord1 : (true && keyNotAfter (acc.head?.map (·.1)) k) = false := by
        cases hacc : acc.head? with
        | none => simp [keyNotAfter]
        | some a =>
          have := hhead a (by simp [hacc])
          simp [keyNotAfter]; omega
      have h1 := tlvOne_decode pre kw lw k v (encTlvs kw lw xs ++ post) true
        (acc.head?.map (·.1)) hkv.1 hkv.2 hord1
      have hno' : ¬ KeysAfter ((k, v) :: acc) xs := by
        intro hka
        apply hno
        cases xs with
        | nil => exact ⟨trivial, by simpa using hhead⟩
        | cons y ys =>
          obtain ⟨hinc, hlt⟩ := hka
          refine ⟨⟨by simpa using hlt, hinc⟩, by simpa using hhead⟩
      have h2 := ih (pre ++ (beN kw k ++ (beN lw v.length ++ v))) post ((k, v) :: acc)
        (fun y hy => hx y (by simp [hy])) hno'
      rw [tlvsLoop, dif_neg (by omega), dif_pos hp]
      split
      · rename_i x' p' hone
        rw [h1] at hone
        cases hone
        have e1 : pre ++ (beN kw k ++ (beN lw v.length ++ (v ++ (encTlvs kw lw xs ++ post))))
            = (pre ++ (beN kw k ++ (beN lw v.length ++ v))) ++ (encTlvs kw lw xs ++ post) := by simp
        have e2 : pre.length + kw + lw + v.length
            = (pre ++ (beN kw k ++ (beN lw v.length ++ v))).length := by simp; omega
        rw [e1, e2, h2]
      · rfl
      · rename_i hone; rw [h1] at hone; cases hone
    · -- this key is not greater than the previous one
      apply tlvsLoop_err hkl hp
      cases hacc : acc.head? with
      | none => rw [hacc] at hhead; simp at hhead
      | some a =>
        rw [hacc] at hhead
        simp only [Option.mem_def, Option.some.injEq, forall_eq'] at hhead
        simp only [Option.map_some]
        apply tlvOne_key_not_increasing
        have : List.take kw (List.drop pre.length
            (pre ++ (beN kw k ++ (beN lw v.length ++ (v ++ (encTlvs kw lw xs ++ post))))))
            = beN kw k := by
          rw [List.drop_left']
          · exact List.take_left' (by simp)
          · rfl
        rw [this, deN_beN kw k hkv.1]
        omega

theorem optLoop_prefix (xs : List (Nat × Bytes)) : ∀ (pre post : Bytes) (acc : List (Nat × Bytes)),
    (∀ x ∈ xs, x.1 < 65536 ∧ x.2.length < 65536) →
    optLoop (pre ++ (encTlvs 2 2 xs ++ post)) pre.length acc
      = optLoop ((pre ++ encTlvs 2 2 xs) ++ post) (pre ++ encTlvs 2 2 xs).length
          (xs.reverse ++ acc) := by
  induction xs with
  | nil => intro pre post acc _; simp [encTlvs]
  | cons x xs ih =>
    intro pre post acc hx
    obtain ⟨k, v⟩ := x
    have hkv := hx (k, v) (by simp)
    simp only at hkv
    have h1 := tlvOne_decode pre 2 2 k v (encTlvs 2 2 xs ++ post) false none hkv.1 hkv.2 rfl
    have h2 := ih (pre ++ (beN 2 k ++ (beN 2 v.length ++ v))) post ((k, v) :: acc)
      (fun y hy => hx y (by simp [hy]))
    have e : pre ++ (encTlvs 2 2 ((k, v) :: xs) ++ post)
        = pre ++ (beN 2 k ++ (beN 2 v.length ++ (v ++ (encTlvs 2 2 xs ++ post)))) := by
      simp [encTlvs]
    rw [e, optLoop, dif_pos (by simp; omega)]
    split
    · rename_i x' p' hone
      rw [h1] at hone
      cases hone
      have e1 : pre ++ (beN 2 k ++ (beN 2 v.length ++ (v ++ (encTlvs 2 2 xs ++ post))))
          = (pre ++ (beN 2 k ++ (beN 2 v.length ++ v))) ++ (encTlvs 2 2 xs ++ post) := by simp
      have e2 : pre.length + 2 + 2 + v.length
          = (pre ++ (beN 2 k ++ (beN 2 v.length ++ v))).length := by simp; omega
      rw [e1, e2, h2]
      simp [encTlvs]
    · rename_i hone; rw [h1] at hone; cases hone
    · rename_i hone; rw [h1] at hone; cases hone

/-- a trailing fragment `bad` that is not a whole triple: its (key, length) head does not fit, or
its length field announces more than what remains -/
def BadTriple (kw lw : Nat) (bad : Bytes) : Prop :=
  bad ≠ [] ∧ (bad.length < kw + lw ∨ kw + lw + deN ((bad.drop kw).take lw) > bad.length)

theorem tlvOne_bad {pre bad : Bytes} {kw lw : Nat} {strict : Bool} {prev : Option Nat}
    (h : BadTriple kw lw bad) : tlvOne (pre ++ bad) kw lw strict prev pre.length = .err := by
  rcases h.2 with h | h
  · exact tlvOne_overrun_head (by simp; omega)
  · by_cases hh : bad.length < kw + lw
    · exact tlvOne_overrun_head (by simp; omega)
    · apply tlvOne_overrun_value
      have : List.drop (pre.length + kw) (pre ++ bad) = bad.drop kw := by
        rw [List.drop_append]
        simp
      rw [this]
      simp; omega

/-- EDNS options: after any number of whole options, a fragment that is not a whole option makes
`OPT::parse` fail -/
theorem opt_overrun_rejected (pre : Bytes) (xs : List (Nat × Bytes)) (bad : Bytes)
    (acc : List (Nat × Bytes)) (hx : ∀ x ∈ xs, x.1 < 65536 ∧ x.2.length < 65536)
    (hbad : BadTriple 2 2 bad) :
    optLoop (pre ++ (encTlvs 2 2 xs ++ bad)) pre.length acc = .err := by
  rw [optLoop_prefix xs pre bad acc hx]
  have hne : 0 < bad.length := List.length_pos_iff.mpr hbad.1
  exact optLoop_err (by simp; omega) (tlvOne_bad hbad)

/-- the same for the triples of NSEC and SVCB -/
theorem tlvs_overrun_rejected (pre : Bytes) (kw lw : Nat) (strict : Bool) (hkl : 0 < kw + lw)
    (xs : List (Nat × Bytes)) (bad : Bytes)
    (hx : ∀ x ∈ xs, x.1 < 256 ^ kw ∧ x.2.length < 256 ^ lw)
    (hinc : strict = true → KeysIncreasing xs) (hbad : BadTriple kw lw bad) :
    tlvsLoop (pre ++ (encTlvs kw lw xs ++ bad)) kw lw strict pre.length [] = .err := by
  rw [tlvsLoop_prefix kw lw strict hkl xs pre bad [] hx (fun hs => ⟨hinc hs, by simp⟩)]
  have hne : 0 < bad.length := List.length_pos_iff.mpr hbad.1
  exact tlvsLoop_err hkl (by simp; omega) (tlvOne_bad hbad)

/-! ### `liftOpt` and pointwise-related lists -/

theorem liftOpt_none {l : List RR} (h : ∀ r ∈ l, r.rdata.typeOf ≠ .OPT) :
    liftOpt l = (none, l) := by
  induction l with
  | nil => rfl
  | cons x xs ih =>
    simp only [liftOpt]
    rw [if_neg (h x (by simp)), ih (fun r hr => h r (by simp [hr]))]

/-- `liftOpt` removes the first OPT-typed record and nothing else -/
theorem liftOpt_first {pre post : List RR} {r : RR} (hpre : ∀ x ∈ pre, x.rdata.typeOf ≠ .OPT)
    (hr : r.rdata.typeOf = .OPT) : liftOpt (pre ++ r :: post) = (some r, pre ++ post) := by
  induction pre with
  | nil => simp [liftOpt, hr]
  | cons x xs ih =>
    simp only [List.cons_append, liftOpt]
    rw [if_neg (hpre x (by simp)), ih (fun y hy => hpre y (by simp [hy]))]

theorem corr_split {α β : Type} {R : α → β → Prop} {as : List α} {bpre : List β} {b : β}
    {bpost : List β} (h : Framing.Corr R as (bpre ++ b :: bpost)) :
    ∃ apre a apost, as = apre ++ a :: apost ∧ apre.length = bpre.length ∧ Framing.Corr R apre bpre ∧
      R a b ∧ Framing.Corr R apost bpost := by
  induction bpre generalizing as with
  | nil =>
    cases h with
    | cons hab hrest => exact ⟨[], _, _, rfl, rfl, Framing.Corr.nil, hab, hrest⟩
  | cons y ys ih =>
    cases h with
    | cons hab hrest =>
      obtain ⟨apre, a, apost, has, hl, hc, hr, hp⟩ := ih hrest
      exact ⟨_ :: apre, a, apost, by simp [has], by simp [hl], Framing.Corr.cons hab hc, hr, hp⟩

theorem corr_forall_left {α β : Type} {R : α → β → Prop} {P : α → Prop} {Q : β → Prop}
    {as : List α} {bs : List β} (h : Framing.Corr R as bs) (hq : ∀ b ∈ bs, Q b)
    (himp : ∀ a b, R a b → Q b → P a) : ∀ a ∈ as, P a := by
  induction h with
  | nil => intro a ha; cases ha
  | cons hab _ ih =>
    intro a ha
    rcases List.mem_cons.mp ha with rfl | ha
    · exact himp _ _ hab (hq _ (by simp))
    · exact ih (fun b hb => hq b (by simp [hb])) a ha

end Rfc
end Dns
