/-
Lemmas about the `Name::parse` loop model (`nameLoop`) against the RFC 1035
§4.1.4 decoding relation `Decodes`: no panic, soundness, bounds, cursor,
functionality of `Decodes`, completeness for backward-pointer encodings (`Enc`),
and the plain `Name.write` round trip.
-/
import SimpleDnsModel.Spec.NameDecode
namespace Dns

/-! ### small list / bit facts -/

theorem lt_of_getElem?_some {d : Bytes} {i : Nat} {b : UInt8} (h : d[i]? = some b) :
    i < d.length := by
  rcases Nat.lt_or_ge i d.length with h' | h'
  · exact h'
  · simp [List.getElem?_eq_none h'] at h

theorem getElem?_append_some {d e : Bytes} {i : Nat} {b : UInt8} (h : d[i]? = some b) :
    (d ++ e)[i]? = some b := by
  have hi : i < d.length := lt_of_getElem?_some h
  simp [List.getElem?_append_left hi, h]

theorem take_drop_append {d e : Bytes} {a n : Nat} (h : a + n ≤ d.length) :
    ((d ++ e).drop a).take n = (d.drop a).take n := by
  rw [List.drop_append_of_le_length (by omega)]
  rw [List.take_append_of_le_length (by simp; omega)]

theorem length_take_drop {d : Bytes} {a n : Nat} (h : a + n ≤ d.length) :
    ((d.drop a).take n).length = n := by
  simp; omega

/-- a length byte (1..63) is not a pointer byte -/
theorem not_ptr_of_le63 {k : Nat} (h : k ≤ 63) : ¬ (k &&& 192 = 192) := by
  intro hc
  have : k &&& 192 ≤ k := Nat.and_le_left
  omega

theorem UInt8.ne_zero_of_toNat_pos {b : UInt8} (h : 1 ≤ b.toNat) : b ≠ 0 := by
  intro h0; subst h0; simp at h

theorem UInt8.toNat_pos_of_ne_zero {b : UInt8} (h : b ≠ 0) : 1 ≤ b.toNat := by
  have : b.toNat ≠ 0 := by
    intro h0; apply h; exact UInt8.toNat_inj.mp (by simpa using h0)
  omega

/-! ### `Name.wireLen` -/

theorem Name.wireLen_pos (n : Name) : 1 ≤ Name.wireLen n := by
  cases n <;> simp [Name.wireLen]; omega

@[simp] theorem Name.wireLen_nil : Name.wireLen [] = 1 := rfl

@[simp] theorem Name.wireLen_cons (l : Label) (n : Name) :
    Name.wireLen (l :: n) = l.length + 1 + Name.wireLen n := rfl

theorem Name.wireLen_append (a b : Name) :
    Name.wireLen (a ++ b) + 1 = Name.wireLen a + Name.wireLen b := by
  induction a with
  | nil => simp; omega
  | cons l a ih => simp; omega

/-! ### 1. no panic -/

theorem nameLoop_no_panic (d : Bytes) (s : NS) : nameLoop d s ≠ .panic := by
  fun_induction nameLoop d s <;> simp_all <;> omega

theorem Name.parse_no_panic (d : Bytes) (pos : Nat) : Name.parse d pos ≠ .panic :=
  nameLoop_no_panic d _

/-! ### 2. soundness -/

/-- whatever the loop returns is what the RFC relation gives from `pp`, appended to the labels
already collected -/
theorem nameLoop_sound (d : Bytes) (s : NS) (n : Name) (p : Nat)
    (h : nameLoop d s = .ok (n, p)) :
    ∃ tail, n = s.labels.reverse ++ tail ∧ Decodes d s.pp tail := by
  fun_induction nameLoop d s generalizing n p
  all_goals try (simp at h; done)
  · -- terminating zero
    rename_i s _ _ hz
    simp at h
    exact ⟨[], by simp [h.1], Decodes.root hz⟩
  · -- pointer
    rename_i s _ _ b hb hnz hptr pos _ b2 hb2 ptr hlt ih
    obtain ⟨tail, h1, h2⟩ := ih n p h
    exact ⟨tail, h1, Decodes.ptr hb hptr hb2 h2⟩
  · -- label
    rename_i s _ _ b hb hnz hptr len hfit h63 lab ih
    obtain ⟨tail, h1, h2⟩ := ih n p h
    refine ⟨lab :: tail, by simp [h1], ?_⟩
    have hb1 : 1 ≤ b.toNat := UInt8.toNat_pos_of_ne_zero hnz
    have h2' : Decodes d (s.pp + 1 + b.toNat) tail := by
      have : s.pp + len + 1 = s.pp + 1 + b.toNat := by simp [len]; omega
      simpa [this] using h2
    exact Decodes.label hb hb1 (by omega) rfl (by omega) h2'

theorem Name.parse_sound {d : Bytes} {pos : Nat} {n : Name} {p : Nat}
    (h : Name.parse d pos = .ok (n, p)) : Decodes d pos n := by
  obtain ⟨tail, h1, h2⟩ := nameLoop_sound d _ n p h
  simp at h1; subst h1; exact h2

/-! ### 3. bounds -/

theorem nameLoop_bounds (d : Bytes) (s : NS) (n : Name) (p : Nat)
    (h : nameLoop d s = .ok (n, p)) :
    ∃ tail, n = s.labels.reverse ++ tail ∧ (∀ l ∈ tail, 1 ≤ l.length ∧ l.length ≤ 63) ∧
      s.size + Name.wireLen tail ≤ 255 := by
  fun_induction nameLoop d s generalizing n p
  all_goals try (simp at h; done)
  · rename_i s _ hsz hz
    simp at h
    exact ⟨[], by simp [h.1], by simp, by simp; omega⟩
  · rename_i s _ _ b hb hnz hptr pos _ b2 hb2 ptr hlt ih
    obtain ⟨tail, h1, h2, h3⟩ := ih n p h
    exact ⟨tail, h1, h2, h3⟩
  · rename_i s _ _ b hb hnz hptr len hfit h63 lab ih
    obtain ⟨tail, h1, h2, h3⟩ := ih n p h
    have hb1 : 1 ≤ b.toNat := UInt8.toNat_pos_of_ne_zero hnz
    have hll : lab.length = b.toNat := length_take_drop (by omega)
    refine ⟨lab :: tail, by simp [h1], ?_, ?_⟩
    · intro l hl
      rcases List.mem_cons.mp hl with rfl | hl
      · omega
      · exact h2 l hl
    · simp at h3 ⊢; omega

theorem Name.parse_bounds {d : Bytes} {pos : Nat} {n : Name} {p : Nat}
    (h : Name.parse d pos = .ok (n, p)) :
    (∀ l ∈ n, 1 ≤ l.length ∧ l.length ≤ 63) ∧ Name.wireLen n ≤ 255 := by
  obtain ⟨tail, h1, h2, h3⟩ := nameLoop_bounds d _ n p h
  simp at h1; subst h1
  exact ⟨h2, by simpa using h3⟩

theorem Name.parse_WF {d : Bytes} {pos : Nat} {n : Name} {p : Nat}
    (h : Name.parse d pos = .ok (n, p)) : Name.WF n := Name.parse_bounds h

/-! ### 4. cursor -/

theorem nameLoop_cursor (d : Bytes) (s : NS) (n : Name) (p : Nat)
    (h : nameLoop d s = .ok (n, p)) :
    (s.follow = false → s.pos = s.pp → InPlaceEnd d s.pp p) ∧ (s.follow = true → p = s.pos + 1) := by
  fun_induction nameLoop d s generalizing n p
  all_goals try (simp at h; done)
  · rename_i s _ _ hz
    simp at h
    refine ⟨fun _ hp => ?_, fun _ => h.2.symm⟩
    rw [← h.2, hp]; exact InPlaceEnd.root hz
  · rename_i s _ _ b hb hnz hptr pos _ b2 hb2 ptr hlt ih
    obtain ⟨_, h2⟩ := ih n p h
    have h2 := h2 rfl
    refine ⟨fun hf hp => ?_, fun hf => ?_⟩
    · simp [pos, hf] at h2
      rw [h2, hp]; exact InPlaceEnd.ptr hb hptr
    · simpa [pos, hf] using h2
  · rename_i s _ _ b hb hnz hptr len hfit h63 lab ih
    obtain ⟨h1, h2⟩ := ih n p h
    have hb1 : 1 ≤ b.toNat := UInt8.toNat_pos_of_ne_zero hnz
    refine ⟨fun hf hp => ?_, fun hf => ?_⟩
    · have h1 := h1 hf (by simp [hf, hp])
      have : s.pp + len + 1 = s.pp + 1 + b.toNat := by simp [len]; omega
      simp only [this] at h1
      exact InPlaceEnd.label hb hb1 (by omega) h1
    · simpa [hf] using h2 hf

theorem Name.parse_cursor {d : Bytes} {pos : Nat} {n : Name} {p : Nat}
    (h : Name.parse d pos = .ok (n, p)) : InPlaceEnd d pos p :=
  (nameLoop_cursor d _ n p h).1 rfl rfl

/-! ### 5. the cursor advances and stays inside the buffer -/

theorem nameLoop_pos_le (d : Bytes) (s : NS) (n : Name) (p : Nat)
    (h : nameLoop d s = .ok (n, p)) : s.pos < p ∧ p ≤ d.length := by
  fun_induction nameLoop d s generalizing n p
  all_goals try (simp at h; done)
  · rename_i s hlt _ _
    simp at h
    omega
  · rename_i s _ _ b hb hnz hptr pos _ b2 hb2 ptr hlt ih
    have := ih n p h
    simp only [pos] at this
    split at this <;> omega
  · rename_i s _ _ b hb hnz hptr len hfit h63 lab ih
    have := ih n p h
    simp only at this
    split at this <;> omega

theorem Name.parse_pos_le {d : Bytes} {pos : Nat} {n : Name} {p : Nat}
    (h : Name.parse d pos = .ok (n, p)) : pos < p ∧ p ≤ d.length :=
  nameLoop_pos_le d _ n p h

/-! ### 6. `Decodes` and `InPlaceEnd` are functional -/

theorem Decodes.det {d : Bytes} {off : Nat} {n m : Name}
    (h1 : Decodes d off n) (h2 : Decodes d off m) : n = m := by
  induction h1 generalizing m with
  | root h0 =>
    cases h2 with
    | root _ => rfl
    | label hb hb1 _ _ _ _ => rw [h0] at hb; cases hb; simp at hb1
    | ptr hb hp _ _ => rw [h0] at hb; cases hb; simp at hp
  | label hb hb1 h63 hl hfit _ ih =>
    cases h2 with
    | root h0 => rw [h0] at hb; cases hb; simp at hb1
    | label hb' _ _ hl' _ hrest' =>
      rw [hb] at hb'; cases hb'
      rw [hl, hl', ih hrest']
    | ptr hb' hp _ _ => rw [hb] at hb'; cases hb'; exact absurd hp (not_ptr_of_le63 h63)
  | ptr hb hp hb2 _ ih =>
    cases h2 with
    | root h0 => rw [h0] at hb; cases hb; simp at hp
    | label hb' _ h63 _ _ _ => rw [hb] at hb'; cases hb'; exact absurd hp (not_ptr_of_le63 h63)
    | ptr hb' _ hb2' hrest' =>
      rw [hb] at hb'; cases hb'
      rw [hb2] at hb2'; cases hb2'
      exact ih hrest'

theorem InPlaceEnd.det {d : Bytes} {off e e' : Nat}
    (h1 : InPlaceEnd d off e) (h2 : InPlaceEnd d off e') : e = e' := by
  induction h1 generalizing e' with
  | root h0 =>
    cases h2 with
    | root _ => rfl
    | label hb hb1 _ _ => rw [h0] at hb; cases hb; simp at hb1
    | ptr hb hp => rw [h0] at hb; cases hb; simp at hp
  | label hb hb1 h63 _ ih =>
    cases h2 with
    | root h0 => rw [h0] at hb; cases hb; simp at hb1
    | label hb' _ _ hrest' => rw [hb] at hb'; cases hb'; exact ih hrest'
    | ptr hb' hp => rw [hb] at hb'; cases hb'; exact absurd hp (not_ptr_of_le63 h63)
  | ptr hb hp =>
    cases h2 with
    | root h0 => rw [h0] at hb; cases hb; simp at hp
    | label hb' _ h63 _ => rw [hb] at hb'; cases hb'; exact absurd hp (not_ptr_of_le63 h63)
    | ptr _ _ => rfl

/-! ### 7. completeness for backward-pointer encodings -/

/-- encoding relation with strictly backward pointers to non-empty names (what the library emits
and accepts): `Decodes` restricted to such pointers -/
inductive Enc (d : Bytes) : Nat → Name → Prop where
  | root {off} : d[off]? = some 0 → Enc d off []
  | label {off} {b : UInt8} {l : Label} {rest : Name} :
      d[off]? = some b → 1 ≤ b.toNat → b.toNat ≤ 63 →
      l = (d.drop (off+1)).take b.toNat → off + 1 + b.toNat ≤ d.length →
      Enc d (off + 1 + b.toNat) rest → Enc d off (l :: rest)
  | ptr {off} {b b2 : UInt8} {n : Name} :
      d[off]? = some b → b.toNat &&& 0xC0 = 0xC0 → d[off+1]? = some b2 →
      (b.toNat &&& 0x3F) * 256 + b2.toNat < off → n ≠ [] →
      Enc d ((b.toNat &&& 0x3F) * 256 + b2.toNat) n → Enc d off n

theorem Enc.append {d : Bytes} {off : Nat} {n : Name} (e : Bytes) (h : Enc d off n) :
    Enc (d ++ e) off n := by
  induction h with
  | root h0 => exact Enc.root (getElem?_append_some h0)
  | label hb h1 h63 hl hfit _ ih =>
    refine Enc.label (getElem?_append_some hb) h1 h63 ?_ (by simp; omega) ih
    rw [take_drop_append (by omega)]; exact hl
  | ptr hb hp hb2 hlt hne _ ih =>
    exact Enc.ptr (getElem?_append_some hb) hp (getElem?_append_some hb2) hlt hne ih

theorem Enc.lt_length {d : Bytes} {off : Nat} {n : Name} (h : Enc d off n) : off < d.length := by
  cases h with
  | root h0 => exact lt_of_getElem?_some h0
  | label hb => exact lt_of_getElem?_some hb
  | ptr hb => exact lt_of_getElem?_some hb

theorem Enc.toDecodes {d : Bytes} {off : Nat} {n : Name} (h : Enc d off n) : Decodes d off n := by
  induction h with
  | root h0 => exact Decodes.root h0
  | label hb h1 h63 hl hfit _ ih => exact Decodes.label hb h1 h63 hl hfit ih
  | ptr hb hp hb2 _ _ _ ih => exact Decodes.ptr hb hp hb2 ih

/-- the parser accepts every backward-pointer encoding whose expansion fits the 255 budget -/
theorem nameLoop_of_Enc (d : Bytes) (off : Nat) (n : Name) (h : Enc d off n) :
    ∀ (s : NS), s.pp = off → s.pos < d.length → (s.follow = false → s.pos = s.pp) →
      s.size + Name.wireLen n ≤ 255 →
      ∃ p, nameLoop d s = .ok (s.labels.reverse ++ n, p) := by
  induction h with
  | @root off h0 =>
    intro s hpp hpos _ hsz
    have hlt : off < d.length := lt_of_getElem?_some h0
    unfold nameLoop
    simp [hpp, h0] at *
    refine ⟨s.pos + 1, ?_⟩
    simp [show ¬ (d.length ≤ s.pos ∨ d.length ≤ off) by omega, show ¬ 255 ≤ s.size by omega]
  | @label off b l rest hb h1 h63 hl hfit hrest ih =>
    intro s hpp hpos hfol hsz
    have hlt : off < d.length := by omega
    have hnext : off + 1 + b.toNat < d.length := hrest.lt_length
    have hbz : b ≠ 0 := UInt8.ne_zero_of_toNat_pos h1
    have hnp : ¬ (b.toNat &&& 192 = 192) := not_ptr_of_le63 h63
    have hll : l.length = b.toNat := by
      subst hl; exact length_take_drop (by omega)
    simp [hll] at hsz
    have hih := ih { pos := (if s.follow then s.pos else s.pos + b.toNat + 1),
                     pp := off + b.toNat + 1, follow := s.follow,
                     size := s.size + 1 + b.toNat, labels := l :: s.labels }
      (by simp; omega)
      (by
        by_cases hf : s.follow
        · simp [hf]; exact hpos
        · have := hfol (by simpa using hf); simp [hf]; omega)
      (by intro hf; simp at hf; have := hfol hf; simp [hf]; omega)
      (by simp; omega)
    obtain ⟨p, hp⟩ := hih
    refine ⟨p, ?_⟩
    rw [nameLoop]
    simp [hpp, hb, hbz, hnp, show ¬ (d.length ≤ s.pos ∨ d.length ≤ off) by omega,
      show ¬ 255 ≤ s.size by omega, show ¬ (d.length < off + 1 + b.toNat) by omega,
      show ¬ 63 < b.toNat by omega, ← hl]
    simpa [List.append_assoc] using hp
  | @ptr off b b2 n hb hp hb2 hlt hne htgt ih =>
    intro s hpp hpos hfol hsz
    have hltd : off < d.length := lt_of_getElem?_some hb
    have hlt2 : off + 1 < d.length := lt_of_getElem?_some hb2
    have hbz : b ≠ 0 := by intro h; subst h; simp at hp
    have hwl := Name.wireLen_pos n
    have hih := ih { s with pos := (if s.follow then s.pos else s.pos + 1),
                            pp := (b.toNat &&& 63) * 256 + b2.toNat, follow := true }
      (by simp)
      (by
        by_cases hf : s.follow
        · simp [hf]; exact hpos
        · have := hfol (by simpa using hf); simp [hf]; omega)
      (by intro hf; simp at hf)
      (by simpa using hsz)
    obtain ⟨p, hp'⟩ := hih
    refine ⟨p, ?_⟩
    rw [nameLoop]
    simp [hpp, hb, hbz, hp, hb2, show ¬ (d.length ≤ s.pos ∨ d.length ≤ off) by omega,
      show ¬ 255 ≤ s.size by omega, show ¬ (d.length < off + 2) by omega,
      show ¬ (off ≤ (b.toNat &&& 63) * 256 + b2.toNat) by omega]
    simpa using hp'

theorem Name.parse_of_Enc {d : Bytes} {pos : Nat} {n : Name}
    (h : Enc d pos n) (hlen : Name.wireLen n ≤ 255) : ∃ p, Name.parse d pos = .ok (n, p) := by
  have := nameLoop_of_Enc d pos n h
    { pos := pos, pp := pos, follow := false, size := 0, labels := [] }
    rfl h.lt_length (fun _ => rfl) (by simpa using hlen)
  simpa [Name.parse] using this

/-! ### 8. `Name.write` -/

theorem Name.write_length (n : Name) : (Name.write n).length = Name.wireLen n := by
  induction n with
  | nil => rfl
  | cons l n ih => simp [Name.write, ih]; omega

/-- the plain encoding of a name with labels of 1..63 bytes, placed anywhere in a buffer, is an
encoding of that name, and its in-place end is just after it -/
theorem Name.write_Enc (n : Name) (hl : ∀ l ∈ n, 1 ≤ l.length ∧ l.length ≤ 63) :
    ∀ (pre post : Bytes),
      Enc (pre ++ (Name.write n ++ post)) pre.length n ∧
      InPlaceEnd (pre ++ (Name.write n ++ post)) pre.length (pre.length + Name.wireLen n) := by
  induction n with
  | nil =>
    intro pre post
    exact ⟨Enc.root (by simp [Name.write]), InPlaceEnd.root (by simp [Name.write])⟩
  | cons l rest ih =>
    intro pre post
    have hl1 := hl l (by simp)
    have hlen : (UInt8.ofNat l.length).toNat = l.length := by
      simp [UInt8.toNat_ofNat']; omega
    obtain ⟨ihE, ihI⟩ := ih (fun x hx => hl x (by simp [hx])) (pre ++ UInt8.ofNat l.length :: l) post
    have hd : pre ++ (Name.write (l :: rest) ++ post)
        = (pre ++ UInt8.ofNat l.length :: l) ++ (Name.write rest ++ post) := by
      simp [Name.write]
    have hplen : (pre ++ UInt8.ofNat l.length :: l).length = pre.length + 1 + l.length := by
      simp; omega
    rw [hd]
    rw [hplen] at ihE ihI
    have hb : ((pre ++ UInt8.ofNat l.length :: l) ++ (Name.write rest ++ post))[pre.length]?
        = some (UInt8.ofNat l.length) := by simp
    constructor
    · refine Enc.label hb (by rw [hlen]; exact hl1.1) (by rw [hlen]; exact hl1.2) ?_ ?_ ?_
      · rw [hlen]; simp
      · rw [hlen]; simp; omega
      · rw [hlen]; exact ihE
    · refine InPlaceEnd.label hb (by rw [hlen]; exact hl1.1) (by rw [hlen]; exact hl1.2) ?_
      rw [hlen]
      have : pre.length + Name.wireLen (l :: rest) = pre.length + 1 + l.length + Name.wireLen rest := by
        simp; omega
      rw [this]; exact ihI

theorem Name.parse_write {n : Name} (h : Name.WF n) (pre post : Bytes) :
    Name.parse (pre ++ (Name.write n ++ post)) pre.length
      = .ok (n, pre.length + Name.wireLen n) := by
  obtain ⟨hE, hI⟩ := Name.write_Enc n h.1 pre post
  obtain ⟨p, hp⟩ := Name.parse_of_Enc hE h.2
  rw [hp, InPlaceEnd.det (Name.parse_cursor hp) hI]

/-! ### error corollaries -/

/-- the parser never panics, so "no successful result" means `Err` -/
theorem Name.parse_err_of_not_ok {d : Bytes} {pos : Nat}
    (h : ∀ n p, Name.parse d pos ≠ .ok (n, p)) : Name.parse d pos = .err := by
  cases hp : Name.parse d pos with
  | ok r => exact absurd hp (h r.1 r.2)
  | err => rfl
  | panic => exact absurd hp (Name.parse_no_panic d pos)

theorem reserved_not_ptr (k : Nat) (h : k < 192) : ¬ (k &&& 192 = 192) := by
  intro hc
  have : k &&& 192 ≤ k := Nat.and_le_left
  omega

/-- label types `01` and `10` (first byte 64..191) have no decoding -/
theorem Decodes.not_reserved {d : Bytes} {off : Nat} {b : UInt8} {n : Name}
    (hb : d[off]? = some b) (h64 : 64 ≤ b.toNat) (h192 : b.toNat < 192) : ¬ Decodes d off n := by
  intro h
  cases h with
  | root h0 => rw [hb] at h0; cases h0; simp at h64
  | label hb' _ h63 _ _ _ => rw [hb] at hb'; cases hb'; omega
  | ptr hb' hp _ _ => rw [hb] at hb'; cases hb'; exact reserved_not_ptr _ h192 hp

theorem Name.parse_reserved {d : Bytes} {pos : Nat} {b : UInt8}
    (hb : d[pos]? = some b) (h64 : 64 ≤ b.toNat) (h192 : b.toNat < 192) :
    Name.parse d pos = .err :=
  Name.parse_err_of_not_ok fun _ _ hp => Decodes.not_reserved hb h64 h192 (Name.parse_sound hp)

end Dns
