/-
Helper lemmas for C14 (no datagram can crash or wedge the mDNS services):

* the serialisers contain no panicking primitive: `RData.write`, `RData.writeG`, `RR.writeG`,
  `writeRRsG`, `RR.write`, `writeRRs` and `Packet.buildG` (hence `Packet.buildCompressed`)
  never return `.panic`, for ANY packet (well-formed or not);
* `ingest` is a run of `addCached` operations (`ingestOps`), on names that come out of the parser
  and therefore satisfy `NameOK`.

Helper lemmas live in the namespace `Dns.Disc` (other lemma files are written concurrently).
-/
import SimpleDnsModel.Model.Pipeline
import SimpleDnsModel.Lemmas.Mdns
import SimpleDnsModel.Lemmas.ParseImage
namespace Dns.Disc

/-! ### the writers never panic -/

theorem rdata_write_ne_panic (rd : RData) : rd.write ≠ .panic := by
  cases rd with
  | flat code vs =>
    simp only [RData.write]
    split
    · simp
    · split <;> simp
  | _ => simp [RData.write]

theorem rdata_writeG_ne_panic (c : Bool) (rd : RData) (off : Nat) (t : Table) :
    rd.writeG c off t ≠ .panic := by
  cases rd with
  | flat code vs =>
    simp only [RData.writeG]
    split
    · simp
    · split <;> simp
  | _ =>
    simp only [RData.writeG]
    exact Out.bind_ne_panic (rdata_write_ne_panic _) (fun _ _ => by simp)

theorem rr_writeG_ne_panic (c : Bool) (r : RR) (off : Nat) (t : Table) :
    r.writeG c off t ≠ .panic := by
  unfold RR.writeG
  exact Out.bind_ne_panic (rdata_writeG_ne_panic _ _ _ _) (fun _ _ => by simp)

theorem writeRRsG_ne_panic (c : Bool) (rs : List RR) (off : Nat) (t : Table) :
    writeRRsG c rs off t ≠ .panic := by
  induction rs generalizing off t with
  | nil => simp [writeRRsG]
  | cons r rs ih =>
    simp only [writeRRsG]
    refine Out.bind_ne_panic (rr_writeG_ne_panic _ _ _ _) (fun a _ => ?_)
    exact Out.bind_ne_panic (ih _ _) (fun _ _ => by simp)

theorem rr_write_ne_panic (r : RR) : r.write ≠ .panic := by
  unfold RR.write
  exact Out.bind_ne_panic (rdata_write_ne_panic _) (fun _ _ => by simp)

theorem writeRRs_ne_panic (rs : List RR) : writeRRs rs ≠ .panic := by
  induction rs with
  | nil => simp [writeRRs]
  | cons r rs ih =>
    simp only [writeRRs]
    refine Out.bind_ne_panic (rr_write_ne_panic _) (fun a _ => ?_)
    exact Out.bind_ne_panic ih (fun _ _ => by simp)

/-- `Packet::write_to` / `Packet::write_compressed_to` into a `Vec` never panic, whatever the
packet holds (over-long labels, values wider than their fields, 100 000 records: the casts
truncate, LOC with a bad version is an `Err`). -/
theorem buildG_ne_panic (c : Bool) (p : Packet) : p.buildG c ≠ .panic := by
  unfold Packet.buildG
  dsimp only
  refine Out.bind_ne_panic (writeRRsG_ne_panic _ _ _ _) ?_
  rintro ⟨an, t1⟩ _
  dsimp only
  refine Out.bind_ne_panic (writeRRsG_ne_panic _ _ _ _) ?_
  rintro ⟨ns, t2⟩ _
  dsimp only
  refine Out.bind_ne_panic (writeRRs_ne_panic _) ?_
  intro o _
  refine Out.bind_ne_panic (writeRRsG_ne_panic _ _ _ _) ?_
  rintro ⟨ar, t3⟩ _
  simp

theorem buildCompressed_ne_panic (p : Packet) : p.buildCompressed ≠ .panic :=
  buildG_ne_panic true p

end Dns.Disc

namespace Dns.Mdns

/-! ### `add_response_to_resources` as a run of store operations -/

/-- the `add_cached_resource` calls `ingest` performs, in order -/
def ingestOps (p : Packet) (service full : Name) (now : Nat) : List Op :=
  ((p.answers ++ p.additional).filter
    (fun r => r.name != full && r.name.isSubdomainOf service)).map (fun r => Op.addCached r now)

theorem ingest_eq_run (p : Packet) (service full : Name) (s : Store) (now : Nat) :
    ingest p service full s now = s.run (ingestOps p service full now) := by
  unfold ingest ingestOps Store.run
  rw [List.foldl_map]
  rfl

/-- owner names that come out of `Packet::parse` have labels of at most 63 bytes -/
theorem parsed_names_ok {d : Bytes} {p : Packet} (h : Packet.parse d = .ok p) :
    ∀ r ∈ p.answers ++ p.additional, NameOK r.name := by
  have hc := (Img.packet_ok h).1
  intro r hr
  rcases List.mem_append.mp hr with hr | hr
  · exact NameOK_of_WF (hc.2.2.2.2.2.2.1 r hr).1
  · exact NameOK_of_WF (hc.2.2.2.2.2.2.2.2.1 r hr).1

theorem ingestOps_ok {d : Bytes} {p : Packet} (h : Packet.parse d = .ok p) (service full : Name)
    (now : Nat) : ∀ op ∈ ingestOps p service full now, op.OK := by
  intro op hop
  obtain ⟨r, hr, rfl⟩ := List.mem_map.mp hop
  exact parsed_names_ok h r (List.mem_filter.mp hr).1

theorem parsed_id_lt {d : Bytes} {p : Packet} (h : Packet.parse d = .ok p) :
    p.header.id < 65536 := (Img.packet_ok h).1.1.1

end Dns.Mdns
