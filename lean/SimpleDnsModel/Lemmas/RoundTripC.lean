/-
Round trip, part C: RDATA. The dispatch of `RData.parse` on a record laid out
as TYPE, six bytes, RDLENGTH, RDATA; the hand-written parsers (OPT, IPSECKEY);
and the specification of `RData.writeG` for every well-formed value.
-/
import SimpleDnsModel.Lemmas.RoundTripB
namespace Dns

/-! ### facts about codes and schemas -/

theorem version_bits (ttl : Nat) : ((ttl &&& 0xFF00) >>> 8) % 256 = (ttl >>> 8) % 256 := by
  rw [Nat.shiftRight_and_distrib]
  have : (0xFF00 >>> 8 : Nat) = 2 ^ 8 - 1 := by decide
  rw [this, Nat.and_two_pow_sub_one_eq_mod]
  simp

theorem type_toCode_ofCode (c : Nat) : (TYPE.ofCode c).toCode = c := by
  unfold TYPE.ofCode; split <;> rfl

theorem type_ofCode_unknown {x c : Nat} (h : TYPE.ofCode x = .Unknown c) : c = x := by
  have := type_toCode_ofCode x
  rw [h] at this
  exact this

theorem parseTyped_flat (d : Bytes) (pos code : Nat) (ks : List FKind)
    (h : schemaOf code = some ks) :
    parseTyped d pos (TYPE.ofCode code) = (do
      let (vs, p) ← decAll d ks pos
      if flatCheck code vs then pure (.flat code vs, p) else .err) := by
  unfold schemaOf at h
  split at h <;> first | (cases h; rfl) | cases h

theorem schemaOf_facts {code : Nat} {ks : List FKind} (h : schemaOf code = some ks) :
    tailLast ks = true ∧ (∀ k ∈ ks, k.headOK = true) ∧
    (∃ k ks', ks = k :: ks' ∧ k.minOne = true) ∧ code < 65536 ∧ TYPE.ofCode code ≠ .OPT := by
  unfold schemaOf at h
  split at h <;> first
    | (cases h; exact ⟨by decide, by decide, ⟨_, _, rfl, by decide⟩, by decide, by decide⟩)
    | cases h

/-! ### `RData.parse` on a framed record -/

/-- `RData.parse` at the TYPE field of a record whose RDLENGTH is the length of the RDATA bytes
`rd` that follow: the type-specific parser sees the message cut just after `rd` -/
theorem RData.parse_frame (pre : Bytes) (ty : Nat) (mid rd post : Bytes)
    (hty : ty < 65536) (hmid : mid.length = 6) (hrd : rd.length < 65536) :
    RData.parse (pre ++ (beN 2 ty ++ (mid ++ (beN 2 rd.length ++ (rd ++ post))))) pre.length =
      if TYPE.ofCode ty = .OPT then
        optParse (pre ++ (beN 2 ty ++ (mid ++ (beN 2 rd.length ++ rd)))) pre.length
      else if rd.length = 0 then .ok (.empty (TYPE.ofCode ty), pre.length + 10)
      else (do
        let (x, _) ← parseTyped (pre ++ (beN 2 ty ++ (mid ++ (beN 2 rd.length ++ rd))))
          (pre.length + 10) (TYPE.ofCode ty)
        pure (x, pre.length + 10 + rd.length)) := by
  have htake : ∀ n, n = pre.length + rd.length + 10 →
      (pre ++ (beN 2 ty ++ (mid ++ (beN 2 rd.length ++ (rd ++ post))))).take n
        = pre ++ (beN 2 ty ++ (mid ++ (beN 2 rd.length ++ rd))) := by
    intro n hn
    have e : pre ++ (beN 2 ty ++ (mid ++ (beN 2 rd.length ++ (rd ++ post))))
        = (pre ++ (beN 2 ty ++ (mid ++ (beN 2 rd.length ++ rd)))) ++ post := by simp
    rw [e]
    exact List.take_left' (by simp [hmid]; omega)
  unfold RData.parse
  rw [if_neg (by simp [hmid]; omega)]
  rw [slice_at (a := pre) (m := beN 2 ty) (z := mid ++ (beN 2 rd.length ++ (rd ++ post))) rfl rfl
    (by simp)]
  simp only [Out.bind_ok]
  rw [slice_at (a := pre ++ (beN 2 ty ++ mid)) (m := beN 2 rd.length) (z := rd ++ post) (by simp)
    (by simp [hmid]) (by simp [hmid])]
  simp only [Out.bind_ok, deN_beN 2 ty (by simpa using hty),
    deN_beN 2 rd.length (by simpa using hrd)]
  rw [if_neg (by simp [hmid]; omega)]
  split
  · rw [htake _ rfl]
  · split
    · rfl
    · rw [htake _ (by omega)]

/-! ### OPT -/

theorem optParse_frame (pre : Bytes) (ty udp ttl : Nat) (lenb : Bytes) (codes : List (Nat × Bytes))
    (hudp : udp < 65536) (httl : ttl < 2 ^ 32) (hlenb : lenb.length = 2)
    (hcodes : ∀ x ∈ codes, x.1 < 65536 ∧ x.2.length < 65536) :
    optParse (pre ++ (beN 2 ty ++ ((beN 2 udp ++ beN 4 ttl) ++ (lenb ++ encTlvs 2 2 codes))))
        pre.length
      = .ok (.opt { udp := udp, version := (ttl >>> 8) % 256, codes := codes },
          pre.length + 10 + (encTlvs 2 2 codes).length) := by
  unfold optParse
  rw [if_neg (by simp [hlenb]; omega)]
  rw [slice_at (a := pre ++ beN 2 ty) (m := beN 2 udp)
    (z := beN 4 ttl ++ (lenb ++ encTlvs 2 2 codes)) (by simp) (by simp) (by simp)]
  simp only [Out.bind_ok]
  rw [slice_at (a := pre ++ (beN 2 ty ++ beN 2 udp)) (m := beN 4 ttl)
    (z := lenb ++ encTlvs 2 2 codes) (by simp) (by simp) (by simp)]
  simp only [Out.bind_ok]
  have e : pre ++ (beN 2 ty ++ ((beN 2 udp ++ beN 4 ttl) ++ (lenb ++ encTlvs 2 2 codes)))
      = (pre ++ (beN 2 ty ++ ((beN 2 udp ++ beN 4 ttl) ++ lenb))) ++ encTlvs 2 2 codes := by simp
  have e2 : pre.length + 10 = (pre ++ (beN 2 ty ++ ((beN 2 udp ++ beN 4 ttl) ++ lenb))).length := by
    simp [hlenb]
  rw [e, e2, optLoop_frame codes _ [] hcodes]
  simp only [Out.bind_ok, Out.pure_eq, deN_beN 2 udp (by simpa using hudp),
    deN_beN 4 ttl (by simpa using httl), version_bits]
  simp

/-! ### IPSECKEY -/

theorem ipseckeyParse_frame (pre : Bytes) (prec alg : Nat) (gw : Gateway) (key : Bytes)
    (hp : prec < 256) (ha : alg < 256) (hgw : gw.WF) :
    ∃ p, ipseckeyParse
        (pre ++ (UInt8.ofNat prec :: UInt8.ofNat gw.tag :: UInt8.ofNat alg :: (gw.write ++ key)))
        pre.length = .ok (.ipseckey prec alg gw key, p) := by
  have hpn : (UInt8.ofNat prec).toNat = prec := by simp [UInt8.toNat_ofNat']; omega
  have han : (UInt8.ofNat alg).toNat = alg := by simp [UInt8.toNat_ofNat']; omega
  unfold ipseckeyParse
  rw [if_neg (by simp)]
  rw [idx_at (a := pre) (b := UInt8.ofNat prec) (z := UInt8.ofNat gw.tag :: UInt8.ofNat alg ::
    (gw.write ++ key)) rfl rfl]
  simp only [Out.bind_ok]
  rw [idx_at (a := pre ++ [UInt8.ofNat prec]) (b := UInt8.ofNat gw.tag) (z := UInt8.ofNat alg ::
    (gw.write ++ key)) (by simp) (by simp)]
  simp only [Out.bind_ok]
  rw [idx_at (a := pre ++ [UInt8.ofNat prec, UInt8.ofNat gw.tag]) (b := UInt8.ofNat alg)
    (z := gw.write ++ key) (by simp) (by simp)]
  simp only [Out.bind_ok, hpn, han]
  have hkey : ∀ (g : Bytes), slice
      (pre ++ (UInt8.ofNat prec :: UInt8.ofNat gw.tag :: UInt8.ofNat alg :: (g ++ key)))
      (pre.length + 3 + g.length)
      (pre ++ (UInt8.ofNat prec :: UInt8.ofNat gw.tag :: UInt8.ofNat alg :: (g ++ key))).length
        = .ok key := by
    intro g
    exact slice_at (a := pre ++ (UInt8.ofNat prec :: UInt8.ofNat gw.tag :: UInt8.ofNat alg :: g))
      (m := key) (z := []) (by simp) (by simp; omega) (by simp; omega)
  cases gw with
  | none =>
    have := hkey []
    simp only [Gateway.write, Gateway.tag, List.nil_append, List.length_nil, Nat.add_zero] at this ⊢
    simp at this ⊢
    simp [this]
  | v4 a =>
    have := hkey (beN 4 a)
    simp only [Gateway.write, Gateway.tag, beN_length] at this ⊢
    have hs : slice (pre ++ (UInt8.ofNat prec :: UInt8.ofNat 1 :: UInt8.ofNat alg :: (beN 4 a ++ key)))
        (pre.length + 3) (pre.length + 3 + 4) = .ok (beN 4 a) :=
      slice_at (a := pre ++ [UInt8.ofNat prec, UInt8.ofNat 1, UInt8.ofNat alg]) (m := beN 4 a)
        (z := key) (by simp) (by simp) (by simp)
    simp only [Gateway.WF] at hgw
    simp at this hs ⊢
    simp [hs, deN_beN 4 a (by simpa using hgw)]
    rw [if_neg (by omega)]
    simp [this]
  | v6 a =>
    have := hkey (beN 16 a)
    simp only [Gateway.write, Gateway.tag, beN_length] at this ⊢
    have hs : slice (pre ++ (UInt8.ofNat prec :: UInt8.ofNat 2 :: UInt8.ofNat alg :: (beN 16 a ++ key)))
        (pre.length + 3) (pre.length + 3 + 16) = .ok (beN 16 a) :=
      slice_at (a := pre ++ [UInt8.ofNat prec, UInt8.ofNat 2, UInt8.ofNat alg]) (m := beN 16 a)
        (z := key) (by simp) (by simp) (by simp)
    simp only [Gateway.WF] at hgw
    simp at this hs ⊢
    simp [hs, deN_beN 16 a (by simpa using hgw)]
    rw [if_neg (by omega)]
    simp [this]
  | domain n =>
    have := hkey (Name.write n)
    simp only [Gateway.write, Gateway.tag, Name.write_length] at this ⊢
    simp only [Gateway.WF] at hgw
    have hn := Name.parse_write hgw (pre ++ [UInt8.ofNat prec, UInt8.ofNat 3, UInt8.ofNat alg]) key
    simp only [List.append_assoc, List.cons_append, List.nil_append, List.length_append,
      List.length_cons, List.length_nil] at hn
    simp at this hn ⊢
    simp [hn, this]

/-! ### the RDATA writer -/

theorem RData.WF.typeOf_facts {rd : RData} (h : rd.WF) :
    rd.typeOf.toCode < 65536 ∧ TYPE.ofCode rd.typeOf.toCode = rd.typeOf ∧
    ((∀ o, rd ≠ .opt o) → rd.typeOf ≠ .OPT) := by
  cases rd with
  | flat code vs =>
    simp only [RData.WF, SchemaOK] at h
    cases hs : schemaOf code with
    | none => simp [hs] at h
    | some ks =>
      obtain ⟨_, _, _, h4, h5⟩ := schemaOf_facts hs
      refine ⟨?_, ?_, fun _ => h5⟩
      · simp only [RData.typeOf, type_toCode_ofCode]; exact h4
      · simp only [RData.typeOf, type_toCode_ofCode]
  | ipseckey prec alg gw key =>
    exact ⟨by simp [RData.typeOf, TYPE.toCode], by simp [RData.typeOf, TYPE.toCode, TYPE.ofCode],
      fun _ => by simp [RData.typeOf]⟩
  | opt o =>
    exact ⟨by simp [RData.typeOf, TYPE.toCode], by simp [RData.typeOf, TYPE.toCode, TYPE.ofCode],
      fun h => absurd rfl (h o)⟩
  | null code data =>
    simp only [RData.WF] at h
    refine ⟨?_, ?_, fun _ => ?_⟩
    · simp only [RData.typeOf, type_toCode_ofCode]; exact h.2.2.1
    · simp only [RData.typeOf, type_toCode_ofCode]
    simp only [RData.typeOf]
    rcases h.2.2.2 with h10 | hu
    · subst h10; decide
    · intro hc; rw [hc] at hu; simp [TYPE.isUnknown] at hu
  | empty t =>
    simp only [RData.WF] at h
    exact ⟨h.2.2, h.2.1, fun _ => h.1⟩

/-- what `RData.writeG` guarantees about the RDATA bytes `b` appended after `out` (the message up
to and including RDLENGTH) -/
structure RDataSpec (c : Bool) (out : Bytes) (rd : RData) (b : Bytes) (t' : Table) : Prop where
  inv : TInv (out ++ b) t'
  le : b.length ≤ 65535
  lenEq : c = false → rd.len = b.length
  plain : ∃ pb, rd.write = .ok pb ∧ b.length ≤ pb.length ∧ (c = false → b = pb)
  opt : ∀ o, rd = .opt o → b = encTlvs 2 2 o.codes
  dec : (∀ o, rd ≠ .opt o) →
    (b = [] ∧ rd = .empty rd.typeOf) ∨
    (b ≠ [] ∧ ∃ p, parseTyped (out ++ b) out.length rd.typeOf = .ok (rd, p))

theorem RData.writeG_spec (c : Bool) (rd : RData) (off : Nat) (t : Table) (hwf : rd.WF) :
    ∃ b t', rd.writeG c off t = .ok (b, t') ∧
      ∀ out : Bytes, out.length = off → TInv out t → RDataSpec c out rd b t' := by
  cases rd with
  | flat code vs =>
    simp only [RData.WF, SchemaOK] at hwf
    cases hs : schemaOf code with
    | none => simp [hs] at hwf
    | some ks =>
      simp only [hs] at hwf
      obtain ⟨hok, hfc, hwl⟩ := hwf
      obtain ⟨f1, f2, ⟨k0, ks0, f3, f3'⟩, _, _⟩ := schemaOf_facts hs
      have hwl' : (encAll ks vs).length ≤ 65535 := by
        simpa [RData.writtenLen, RData.write, hs, hfc] using hwl
      refine ⟨(encAllG c ks vs off t).1, (encAllG c ks vs off t).2, by simp [RData.writeG, hs, hfc],
        fun out hlen hinv => ?_⟩
      have hA := encAllG_spec c ks vs off t out hok f1 f2 hlen hinv
      have hpl : c = false → (encAllG c ks vs off t).1 = encAll ks vs := by
        intro hc; subst hc; rw [encAllG_false]
      refine ⟨hA.inv, Nat.le_trans hA.le hwl', ?_, ?_, (fun o h => by cases h), fun _ => Or.inr ?_⟩
      · intro hc
        rw [hpl hc]
        simp only [RData.len, hs]
        exact lenAll_eq ks vs hok
      · exact ⟨encAll ks vs, by simp [RData.write, hs, hfc], hA.le, hpl⟩
      · have hpos := hA.pos k0 ks0 f3 f3'
        refine ⟨by intro h0; rw [h0] at hpos; simp at hpos, out.length + (encAllG c ks vs off t).1.length, ?_⟩
        simp only [RData.typeOf]
        rw [parseTyped_flat _ _ code ks hs, hA.dec]
        simp [hfc]
  | ipseckey prec alg gw key =>
    simp only [RData.WF] at hwf
    obtain ⟨hp, ha, hgw, hwl⟩ := hwf
    have hlenw : (gw.write).length = gw.len := by
      cases gw <;> simp [Gateway.write, Gateway.len, Name.write_length]
    refine ⟨UInt8.ofNat prec :: UInt8.ofNat gw.tag :: UInt8.ofNat alg :: (gw.write ++ key), t,
      by simp [RData.writeG, RData.write], fun out hlen hinv => ?_⟩
    refine ⟨hinv.append _, by simpa [RData.writtenLen, RData.write] using hwl, ?_,
      ⟨_, rfl, Nat.le_refl _, fun _ => rfl⟩, (fun o h => by cases h), fun _ => Or.inr ⟨by simp, ?_⟩⟩
    · intro _; simp [RData.len, hlenw]; omega
    · exact ipseckeyParse_frame out prec alg gw key hp ha hgw
  | opt o =>
    simp only [RData.WF] at hwf
    refine ⟨encTlvs 2 2 o.codes, t, by simp [RData.writeG, RData.write, encOptCodes],
      fun out hlen hinv => ?_⟩
    refine ⟨hinv.append _, by simpa [RData.writtenLen, RData.write, encOptCodes] using hwf.2, ?_,
      ⟨_, rfl, Nat.le_refl _, fun _ => rfl⟩, (fun o' h => by cases h; rfl),
      fun h => absurd rfl (h o)⟩
    intro _
    simp only [RData.len, encTlvs_length]
  | null code data =>
    simp only [RData.WF] at hwf
    obtain ⟨hne, hl, hc, hty⟩ := hwf
    refine ⟨data, t, by simp [RData.writeG, RData.write], fun out hlen hinv => ?_⟩
    refine ⟨hinv.append _, hl, fun _ => by simp [RData.len]; omega,
      ⟨_, rfl, Nat.le_refl _, fun _ => rfl⟩, (fun o h => by cases h),
      fun _ => Or.inr ⟨hne, out.length + data.length, ?_⟩⟩
    have hsl : slice (out ++ data) out.length (out ++ data).length = .ok data :=
      slice_at (a := out) (m := data) (z := []) (by simp) rfl (by simp)
    simp only [RData.typeOf]
    rcases hty with h10 | hu
    · subst h10
      show parseTyped (out ++ data) out.length .NULL = _
      simp only [parseTyped, hsl, Out.bind_ok]
      rw [if_neg (by omega)]; rfl
    · cases hcode : TYPE.ofCode code <;> rw [hcode] at hu <;> simp [TYPE.isUnknown] at hu
      rename_i c'
      have := type_ofCode_unknown hcode
      subst this
      simp only [parseTyped, hsl, Out.bind_ok]
      rw [if_neg (by omega)]; rfl
  | empty ty =>
    refine ⟨[], t, by simp [RData.writeG, RData.write], fun out hlen hinv => ?_⟩
    exact ⟨hinv.append _, by simp, fun _ => by simp [RData.len],
      ⟨_, rfl, Nat.le_refl _, fun _ => rfl⟩, (fun o h => by cases h), fun _ => Or.inl ⟨rfl, rfl⟩⟩

end Dns
