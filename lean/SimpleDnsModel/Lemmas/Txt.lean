/-
Lemmas for property C19 (TXT text and attribute conversions are lossless):
ByteArray ↔ List round trip, UTF-8 facts derived from core's encoder
(`String.utf8EncodeChar`), `chunks`, `charStrsNew`, attribute association
lists, `splitChars` and `attrOfPart`.
-/
import SimpleDnsModel.Model.Txt
namespace Dns

/-! ## ByteArray ↔ List -/

theorem byteArray_toList_loop (a : ByteArray) (i : Nat) (r : List UInt8) :
    ByteArray.toList.loop a i r = r.reverse ++ a.data.toList.drop i := by
  fun_induction ByteArray.toList.loop a i r with
  | case1 i r h ih =>
    have h' : i < a.data.toList.length := by rw [Array.length_toList]; exact h
    rw [ih, List.drop_eq_getElem_cons h']
    have : a.get! i = a.data.toList[i] := by
      cases a with
      | mk d =>
        simp only [ByteArray.get!]
        have hd : i < d.size := by simpa using h'
        simp [hd]
    simp [this]
  | case2 i r h =>
    have h' : a.data.toList.length ≤ i := by
      have : ¬ i < a.data.toList.length := by rw [Array.length_toList]; exact h
      omega
    simp [List.drop_eq_nil_of_le h']

theorem byteArray_toList (a : ByteArray) : a.toList = a.data.toList := by
  simp [ByteArray.toList, byteArray_toList_loop]

/-- `List → ByteArray → List` and back: the conversion used by `stringOfBytes?` inverts the one
used by `bytesOfString`. -/
theorem byteArray_mk_toList (a : ByteArray) : ByteArray.mk a.toList.toArray = a := by
  rw [byteArray_toList]

theorem toList_byteArray_mk (b : Bytes) : (ByteArray.mk b.toArray).toList = b := by
  rw [byteArray_toList]

/-! ## UTF-8 -/

/-- `String::from_utf8(s.as_bytes().to_vec()) == Ok(s)` -/
theorem stringOfBytes?_bytesOfString (s : String) : stringOfBytes? (bytesOfString s) = some s := by
  unfold stringOfBytes? bytesOfString
  rw [byteArray_mk_toList]
  simp only [String.toUTF8_eq_toByteArray, String.fromUTF8?]
  rw [dif_pos s.isValidUTF8]
  rfl

theorem stringOfBytes?_eq_some {b : Bytes} {s : String} (h : stringOfBytes? b = some s) :
    b = bytesOfString s := by
  unfold stringOfBytes? String.fromUTF8? at h
  split at h
  · cases h
    simp [bytesOfString, String.fromUTF8, toList_byteArray_mk]
  · cases h

theorem stringOfBytes?_eq_some_iff {b : Bytes} {s : String} :
    stringOfBytes? b = some s ↔ b = bytesOfString s :=
  ⟨stringOfBytes?_eq_some, fun h => h ▸ stringOfBytes?_bytesOfString s⟩

theorem bytesOfString_inj {s t : String} (h : bytesOfString s = bytesOfString t) : s = t := by
  have := stringOfBytes?_bytesOfString s
  rw [h, stringOfBytes?_bytesOfString] at this
  exact (Option.some.inj this).symm

/-- the bytes of a string are the concatenation of the encodings of its characters -/
theorem bytesOfString_eq_flatMap (s : String) :
    bytesOfString s = s.toList.flatMap String.utf8EncodeChar := by
  unfold bytesOfString
  rw [byteArray_toList, String.toUTF8_eq_toByteArray, ← String.utf8Encode_toList, List.utf8Encode,
    List.toList_data_toByteArray]

theorem bytesOfString_ofList (l : List Char) :
    bytesOfString (String.ofList l) = l.flatMap String.utf8EncodeChar := by
  rw [bytesOfString_eq_flatMap, String.toList_ofList]

theorem bytesOfString_empty : bytesOfString "" = [] := by
  rw [bytesOfString_eq_flatMap]; rfl

theorem bytesOfString_eq_nil {s : String} (h : bytesOfString s = []) : s = "" :=
  bytesOfString_inj (h.trans bytesOfString_empty.symm)

/-- a string has at least as many bytes as characters -/
theorem length_le_length_bytesOfString (s : String) : s.toList.length ≤ (bytesOfString s).length := by
  rw [bytesOfString_eq_flatMap]
  induction s.toList with
  | nil => simp
  | cons c cs ih =>
    have := Char.utf8Size_pos c
    simp only [List.flatMap_cons, List.length_append, List.length_cons,
      String.length_utf8EncodeChar]
    omega

/-- every byte of a multi-byte encoding has its top bit set; a one-byte encoding is the
character itself (`< 0x80`).  Hence a byte `< 0x80` occurs in the encoding of `c` only as `c`. -/
theorem mem_utf8EncodeChar_ascii {c : Char} {b : UInt8} (hb : b.toNat < 128)
    (h : b ∈ String.utf8EncodeChar c) : c.val.toNat = b.toNat := by
  unfold String.utf8EncodeChar at h
  simp only at h
  split at h
  · rename_i h1
    simp only [List.mem_singleton] at h
    subst h
    simp only [UInt8.toNat_ofNat']
    omega
  · split at h
    · simp only [List.mem_cons, List.not_mem_nil, or_false] at h
      rcases h with h | h <;> subst h <;> simp only [UInt8.toNat_ofNat'] at hb <;> omega
    · split at h
      · simp only [List.mem_cons, List.not_mem_nil, or_false] at h
        rcases h with h | h | h <;> subst h <;> simp only [UInt8.toNat_ofNat'] at hb <;> omega
      · simp only [List.mem_cons, List.not_mem_nil, or_false] at h
        rcases h with h | h | h | h <;> subst h <;> simp only [UInt8.toNat_ofNat'] at hb <;> omega

theorem char_eq_of_val_toNat {c d : Char} (h : c.val.toNat = d.val.toNat) : c = d :=
  Char.ext (UInt32.toNat_inj.mp h)

/-- KEY LEMMA: the byte `0x3D` occurs in the UTF-8 encoding of a string only where the string
has the character `'='`. -/
theorem eq_byte_not_mem_bytesOfString {k : String} (h : '=' ∉ k.toList) :
    (61 : UInt8) ∉ bytesOfString k := by
  rw [bytesOfString_eq_flatMap]
  intro hm
  obtain ⟨c, hc, hb⟩ := List.mem_flatMap.mp hm
  have := mem_utf8EncodeChar_ascii (b := 61) (by decide) hb
  have : c = '=' := char_eq_of_val_toNat (by rw [this]; rfl)
  exact h (this ▸ hc)

theorem eq_byte_mem_bytesOfString {k : String} (h : '=' ∈ k.toList) :
    (61 : UInt8) ∈ bytesOfString k := by
  rw [bytesOfString_eq_flatMap]
  exact List.mem_flatMap.mpr ⟨'=', h, by decide⟩

/-! ## `CharStr.new`, `charStrsNew`, `chunks` -/

theorem CharStr.new_ok_iff (b : Bytes) : CharStr.new b = .ok b ↔ b.length ≤ 255 := by
  unfold CharStr.new; split <;> simp <;> omega

theorem CharStr.new_err_iff (b : Bytes) : CharStr.new b = .err ↔ 255 < b.length := by
  unfold CharStr.new; split <;> simp <;> omega

theorem CharStr.new_ne_panic (b : Bytes) : CharStr.new b ≠ .panic := by
  unfold CharStr.new; split <;> simp

theorem CharStr.new_eq_ok {b c : Bytes} (h : CharStr.new b = .ok c) : c = b ∧ b.length ≤ 255 := by
  unfold CharStr.new at h; split at h
  · cases h
  · cases h; exact ⟨rfl, by omega⟩

theorem charStrsNew_ok {l : List Bytes} (h : ∀ c ∈ l, c.length ≤ 255) : charStrsNew l = .ok l := by
  induction l with
  | nil => rfl
  | cons c cs ih =>
    have hc := (CharStr.new_ok_iff c).mpr (h c (by simp))
    simp [charStrsNew, hc, ih (fun x hx => h x (by simp [hx]))]

theorem charStrsNew_err {l : List Bytes} (h : ∃ c ∈ l, 255 < c.length) : charStrsNew l = .err := by
  induction l with
  | nil => simp at h
  | cons c cs ih =>
    by_cases hc : 255 < c.length
    · simp [charStrsNew, (CharStr.new_err_iff c).mpr hc]
    · have hc' := (CharStr.new_ok_iff c).mpr (by omega)
      obtain ⟨x, hx, hl⟩ := h
      have : ∃ c ∈ cs, 255 < c.length := by
        rcases List.mem_cons.mp hx with rfl | hx
        · exact absurd hl hc
        · exact ⟨x, hx, hl⟩
      simp [charStrsNew, hc', ih this]

/-- `charStrsNew` either accepts the list unchanged (all strings fit) or refuses it; it never
truncates and never panics. -/
theorem charStrsNew_cases (l : List Bytes) :
    (charStrsNew l = .ok l ∧ ∀ c ∈ l, c.length ≤ 255) ∨
    (charStrsNew l = .err ∧ ∃ c ∈ l, 255 < c.length) := by
  by_cases h : ∀ c ∈ l, c.length ≤ 255
  · exact .inl ⟨charStrsNew_ok h, h⟩
  · have : ∃ c ∈ l, 255 < c.length := by
      false_or_by_contra
      rename_i hn
      exact h (fun c hc => by
        false_or_by_contra
        rename_i hlt
        exact hn ⟨c, hc, by omega⟩)
    exact .inr ⟨charStrsNew_err this, this⟩

theorem charStrsNew_ok_iff (l l' : List Bytes) :
    charStrsNew l = .ok l' ↔ l' = l ∧ ∀ c ∈ l, c.length ≤ 255 := by
  rcases charStrsNew_cases l with ⟨h, hl⟩ | ⟨h, hl⟩
  · rw [h]
    constructor
    · intro e; cases e; exact ⟨rfl, hl⟩
    · rintro ⟨rfl, _⟩; rfl
  · rw [h]
    constructor
    · intro e; cases e
    · rintro ⟨_, hall⟩
      obtain ⟨c, hc, hlt⟩ := hl
      have := hall c hc
      omega

theorem charStrsNew_err_iff (l : List Bytes) :
    charStrsNew l = .err ↔ ∃ c ∈ l, 255 < c.length := by
  rcases charStrsNew_cases l with ⟨h, hl⟩ | ⟨h, hl⟩
  · rw [h]
    constructor
    · intro e; cases e
    · rintro ⟨c, hc, hlt⟩
      have := hl c hc
      omega
  · rw [h]; exact ⟨fun _ => hl, fun _ => rfl⟩

theorem charStrsNew_ne_panic (l : List Bytes) : charStrsNew l ≠ .panic := by
  rcases charStrsNew_cases l with ⟨h, _⟩ | ⟨h, _⟩ <;> rw [h] <;> simp

theorem chunks_nil (n : Nat) : chunks n [] = [] := by
  unfold chunks; simp

theorem chunks_cons {n : Nat} {b : Bytes} (hn : 0 < n) (hb : b ≠ []) :
    chunks n b = b.take n :: chunks n (b.drop n) := by
  rw [chunks]
  have : ¬ (n = 0 ∨ b = []) := by
    rintro (h | h)
    · omega
    · exact hb h
  rw [dif_neg this]

/-- `slice.chunks(n).flatten() == slice` -/
theorem chunks_flatten {n : Nat} (hn : 0 < n) (b : Bytes) : (chunks n b).flatten = b := by
  fun_induction chunks n b with
  | case1 b h =>
    rcases h with h | h
    · omega
    · simp [h]
  | case2 b h ih =>
    simp [ih]

/-- every chunk is non-empty and has at most `n` bytes -/
theorem chunks_length {n : Nat} (b : Bytes) :
    ∀ c ∈ chunks n b, 1 ≤ c.length ∧ c.length ≤ n := by
  fun_induction chunks n b with
  | case1 b h => simp
  | case2 b h ih =>
    intro c hc
    rcases List.mem_cons.mp hc with rfl | hc
    · have hb : b ≠ [] := fun e => h (.inr e)
      have : 0 < b.length := List.length_pos_iff.mpr hb
      have : n ≠ 0 := fun e => h (.inl e)
      simp only [List.length_take]
      omega
    · exact ih c hc

/-- a slice longer than one chunk and at most two chunks long gives a full and a partial chunk -/
theorem chunks_two {n : Nat} (b : Bytes) (h1 : n < b.length) (h2 : b.length ≤ 2 * n) :
    (chunks n b).map List.length = [n, b.length - n] := by
  have hb : b ≠ [] := by intro e; simp [e] at h1
  have hd : b.drop n ≠ [] := by
    intro e
    have := congrArg List.length e
    simp at this; omega
  have hdd : (b.drop n).drop n = [] := by
    apply List.eq_nil_of_length_eq_zero; simp; omega
  rw [chunks_cons (by omega) hb, chunks_cons (by omega) hd, hdd, chunks_nil]
  simp only [List.map_cons, List.map_nil, List.length_take, List.length_drop]
  congr 1
  · omega
  · congr 1; omega

/-- all chunks but the last have exactly `n` bytes -/
theorem chunks_length_getElem? {n : Nat} (b : Bytes) (i : Nat) (c : Bytes)
    (h : i + 1 < (chunks n b).length) (hc : (chunks n b)[i]? = some c) : c.length = n := by
  fun_induction chunks n b generalizing i with
  | case1 b h' => simp at h
  | case2 b h' ih =>
    have hrest : chunks n (List.drop n b) ≠ [] := by
      intro e; simp [e] at h
    have hdrop : List.drop n b ≠ [] := by
      intro e; rw [e, chunks_nil] at hrest; exact hrest rfl
    have hlen : n < b.length := by
      have := List.length_pos_iff.mpr hdrop
      simp at this; omega
    cases i with
    | zero =>
      simp at hc; subst hc; simp; omega
    | succ i =>
      simp only [List.getElem?_cons_succ] at hc
      exact ih i (by simpa using h) hc

/-! ## attribute association lists -/

/-- The value stored for key `k` (in the first entry with that key): `none` = key absent,
`some none` = key present without a value, `some (some v)` = key present with value `v`. -/
def Attrs.lookup (m : Attrs) (k : String) : Option (Option String) := List.lookup k m

def Attrs.keys (m : Attrs) : List String := m.map Prod.fst

/-- `for (k, v) in es { acc.entry(k).or_insert(v) }` -/
def Attrs.insertAll (acc es : Attrs) : Attrs := es.foldl (fun m e => m.insertIfAbsent e.1 e.2) acc

theorem Attrs.has_iff (m : Attrs) (k : String) : m.has k = true ↔ k ∈ m.keys := by
  simp only [Attrs.has, Attrs.keys, List.any_eq_true, List.mem_map, beq_iff_eq]

theorem Attrs.lookup_eq_none_iff (m : Attrs) (k : String) : m.lookup k = none ↔ k ∉ m.keys := by
  induction m with
  | nil => simp [Attrs.lookup, Attrs.keys]
  | cons e es ih =>
    obtain ⟨k1, v1⟩ := e
    simp only [Attrs.lookup, Attrs.keys, List.lookup_cons, List.map_cons, List.mem_cons, not_or]
      at ih ⊢
    by_cases hk : k = k1
    · subst hk; simp
    · have : (k == k1) = false := by simpa using hk
      simp [this, hk, ih]

theorem Attrs.lookup_append (a b : Attrs) (k : String) :
    Attrs.lookup (a ++ b) k = (a.lookup k).or (b.lookup k) := List.lookup_append

theorem Attrs.keys_insertIfAbsent (m : Attrs) (k : String) (v : Option String) :
    (m.insertIfAbsent k v).keys = if k ∈ m.keys then m.keys else m.keys ++ [k] := by
  unfold Attrs.insertIfAbsent
  by_cases h : k ∈ m.keys
  · simp [h, (Attrs.has_iff m k).mpr h]
  · have : m.has k = false := by
      rw [← Bool.not_eq_true, Attrs.has_iff]; exact h
    simp only [Attrs.keys] at h ⊢
    simp [h, this]

theorem Attrs.lookup_insertIfAbsent (m : Attrs) (k : String) (v : Option String) (k' : String) :
    (m.insertIfAbsent k v).lookup k' = (m.lookup k').or (if k' = k then some v else none) := by
  unfold Attrs.insertIfAbsent
  by_cases h : k ∈ m.keys
  · rw [if_pos ((Attrs.has_iff m k).mpr h)]
    by_cases e : k' = k
    · subst e
      cases hl : m.lookup k' with
      | none => exact absurd h ((Attrs.lookup_eq_none_iff m k').mp hl)
      | some x => rfl
    · simp [e]
  · have : m.has k = false := by
      rw [← Bool.not_eq_true, Attrs.has_iff]; exact h
    simp only [this, Bool.false_eq_true, if_false]
    rw [Attrs.lookup_append]
    congr 1
    simp only [Attrs.lookup, List.lookup_cons, List.lookup_nil]
    by_cases e : k' = k
    · subst e; simp
    · have : (k' == k) = false := by simpa using e
      simp [this, e]

theorem Attrs.nodup_keys_insertIfAbsent {m : Attrs} (k : String) (v : Option String)
    (h : m.keys.Nodup) : (m.insertIfAbsent k v).keys.Nodup := by
  rw [Attrs.keys_insertIfAbsent]
  split
  · exact h
  · rename_i hk
    rw [List.nodup_append]
    refine ⟨h, by simp, ?_⟩
    intro a ha b hb
    simp only [List.mem_singleton] at hb
    subst hb
    intro e; subst e; exact hk ha

theorem Attrs.insertAll_nil (acc : Attrs) : acc.insertAll [] = acc := rfl

theorem Attrs.insertAll_cons (acc : Attrs) (e : String × Option String) (es : Attrs) :
    acc.insertAll (e :: es) = (acc.insertIfAbsent e.1 e.2).insertAll es := rfl

/-- first occurrence wins: looking a key up after `insertAll` is looking it up in the
concatenation -/
theorem Attrs.lookup_insertAll (acc es : Attrs) (k : String) :
    (acc.insertAll es).lookup k = Attrs.lookup (acc ++ es) k := by
  induction es generalizing acc with
  | nil => simp [Attrs.insertAll_nil]
  | cons e es ih =>
    rw [Attrs.insertAll_cons, ih, Attrs.lookup_append, Attrs.lookup_insertIfAbsent,
      Attrs.lookup_append]
    obtain ⟨k1, v1⟩ := e
    simp only [Attrs.lookup, List.lookup_cons]
    by_cases hk : k = k1
    · subst hk; simp
    · have : (k == k1) = false := by simpa using hk
      simp [hk, this]

theorem Attrs.nodup_keys_insertAll {acc : Attrs} (es : Attrs) (h : acc.keys.Nodup) :
    (acc.insertAll es).keys.Nodup := by
  induction es generalizing acc with
  | nil => exact h
  | cons e es ih => exact ih (Attrs.nodup_keys_insertIfAbsent e.1 e.2 h)

/-- keys of the result: those of `acc`, then the new ones -/
theorem Attrs.mem_keys_insertAll (acc es : Attrs) (k : String) :
    k ∈ (acc.insertAll es).keys ↔ k ∈ acc.keys ∨ k ∈ es.keys := by
  have h := Attrs.lookup_insertAll acc es k
  have h1 := Attrs.lookup_eq_none_iff (acc.insertAll es) k
  have h2 := Attrs.lookup_eq_none_iff acc k
  have h3 := Attrs.lookup_eq_none_iff es k
  rw [Attrs.lookup_append] at h
  rw [h] at h1
  cases ha : acc.lookup k <;> cases hb : es.lookup k <;> simp_all

/-- with pairwise distinct new keys, none of them present already, nothing is dropped and the
insertion order is kept -/
theorem Attrs.insertAll_of_nodup {acc es : Attrs} (hn : es.keys.Nodup)
    (hd : ∀ k ∈ es.keys, k ∉ acc.keys) : acc.insertAll es = acc ++ es := by
  induction es generalizing acc with
  | nil => simp [Attrs.insertAll_nil]
  | cons e es ih =>
    have hk : e.1 ∉ acc.keys := hd e.1 (by simp [Attrs.keys])
    have hhas : acc.has e.1 = false := by
      rw [← Bool.not_eq_true, Attrs.has_iff]; exact hk
    have hn' : e.1 ∉ Attrs.keys es ∧ (Attrs.keys es).Nodup := by
      simpa [Attrs.keys] using hn
    rw [Attrs.insertAll_cons]
    have : acc.insertIfAbsent e.1 e.2 = acc ++ [e] := by
      simp [Attrs.insertIfAbsent, hhas]
    rw [this, ih hn'.2]
    · simp
    · intro k hk'
      have h1 := hd k (by simp [Attrs.keys] at hk' ⊢; exact .inr hk')
      simp only [Attrs.keys, List.map_append, List.map_cons, List.map_nil, List.mem_append,
        List.mem_singleton, not_or]
      refine ⟨h1, ?_⟩
      intro e'; subst e'; exact hn'.1 hk'

theorem Attrs.lookup_cons_self (k : String) (v : Option String) (m : Attrs) :
    Attrs.lookup ((k, v) :: m) k = some v := by
  simp [Attrs.lookup]

/-- the first entry for a key is the one found -/
theorem Attrs.lookup_append_cons_of_not_mem (pre post : Attrs) (k : String) (v : Option String)
    (h : k ∉ pre.keys) : Attrs.lookup (pre ++ (k, v) :: post) k = some v := by
  rw [Attrs.lookup_append, (Attrs.lookup_eq_none_iff pre k).mpr h, Attrs.lookup_cons_self]; rfl

theorem Attrs.lookup_of_mem_nodup {m : Attrs} (hn : m.keys.Nodup) {k : String}
    {v : Option String} (h : (k, v) ∈ m) : m.lookup k = some v := by
  obtain ⟨pre, post, rfl⟩ := List.append_of_mem h
  apply Attrs.lookup_append_cons_of_not_mem
  intro hk
  simp only [Attrs.keys, List.map_append, List.map_cons] at hn hk
  rw [List.nodup_append] at hn
  exact hn.2.2 k hk k (by simp) rfl

theorem Attrs.mem_keys_iff (m : Attrs) (k : String) : k ∈ m.keys ↔ ∃ v, (k, v) ∈ m := by
  simp [Attrs.keys]

/-! ## `attrOfCharStr`, `Txt.attributes` -/

theorem takeWhile_append_cons {α} (p : α → Bool) (l : List α) (a : α) (r : List α)
    (hl : ∀ x ∈ l, p x = true) (ha : p a = false) : (l ++ a :: r).takeWhile p = l := by
  induction l with
  | nil => simp [ha]
  | cons x xs ih =>
    simp [hl x (by simp), ih (fun y hy => hl y (by simp [hy]))]

theorem dropWhile_append_cons {α} (p : α → Bool) (l : List α) (a : α) (r : List α)
    (hl : ∀ x ∈ l, p x = true) (ha : p a = false) : (l ++ a :: r).dropWhile p = a :: r := by
  induction l with
  | nil => simp [ha]
  | cons x xs ih =>
    simp [hl x (by simp), ih (fun y hy => hl y (by simp [hy]))]

theorem takeWhile_all {α} (p : α → Bool) (l : List α) (hl : ∀ x ∈ l, p x = true) :
    l.takeWhile p = l := by
  induction l with
  | nil => rfl
  | cons x xs ih => simp [hl x (by simp), ih (fun y hy => hl y (by simp [hy]))]

theorem dropWhile_all {α} (p : α → Bool) (l : List α) (hl : ∀ x ∈ l, p x = true) :
    l.dropWhile p = [] := by
  induction l with
  | nil => rfl
  | cons x xs ih => simp [hl x (by simp), ih (fun y hy => hl y (by simp [hy]))]

theorem all_ne_of_not_mem {α} [DecidableEq α] {a : α} {l : List α} (h : a ∉ l) :
    ∀ x ∈ l, (x != a) = true := by
  intro x hx
  simp only [bne_iff_ne, ne_eq]
  intro e; subst e; exact h hx

theorem filterMap_eq_self {α} {f : α → Option α} {l : List α} (h : ∀ a ∈ l, f a = some a) :
    l.filterMap f = l := by
  induction l with
  | nil => rfl
  | cons x xs ih =>
    rw [List.filterMap_cons, h x (by simp), ih (fun a ha => h a (by simp [ha]))]

/-- reading back one entry written by `Txt.ofMap`, for a key without `'='` -/
theorem attrOfCharStr_attrEntryBytes (e : String × Option String) (h : '=' ∉ e.1.toList) :
    attrOfCharStr (attrEntryBytes e) = some e := by
  obtain ⟨k, v⟩ := e
  have hk := all_ne_of_not_mem (eq_byte_not_mem_bytesOfString h)
  cases v with
  | none =>
    simp only [attrOfCharStr, attrEntryBytes]
    rw [takeWhile_all _ _ hk, dropWhile_all _ _ hk, stringOfBytes?_bytesOfString]
  | some v =>
    simp only [attrOfCharStr, attrEntryBytes]
    rw [takeWhile_append_cons _ _ _ _ hk (by decide), dropWhile_append_cons _ _ _ _ hk (by decide),
      stringOfBytes?_bytesOfString]
    simp only
    split
    · rename_i hv
      have : v = "" := bytesOfString_eq_nil (by simpa using hv)
      rw [this]
    · rw [stringOfBytes?_bytesOfString]

/-- one step of the loop of `TXT::attributes` -/
theorem Txt.attributes_eq_insertAll (ss : List Bytes) :
    Txt.attributes ss = Attrs.insertAll [] (ss.filterMap attrOfCharStr) := by
  unfold Txt.attributes
  suffices h : ∀ acc : Attrs, ss.foldl (fun m cs => match attrOfCharStr cs with
      | some (k, v) => m.insertIfAbsent k v
      | none => m) acc = acc.insertAll (ss.filterMap attrOfCharStr) from h []
  induction ss with
  | nil => intro acc; rfl
  | cons c cs ih =>
    intro acc
    simp only [List.foldl_cons, List.filterMap_cons]
    rw [ih]
    cases hc : attrOfCharStr c with
    | none => rfl
    | some e => rfl

/-! ## `splitChars`, `attrOfPart`, `Txt.longAttributes` -/

theorem splitChars_ne_nil (sep : Char) (cs : List Char) : splitChars sep cs ≠ [] := by
  cases cs with
  | nil => simp [splitChars]
  | cons c rest =>
    simp only [splitChars]
    split
    · simp
    · split <;> simp

/-- a piece without separator followed by a separator is split off unchanged -/
theorem splitChars_append_sep (sep : Char) (p r : List Char) (h : sep ∉ p) :
    splitChars sep (p ++ sep :: r) = p :: splitChars sep r := by
  induction p with
  | nil => simp [splitChars]
  | cons c p ih =>
    have hc : c ≠ sep := fun e => h (by simp [e])
    have hp : sep ∉ p := fun e => h (by simp [e])
    simp only [List.cons_append, splitChars, if_neg hc, ih hp]

theorem splitChars_of_not_mem (sep : Char) (p : List Char) (h : sep ∉ p) :
    splitChars sep p = [p] := by
  induction p with
  | nil => simp [splitChars]
  | cons c p ih =>
    have hc : c ≠ sep := fun e => h (by simp [e])
    have hp : sep ∉ p := fun e => h (by simp [e])
    simp only [splitChars, if_neg hc, ih hp]

/-- (a1) joining the pieces with the separator gives back the input -/
theorem intercalate_splitChars (sep : Char) (cs : List Char) :
    [sep].intercalate (splitChars sep cs) = cs := by
  induction cs with
  | nil => simp [splitChars]
  | cons c rest ih =>
    simp only [splitChars]
    split
    · rename_i hc
      subst hc
      rw [List.intercalate_cons_of_ne_nil (splitChars_ne_nil _ _), ih]; rfl
    · split
      · rename_i he; exact absurd he (splitChars_ne_nil _ _)
      · rename_i p ps he
        rw [he] at ih
        rw [List.intercalate_cons_cons_left, ih]

/-- (a2) no piece contains the separator -/
theorem splitChars_no_sep (sep : Char) (cs : List Char) : ∀ p ∈ splitChars sep cs, sep ∉ p := by
  induction cs with
  | nil => simp [splitChars]
  | cons c rest ih =>
    simp only [splitChars]
    split
    · intro p hp
      rcases List.mem_cons.mp hp with rfl | hp
      · simp
      · exact ih p hp
    · rename_i hc
      split
      · intro p hp
        simp only [List.mem_singleton] at hp
        subst hp
        simpa using Ne.symm hc
      · rename_i q qs he
        rw [he] at ih
        intro p hp
        rcases List.mem_cons.mp hp with rfl | hp
        · have := ih q (by simp)
          simp only [List.mem_cons, not_or]
          exact ⟨Ne.symm hc, this⟩
        · exact ih p (by simp [hp])

/-- (a3) the split is the only non-empty list of separator-free pieces that joins to the input -/
theorem splitChars_intercalate (sep : Char) (ps : List (List Char)) (hne : ps ≠ [])
    (h : ∀ p ∈ ps, sep ∉ p) : splitChars sep ([sep].intercalate ps) = ps := by
  induction ps with
  | nil => exact absurd rfl hne
  | cons p qs ih =>
    cases qs with
    | nil => simpa using splitChars_of_not_mem sep p (h p (by simp))
    | cons q rest =>
      rw [List.intercalate_cons_cons, List.append_assoc]
      have : [sep] ++ [sep].intercalate (q :: rest) = sep :: [sep].intercalate (q :: rest) := rfl
      rw [this, splitChars_append_sep sep p _ (h p (by simp)),
        ih (by simp) (fun x hx => h x (by simp [hx]))]

theorem exists_first_split {α} [DecidableEq α] {a : α} {l : List α} (h : a ∈ l) :
    ∃ s t, l = s ++ a :: t ∧ a ∉ s := by
  induction l with
  | nil => simp at h
  | cons x xs ih =>
    by_cases e : x = a
    · exact ⟨[], xs, by simp [e], by simp⟩
    · have : a ∈ xs := by
        rcases List.mem_cons.mp h with h | h
        · exact absurd h.symm e
        · exact h
      obtain ⟨s, t, rfl, hs⟩ := ih this
      exact ⟨x :: s, t, by simp, by simp [hs, Ne.symm e]⟩

/-- (b1) a part without `'='` is a key without value -/
theorem attrOfPart_of_not_mem (part : List Char) (h : '=' ∉ part) :
    attrOfPart part = (String.ofList part, none) := by
  have hk := all_ne_of_not_mem h
  simp only [attrOfPart]
  rw [takeWhile_all _ _ hk, dropWhile_all _ _ hk]

/-- (b2) a part is cut at its first `'='` only -/
theorem attrOfPart_append (key value : List Char) (h : '=' ∉ key) :
    attrOfPart (key ++ '=' :: value) = (String.ofList key, some (String.ofList value)) := by
  have hk := all_ne_of_not_mem h
  simp only [attrOfPart]
  rw [takeWhile_append_cons _ _ _ _ hk (by decide), dropWhile_append_cons _ _ _ _ hk (by decide)]

theorem attrOfPart_of_mem (part : List Char) (h : '=' ∈ part) :
    ∃ key value, part = key ++ '=' :: value ∧ '=' ∉ key ∧
      attrOfPart part = (String.ofList key, some (String.ofList value)) := by
  obtain ⟨key, value, rfl, hk⟩ := exists_first_split h
  exact ⟨key, value, rfl, hk, attrOfPart_append key value hk⟩

/-- the map built by `TXT::long_attributes` from the joined string -/
def longAttrsOfString (full : String) : Attrs :=
  (splitChars ';' full.toList).foldl (fun m part =>
    let kv := attrOfPart part
    if kv.1.isEmpty then m else m.insertIfAbsent kv.1 kv.2) []

theorem longAttrsOfString_eq_insertAll (full : String) :
    longAttrsOfString full = Attrs.insertAll []
      (((splitChars ';' full.toList).map attrOfPart).filter (fun kv => !kv.1.isEmpty)) := by
  unfold longAttrsOfString
  generalize splitChars ';' full.toList = parts
  suffices h : ∀ acc : Attrs, parts.foldl (fun m part =>
      let kv := attrOfPart part
      if kv.1.isEmpty then m else m.insertIfAbsent kv.1 kv.2) acc =
      acc.insertAll ((parts.map attrOfPart).filter (fun kv => !kv.1.isEmpty)) from h []
  induction parts with
  | nil => intro acc; rfl
  | cons p ps ih =>
    intro acc
    simp only [List.foldl_cons, List.map_cons, List.filter_cons]
    rw [ih]
    by_cases he : (attrOfPart p).1.isEmpty = true
    · simp [he]
    · simp [he, Attrs.insertAll_cons]

theorem Txt.toStr_cases (ss : List Bytes) :
    (∃ s, Txt.toStr ss = .ok s ∧ ss.flatten = bytesOfString s) ∨
    (Txt.toStr ss = .err ∧ stringOfBytes? ss.flatten = none) := by
  unfold Txt.toStr
  cases h : stringOfBytes? ss.flatten with
  | none => exact .inr ⟨rfl, rfl⟩
  | some s => exact .inl ⟨s, rfl, stringOfBytes?_eq_some h⟩

theorem Txt.toStr_ne_panic (ss : List Bytes) : Txt.toStr ss ≠ .panic := by
  unfold Txt.toStr; split <;> simp

end Dns
