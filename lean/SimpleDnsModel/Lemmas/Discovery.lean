/-
simple-mdns pipeline and discovery: lemmas for C14 and C15 (split in two parts).
-/
import SimpleDnsModel.Lemmas.DiscoveryA
import SimpleDnsModel.Lemmas.DiscoveryB
