/-
Round trip of serialisation and parsing (C02, C03). The proof is split over
  RoundTripA  names: table invariant of `compressName`, `nameG_spec`
  RoundTripB  fields of the schema interpreter, `encFieldG_spec`, `encAllG_spec`
  RoundTripC  RDATA: `RData.parse_frame`, OPT, IPSECKEY, `RData.writeG_spec`
  RoundTripD  records, questions, sections: `RR.writeG_spec`, `writeRRsG_spec`, …
  RoundTripH  header: every flags value is one of C08's `flagSet`, response code and OPT
  RoundTripE  the message: `Packet.buildG_false`, `Packet.buildG_parse`
Everything is proved once for `buildG c`; `c = false` is `Packet.build` and `c = true` is
`Packet.buildCompressed`.
-/
import SimpleDnsModel.Lemmas.RoundTripE
