/-
Helper lemmas for C15 (advertised service instances are discovered faithfully):

* `from_records` as a fold of `recStep`; the records `into_records` produces (`instRecords`) and
  what the fold makes of them (`fromRecords_instRecords`);
* caching a list of fresh records of one owner appends them to the owner's bucket
  (`foldl_addCached_fresh`);
* a subdomain query on a store in which a single bucket has matching records returns exactly the
  matching records of that bucket, in bucket order (`getDomain_single`);
* the store `ServiceDiscovery::new` starts from (`discoveryInit_props`).
-/
import SimpleDnsModel.Lemmas.DiscoveryA
import SimpleDnsModel.Props.C17
import SimpleDnsModel.Props.C19
namespace Dns.Mdns

/-! ### `from_records` on the records of `into_records` -/

/-- one step of the fold of `from_records` -/
def recStep (i : Instance) (r : RR) : Instance :=
  match r.rdata with
  | .flat 1 [.int a] => { i with ips := insertNew i.ips (false, a) }
  | .flat 28 [.int a] => { i with ips := insertNew i.ips (true, a) }
  | .flat 16 [.strs ss] =>
    { i with attrs := attrsExtend i.attrs ((Txt.attributes ss).filter (fun e => !e.1.isEmpty)) }
  | .flat 33 [_, _, .int port, _] => { i with ports := insertNew i.ports port }
  | _ => i

theorem fromRecords_eq (service : Name) (records : List RR) :
    fromRecords service records =
      (records.findSome? (fun r => r.name.without service)).map (fun n =>
        { records.foldl recStep { name := [], ips := [], ports := [], attrs := [] } with
          name := Name.display n }) := rfl

def mkRR (full : Name) (ttl : Nat) (rd : RData) : RR :=
  { name := full, cls := .IN, ttl := ttl, rdata := rd, flush := false }

def ipRData (ip : Bool × Nat) : RData := if ip.1 then .flat 28 [.int ip.2] else .flat 1 [.int ip.2]
def srvRData (full : Name) (p : Nat) : RData := .flat 33 [.int 0, .int 0, .int p, .name full]

theorem intoRecords_eq (full : Name) (ips : List (Bool × Nat)) (ports : List Nat) (attrs : Attrs)
    (ttl : Nat) : intoRecords full ips ports attrs ttl =
      (Txt.ofMap attrs >>= fun ss => .ok (ips.map (fun ip => mkRR full ttl (ipRData ip)) ++
        (ports.map (fun p => mkRR full ttl (srvRData full p)) ++
          [mkRR full ttl (.flat 16 [.strs ss])]))) := rfl

theorem recStep_ip (i : Instance) (full : Name) (ttl : Nat) (ip : Bool × Nat) :
    recStep i (mkRR full ttl (ipRData ip)) = { i with ips := insertNew i.ips ip } := by
  obtain ⟨b, a⟩ := ip
  cases b <;> rfl

theorem recStep_srv (i : Instance) (full : Name) (ttl : Nat) (p : Nat) :
    recStep i (mkRR full ttl (srvRData full p)) = { i with ports := insertNew i.ports p } := rfl

theorem recStep_txt (i : Instance) (full : Name) (ttl : Nat) (ss : List Bytes) :
    recStep i (mkRR full ttl (.flat 16 [.strs ss])) =
      { i with attrs := attrsExtend i.attrs ((Txt.attributes ss).filter (fun e => !e.1.isEmpty)) } := rfl

theorem foldl_insertNew {α : Type} [BEq α] [LawfulBEq α] (xs acc : List α) (hn : xs.Nodup)
    (hd : ∀ x ∈ xs, x ∉ acc) : xs.foldl insertNew acc = acc ++ xs := by
  induction xs generalizing acc with
  | nil => simp
  | cons x xs ih =>
    rw [List.nodup_cons] at hn
    have hx : x ∉ acc := hd x (by simp)
    simp only [List.foldl_cons]
    have : insertNew acc x = acc ++ [x] := by
      unfold insertNew
      rw [if_neg]; simpa using hx
    rw [this, ih _ hn.2]
    · simp
    · intro y hy hmem
      rcases List.mem_append.mp hmem with h | h
      · exact hd y (by simp [hy]) h
      · simp only [List.mem_singleton] at h; subst h; exact hn.1 hy

theorem attrsExtend_fresh (new m : Attrs) (hn : new.keys.Nodup) (hd : ∀ k ∈ new.keys, k ∉ m.keys) :
    attrsExtend m new = m ++ new := by
  unfold attrsExtend
  induction new generalizing m with
  | nil => simp
  | cons e es ih =>
    simp only [Attrs.keys, List.map_cons, List.nodup_cons] at hn
    have he : m.has e.1 = false := by
      have := hd e.1 (by simp [Attrs.keys])
      rw [← Attrs.has_iff] at this; simpa using this
    simp only [List.foldl_cons, he, Bool.false_eq_true, if_false]
    rw [ih _ hn.2]
    · simp
    · intro k hk hmem
      simp only [Attrs.keys, List.map_append, List.map_cons, List.map_nil, List.mem_append,
        List.mem_singleton] at hmem
      rcases hmem with h | h
      · exact hd k (by simp only [Attrs.keys, List.map_cons, List.mem_cons]; exact .inr hk) h
      · subst h; exact hn.1 hk


theorem filter_nonempty_keys (attrs : Attrs) (h : ∀ e ∈ attrs, e.1 ≠ "") :
    attrs.filter (fun e => !e.1.isEmpty) = attrs := by
  rw [List.filter_eq_self]
  intro e he
  have := h e he
  simp [this]

/-- the records `into_records` produces -/
def instRecords (full : Name) (ips : List (Bool × Nat)) (ports : List Nat) (ss : List Bytes)
    (ttl : Nat) : List RR :=
  ips.map (fun ip => mkRR full ttl (ipRData ip)) ++
    (ports.map (fun p => mkRR full ttl (srvRData full p)) ++ [mkRR full ttl (.flat 16 [.strs ss])])

theorem foldl_recStep_ips (full : Name) (ttl : Nat) (ips : List (Bool × Nat)) (i : Instance) :
    (ips.map (fun ip => mkRR full ttl (ipRData ip))).foldl recStep i =
      { i with ips := ips.foldl insertNew i.ips } := by
  induction ips generalizing i with
  | nil => rfl
  | cons ip ips ih => simp only [List.map_cons, List.foldl_cons, recStep_ip, ih]

theorem foldl_recStep_ports (full : Name) (ttl : Nat) (ports : List Nat) (i : Instance) :
    (ports.map (fun p => mkRR full ttl (srvRData full p))).foldl recStep i =
      { i with ports := ports.foldl insertNew i.ports } := by
  induction ports generalizing i with
  | nil => rfl
  | cons p ps ih => simp only [List.map_cons, List.foldl_cons, recStep_srv, ih]

theorem fromRecords_instRecords (service : Name) (inst : Label) (ips : List (Bool × Nat))
    (ports : List Nat) (ss : List Bytes) (ttl : Nat) (hips : ips.Nodup) (hports : ports.Nodup) :
    fromRecords service (instRecords (inst :: service) ips ports ss ttl) =
      some { name := inst, ips := ips, ports := ports,
             attrs := attrsExtend [] ((Txt.attributes ss).filter (fun e => !e.1.isEmpty)) } := by
  have hw : Name.without (inst :: service) service = some [inst] :=
    (without_iff _ _ _).mpr ⟨by simp, rfl⟩
  have hname : (instRecords (inst :: service) ips ports ss ttl).findSome?
      (fun r => r.name.without service) = some [inst] := by
    unfold instRecords
    cases ips with
    | cons ip ips => simp [mkRR, hw]
    | nil =>
      cases ports with
      | cons p ps => simp [mkRR, hw]
      | nil => simp [mkRR, hw]
  rw [fromRecords_eq, hname]
  simp only [Option.map_some, instRecords, List.foldl_append, foldl_recStep_ips,
    foldl_recStep_ports, List.foldl_cons, List.foldl_nil, recStep_txt]
  rw [foldl_insertNew ips [] hips (by simp), foldl_insertNew ports [] hports (by simp)]
  simp [Name.display]

/-! ### the records of one instance are pairwise different -/



def instRDatas (full : Name) (ips : List (Bool × Nat)) (ports : List Nat) (ss : List Bytes) :
    List RData :=
  ips.map ipRData ++ (ports.map (srvRData full) ++ [.flat 16 [.strs ss]])

theorem instRecords_eq_map (full : Name) (ips : List (Bool × Nat)) (ports : List Nat)
    (ss : List Bytes) (ttl : Nat) :
    instRecords full ips ports ss ttl = (instRDatas full ips ports ss).map (mkRR full ttl) := by
  simp [instRecords, instRDatas, List.map_append, List.map_map, Function.comp_def]

theorem ipRData_inj {a b : Bool × Nat} (h : ipRData a = ipRData b) : a = b := by
  obtain ⟨a1, a2⟩ := a
  obtain ⟨b1, b2⟩ := b
  cases a1 <;> cases b1 <;> simp [ipRData] at h <;> simp [h]

theorem nodup_map_of_inj {α β : Type} {f : α → β} (hf : ∀ a b, f a = f b → a = b) {l : List α}
    (h : l.Nodup) : (l.map f).Nodup := by
  unfold List.Nodup at *
  rw [List.pairwise_map]
  exact h.imp (fun hne heq => hne (hf _ _ heq))

theorem instRDatas_nodup (full : Name) {ips : List (Bool × Nat)} {ports : List Nat} (ss : List Bytes)
    (hips : ips.Nodup) (hports : ports.Nodup) : (instRDatas full ips ports ss).Nodup := by
  unfold instRDatas
  rw [List.nodup_append]
  refine ⟨nodup_map_of_inj (fun _ _ => ipRData_inj) hips, ?_, ?_⟩
  · rw [List.nodup_append]
    refine ⟨nodup_map_of_inj (fun a b h => by simpa [srvRData] using h) hports, by simp, ?_⟩
    intro a ha b hb
    obtain ⟨p, _, rfl⟩ := List.mem_map.mp ha
    simp only [List.mem_singleton] at hb; subst hb
    simp [srvRData]
  · intro a ha b hb
    obtain ⟨ip, _, rfl⟩ := List.mem_map.mp ha
    obtain ⟨b1, b2⟩ := ip
    rcases List.mem_append.mp hb with hb | hb
    · obtain ⟨p, _, rfl⟩ := List.mem_map.mp hb
      cases b1 <;> simp [ipRData, srvRData]
    · simp only [List.mem_singleton] at hb; subst hb
      cases b1 <;> simp [ipRData]

theorem rrEq_mkRR (full : Name) (ttl : Nat) (a b : RData) :
    rrEq (mkRR full ttl a) (mkRR full ttl b) = true ↔ a = b := by
  simp [rrEq_iff, mkRR]

theorem instRecords_pairwise (full : Name) {ips : List (Bool × Nat)} {ports : List Nat}
    (ss : List Bytes) (ttl : Nat) (hips : ips.Nodup) (hports : ports.Nodup) :
    (instRecords full ips ports ss ttl).Pairwise (fun a c => rrEq a c = false) := by
  rw [instRecords_eq_map, List.pairwise_map]
  exact (instRDatas_nodup full ss hips hports).imp (fun hne => by
    rw [Bool.eq_false_iff]; intro h; exact hne ((rrEq_mkRR _ _ _ _).mp h))

theorem instRecords_ne_nil (full : Name) (ips : List (Bool × Nat)) (ports : List Nat)
    (ss : List Bytes) (ttl : Nat) : instRecords full ips ports ss ttl ≠ [] := by
  simp [instRecords]

theorem mem_instRecords {full : Name} {ips : List (Bool × Nat)} {ports : List Nat}
    {ss : List Bytes} {ttl : Nat} {r : RR} (h : r ∈ instRecords full ips ports ss ttl) :
    r.name = full ∧ r.ttl = ttl ∧ r.flush = false := by
  rw [instRecords_eq_map] at h
  obtain ⟨rd, _, rfl⟩ := List.mem_map.mp h
  exact ⟨rfl, rfl, rfl⟩

/-! ### caching fresh records -/

theorem Bucket.insert_fresh {b : Bucket} {r : RR} (h : b.get r = none) (k : Kind) :
    b.insert r k = b ++ [(r, k)] := by
  unfold Bucket.insert
  rw [if_neg]
  rw [Bucket.get_eq_none] at h
  simp only [List.any_eq_true, not_exists, not_and, Bool.not_eq_true]
  exact h

theorem Store.setBucket_setBucket (s : Store) (k : Key) (b1 b2 : Bucket) :
    (s.setBucket k b1).setBucket k b2 = s.setBucket k b2 := by
  unfold Store.setBucket
  by_cases h : s.entries.any (·.1 == k) = true
  · have h' : (s.entries.map (fun e => if (e.1 == k) = true then (k, b1) else e)).any (·.1 == k) = true := by
      rw [List.any_eq_true] at h ⊢
      obtain ⟨e, he, hk⟩ := h
      exact ⟨(k, b1), List.mem_map.mpr ⟨e, he, by simp [hk]⟩, by simp⟩
    simp only [h, h', if_true, List.map_map]
    congr 1
    apply List.map_congr_left
    intro e _
    by_cases hk : e.1 = k
    · simp [hk]
    · simp [hk]
  · have h' : (s.entries ++ [(k, b1)]).any (·.1 == k) = true := by simp
    simp only [h, h', if_true, Bool.false_eq_true, if_false]
    simp only [Bool.not_eq_true, List.any_eq_false, beq_iff_eq] at h
    simp only [List.map_append, List.map_cons, List.map_nil, beq_self_eq_true, if_true]
    congr 2
    rw [List.map_congr_left (g := id)]
    · simp
    · intro e he
      have := h e he
      simp [this]

/-- caching a record that has no equal in its bucket appends it to the bucket -/
theorem Store.addCached_fresh {s : Store} {r : RR} {now : Nat}
    (h : ((s.bucket (getKey r.name)).getD []).get r = none) :
    s.addCached r now = s.setBucket (getKey r.name)
      ((s.bucket (getKey r.name)).getD [] ++
        [(r, .cached (now + 1000 * (if r.flush = true then 1 else r.ttl))
               (now + 1000 * refreshOffsetSecs (if r.flush = true then 1 else r.ttl)))]) := by
  unfold Store.addCached
  simp only [h]
  rw [Bucket.insert_fresh h]


theorem foldl_addCached_fresh (rs : List RR) (r : RR) (s : Store) (now : Nat) (kf : Key) (e rf : Nat)
    (hk : ∀ x ∈ r :: rs, getKey x.name = kf)
    (he : ∀ x ∈ r :: rs, now + 1000 * (if x.flush = true then 1 else x.ttl) = e)
    (hrf : ∀ x ∈ r :: rs,
      now + 1000 * refreshOffsetSecs (if x.flush = true then 1 else x.ttl) = rf)
    (hp : (r :: rs).Pairwise (fun a c => rrEq a c = false))
    (hb : ∀ x ∈ r :: rs, ∀ y ∈ (s.bucket kf).getD [], rrEq y.1 x = false) :
    (r :: rs).foldl (fun st x => st.addCached x now) s =
      s.setBucket kf ((s.bucket kf).getD [] ++ (r :: rs).map (fun x => (x, Kind.cached e rf))) := by
  induction rs generalizing r s with
  | nil =>
    have h1 := hk r (by simp)
    have h2 := he r (by simp)
    have h3 := hrf r (by simp)
    simp only [List.foldl_cons, List.foldl_nil, List.map_cons, List.map_nil]
    rw [Store.addCached_fresh, h1, h2, h3]
    rw [h1, Bucket.get_eq_none]
    exact hb r (by simp)
  | cons r2 rest ih =>
    have h1 := hk r (by simp)
    have h2 := he r (by simp)
    have h3 := hrf r (by simp)
    rw [List.foldl_cons, Store.addCached_fresh (by
      rw [h1, Bucket.get_eq_none]; exact hb r (by simp)), h1, h2, h3]
    rw [List.pairwise_cons] at hp
    rw [ih r2 _ (fun x hx => hk x (List.mem_cons_of_mem _ hx))
      (fun x hx => he x (List.mem_cons_of_mem _ hx))
      (fun x hx => hrf x (List.mem_cons_of_mem _ hx)) hp.2]
    · rw [Store.setBucket_setBucket, Store.bucket_setBucket, if_pos rfl]
      simp
    · intro x hx y hy
      rw [Store.bucket_setBucket, if_pos rfl] at hy
      simp only [Option.getD_some, List.mem_append, List.mem_singleton] at hy
      rcases hy with hy | hy
      · exact hb x (List.mem_cons_of_mem _ hx) y hy
      · subst hy; exact hp.1 x hx

/-! ### a query that finds one bucket -/

theorem groups_none (l : List (Key × Bucket)) (pfx : Key → Bool) (pick : Bucket → List RR)
    (ho : ∀ e ∈ l, pick e.2 = []) :
    ((l.filter (fun e => pfx e.1)).map (fun e => pick e.2)).filter (fun g => !g.isEmpty) = [] := by
  rw [List.filter_eq_nil_iff]
  intro g hg
  obtain ⟨e, he, rfl⟩ := List.mem_map.mp hg
  rw [ho e (List.mem_filter.mp he).1]; simp

theorem groups_single (l : List (Key × Bucket)) (pfx : Key → Bool) (pick : Bucket → List RR)
    (kf : Key) (b : Bucket) (hp : l.Pairwise (fun a c => a.1 ≠ c.1)) (hm : (kf, b) ∈ l)
    (hpf : pfx kf = true) (ho : ∀ e ∈ l, e.1 ≠ kf → pick e.2 = []) :
    ((l.filter (fun e => pfx e.1)).map (fun e => pick e.2)).filter (fun g => !g.isEmpty) =
      [pick b].filter (fun g => !g.isEmpty) := by
  induction l with
  | nil => cases hm
  | cons hd tl ih =>
    rw [List.pairwise_cons] at hp
    rcases List.mem_cons.mp hm with hm | hm
    · subst hm
      have hrest := groups_none tl pfx pick (fun e he => ho e (List.mem_cons_of_mem _ he)
        (fun h => hp.1 e he h.symm))
      simp only [List.filter_cons, hpf, if_true, List.map_cons]
      rw [hrest]
      simp
    · have hne : hd.1 ≠ kf := hp.1 _ hm
      have hnil : pick hd.2 = [] := ho hd (by simp) hne
      have ih' := ih hp.2 hm (fun e he => ho e (List.mem_cons_of_mem _ he))
      by_cases hx : pfx hd.1 = true
      · rw [List.filter_cons_of_pos (p := fun e : Key × Bucket => pfx e.1) (by exact hx),
          List.map_cons, List.filter_cons_of_neg (by simp [hnil])]
        exact ih'
      · rw [List.filter_cons_of_neg (p := fun e : Key × Bucket => pfx e.1) (by exact hx)]
        exact ih'

theorem getDomain_single {s : Store} (hI : Inv s) {name : Name} {f : Filter} {now : Nat} {kf : Key}
    {b : Bucket} (hsub : f.subdomain = true) (hnode : s.nodeExists (getKey name) = true)
    (hm : (kf, b) ∈ s.entries) (hpf : isPrefixOf (getKey name) kf = true)
    (ho : ∀ e ∈ s.entries, e.1 ≠ kf → ∀ x ∈ e.2, f.matches x.2 now = false) :
    s.getDomain name f now =
      [(b.filter (fun e => f.matches e.2 now)).map (·.1)].filter (fun g => !g.isEmpty) := by
  unfold Store.getDomain
  simp only [hsub, hnode, if_true]
  apply groups_single s.entries (isPrefixOf (getKey name))
    (fun b => (b.filter (fun e => f.matches e.2 now)).map (·.1)) kf b hI.keys hm hpf
  intro e he hne
  simp only [List.map_eq_nil_iff, List.filter_eq_nil_iff]
  intro x hx
  simp [ho e he hne x hx]

/-! ### the initial store of the discovery service -/

/-- every stored record is authoritative and owned by one of the two names -/
def OwnOnly (service own : Name) (s : Store) : Prop :=
  ∀ k b, (k, b) ∈ s.entries → ∀ e ∈ b, e.2 = Kind.auth ∧ (e.1.name = service ∨ e.1.name = own)

theorem OwnOnly.getD {service own : Name} {s : Store} (h : OwnOnly service own s) (k : Key) :
    ∀ e ∈ (s.bucket k).getD [], e.2 = Kind.auth ∧ (e.1.name = service ∨ e.1.name = own) := by
  cases hb : s.bucket k with
  | none => simp
  | some b => exact h k b (Store.bucket_mem hb)

theorem OwnOnly.addAuth {service own : Name} {s : Store} (h : OwnOnly service own s) {r : RR}
    (hr : r.name = service ∨ r.name = own) : OwnOnly service own (s.addAuth r) := by
  intro k b hm e he
  rcases Store.mem_setBucket hm with hm | hm
  · cases hm
    rcases Bucket.mem_insert he with he | ⟨h2, heq, _⟩
    · exact h.getD _ e he.1
    · exact ⟨h2, by rw [rrEq_name heq]; exact hr⟩
  · exact h k b hm.1 e he

def HasKey (s : Store) (k : Key) : Prop := ∃ b, (k, b) ∈ s.entries

theorem HasKey.addAuth {s : Store} {k : Key} (h : HasKey s k) (r : RR) : HasKey (s.addAuth r) k :=
  (Store.key_mem_setBucket s _ _ k).mpr (.inr h)

theorem discoveryInit_props (service own : Name) (ownRecords : List RR)
    (hown : ∀ r ∈ ownRecords, r.name = own) :
    Inv (discoveryInit service own ownRecords) ∧ OwnOnly service own (discoveryInit service own ownRecords) ∧
    HasKey (discoveryInit service own ownRecords) (getKey service) := by
  unfold discoveryInit
  generalize hs : Store.empty.addAuth
    { name := service, cls := .IN, ttl := 0, rdata := .flat 12 [.name own], flush := false } = s
  have h0 : Inv s ∧ OwnOnly service own s ∧ HasKey s (getKey service) := by
    subst hs
    refine ⟨Inv.empty.addAuth _, ?_, ?_⟩
    · apply OwnOnly.addAuth
      · intro k b hm; simp [Store.empty] at hm
      · exact .inl rfl
    · exact (Store.key_mem_setBucket _ _ _ _).mpr (.inl rfl)
  clear hs
  induction ownRecords generalizing s with
  | nil => exact h0
  | cons r rs ih =>
    simp only [List.foldl_cons]
    apply ih (fun x hx => hown x (List.mem_cons_of_mem _ hx))
    exact ⟨h0.1.addAuth r, h0.2.1.addAuth (.inr (hown r (by simp))), h0.2.2.addAuth r⟩

/-! ### the store after an announcement -/

theorem Inv.foldl_addCached {s : Store} (h : Inv s) (rs : List RR) (now : Nat) :
    Inv (rs.foldl (fun st r => st.addCached r now) s) := by
  induction rs generalizing s with
  | nil => exact h
  | cons r rs ih => exact ih (h.addCached r now)

/-- **the store after an announcement**: querying the service for cached records returns the
announced records as one group, in the order they were announced, until the TTL has run out -/
theorem getDomain_after_announce {service own : Name} {s0 : Store} (hI : Inv s0)
    (hO : OwnOnly service own s0) (hK : HasKey s0 (getKey service))
    (inst : Label) (hown : own ≠ inst :: service)
    (ips : List (Bool × Nat)) (ports : List Nat) (ss : List Bytes) (ttl now now' : Nat)
    (hips : ips.Nodup) (hports : ports.Nodup) :
    ((instRecords (inst :: service) ips ports ss ttl).foldl
        (fun st r => st.addCached r now) s0).getDomain service Filter.cachedOnly now' =
      if now' < now + 1000 * ttl then [instRecords (inst :: service) ips ports ss ttl] else [] := by
  generalize hrs : instRecords (inst :: service) ips ports ss ttl = rs
  have hmem : ∀ r ∈ rs, r.name = inst :: service ∧ r.ttl = ttl ∧ r.flush = false := by
    intro r hr; rw [← hrs] at hr; exact mem_instRecords hr
  have hpw : rs.Pairwise (fun a c => rrEq a c = false) := by
    rw [← hrs]; exact instRecords_pairwise _ ss ttl hips hports
  have hne : rs ≠ [] := by rw [← hrs]; exact instRecords_ne_nil _ _ _ _ _
  have hI1 : Inv (rs.foldl (fun st r => st.addCached r now) s0) := hI.foldl_addCached rs now
  obtain ⟨kf, hkf⟩ : ∃ kf, kf = getKey (inst :: service) := ⟨_, rfl⟩
  -- the store after the announcement
  have hs1 : rs.foldl (fun st r => st.addCached r now) s0 =
      s0.setBucket kf ((s0.bucket kf).getD [] ++ rs.map (fun x => (x, Kind.cached (now + 1000 * ttl) (now + 1000 * refreshOffsetSecs ttl)))) := by
    cases rs with
    | nil => exact absurd rfl hne
    | cons r rest =>
      apply foldl_addCached_fresh rest r s0 now kf (now + 1000 * ttl)
        (now + 1000 * refreshOffsetSecs ttl)
      · intro x hx; rw [(hmem x hx).1, hkf]
      · intro x hx; rw [(hmem x hx).2.2, (hmem x hx).2.1]; simp
      · intro x hx; rw [(hmem x hx).2.2, (hmem x hx).2.1]; simp
      · exact hpw
      · intro x hx y hy
        rw [Bool.eq_false_iff]
        intro he
        have hn := rrEq_name he
        rw [(hmem x hx).1] at hn
        rcases (hO.getD kf y hy).2 with h | h
        · rw [h] at hn
          have := congrArg List.length hn
          simp at this
        · rw [h] at hn; exact hown hn
  rw [hs1] at hI1 ⊢
  obtain ⟨b1, hb1⟩ : ∃ b1, b1 = (s0.bucket kf).getD [] ++ rs.map (fun x => (x, Kind.cached (now + 1000 * ttl) (now + 1000 * refreshOffsetSecs ttl))) := ⟨_, rfl⟩
  rw [← hb1] at hI1 ⊢
  have hmem1 : (kf, b1) ∈ (s0.setBucket kf b1).entries :=
    Store.bucket_mem (by rw [Store.bucket_setBucket, if_pos rfl])
  have hnode : (s0.setBucket kf b1).nodeExists (getKey service) = true := by
    obtain ⟨b, hb⟩ := (Store.key_mem_setBucket s0 kf b1 (getKey service)).mpr (.inr hK)
    exact Store.nodeExists_of_mem hb
  rw [getDomain_single hI1 rfl hnode hmem1
    (by rw [hkf]; exact key_prefix_of_suffix (List.suffix_cons inst service))]
  · -- the picked records of the instance's bucket
    have hold : ((s0.bucket kf).getD []).filter (fun e => Filter.cachedOnly.matches e.2 now') = [] := by
      rw [List.filter_eq_nil_iff]
      intro e he
      rw [(hO.getD kf e he).1]; simp [Filter.cachedOnly]
    rw [hb1, List.filter_append, hold, List.nil_append, List.filter_map]
    by_cases hlt : now' < now + 1000 * ttl
    · rw [if_pos hlt]
      have : rs.filter ((fun e : RR × Kind => Filter.cachedOnly.matches e.2 now') ∘
          (fun x => (x, Kind.cached (now + 1000 * ttl) (now + 1000 * refreshOffsetSecs ttl)))) = rs := by
        rw [List.filter_eq_self]
        intro x _
        simp [Filter.cachedOnly, hlt]
      rw [this, List.map_map]
      have hid : ((fun x : RR × Kind => x.1) ∘ fun x : RR => (x, Kind.cached (now + 1000 * ttl) (now + 1000 * refreshOffsetSecs ttl))) = id := rfl
      rw [hid, List.map_id]
      cases rs with
      | nil => exact absurd rfl hne
      | cons _ _ => rfl
    · rw [if_neg hlt]
      have : rs.filter ((fun e : RR × Kind => Filter.cachedOnly.matches e.2 now') ∘
          (fun x => (x, Kind.cached (now + 1000 * ttl) (now + 1000 * refreshOffsetSecs ttl)))) = [] := by
        rw [List.filter_eq_nil_iff]
        intro x _
        simp [Filter.cachedOnly, hlt]
      rw [this]; rfl
  · intro e he hne' x hx
    rcases Store.mem_setBucket he with h | h
    · rw [h] at hne'; exact absurd rfl hne'
    · rw [(hO e.1 e.2 h.1 x hx).1]; simp [Filter.cachedOnly]

end Dns.Mdns
