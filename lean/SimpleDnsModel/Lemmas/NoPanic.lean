/-
Helper lemmas for property C01 (no panic on untrusted input): one `_ne_panic`
lemma per model function, bottom-up, plus the invariant on parsed records that
makes `Header.extractOpt`'s `unreachable!()` unreachable.
-/
import SimpleDnsModel.Model.Packet
namespace Dns

/-! ### names -/

theorem nameLoop_ne_panic (d : Bytes) (s : NS) : nameLoop d s ≠ .panic := by
  fun_induction nameLoop d s <;> simp_all <;> omega

theorem Name.parse_ne_panic (d : Bytes) (pos : Nat) : Name.parse d pos ≠ .panic :=
  nameLoop_ne_panic d _

/-! ### character-strings -/

theorem CharStr.parse_ne_panic (d : Bytes) (pos : Nat) : CharStr.parse d pos ≠ .panic := by
  unfold CharStr.parse
  split
  · simp
  · apply Out.bind_ne_panic (idx_ne_panic (by omega))
    intro lb _
    split
    · simp
    · apply Out.bind_ne_panic (slice_ne_panic (by omega) (by omega))
      intro s _; simp

theorem strsLoop_ne_panic (d : Bytes) (pos : Nat) (acc : List Bytes) :
    strsLoop d pos acc ≠ .panic := by
  induction h : d.length - pos using Nat.strongRecOn generalizing pos acc with
  | _ n ih =>
    rw [strsLoop]
    split
    · split
      · rename_i s p hcs
        have := CharStr.parse_advances hcs
        exact ih (d.length - p) (by omega) p _ rfl
      · simp
      · rename_i hcs
        exact absurd hcs (CharStr.parse_ne_panic d pos)
    · simp

/-! ### (key, length, value) triples -/

theorem tlvOne_ne_panic (d : Bytes) (kw lw : Nat) (strict : Bool) (prev : Option Nat)
    (pos : Nat) : tlvOne d kw lw strict prev pos ≠ .panic := by
  unfold tlvOne
  split
  · simp
  · apply Out.bind_ne_panic (slice_ne_panic (by omega) (by omega))
    intro kb _
    apply Out.bind_ne_panic (slice_ne_panic (by omega) (by omega))
    intro lb _
    split
    · simp
    · split
      · simp
      · apply Out.bind_ne_panic (slice_ne_panic (by omega) (by omega))
        intro v _; simp

theorem tlvsLoop_ne_panic (d : Bytes) (kw lw : Nat) (strict : Bool) (pos : Nat)
    (acc : List (Nat × Bytes)) (hk : 0 < kw + lw) :
    tlvsLoop d kw lw strict pos acc ≠ .panic := by
  induction h : d.length - pos using Nat.strongRecOn generalizing pos acc with
  | _ n ih =>
    rw [tlvsLoop]
    split
    · omega
    · split
      · split
        · rename_i x p hone
          have := tlvOne_advances hk hone
          exact ih (d.length - p) (by omega) p _ rfl
        · simp
        · rename_i hone
          exact absurd hone (tlvOne_ne_panic _ _ _ _ _ _)
      · simp

theorem optLoop_ne_panic (d : Bytes) (pos : Nat) (acc : List (Nat × Bytes)) :
    optLoop d pos acc ≠ .panic := by
  induction h : d.length - pos using Nat.strongRecOn generalizing pos acc with
  | _ n ih =>
    rw [optLoop]
    split
    · split
      · rename_i x p hone
        have := tlvOne_advances (by omega) hone
        exact ih (d.length - p) (by omega) p _ rfl
      · simp
      · rename_i hone
        exact absurd hone (tlvOne_ne_panic _ _ _ _ _ _)
    · simp

/-! ### schema interpreter -/

/-- a field kind on which `decField` cannot panic: the `tlvs` head is not empty -/
def FKind.Safe : FKind → Prop
  | .tlvs kw lw _ => 0 < kw + lw
  | _ => True

instance (k : FKind) : Decidable k.Safe := by
  cases k <;> simp only [FKind.Safe] <;> infer_instance

theorem schemaOf_safe {code : Nat} {ks : List FKind} (h : schemaOf code = some ks) :
    ∀ k ∈ ks, k.Safe := by
  unfold schemaOf at h
  split at h <;> first | (cases h; decide) | cases h

/-! cursor bounds: a successful sub-parser leaves the cursor inside the buffer (needed because
`data[pos..]` panics when `pos > data.len()`) -/

theorem nameLoop_end_le {d : Bytes} {s : NS} {n : Name} {p : Nat}
    (h : nameLoop d s = .ok (n, p)) : p ≤ d.length := by
  fun_induction nameLoop d s <;> simp_all <;> omega

theorem Name.parse_end_le {d : Bytes} {pos : Nat} {n : Name} {p : Nat}
    (h : Name.parse d pos = .ok (n, p)) : p ≤ d.length := nameLoop_end_le h

theorem CharStr.parse_pos_le {d : Bytes} {pos : Nat} {s : Bytes} {p : Nat}
    (h : CharStr.parse d pos = .ok (s, p)) : p ≤ d.length := by
  unfold CharStr.parse at h
  split at h
  · cases h
  · obtain ⟨lb, _, h⟩ := Out.bind_eq_ok h
    split at h
    · cases h
    · obtain ⟨s', _, h⟩ := Out.bind_eq_ok h
      simp at h; omega

theorem strsLoop_pos_le {d : Bytes} {pos : Nat} {acc ss : List Bytes} {p : Nat}
    (hp : pos ≤ d.length) (h : strsLoop d pos acc = .ok (ss, p)) : p ≤ d.length := by
  induction hn : d.length - pos using Nat.strongRecOn generalizing pos acc with
  | _ n ih =>
    rw [strsLoop] at h
    split at h
    · split at h
      · rename_i s p' hcs
        have := CharStr.parse_advances hcs
        exact ih (d.length - p') (by omega) (CharStr.parse_pos_le hcs) h rfl
      · cases h
      · cases h
    · cases h; exact hp

theorem tlvOne_pos_le {d : Bytes} {kw lw : Nat} {strict : Bool} {prev : Option Nat}
    {pos : Nat} {x : Nat × Bytes} {p : Nat}
    (h : tlvOne d kw lw strict prev pos = .ok (x, p)) : p ≤ d.length := by
  unfold tlvOne at h
  split at h
  · cases h
  · obtain ⟨kb, _, h⟩ := Out.bind_eq_ok h
    obtain ⟨lb, _, h⟩ := Out.bind_eq_ok h
    split at h
    · cases h
    · split at h
      · cases h
      · obtain ⟨v, _, h⟩ := Out.bind_eq_ok h
        simp at h; omega

theorem tlvsLoop_pos_le {d : Bytes} {kw lw : Nat} {strict : Bool} {pos : Nat}
    {acc xs : List (Nat × Bytes)} {p : Nat}
    (hp : pos ≤ d.length) (h : tlvsLoop d kw lw strict pos acc = .ok (xs, p)) :
    p ≤ d.length := by
  induction hn : d.length - pos using Nat.strongRecOn generalizing pos acc with
  | _ n ih =>
    rw [tlvsLoop] at h
    split at h
    · cases h
    · rename_i hk
      split at h
      · split at h
        · rename_i x p' hone
          have := tlvOne_advances (by omega) hone
          exact ih (d.length - p') (by omega) (tlvOne_pos_le hone) h rfl
        · cases h
        · cases h
      · cases h; exact hp

theorem optLoop_pos_le {d : Bytes} {pos : Nat} {acc xs : List (Nat × Bytes)} {p : Nat}
    (hp : pos ≤ d.length) (h : optLoop d pos acc = .ok (xs, p)) : p ≤ d.length := by
  induction hn : d.length - pos using Nat.strongRecOn generalizing pos acc with
  | _ n ih =>
    rw [optLoop] at h
    split at h
    · split at h
      · rename_i x p' hone
        have := tlvOne_advances (by omega) hone
        exact ih (d.length - p') (by omega) (tlvOne_pos_le hone) h rfl
      · cases h
      · cases h
    · cases h; exact hp

theorem decField_ne_panic (d : Bytes) (k : FKind) (pos : Nat) (hk : k.Safe)
    (hp : pos ≤ d.length) : decField d k pos ≠ .panic := by
  cases k with
  | int w =>
    simp only [decField]
    split
    · simp
    · apply Out.bind_ne_panic (slice_ne_panic (by omega) (by omega))
      intro s _; simp
  | charstr =>
    simp only [decField]
    apply Out.bind_ne_panic (CharStr.parse_ne_panic d pos)
    rintro ⟨s, p⟩ _; simp
  | name c =>
    simp only [decField]
    apply Out.bind_ne_panic (Name.parse_ne_panic d pos)
    rintro ⟨s, p⟩ _; simp
  | rest =>
    simp only [decField]
    apply Out.bind_ne_panic (slice_ne_panic hp (Nat.le_refl _))
    intro s _; simp
  | strs =>
    simp only [decField]
    apply Out.bind_ne_panic (strsLoop_ne_panic d pos [])
    rintro ⟨s, p⟩ _; simp
  | tlvs kw lw strict =>
    simp only [decField]
    apply Out.bind_ne_panic (tlvsLoop_ne_panic d kw lw strict pos [] hk)
    rintro ⟨s, p⟩ _; simp

theorem decField_pos_le {d : Bytes} {k : FKind} {pos : Nat} {v : Val} {p : Nat}
    (hp : pos ≤ d.length) (h : decField d k pos = .ok (v, p)) : p ≤ d.length := by
  cases k with
  | int w =>
    simp only [decField] at h
    split at h
    · cases h
    · obtain ⟨s, _, h⟩ := Out.bind_eq_ok h
      simp at h; omega
  | charstr =>
    simp only [decField] at h
    obtain ⟨⟨s, q⟩, hs, h⟩ := Out.bind_eq_ok h
    have := CharStr.parse_pos_le hs
    simp at h; omega
  | name c =>
    simp only [decField] at h
    obtain ⟨⟨s, q⟩, hs, h⟩ := Out.bind_eq_ok h
    have := Name.parse_end_le hs
    simp at h; omega
  | rest =>
    simp only [decField] at h
    obtain ⟨s, _, h⟩ := Out.bind_eq_ok h
    simp at h; omega
  | strs =>
    simp only [decField] at h
    obtain ⟨⟨s, q⟩, hs, h⟩ := Out.bind_eq_ok h
    have := strsLoop_pos_le hp hs
    simp at h; omega
  | tlvs kw lw strict =>
    simp only [decField] at h
    obtain ⟨⟨s, q⟩, hs, h⟩ := Out.bind_eq_ok h
    have := tlvsLoop_pos_le hp hs
    simp at h; omega

theorem decAll_ne_panic (d : Bytes) (ks : List FKind) (pos : Nat) (hk : ∀ k ∈ ks, k.Safe)
    (hp : pos ≤ d.length) : decAll d ks pos ≠ .panic := by
  induction ks generalizing pos with
  | nil => simp [decAll]
  | cons k ks ih =>
    simp only [decAll]
    apply Out.bind_ne_panic (decField_ne_panic d k pos (hk k (by simp)) hp)
    rintro ⟨v, p⟩ hv
    simp only []
    apply Out.bind_ne_panic
      (ih p (fun k' hk' => hk k' (by simp [hk'])) (decField_pos_le hp hv))
    rintro ⟨vs, p'⟩ _; simp

/-! ### IPSECKEY, OPT, dispatch -/

theorem ipseckeyParse_ne_panic (d : Bytes) (pos : Nat) : ipseckeyParse d pos ≠ .panic := by
  unfold ipseckeyParse
  split
  · simp
  · apply Out.bind_ne_panic (idx_ne_panic (by omega))
    intro prec _
    apply Out.bind_ne_panic (idx_ne_panic (by omega))
    intro gt _
    apply Out.bind_ne_panic (idx_ne_panic (by omega))
    intro alg _
    dsimp only
    apply Out.bind_ne_panic
    · split
      · simp
      · split
        · simp
        · apply Out.bind_ne_panic (slice_ne_panic (by omega) (by omega))
          intro s _; simp
      · split
        · simp
        · apply Out.bind_ne_panic (slice_ne_panic (by omega) (by omega))
          intro s _; simp
      · apply Out.bind_ne_panic (Name.parse_ne_panic _ _)
        intro x _; simp
      · simp
    · rintro ⟨gw, p⟩ hg
      have hp : p ≤ d.length := by
        split at hg
        · cases hg; omega
        · split at hg
          · cases hg
          · obtain ⟨s, _, hg⟩ := Out.bind_eq_ok hg
            simp at hg; omega
        · split at hg
          · cases hg
          · obtain ⟨s, _, hg⟩ := Out.bind_eq_ok hg
            simp at hg; omega
        · obtain ⟨⟨n, q⟩, hn, hg⟩ := Out.bind_eq_ok hg
          have := Name.parse_end_le hn
          simp at hg; omega
        · cases hg
      apply Out.bind_ne_panic (slice_ne_panic hp (Nat.le_refl _))
      intro key _; simp

theorem optParse_ne_panic (d : Bytes) (pos : Nat) : optParse d pos ≠ .panic := by
  unfold optParse
  split
  · simp
  · apply Out.bind_ne_panic (slice_ne_panic (by omega) (by omega))
    intro ub _
    apply Out.bind_ne_panic (slice_ne_panic (by omega) (by omega))
    intro tb _
    dsimp only
    apply Out.bind_ne_panic (optLoop_ne_panic _ _ _)
    rintro ⟨codes, p⟩ _; simp

theorem schemaOf_ne_none_of_flat {t : TYPE} (h1 : t ≠ .IPSECKEY) (h2 : t ≠ .NULL)
    (h3 : ∀ c, t ≠ .Unknown c) (h4 : t ≠ .OPT) : schemaOf t.toCode ≠ none := by
  cases t <;> first | (exact absurd rfl ‹_›) | (exact absurd rfl (h3 _)) | (simp [TYPE.toCode, schemaOf])

theorem parseTyped_ne_panic (d : Bytes) (pos : Nat) (t : TYPE) (ht : t ≠ .OPT)
    (hp : pos ≤ d.length) : parseTyped d pos t ≠ .panic := by
  unfold parseTyped
  split
  · exact ipseckeyParse_ne_panic d pos
  · apply Out.bind_ne_panic (slice_ne_panic hp (Nat.le_refl _))
    intro s _; split <;> simp
  · apply Out.bind_ne_panic (slice_ne_panic hp (Nat.le_refl _))
    intro s _; split <;> simp
  · exact absurd rfl ht
  · rename_i h1 h2 h3 h4
    split
    · rename_i hs
      exact absurd hs (schemaOf_ne_none_of_flat h1 h2 h3 h4)
    · rename_i ks hs
      apply Out.bind_ne_panic (decAll_ne_panic d ks pos (schemaOf_safe hs) hp)
      rintro ⟨vs, p⟩ _
      dsimp only
      split <;> simp

theorem RData.parse_ne_panic (d : Bytes) (pos : Nat) : RData.parse d pos ≠ .panic := by
  unfold RData.parse
  split
  · simp
  · apply Out.bind_ne_panic (slice_ne_panic (by omega) (by omega))
    intro tb _
    dsimp only
    apply Out.bind_ne_panic (slice_ne_panic (by omega) (by omega))
    intro lb _
    split
    · simp
    · split
      · exact optParse_ne_panic _ _
      · rename_i ht
        split
        · simp
        · apply Out.bind_ne_panic
            (parseTyped_ne_panic _ _ _ ht (by rw [List.length_take]; omega))
          rintro ⟨rd, q⟩ _; simp

/-! ### the type of a parsed RDATA -/

theorem TYPE.ofCode_eq_unknown {x c : Nat} (h : TYPE.ofCode x = .Unknown c) : c = x := by
  unfold TYPE.ofCode at h
  split at h <;> simp_all

theorem TYPE.ofCode_toCode_ofCode (x : Nat) :
    TYPE.ofCode (TYPE.ofCode x).toCode = TYPE.ofCode x := by
  cases h : TYPE.ofCode x <;> first | rfl | skip
  rename_i c
  have := TYPE.ofCode_eq_unknown h
  subst this
  exact h

theorem ipseckeyParse_typeOf {d : Bytes} {pos : Nat} {rd : RData} {p : Nat}
    (h : ipseckeyParse d pos = .ok (rd, p)) : rd.typeOf = .IPSECKEY := by
  unfold ipseckeyParse at h
  split at h
  · cases h
  · obtain ⟨prec, _, h⟩ := Out.bind_eq_ok h
    obtain ⟨gt, _, h⟩ := Out.bind_eq_ok h
    obtain ⟨alg, _, h⟩ := Out.bind_eq_ok h
    dsimp only at h
    obtain ⟨⟨gw, q⟩, _, h⟩ := Out.bind_eq_ok h
    obtain ⟨key, _, h⟩ := Out.bind_eq_ok h
    cases h; rfl

theorem parseTyped_typeOf {d : Bytes} {pos : Nat} {t : TYPE} {rd : RData} {p : Nat}
    (h : parseTyped d pos t = .ok (rd, p)) : rd.typeOf = TYPE.ofCode t.toCode := by
  unfold parseTyped at h
  split at h
  · exact ipseckeyParse_typeOf h
  · obtain ⟨s, _, h⟩ := Out.bind_eq_ok h
    split at h
    · cases h
    · cases h; rfl
  · obtain ⟨s, _, h⟩ := Out.bind_eq_ok h
    split at h
    · cases h
    · cases h; rfl
  · cases h
  · split at h
    · cases h
    · obtain ⟨⟨vs, q⟩, _, h⟩ := Out.bind_eq_ok h
      dsimp only at h
      split at h
      · cases h; rfl
      · cases h

theorem optParse_is_opt {d : Bytes} {pos : Nat} {rd : RData} {p : Nat}
    (h : optParse d pos = .ok (rd, p)) : ∃ o, rd = .opt o := by
  unfold optParse at h
  split at h
  · cases h
  · obtain ⟨ub, _, h⟩ := Out.bind_eq_ok h
    obtain ⟨tb, _, h⟩ := Out.bind_eq_ok h
    dsimp only at h
    obtain ⟨⟨codes, q⟩, _, h⟩ := Out.bind_eq_ok h
    cases h; exact ⟨_, rfl⟩

/-- a record data whose type is OPT is an `.opt` value (what `unreachable!()` in
`Header::extract_info_from_opt_rr` relies on) -/
def RData.OptInv (rd : RData) : Prop := rd.typeOf = .OPT → ∃ o, rd = .opt o

theorem RData.parse_optInv {d : Bytes} {pos : Nat} {rd : RData} {p : Nat}
    (h : RData.parse d pos = .ok (rd, p)) : rd.OptInv := by
  unfold RData.parse at h
  split at h
  · cases h
  · obtain ⟨tb, _, h⟩ := Out.bind_eq_ok h
    dsimp only at h
    obtain ⟨lb, _, h⟩ := Out.bind_eq_ok h
    split at h
    · cases h
    · split at h
      · obtain ⟨o, ho⟩ := optParse_is_opt h
        exact fun _ => ⟨o, ho⟩
      · rename_i ht
        split at h
        · cases h
          exact fun hto => absurd hto ht
        · obtain ⟨⟨rd', q⟩, hpt, h⟩ := Out.bind_eq_ok h
          cases h
          intro hto
          rw [parseTyped_typeOf hpt, TYPE.ofCode_toCode_ofCode] at hto
          exact absurd hto ht

/-! ### codes -/

theorem CLASS.ofCode_ne_panic (c : Nat) : CLASS.ofCode c ≠ .panic := by
  unfold CLASS.ofCode; split <;> simp

theorem QTYPE.ofCode_ne_panic (c : Nat) : QTYPE.ofCode c ≠ .panic := by
  unfold QTYPE.ofCode; split <;> (try split) <;> simp

theorem QCLASS.ofCode_ne_panic (c : Nat) : QCLASS.ofCode c ≠ .panic := by
  unfold QCLASS.ofCode
  split
  · simp
  · split
    · simp
    · simp
    · rename_i h; exact absurd h (CLASS.ofCode_ne_panic _)

/-! ### questions and records -/

theorem Question.parse_ne_panic (d : Bytes) (pos : Nat) : Question.parse d pos ≠ .panic := by
  unfold Question.parse
  apply Out.bind_ne_panic (Name.parse_ne_panic d pos)
  rintro ⟨name, p⟩ _
  dsimp only
  split
  · simp
  · apply Out.bind_ne_panic (slice_ne_panic (by omega) (by omega))
    intro tb _
    apply Out.bind_ne_panic (slice_ne_panic (by omega) (by omega))
    intro cb _
    apply Out.bind_ne_panic (QTYPE.ofCode_ne_panic _)
    intro qt _
    apply Out.bind_ne_panic (QCLASS.ofCode_ne_panic _)
    intro qc _
    simp

theorem RR.parse_ne_panic (d : Bytes) (pos : Nat) : RR.parse d pos ≠ .panic := by
  unfold RR.parse
  apply Out.bind_ne_panic (Name.parse_ne_panic d pos)
  rintro ⟨name, p⟩ _
  dsimp only
  split
  · simp
  · apply Out.bind_ne_panic (slice_ne_panic (by omega) (by omega))
    intro cb _
    apply Out.bind_ne_panic (slice_ne_panic (by omega) (by omega))
    intro tb _
    apply Out.bind_ne_panic (RData.parse_ne_panic _ _)
    rintro ⟨rdata, p'⟩ _
    dsimp only
    split
    · simp
    · apply Out.bind_ne_panic (CLASS.ofCode_ne_panic _)
      intro cls _; simp

theorem RR.parse_optInv {d : Bytes} {pos : Nat} {r : RR} {p : Nat}
    (h : RR.parse d pos = .ok (r, p)) : r.rdata.OptInv := by
  unfold RR.parse at h
  obtain ⟨⟨name, q⟩, _, h⟩ := Out.bind_eq_ok h
  dsimp only at h
  split at h
  · cases h
  · obtain ⟨cb, _, h⟩ := Out.bind_eq_ok h
    obtain ⟨tb, _, h⟩ := Out.bind_eq_ok h
    obtain ⟨⟨rdata, p'⟩, hrd, h⟩ := Out.bind_eq_ok h
    dsimp only at h
    split at h
    · cases h; exact RData.parse_optInv hrd
    · obtain ⟨cls, _, h⟩ := Out.bind_eq_ok h
      cases h; exact RData.parse_optInv hrd

theorem parseQuestions_ne_panic (d : Bytes) (n pos : Nat) :
    parseQuestions d n pos ≠ .panic := by
  induction n generalizing pos with
  | zero => simp [parseQuestions]
  | succ n ih =>
    simp only [parseQuestions]
    apply Out.bind_ne_panic (Question.parse_ne_panic d pos)
    rintro ⟨q, p⟩ _
    dsimp only
    apply Out.bind_ne_panic (ih p)
    rintro ⟨qs, p'⟩ _; simp

theorem parseRRs_ne_panic (d : Bytes) (n pos : Nat) : parseRRs d n pos ≠ .panic := by
  induction n generalizing pos with
  | zero => simp [parseRRs]
  | succ n ih =>
    simp only [parseRRs]
    apply Out.bind_ne_panic (RR.parse_ne_panic d pos)
    rintro ⟨r, p⟩ _
    dsimp only
    apply Out.bind_ne_panic (ih p)
    rintro ⟨rs, p'⟩ _; simp

theorem parseRRs_optInv {d : Bytes} {n pos : Nat} {rs : List RR} {p : Nat}
    (h : parseRRs d n pos = .ok (rs, p)) : ∀ r ∈ rs, r.rdata.OptInv := by
  induction n generalizing pos rs p with
  | zero => simp only [parseRRs] at h; cases h; simp
  | succ n ih =>
    simp only [parseRRs] at h
    obtain ⟨⟨r, q⟩, hr, h⟩ := Out.bind_eq_ok h
    dsimp only at h
    obtain ⟨⟨rs', q'⟩, hrs, h⟩ := Out.bind_eq_ok h
    cases h
    intro r' hr'
    rcases List.mem_cons.mp hr' with rfl | hm
    · exact RR.parse_optInv hr
    · exact ih hrs r' hm

/-! ### header -/

theorem Header.parse_ne_panic (d : Bytes) : Header.parse d ≠ .panic := by
  unfold Header.parse
  split
  · simp
  · apply Out.bind_ne_panic (slice_ne_panic (by omega) (by omega))
    intro fb _
    dsimp only
    split
    · simp
    · apply Out.bind_ne_panic (slice_ne_panic (by omega) (by omega))
      intro ib _; simp

theorem peekU16_ne_panic (d : Bytes) (a : Nat) : peekU16 d a ≠ .panic := by
  unfold peekU16; split <;> simp

/-! ### lifting the OPT record into the header -/

theorem liftOpt_some {l : List RR} {r : RR} {rest : List RR}
    (h : liftOpt l = (some r, rest)) : r ∈ l ∧ r.rdata.typeOf = .OPT := by
  induction l generalizing rest with
  | nil => simp [liftOpt] at h
  | cons x xs ih =>
    simp only [liftOpt] at h
    split at h
    · rename_i hx
      cases h; exact ⟨by simp, hx⟩
    · cases hl : liftOpt xs with
      | mk o rest' =>
        rw [hl] at h
        cases h
        obtain ⟨hm, ht⟩ := ih hl
        exact ⟨by simp [hm], ht⟩

theorem Header.extractOpt_ne_panic (h : Header) (o : Option RR)
    (ho : ∀ r, o = some r → ∃ x, r.rdata = .opt x) : h.extractOpt o ≠ .panic := by
  cases o with
  | none => simp [Header.extractOpt]
  | some r =>
    obtain ⟨x, hx⟩ := ho r rfl
    simp [Header.extractOpt, hx]

theorem Header.extractOpt_liftOpt_ne_panic (h : Header) {l : List RR}
    (hl : ∀ r ∈ l, r.rdata.OptInv) : h.extractOpt (liftOpt l).1 ≠ .panic := by
  apply Header.extractOpt_ne_panic
  intro r hr
  have : liftOpt l = (some r, (liftOpt l).2) := by rw [← hr]
  obtain ⟨hm, ht⟩ := liftOpt_some this
  exact hl r hm ht

end Dns
