/-
Lemmas for C04 (serialised messages are well-framed and all writers agree),
part A:
  1. the output of `buildG c`, walked by the independent envelope walker of
     Spec/Envelope.lean (`buildG_framed`), and `RData.len` against the writer;
  2. the algebra of `overwrite` (the storage model of `Cursor`);
  3. `write_all`: splitting, success exactly when the bytes fit;
  4. the imperative, back-patching `write_compressed_to` of Model/Writer.lean
     refines the functional `buildG true` of Model/Compress.lean, for a
     seekable writer started at any position over any content
     (`RR.refine`, `Packet.refine`).
Helper names live in the namespace `Dns.Wr`.
-/
import SimpleDnsModel.Props.C03
import SimpleDnsModel.Props.C05
import SimpleDnsModel.Model.Writer
set_option autoImplicit false
namespace Dns
namespace Wr

/-! ### 1. framing of the built message -/

theorem optRR_WF (p : Packet) (hopt : p.header.WF) : ∀ r ∈ p.header.optRR.toList, r.WF := by
  intro r hr
  obtain ⟨_, _, hopt⟩ := hopt
  cases ho : p.header.opt with
  | none => simp [Header.optRR, ho] at hr
  | some o =>
    rw [ho] at hopt
    simp only [Header.optRR, ho, Option.map_some, Option.toList_some, List.mem_singleton] at hr
    subst hr
    exact Header.optRR_WF p.header o hopt

theorem optRR_length (h : Header) : h.optRR.toList.length = (if h.opt.isSome then 1 else 0) := by
  cases ho : h.opt <;> simp [Header.optRR, ho]

/-- The sections of a built message: the bytes each section writer contributes, the suffix table
it leaves, and its specification (Lemmas/RoundTripD.lean) relative to everything written before. -/
theorem buildG_sections (c : Bool) (p : Packet) (hwf : p.WF) :
    ∃ (qs : Bytes × Table) (an : Bytes) (t1 : Table) (ns : Bytes) (t2 : Table) (ob ar : Bytes)
      (t3 : Table),
      writeQuestionsG c p.questions 12 [] = qs ∧
      writeRRsG c p.answers (12 + qs.1.length) qs.2 = .ok (an, t1) ∧
      writeRRsG c p.nameServers (12 + qs.1.length + an.length) t1 = .ok (ns, t2) ∧
      writeRRs p.header.optRR.toList = .ok ob ∧
      writeRRsG c p.additional (12 + qs.1.length + an.length + ns.length + ob.length) t2
        = .ok (ar, t3) ∧
      p.buildG c = .ok (p.writeHeader ++ (qs.1 ++ (an ++ (ns ++ (ob ++ ar))))) ∧
      p.writeHeader.length = 12 ∧
      QsSpec c p.writeHeader p.questions qs.1 qs.2 ∧
      RRsSpec c (p.writeHeader ++ qs.1) p.answers an t1 ∧
      RRsSpec c (p.writeHeader ++ qs.1 ++ an) p.nameServers ns t2 ∧
      RRsSpec false (p.writeHeader ++ qs.1 ++ an ++ ns) p.header.optRR.toList ob t2 ∧
      RRsSpec c (p.writeHeader ++ qs.1 ++ an ++ ns ++ ob) p.additional ar t3 := by
  obtain ⟨hH, hqd, han, hns, har, hqs, hans, hnss, hars, hnoopt⟩ := hwf
  have hoptwf := optRR_WF p hH
  have hhl : p.writeHeader.length = 12 := by simp [Packet.writeHeader, Header.write]
  have hQ := writeQuestionsG_spec c p.questions 12 [] p.writeHeader hqs hhl (TInv.nil _)
  generalize hqsb : writeQuestionsG c p.questions 12 [] = qs at hQ
  obtain ⟨an, t1, hwan, hsan⟩ := writeRRsG_spec c p.answers (12 + qs.1.length) qs.2 hans
  have hAN := hsan (p.writeHeader ++ qs.1) (by simp [hhl]) hQ.inv
  obtain ⟨ns, t2, hwns, hsns⟩ := writeRRsG_spec c p.nameServers (12 + qs.1.length + an.length) t1 hnss
  have hNS := hsns (p.writeHeader ++ qs.1 ++ an) (by simp [hhl]; omega) hAN.inv
  obtain ⟨ob, t2', hwo, hso⟩ := writeRRsG_spec false p.header.optRR.toList
    (12 + qs.1.length + an.length + ns.length) t2 hoptwf
  have hwo' : writeRRs p.header.optRR.toList = .ok ob ∧ t2' = t2 := by
    rw [writeRRsG_false] at hwo
    cases hw : writeRRs p.header.optRR.toList with
    | ok x => rw [hw] at hwo; simp at hwo; exact ⟨by rw [hwo.1], hwo.2.symm⟩
    | err => rw [hw] at hwo; cases hwo
    | panic => rw [hw] at hwo; cases hwo
  obtain ⟨hwo1, rfl⟩ := hwo'
  have hO := hso (p.writeHeader ++ qs.1 ++ an ++ ns) (by simp [hhl]; omega) hNS.inv
  obtain ⟨ar, t3, hwar, hsar⟩ := writeRRsG_spec c p.additional
    (12 + qs.1.length + an.length + ns.length + ob.length) t2' hars
  have hAR := hsar (p.writeHeader ++ qs.1 ++ an ++ ns ++ ob) (by simp [hhl]; omega) hO.inv
  have hbuild : p.buildG c = .ok (p.writeHeader ++ (qs.1 ++ (an ++ (ns ++ (ob ++ ar))))) := by
    unfold Packet.buildG
    simp only [hhl, hqsb, hwan, Out.bind_ok, hwns, hwo1, hwar, Out.pure_eq]
  exact ⟨qs, an, t1, ns, t2', ob, ar, t3, rfl, hwan, hwns, hwo1, hwar, hbuild, hhl, hQ, hAN, hNS,
    hO, hAR⟩

/-- the output of either builder, walked by the independent envelope walker -/
theorem buildG_framed (c : Bool) (p : Packet) (hwf : p.WF) :
    ∃ b w, p.buildG c = .ok b ∧ Spec.walk b = some w ∧ w.stop = b.length ∧
      w.questions.length = p.questions.length ∧ w.answers.length = p.answers.length ∧
      w.nameServers.length = p.nameServers.length ∧
      w.additional.length = p.additional.length + (if p.header.opt.isSome then 1 else 0) := by
  obtain ⟨qs, an, t1, ns, t2, ob, ar, t3, _, _, _, _, _, hbuild, hhl, hQ, hAN, hNS, hO, hAR⟩ :=
    buildG_sections c p hwf
  obtain ⟨hH, hqd, han, hns, har, _⟩ := hwf
  obtain ⟨hid, hfl, _⟩ := hH
  have hcnt : p.additional.length % 65536 + (if p.header.opt.isSome then 1 else 0)
      = p.header.optRR.toList.length + p.additional.length := by
    have : p.additional.length % 65536 = p.additional.length := Nat.mod_eq_of_lt (by omega)
    rw [this, optRR_length]; omega
  obtain ⟨hhp, hgf⟩ := header_parse_built p.header p.questions.length p.answers.length
    p.nameServers.length (p.additional.length % 65536 + (if p.header.opt.isSome then 1 else 0))
    (qs.1 ++ (an ++ (ns ++ (ob ++ ar)))) hid hfl
  obtain ⟨hp1, hp2, hp3, hp4⟩ := peek_built p.header p.questions.length p.answers.length
    p.nameServers.length (p.additional.length % 65536 + (if p.header.opt.isSome then 1 else 0))
    (qs.1 ++ (an ++ (ns ++ (ob ++ ar)))) hid hgf (by omega) (by omega) (by omega)
    (by have : p.additional.length % 65536 ≤ p.additional.length := Nat.mod_le _ _
        omega)
  have e1 := hQ.dec (an ++ (ns ++ (ob ++ ar)))
  have e2 := hAN.dec (ns ++ (ob ++ ar))
  have e3 := hNS.dec (ob ++ ar)
  have e4 := hO.dec ar
  have e5 := hAR.dec []
  simp only [List.append_assoc, List.length_append, List.append_nil, hhl, Nat.add_assoc] at e1 e2 e3 e4 e5
  have e45 := parseRRs_append _ _ _ _ _ _ _ _ e4 e5
  rw [← hcnt] at e45
  simp only [Packet.writeHeader] at hp1 hp2 hp3 hp4 e1 e2 e3 e45 hhl
  obtain ⟨wq, hwq, _, lq, _⟩ := questions_follow_framing e1
  obtain ⟨wa, hwa, _, la, _⟩ := records_follow_framing e2
  obtain ⟨wn, hwn, _, ln, _⟩ := records_follow_framing e3
  obtain ⟨wr, hwr, _, lr, _⟩ := records_follow_framing e45
  refine ⟨_, { questions := wq, answers := wa, nameServers := wn, additional := wr,
               stop := 12 + (qs.1.length + (an.length + (ns.length + (ob.length + ar.length)))) },
    hbuild, ?_, ?_, lq, la, ln, ?_⟩
  · unfold Spec.walk
    simp only [Packet.writeHeader]
    simp [Framing.field_of_peekU16 hp1, Framing.field_of_peekU16 hp2, Framing.field_of_peekU16 hp3,
      Framing.field_of_peekU16 hp4, hwq, hwa, hwn, hwr]
  · simp [Packet.writeHeader, hhl]
  · rw [lr]; have : p.additional.length % 65536 = p.additional.length := Nat.mod_eq_of_lt (by omega)
    omega

theorem len_eq_written (rd : RData) (h : rd.WF) : ∃ b, rd.write = .ok b ∧ b.length = rd.len := by
  obtain ⟨b, t', _, hs⟩ := RData.writeG_spec false rd 0 [] h
  have hs := hs [] rfl (TInv.nil _)
  obtain ⟨pb, hpb, _, heq⟩ := hs.plain
  exact ⟨pb, hpb, by rw [← heq rfl, hs.lenEq rfl]⟩

/-! ### 2. algebra of `overwrite` -/

theorem overwrite_getElem? (buf : Bytes) (p : Nat) (bs : Bytes) (i : Nat) :
    (overwrite buf p bs)[i]? =
      if i < p then some (buf[i]?.getD 0)
      else if i < p + bs.length then bs[i - p]? else buf[i]? := by
  unfold overwrite
  have hl : ((buf ++ List.replicate (p - buf.length) 0).take p).length = p := by
    simp; omega
  by_cases h1 : i < p
  · rw [if_pos h1, List.getElem?_append_left (by omega), List.getElem?_take_of_lt h1]
    by_cases h2 : i < buf.length
    · rw [List.getElem?_append_left h2]; simp [List.getElem?_eq_getElem h2]
    · rw [List.getElem?_append_right (by omega), List.getElem?_eq_none (l := buf) (by omega)]
      rw [List.getElem?_replicate, if_pos (by omega)]; rfl
  · rw [if_neg h1, List.getElem?_append_right (by omega), hl]
    by_cases h2 : i < p + bs.length
    · rw [if_pos h2, List.getElem?_append_left (by omega)]
    · rw [if_neg h2, List.getElem?_append_right (by omega), List.getElem?_drop]
      congr 1; omega

theorem overwrite_length (buf : Bytes) (p : Nat) (bs : Bytes) :
    (overwrite buf p bs).length = max (p + bs.length) buf.length := by
  unfold overwrite; simp; omega

/-- two consecutive writes are one write of the concatenation -/
theorem overwrite_overwrite (buf : Bytes) (p : Nat) (a b : Bytes) :
    overwrite (overwrite buf p a) (p + a.length) b = overwrite buf p (a ++ b) := by
  apply List.ext_getElem?
  intro i
  simp only [overwrite_getElem?, List.length_append]
  by_cases h1 : i < p
  · simp [h1, show i < p + a.length by omega]
  · by_cases h2 : i < p + a.length
    · simp [h1, h2, show i < p + (a.length + b.length) by omega,
        List.getElem?_append_left (show i - p < a.length by omega)]
      rw [List.getElem?_eq_getElem (show i - p < a.length by omega)]; rfl
    · by_cases h3 : i < p + a.length + b.length
      · simp [h1, h2, h3, show i < p + (a.length + b.length) by omega]
        rw [List.getElem?_append_right (by omega)]; congr 1; omega
      · simp [h1, h2, h3, show ¬ i < p + (a.length + b.length) by omega]

/-- patching inside a region already written: seek back, overwrite `a` by `a'` of the same length -/
theorem overwrite_patch (buf : Bytes) (p : Nat) (x a a' c : Bytes) (h : a'.length = a.length) :
    overwrite (overwrite buf p (x ++ (a ++ c))) (p + x.length) a' = overwrite buf p (x ++ (a' ++ c)) := by
  apply List.ext_getElem?
  intro i
  simp only [overwrite_getElem?, List.length_append]
  by_cases h1 : i < p
  · simp [h1, show i < p + x.length by omega]
  · by_cases h2 : i < p + x.length
    · simp [h1, h2, show i < p + (x.length + (a.length + c.length)) by omega,
        show i < p + (x.length + (a'.length + c.length)) by omega,
        List.getElem?_append_left (show i - p < x.length by omega)]
      rw [List.getElem?_eq_getElem (show i - p < x.length by omega)]; rfl
    · by_cases h3 : i < p + x.length + a.length
      · simp [h1, h2, h, h3, show i < p + (x.length + (a.length + c.length)) by omega]
        rw [List.getElem?_append_right (by omega), List.getElem?_append_left (by omega)]
        congr 1; omega
      · simp only [h1, h2, h, h3, if_false]
        by_cases h4 : i < p + (x.length + (a.length + c.length))
        · simp only [h4, if_true]
          rw [List.getElem?_append_right (by omega), List.getElem?_append_right (by omega),
            List.getElem?_append_right (by omega), List.getElem?_append_right (by omega), h]
        · simp only [h4, if_false]

theorem overwrite_nil (buf : Bytes) (p : Nat) (h : p ≤ buf.length) : overwrite buf p [] = buf := by
  apply List.ext_getElem?
  intro i
  simp only [overwrite_getElem?, List.length_nil, Nat.add_zero]
  by_cases h1 : i < p
  · simp [h1, List.getElem?_eq_getElem (show i < buf.length by omega)]
  · simp [h1]

/-! ### 3. `write_all` -/

/-- `write_all` of a non-empty slice, by writer kind -/
theorem W.write_eq (w : W) (bs : Bytes) :
    w.write bs =
      if w.kind = .vec then .ok { w with buf := w.buf ++ bs }
      else if bs = [] then .ok w
      else if w.kind = .cursorVec ∨ w.pos + bs.length ≤ w.buf.length then
        .ok { w with buf := overwrite w.buf w.pos bs, pos := w.pos + bs.length }
      else .err := by
  unfold W.write
  cases hk : w.kind <;> cases bs <;> simp

/-- the model's `write_all` is compatible with splitting the data: one call with `a ++ b` is the
call with `a` followed by the call with `b` (for the fixed-size kinds: both fail or both succeed) -/
theorem W.write_append (w : W) (a b : Bytes) :
    w.write (a ++ b) = (w.write a >>= fun w' => w'.write b) := by
  rw [W.write_eq w (a ++ b), W.write_eq w a]
  by_cases hv : w.kind = .vec
  · simp [hv, W.write_eq]
  · simp only [hv, if_false]
    by_cases ha : a = []
    · subst ha; simp [W.write_eq, hv]
    · simp only [ha, if_false]
      by_cases hb : b = []
      · subst hb
        simp only [List.append_nil, ha, if_false]
        split
        · simp [W.write_eq]
        · rfl
      · have hab : a ++ b ≠ [] := by simp [ha]
        have hbl : 0 < b.length := List.length_pos_iff.mpr hb
        simp only [hab, if_false, List.length_append]
        by_cases h1 : w.kind = .cursorVec ∨ w.pos + a.length ≤ w.buf.length
        · rw [if_pos h1]
          simp only [Out.bind_ok, W.write_eq, hv, hb, if_false, overwrite_overwrite,
            overwrite_length]
          by_cases h2 : w.kind = .cursorVec ∨ w.pos + (a.length + b.length) ≤ w.buf.length
          · rw [if_pos h2, if_pos (by rcases h2 with h | h; exact Or.inl h; right; omega)]
            simp [Nat.add_assoc]
          · rw [if_neg h2, if_neg (by
              intro h; apply h2; rcases h with h | h
              · exact Or.inl h
              · right; omega)]
        · rw [if_neg h1, if_neg (by
            intro h; apply h1; rcases h with h | h
            · exact Or.inl h
            · right; omega)]
          rfl

theorem W.fits_iff (w : W) (n : Nat) :
    w.fits n ↔ (w.kind = .vec ∨ w.kind = .cursorVec ∨ n = 0 ∨ w.pos + n ≤ w.buf.length) := by
  unfold W.fits; cases w.kind <;> simp

theorem W.expect_eq (w : W) (bs : Bytes) :
    w.expect bs = if w.kind = .vec then { w with buf := w.buf ++ bs }
      else if bs = [] then w
      else { w with buf := overwrite w.buf w.pos bs, pos := w.pos + bs.length } := by
  unfold W.expect
  cases hk : w.kind <;> cases bs <;> simp

/-- a single `write_all`: success with the bytes spliced in exactly when they fit -/
theorem W.write_fits (w : W) (bs : Bytes) (h : w.fits bs.length) : w.write bs = .ok (w.expect bs) := by
  rw [W.write_eq, W.expect_eq]
  rw [W.fits_iff] at h
  by_cases hv : w.kind = .vec
  · simp [hv]
  · simp only [hv, if_false]
    by_cases hb : bs = []
    · simp [hb]
    · simp only [hb, if_false]
      rw [if_pos]
      rcases h with h | h | h | h
      · exact absurd h hv
      · exact Or.inl h
      · exact absurd (List.eq_nil_of_length_eq_zero h) hb
      · exact Or.inr h

theorem W.write_not_fits (w : W) (bs : Bytes) (h : ¬ w.fits bs.length) : w.write bs = .err := by
  rw [W.write_eq]
  rw [W.fits_iff] at h
  simp only [not_or] at h
  obtain ⟨h1, h2, h3, h4⟩ := h
  rw [if_neg h1, if_neg (by intro h; apply h3; simp [h]), if_neg (by simp [h2, h4])]

/-! ### 4. the imperative compressed writer refines the functional one -/

/-- the writer kinds that implement `Seek` -/
def Seekable (w : W) : Prop := w.kind = .cursorVec ∨ w.kind = .cursorFixed

/-- `n` bytes from the start position of `w0` fit its storage -/
def Room (w0 : W) (n : Nat) : Prop := w0.kind = .cursorVec ∨ w0.pos + n ≤ w0.buf.length

instance (w0 : W) (n : Nat) : Decidable (Room w0 n) := by unfold Room; infer_instance

theorem Room.mono {w0 : W} {n m : Nat} (h : Room w0 n) (hm : m ≤ n) : Room w0 m := by
  rcases h with h | h
  · exact Or.inl h
  · right; omega

/-- the writer `w0` after the message prefix `out` has been written from its start position -/
def After (w0 : W) (out : Bytes) : W :=
  { kind := w0.kind, buf := overwrite w0.buf w0.pos out, pos := w0.pos + out.length }

/-- outcome of writing `b` after the message prefix `out`: the longer prefix if it fits (nothing
to write always succeeds), else an error -/
def Res {α : Type} (mk : W → α) (w0 : W) (out b : Bytes) : Out α :=
  if b = [] ∨ Room w0 (out.length + b.length) then .ok (mk (After w0 (out ++ b))) else .err

theorem Res_bind {α β : Type} (mk : W → α) (mk' : W → β) (w0 : W) (out b1 b2 : Bytes)
    (f : α → Out β) (hf : f (mk (After w0 (out ++ b1))) = Res mk' w0 (out ++ b1) b2) :
    (Res mk w0 out b1 >>= f) = Res mk' w0 out (b1 ++ b2) := by
  unfold Res at *
  by_cases h1 : b1 = [] ∨ Room w0 (out.length + b1.length)
  · rw [if_pos h1, Out.bind_ok, hf]
    by_cases h2 : b2 = [] ∨ Room w0 ((out ++ b1).length + b2.length)
    · rw [if_pos h2, if_pos, List.append_assoc]
      rcases h2 with h2 | h2
      · subst h2
        rcases h1 with h1 | h1
        · left; simp [h1]
        · right; simpa using h1
      · right; simpa [Nat.add_assoc] using h2
    · rw [if_neg h2, if_neg]
      intro h
      apply h2
      rcases h with h | h
      · left; simp at h; exact h.2
      · right; simpa [Nat.add_assoc] using h
  · rw [if_neg h1, Out.bind_err, if_neg]
    intro h
    apply h1
    rcases h with h | h
    · left; simp at h; exact h.1
    · right; exact h.mono (by simp)

theorem write_After {w0 : W} (hk : Seekable w0) (out bs : Bytes) :
    (After w0 out).write bs = Res id w0 out bs := by
  rw [W.write_eq]
  have hv : w0.kind ≠ .vec := by rcases hk with h | h <;> rw [h] <;> decide
  unfold Res
  simp only [After, hv, if_false, id]
  by_cases hb : bs = []
  · subst hb; simp
  · have hbl : 0 < bs.length := List.length_pos_iff.mpr hb
    simp only [hb, if_false, false_or, overwrite_overwrite, overwrite_length, Room]
    by_cases h : w0.kind = .cursorVec ∨ w0.pos + (out.length + bs.length) ≤ w0.buf.length
    · rw [if_pos h, if_pos (by rcases h with h | h; exact Or.inl h; right; omega)]
      simp [Nat.add_assoc]
    · rw [if_neg h, if_neg (by
        intro h'; apply h; rcases h' with h' | h'
        · exact Or.inl h'
        · right; omega)]

/-- the first write goes to the caller's writer as it is -/
theorem write_first {w0 : W} (hk : Seekable w0) (bs : Bytes) (hb : bs ≠ []) :
    w0.write bs = Res id w0 [] bs := by
  rw [W.write_eq]
  have hv : w0.kind ≠ .vec := by rcases hk with h | h <;> rw [h] <;> decide
  unfold Res
  simp only [hv, hb, if_false, false_or, Room, After, List.nil_append, List.length_nil,
    Nat.zero_add, id]

theorem After_pos (w0 : W) (out : Bytes) : (After w0 out).streamPos - w0.pos = out.length := by
  simp [After, W.streamPos]

theorem Res_ok {α : Type} (mk : W → α) (w0 : W) (out b : Bytes)
    (h : b = [] ∨ Room w0 (out.length + b.length)) : Res mk w0 out b = .ok (mk (After w0 (out ++ b))) := by
  unfold Res; rw [if_pos h]

/-- the RDLENGTH back-patch: seek to the placeholder, overwrite its two bytes, seek to the end -/
theorem patch_After {w0 : W} (hk : Seekable w0) (x rd : Bytes) (n : Nat) :
    ((After w0 (x ++ ([0, 0] ++ rd))).seekStart (w0.pos + x.length)).write (beN 2 n)
      = .ok ((After w0 (x ++ (beN 2 n ++ rd))).seekStart (w0.pos + x.length + 2)) := by
  rw [W.write_eq]
  have hv : w0.kind ≠ .vec := by rcases hk with h | h <;> rw [h] <;> decide
  have hne : beN 2 n ≠ [] := by simp [beN]
  simp only [After, W.seekStart, hv, hne, if_false, overwrite_length, beN_length]
  rw [if_pos (by right; simp; omega), overwrite_patch _ _ _ _ _ _ (by simp)]

/-- **Refinement, one record.** Started after the message prefix `out`, the imperative
`write_compressed_to` of a record (placeholder, RDATA, seek back, patch, seek forward) leaves
exactly the bytes of the functional writer after `out`, the same suffix table, and the position
just after them; it fails exactly when these bytes do not fit. -/
theorem RR.refine {w0 : W} (hk : Seekable w0) (r : RR) (out : Bytes) (t : Table) (b : Bytes)
    (t' : Table) (h : r.writeG true out.length t = .ok (b, t')) :
    r.writeCompressedTo (After w0 out) w0.pos t = Res (fun w => (w, t')) w0 out b := by
  unfold RR.writeG at h
  obtain ⟨⟨rd, t2⟩, hrd, h⟩ := Out.bind_eq_ok h
  simp only [nameG, if_true, Out.pure_eq, Out.ok.injEq, Prod.mk.injEq] at h hrd
  obtain ⟨rfl, rfl⟩ := h
  unfold RR.writeCompressedTo
  simp only [After_pos]
  generalize compressName r.name out.length t = nb at hrd ⊢
  rw [write_After hk]
  refine Res_bind id _ w0 out nb.1 _ _ ?_
  simp only [id]
  rw [write_After hk]
  refine Res_bind id _ w0 (out ++ nb.1) r.writeCommon _ _ ?_
  simp only [id, After_pos]
  -- placeholder, RDATA, patch: no longer a plain sequence of appends
  clear h
  rw [write_After hk]
  unfold Res
  by_cases h1 : Room w0 ((out ++ nb.1 ++ r.writeCommon).length + 2)
  · rw [if_pos (Or.inr (by simpa using h1)), Out.bind_ok]
    simp only [id, After_pos, List.length_append, List.length_cons, List.length_nil] at hrd ⊢
    rw [show out.length + nb.1.length + r.writeCommon.length + (0 + 1 + 1)
      = out.length + nb.1.length + r.writeCommon.length + 2 by omega, hrd, Out.bind_ok]
    simp only []
    rw [write_After hk]
    unfold Res
    by_cases h2 : rd = [] ∨ Room w0 ((out ++ nb.1 ++ r.writeCommon ++ [0, 0]).length + rd.length)
    · rw [if_pos h2, Out.bind_ok]
      simp only [id, After_pos]
      have e : out ++ nb.1 ++ r.writeCommon ++ [0, 0] ++ rd
          = (out ++ nb.1 ++ r.writeCommon) ++ ([0, 0] ++ rd) := by simp
      rw [e]
      have hp := patch_After hk (out ++ nb.1 ++ r.writeCommon) rd rd.length
      simp only [List.length_append, List.length_cons, List.length_nil] at hp ⊢
      rw [show out.length + nb.1.length + r.writeCommon.length + (0 + 1 + 1 + rd.length)
        - (out.length + nb.1.length + r.writeCommon.length) - 2 = rd.length by omega, hp]
      simp only [Out.bind_ok, Out.pure_eq]
      rw [if_pos]
      · congr 2
        simp [After, W.seekStart]; omega
      · right
        rcases h2 with h2 | h2
        · subst h2; refine h1.mono ?_; simp; omega
        · refine h2.mono ?_; simp; omega
    · rw [if_neg h2, Out.bind_err, if_neg]
      intro h
      apply h2
      rcases h with h | h
      · simp [beN] at h
      · right; refine h.mono ?_; simp; omega
  · rw [if_neg (by simpa using h1), Out.bind_err, if_neg]
    intro h
    apply h1
    rcases h with h | h
    · simp [beN] at h
    · refine h.mono ?_; simp

theorem Res_map {α : Type} (mk : W → α) (w0 : W) (out b : Bytes) :
    (Res id w0 out b >>= fun w => pure (mk w)) = Res mk w0 out b := by
  unfold Res; split <;> rfl

theorem Res_map' {α β : Type} (mk : W → α) (g : α → β) (w0 : W) (out b : Bytes) :
    (Res mk w0 out b >>= fun x => pure (g x)) = Res (fun w => g (mk w)) w0 out b := by
  unfold Res; split <;> rfl

theorem Question.refine {w0 : W} (hk : Seekable w0) (q : Question) (out : Bytes) (t : Table) :
    q.writeCompressedTo (After w0 out) w0.pos t
      = Res (fun w => (w, (q.writeG true out.length t).2)) w0 out (q.writeG true out.length t).1 := by
  unfold Question.writeCompressedTo Question.writeG
  simp only [After_pos, nameG, if_true]
  generalize compressName q.name out.length t = nb
  rw [write_After hk]
  refine Res_bind id _ w0 out nb.1 _ _ ?_
  simp only [id]
  rw [write_After hk]
  exact Res_map _ w0 _ _

theorem writeQuestionsTo_refine {w0 : W} (hk : Seekable w0) (qs : List Question) :
    ∀ (out : Bytes) (t : Table), writeQuestionsTo qs (After w0 out) w0.pos t
      = Res (fun w => (w, (writeQuestionsG true qs out.length t).2)) w0 out
          (writeQuestionsG true qs out.length t).1 := by
  induction qs with
  | nil => intro out t; simp [writeQuestionsTo, writeQuestionsG, Res]
  | cons q qs ih =>
    intro out t
    simp only [writeQuestionsTo, writeQuestionsG]
    rw [Question.refine hk]
    refine Res_bind _ _ w0 out _ _ _ ?_
    have := ih (out ++ (q.writeG true out.length t).1) (q.writeG true out.length t).2
    simpa using this

theorem writeRRsTo_refine {w0 : W} (hk : Seekable w0) (rs : List RR) :
    ∀ (out : Bytes) (t : Table) (b : Bytes) (t' : Table),
      writeRRsG true rs out.length t = .ok (b, t') →
      writeRRsTo rs (After w0 out) w0.pos t = Res (fun w => (w, t')) w0 out b := by
  induction rs with
  | nil =>
    intro out t b t' h
    simp only [writeRRsG, Out.ok.injEq, Prod.mk.injEq] at h
    obtain ⟨rfl, rfl⟩ := h
    simp [writeRRsTo, Res]
  | cons r rs ih =>
    intro out t b t' h
    simp only [writeRRsG] at h
    obtain ⟨⟨a, ta⟩, ha, h⟩ := Out.bind_eq_ok h
    obtain ⟨⟨b', tb⟩, hb, h⟩ := Out.bind_eq_ok h
    simp only [Out.pure_eq, Out.ok.injEq, Prod.mk.injEq] at h
    obtain ⟨rfl, rfl⟩ := h
    simp only [writeRRsTo]
    rw [RR.refine hk r out t a ta ha]
    refine Res_bind _ _ w0 out _ _ _ ?_
    exact ih (out ++ a) ta b' tb (by simpa using hb)

/-- **Refinement, whole message.** `Packet::write_compressed_to` on a seekable writer, started at
any position over any content: the bytes of `build_bytes_vec_compressed` spliced in at the start
position when they fit, an error when they do not. -/
theorem Packet.refine {w0 : W} (hk : Seekable w0) (p : Packet) (bytes : Bytes)
    (h : p.buildG true = .ok bytes) : p.writeCompressedTo w0 = Res id w0 [] bytes := by
  unfold Packet.buildG at h
  simp only at h
  obtain ⟨⟨an, t1⟩, han, h⟩ := Out.bind_eq_ok h
  obtain ⟨⟨ns, t2⟩, hns, h⟩ := Out.bind_eq_ok h
  obtain ⟨o, ho, h⟩ := Out.bind_eq_ok h
  obtain ⟨⟨ar, t3⟩, har, h⟩ := Out.bind_eq_ok h
  simp only [Out.pure_eq, Out.ok.injEq] at h
  subst h
  have hhl : p.writeHeader.length = 12 := by simp [Packet.writeHeader, Header.write]
  have hne : p.writeHeader ≠ [] := by intro h0; rw [h0] at hhl; simp at hhl
  unfold Packet.writeCompressedTo
  simp only [W.streamPos]
  rw [write_first hk _ hne]
  refine Res_bind id _ w0 [] _ _ _ ?_
  simp only [id, List.nil_append]
  have hq := writeQuestionsTo_refine hk p.questions p.writeHeader []
  generalize writeQuestionsG true p.questions p.writeHeader.length [] = qs at hq han hns har
  rw [hq]
  refine Res_bind _ _ w0 _ _ _ _ ?_
  simp only []
  rw [writeRRsTo_refine hk p.answers (p.writeHeader ++ qs.1) qs.2 an t1 (by simpa using han)]
  refine Res_bind _ _ w0 _ _ _ _ ?_
  simp only []
  rw [writeRRsTo_refine hk p.nameServers (p.writeHeader ++ qs.1 ++ an) t1 ns t2
    (by simpa [Nat.add_assoc] using hns)]
  refine Res_bind _ _ w0 _ _ _ _ ?_
  simp only [ho, Out.bind_ok]
  rw [write_After hk]
  refine Res_bind id _ w0 _ _ _ _ ?_
  simp only [id]
  rw [writeRRsTo_refine hk p.additional (p.writeHeader ++ qs.1 ++ an ++ ns ++ o) t2 ar t3
    (by simpa [Nat.add_assoc] using har)]
  exact Res_map' (fun w => (w, t3)) (fun x : W × Table => x.1) w0 _ _

end Wr
end Dns
