/-
Round trip, part D: records, questions and sections. `RR.parse ∘ RR.writeG`
and `Question.parse ∘ Question.writeG` with framing, for the plain and the
compressing writer alike, then the section walkers.
-/
import SimpleDnsModel.Lemmas.RoundTripC
namespace Dns

/-! ### class / type codes -/

theorem cls_rt (c : CLASS) (f : Bool) :
    (if f then c.toCode ||| 0x8000 else c.toCode) < 65536 ∧
    CLASS.ofCode ((if f then c.toCode ||| 0x8000 else c.toCode) &&& 0x7FFF) = .ok c ∧
    (((if f then c.toCode ||| 0x8000 else c.toCode) &&& 0x8000) == 0x8000) = f := by
  cases c <;> cases f <;> decide

theorem qcls_rt (c : QCLASS) (f : Bool) :
    (if f then c.toCode ||| 0x8000 else c.toCode) < 65536 ∧
    QCLASS.ofCode ((if f then c.toCode ||| 0x8000 else c.toCode) &&& 0x7FFF) = .ok c ∧
    (((if f then c.toCode ||| 0x8000 else c.toCode) &&& 0x8000) == 0x8000) = f := by
  cases c with
  | ANY => cases f <;> decide
  | CLASS c => cases c <;> cases f <;> decide

theorem qtype_code_lt (q : QTYPE) (h : QTYPE.ofCode q.toCode = .ok q) : q.toCode < 65536 := by
  cases q with
  | TYPE t =>
    cases t with
    | Unknown n =>
      exfalso
      simp only [QTYPE.toCode, TYPE.toCode] at h
      unfold QTYPE.ofCode at h
      split at h <;> try (cases h; done)
      split at h
      · cases h
      · rename_i hne
        injection h with h
        injection h with h
        exact hne _ h
    | _ => simp [QTYPE.toCode, TYPE.toCode]
  | _ => simp [QTYPE.toCode]

/-! ### records -/

/-- the record envelope: owner name, then CLASS and TTL are read around `RData.parse` -/
theorem RR.parse_frame (pre nb : Bytes) (name : Name) (ty clsw ttl : Nat) (rest : Bytes)
    (hname : ∀ post', Name.parse (pre ++ (nb ++ post')) pre.length
      = .ok (name, pre.length + nb.length))
    (hcl : clsw < 65536) (httl : ttl < 2 ^ 32) :
    RR.parse (pre ++ (nb ++ (beN 2 ty ++ ((beN 2 clsw ++ beN 4 ttl) ++ rest)))) pre.length = (do
      let (rdata, pos') ← RData.parse
        ((pre ++ nb) ++ (beN 2 ty ++ ((beN 2 clsw ++ beN 4 ttl) ++ rest))) (pre ++ nb).length
      if rdata.typeOf = .OPT then
        pure ({ name := name, cls := .IN, ttl := ttl, rdata := rdata, flush := false }, pos')
      else do
        let cls ← CLASS.ofCode (clsw &&& 0x7FFF)
        pure ({ name := name, cls := cls, ttl := ttl, rdata := rdata,
                flush := (clsw &&& 0x8000) == 0x8000 }, pos')) := by
  unfold RR.parse
  rw [hname]
  simp only [Out.bind_ok]
  rw [if_neg (by simp; omega)]
  rw [slice_at (a := pre ++ (nb ++ beN 2 ty)) (m := beN 2 clsw) (z := beN 4 ttl ++ rest) (by simp)
    (by simp; omega) (by simp; omega)]
  simp only [Out.bind_ok]
  rw [slice_at (a := pre ++ (nb ++ (beN 2 ty ++ beN 2 clsw))) (m := beN 4 ttl) (z := rest)
    (by simp) (by simp; omega) (by simp; omega)]
  simp only [Out.bind_ok, deN_beN 2 clsw (by simpa using hcl), deN_beN 4 ttl (by simpa using httl)]
  simp only [List.append_assoc, List.length_append]

/-- what `RR.writeG` guarantees about the bytes `b` of one record appended after `out` -/
structure RRSpec (c : Bool) (out : Bytes) (r : RR) (b : Bytes) (t' : Table) : Prop where
  inv : TInv (out ++ b) t'
  dec : ∀ post, RR.parse (out ++ (b ++ post)) out.length = .ok (r, out.length + b.length)
  plain : ∃ pb, r.write = .ok pb ∧ b.length ≤ pb.length ∧ (c = false → b = pb)

/-- the CLASS slot of a record: the UDP size for OPT, else class and cache-flush bit -/
def RR.clsWord (r : RR) : Nat :=
  match r.rdata with
  | .opt o => o.udp
  | _ => if r.flush then r.cls.toCode ||| 0x8000 else r.cls.toCode

theorem RR.writeCommon_eq (r : RR) :
    r.writeCommon = beN 2 r.rdata.typeOf.toCode ++ (beN 2 r.clsWord ++ beN 4 r.ttl) := by
  unfold RR.writeCommon RR.clsWord
  cases r.rdata <;> rfl

theorem RR.writeG_spec (c : Bool) (r : RR) (off : Nat) (t : Table) (hwf : r.WF) :
    ∃ b t', r.writeG c off t = .ok (b, t') ∧
      ∀ out : Bytes, out.length = off → TInv out t → RRSpec c out r b t' := by
  obtain ⟨hn, httl, hrdwf, hopt⟩ := hwf
  obtain ⟨hty, htyrt, htyopt⟩ := hrdwf.typeOf_facts
  have hcom : r.writeCommon.length = 8 := by rw [RR.writeCommon_eq]; simp
  obtain ⟨rdb, t2, hw, hspec⟩ := RData.writeG_spec c r.rdata
    (off + (nameG c r.name off t).1.length + r.writeCommon.length + 2) (nameG c r.name off t).2 hrdwf
  refine ⟨(nameG c r.name off t).1 ++ (r.writeCommon ++
    (beN 2 (if c then rdb.length else r.rdata.len) ++ rdb)), t2, ?_, ?_⟩
  · unfold RR.writeG
    simp only [hw, Out.bind_ok, Out.pure_eq]
  intro out hlen hinv
  have hN := nameG_spec c r.name off t out hn.labelsOK hlen hinv
  generalize hnb : nameG c r.name off t = nb at hw hspec hN ⊢
  have hS := hspec (out ++ (nb.1 ++ (r.writeCommon ++ beN 2 (if c then rdb.length else r.rdata.len))))
    (by simp [hcom]; omega)
    (by have := hN.inv.append (r.writeCommon ++ beN 2 (if c then rdb.length else r.rdata.len))
        simpa using this)
  have hL : (if c then rdb.length else r.rdata.len) = rdb.length := by
    cases c
    · exact hS.lenEq rfl
    · rfl
  rw [hL] at hS ⊢
  have hrdlt : rdb.length < 65536 := by have := hS.le; omega
  refine ⟨by have := hS.inv; simpa using this, ?_, ?_⟩
  · -- parsing
    intro post
    have hclw : r.clsWord < 65536 := by
      unfold RR.clsWord
      split
      · rename_i o ho
        rw [ho] at hrdwf
        exact hrdwf.1.1
      · exact (cls_rt r.cls r.flush).1
    have hd : out ++ ((nb.1 ++ (r.writeCommon ++ (beN 2 rdb.length ++ rdb))) ++ post)
        = out ++ (nb.1 ++ (beN 2 r.rdata.typeOf.toCode ++ ((beN 2 r.clsWord ++ beN 4 r.ttl) ++
            (beN 2 rdb.length ++ (rdb ++ post))))) := by
      rw [RR.writeCommon_eq]; simp
    rw [hd, RR.parse_frame out nb.1 r.name _ _ _ _ (fun post' => hN.parse hn.2 post') hclw httl]
    rw [RData.parse_frame (out ++ nb.1) _ (beN 2 r.clsWord ++ beN 4 r.ttl) rdb post hty (by simp)
      hrdlt]
    rw [htyrt]
    have hlen' : out.length + (nb.1 ++ (r.writeCommon ++ (beN 2 rdb.length ++ rdb))).length
        = (out ++ nb.1).length + 10 + rdb.length := by simp [hcom]; omega
    cases hrd : r.rdata with
    | opt o =>
      have hb := hS.opt o hrd
      rw [hrd] at hopt hrdwf
      simp only at hopt
      obtain ⟨hc1, hc2, hc3⟩ := hopt
      simp only [RData.WF] at hrdwf
      have hcw : r.clsWord = o.udp := by unfold RR.clsWord; rw [hrd]
      simp only [RData.typeOf, if_true]
      rw [hb, hcw, optParse_frame (out ++ nb.1) _ o.udp r.ttl (beN 2 (encTlvs 2 2 o.codes).length)
        o.codes hrdwf.1.1 httl (by simp) hrdwf.1.2.2]
      simp only [Out.bind_ok, if_true, Out.pure_eq]
      rw [← hc3]
      rw [hb] at hlen'
      rw [hlen']
      obtain ⟨name, cls, ttl, rdata, flush⟩ := r
      simp only at hrd hc1 hc2
      subst hrd hc1 hc2
      rfl
    | _ =>
      all_goals
        have hno : ∀ o, r.rdata ≠ .opt o := by intro o; rw [hrd]; exact fun h => by cases h
        have hnopt := htyopt hno
        have hcw : r.clsWord = (if r.flush then r.cls.toCode ||| 0x8000 else r.cls.toCode) := by
          unfold RR.clsWord; rw [hrd]
        obtain ⟨_, hcls, hfl⟩ := cls_rt r.cls r.flush
        rw [← hrd, if_neg hnopt]
        rcases hS.dec hno with ⟨hb0, hemp⟩ | ⟨hbne, p, hp⟩
        · rw [if_pos (by simp [hb0])]
          simp only [Out.bind_ok, Out.pure_eq]
          rw [hemp] at hnopt
          rw [if_neg (by simpa [RData.typeOf] using hnopt), hcw, hcls]
          simp only [Out.bind_ok, hfl]
          rw [hlen', hb0, ← hemp]
          cases r; rfl
        · rw [if_neg (by
            intro h0; exact hbne (List.eq_nil_of_length_eq_zero h0))]
          have e : (out ++ nb.1) ++ (beN 2 r.rdata.typeOf.toCode ++
              ((beN 2 r.clsWord ++ beN 4 r.ttl) ++ (beN 2 rdb.length ++ rdb)))
              = (out ++ (nb.1 ++ (r.writeCommon ++ beN 2 rdb.length))) ++ rdb := by
            rw [RR.writeCommon_eq]; simp
          have e2 : (out ++ nb.1).length + 10
              = (out ++ (nb.1 ++ (r.writeCommon ++ beN 2 rdb.length))).length := by
            simp [hcom]; omega
          rw [e, e2, hp]
          simp only [Out.bind_ok, Out.pure_eq]
          rw [if_neg hnopt, hcw, hcls]
          simp only [Out.bind_ok, hfl]
          rw [← e2, hlen']
  · -- comparison with the plain writer
    obtain ⟨pb, hpb, hle, heq⟩ := hS.plain
    refine ⟨Name.write r.name ++ (r.writeCommon ++ (beN 2 r.rdata.len ++ pb)), ?_, ?_, ?_⟩
    · unfold RR.write; rw [hpb]; rfl
    · have := hN.le; simp [Name.write_length]; omega
    · intro hc
      subst hc
      rw [nameG_false] at hnb
      subst hnb
      have := heq rfl
      subst this
      simp only at hL ⊢
      rw [hS.lenEq rfl]

/-! ### questions -/

structure QSpec (c : Bool) (out : Bytes) (q : Question) (b : Bytes) (t' : Table) : Prop where
  inv : TInv (out ++ b) t'
  dec : ∀ post, Question.parse (out ++ (b ++ post)) out.length = .ok (q, out.length + b.length)
  le : b.length ≤ q.write.length
  plain : c = false → b = q.write

theorem Question.writeG_spec (c : Bool) (q : Question) (off : Nat) (t : Table) (out : Bytes)
    (hwf : q.WF) (hlen : out.length = off) (hinv : TInv out t) :
    QSpec c out q (q.writeG c off t).1 (q.writeG c off t).2 := by
  obtain ⟨hn, hqt⟩ := hwf
  have hN := nameG_spec c q.name off t out hn.labelsOK hlen hinv
  simp only [Question.writeG]
  generalize hnb : nameG c q.name off t = nb at hN ⊢
  obtain ⟨hcw, hqc, hun⟩ := qcls_rt q.qclass q.unicast
  have hqlt := qtype_code_lt q.qtype hqt
  refine ⟨by have := hN.inv.append q.writeCommon; simpa using this, ?_, ?_, ?_⟩
  · intro post
    have hd : out ++ ((nb.1 ++ q.writeCommon) ++ post) = out ++ (nb.1 ++ (beN 2 q.qtype.toCode ++
        (beN 2 (if q.unicast then q.qclass.toCode ||| 0x8000 else q.qclass.toCode) ++ post))) := by
      simp [Question.writeCommon]
    rw [hd]
    unfold Question.parse
    rw [hN.parse hn.2]
    simp only [Out.bind_ok]
    rw [if_neg (by simp; omega)]
    rw [slice_at (a := out ++ nb.1) (m := beN 2 q.qtype.toCode)
      (z := beN 2 (if q.unicast then q.qclass.toCode ||| 0x8000 else q.qclass.toCode) ++ post)
      (by simp) (by simp) (by simp)]
    simp only [Out.bind_ok]
    rw [slice_at (a := out ++ (nb.1 ++ beN 2 q.qtype.toCode))
      (m := beN 2 (if q.unicast then q.qclass.toCode ||| 0x8000 else q.qclass.toCode)) (z := post)
      (by simp) (by simp; omega) (by simp; omega)]
    simp only [Out.bind_ok, deN_beN 2 _ (show q.qtype.toCode < 256 ^ 2 by simpa using hqlt),
      deN_beN 2 _ (show (if q.unicast then q.qclass.toCode ||| 0x8000 else q.qclass.toCode)
        < 256 ^ 2 by simpa using hcw), hqt, hqc, hun, Out.pure_eq]
    simp [Question.writeCommon]; omega
  · have := hN.le; simp [Question.write, Name.write_length]; omega
  · intro hc
    subst hc
    rw [nameG_false] at hnb
    subst hnb
    rfl

/-! ### sections -/

structure QsSpec (c : Bool) (out : Bytes) (qs : List Question) (b : Bytes) (t' : Table) :
    Prop where
  inv : TInv (out ++ b) t'
  dec : ∀ post, parseQuestions (out ++ (b ++ post)) qs.length out.length
    = .ok (qs, out.length + b.length)
  le : b.length ≤ (writeQuestions qs).length
  plain : c = false → b = writeQuestions qs

theorem writeQuestionsG_spec (c : Bool) (qs : List Question) : ∀ (off : Nat) (t : Table)
    (out : Bytes), (∀ q ∈ qs, q.WF) → out.length = off → TInv out t →
    QsSpec c out qs (writeQuestionsG c qs off t).1 (writeQuestionsG c qs off t).2 := by
  induction qs with
  | nil =>
    intro off t out _ hlen hinv
    simp only [writeQuestionsG]
    exact ⟨hinv.append _, fun post => by simp [parseQuestions], by simp, fun _ => rfl⟩
  | cons q qs ih =>
    intro off t out hwf hlen hinv
    have hq := Question.writeG_spec c q off t out (hwf q (by simp)) hlen hinv
    simp only [writeQuestionsG]
    generalize q.writeG c off t = a at hq ⊢
    have hr := ih (off + a.1.length) a.2 (out ++ a.1) (fun x hx => hwf x (by simp [hx]))
      (by simp [hlen]) hq.inv
    generalize writeQuestionsG c qs (off + a.1.length) a.2 = r at hr ⊢
    refine ⟨by have := hr.inv; simpa using this, ?_, ?_, ?_⟩
    · intro post
      simp only [parseQuestions, List.length_cons]
      have e1 := hq.dec (r.1 ++ post)
      have e2 := hr.dec post
      simp only [List.append_assoc, List.length_append] at e1 e2 ⊢
      rw [e1]
      simp only [Out.bind_ok]
      rw [e2]
      simp [Nat.add_assoc]
    · have h1 := hq.le; have h2 := hr.le; simp [writeQuestions]; omega
    · intro hc
      rw [hq.plain hc, hr.plain hc]; rfl

structure RRsSpec (c : Bool) (out : Bytes) (rs : List RR) (b : Bytes) (t' : Table) : Prop where
  inv : TInv (out ++ b) t'
  dec : ∀ post, parseRRs (out ++ (b ++ post)) rs.length out.length = .ok (rs, out.length + b.length)
  plain : ∃ pb, writeRRs rs = .ok pb ∧ b.length ≤ pb.length ∧ (c = false → b = pb)

theorem writeRRsG_spec (c : Bool) (rs : List RR) : ∀ (off : Nat) (t : Table), (∀ r ∈ rs, r.WF) →
    ∃ b t', writeRRsG c rs off t = .ok (b, t') ∧
      ∀ out : Bytes, out.length = off → TInv out t → RRsSpec c out rs b t' := by
  induction rs with
  | nil =>
    intro off t _
    refine ⟨[], t, rfl, fun out hlen hinv => ?_⟩
    exact ⟨hinv.append _, fun post => by simp [parseRRs], ⟨[], rfl, Nat.le_refl _, fun _ => rfl⟩⟩
  | cons r rs ih =>
    intro off t hwf
    obtain ⟨a, ta, hwa, hsa⟩ := RR.writeG_spec c r off t (hwf r (by simp))
    obtain ⟨b, tb, hwb, hsb⟩ := ih (off + a.length) ta (fun x hx => hwf x (by simp [hx]))
    refine ⟨a ++ b, tb, by simp only [writeRRsG, hwa, Out.bind_ok, hwb, Out.pure_eq], ?_⟩
    intro out hlen hinv
    have hq := hsa out hlen hinv
    have hr := hsb (out ++ a) (by simp [hlen]) hq.inv
    refine ⟨by have := hr.inv; simpa using this, ?_, ?_⟩
    · intro post
      simp only [parseRRs, List.length_cons]
      have e1 := hq.dec (b ++ post)
      have e2 := hr.dec post
      simp only [List.append_assoc, List.length_append] at e1 e2 ⊢
      rw [e1]
      simp only [Out.bind_ok]
      rw [e2]
      simp [Nat.add_assoc]
    · obtain ⟨pa, hpa, hla, hea⟩ := hq.plain
      obtain ⟨pb, hpb, hlb, heb⟩ := hr.plain
      refine ⟨pa ++ pb, by simp only [writeRRs, hpa, hpb, Out.bind_ok, Out.pure_eq], ?_, ?_⟩
      · simp; omega
      · intro hc; rw [hea hc, heb hc]

end Dns
