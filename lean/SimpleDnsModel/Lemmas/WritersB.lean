/-
Lemmas for C07 (emitted compression pointers are valid and used where
allowed), part B of the writer lemmas:
  1. the suffix table: `table_monotone`, `repeat_is_pointer`,
     `compressName_records`; the shape of a compressed name
     (`compressName_shape`) and the validity of its pointer
     (`pointers_valid_name`);
  2. the name sites of a message (`Site`, `Packet.sitesG`): definitions, part of
     the statements of C07;
  3. every site of a built message holds a valid encoding, plain where
     compression is not allowed (`buildG_sites`);
  4. the suffix table threaded through the sites in writing order (`Chain`),
     and a repeated name is a pointer (`repeated_name_is_pointer`).
Helper names live in the namespace `Dns.Wr`.
-/
import SimpleDnsModel.Lemmas.WritersA
set_option autoImplicit false
namespace Dns

/-! ### name sites of a message -/

/-- a place where the writer puts a domain name: message offset, the name, and whether the
name may be compressed there (question and owner names, and RDATA names of the types that
delegate to `Name::write_compressed_to`) -/
structure Site where
  off : Nat
  name : Name
  compressible : Bool
deriving DecidableEq, Repr

/-- offset and table after a writer that started at `off` with table `t` -/
def afterG (x : Out (Bytes × Table)) (off : Nat) (t : Table) : Nat × Table :=
  match x with
  | .ok (b, t') => (off + b.length, t')
  | _ => (off, t)

def fieldSites : FKind → Val → Nat → List Site
  | .name cb, .name n, off => [⟨off, n, cb⟩]
  | _, _, _ => []

/-- the names among the fields of a flat RDATA, each at the offset where `encAllG` writes it -/
def sitesAll (c : Bool) : List FKind → List Val → Nat → Table → List Site
  | k :: ks, v :: vs, off, t =>
    let a := encFieldG c k v off t
    fieldSites k v off ++ sitesAll c ks vs (off + a.1.length) a.2
  | _, _, _, _ => []

/-- names inside an RDATA that starts at `off`: the `.name` fields of the schema, and the domain
gateway of IPSECKEY (after precedence, gateway type and algorithm; never compressed) -/
def RData.sites (c : Bool) (rd : RData) (off : Nat) (t : Table) : List Site :=
  match rd with
  | .flat code vs =>
    match schemaOf code with
    | some ks => sitesAll c ks vs off t
    | none => []
  | .ipseckey _ _ (.domain n) _ => [⟨off + 3, n, false⟩]
  | _ => []

/-- owner name, then the RDATA names behind TYPE, CLASS, TTL and RDLENGTH (10 bytes) -/
def RR.sites (c : Bool) (r : RR) (off : Nat) (t : Table) : List Site :=
  let nb := nameG c r.name off t
  ⟨off, r.name, true⟩ :: r.rdata.sites c (off + nb.1.length + 10) nb.2

def Question.sites (q : Question) (off : Nat) : List Site := [⟨off, q.name, true⟩]

def sitesQuestions (c : Bool) : List Question → Nat → Table → List Site
  | [], _, _ => []
  | q :: qs, off, t =>
    let a := q.writeG c off t
    q.sites off ++ sitesQuestions c qs (off + a.1.length) a.2

def sitesRRs (c : Bool) : List RR → Nat → Table → List Site
  | [], _, _ => []
  | r :: rs, off, t =>
    let s := afterG (r.writeG c off t) off t
    r.sites c off t ++ sitesRRs c rs s.1 s.2

/-- every name of the message with the offset at which `buildG c` writes it, in writing order:
questions, answers, authority, the root owner name of the OPT pseudo-record, additional -/
def Packet.sitesG (c : Bool) (p : Packet) : List Site :=
  let qs := writeQuestionsG c p.questions 12 []
  let s1 : Nat × Table := (12 + qs.1.length, qs.2)
  let s2 := afterG (writeRRsG c p.answers s1.1 s1.2) s1.1 s1.2
  let s3 := afterG (writeRRsG c p.nameServers s2.1 s2.2) s2.1 s2.2
  let o := match writeRRs p.header.optRR.toList with
    | .ok o => o.length
    | _ => 0
  sitesQuestions c p.questions 12 [] ++ (sitesRRs c p.answers s1.1 s1.2 ++
    (sitesRRs c p.nameServers s2.1 s2.2 ++
      (p.header.optRR.toList.map (fun _ => (⟨s3.1, [], false⟩ : Site)) ++
        sitesRRs c p.additional (s3.1 + o) s3.2)))

namespace Wr

/-! ### the suffix table -/

theorem find_cons_ne {m n : Name} {o : Nat} {t : Table} (h : m ≠ n) :
    Table.find ((m, o) :: t) n = Table.find t n := by
  simp [Table.find, h]

theorem find_cons_eq {n : Name} {o : Nat} {t : Table} : Table.find ((n, o) :: t) n = some o := by
  simp [Table.find]

/-- entries are never lost or changed -/
theorem table_monotone (n : Name) : ∀ (off : Nat) (t : Table) (m : Name) (q : Nat),
    Table.find t m = some q → Table.find (compressName n off t).2 m = some q := by
  induction n with
  | nil => intro off t m q h; simpa [compressName] using h
  | cons l rest ih =>
    intro off t m q h
    simp only [compressName]
    split
    · exact h
    · rename_i hnone
      apply ih
      split
      · rw [find_cons_ne]
        · exact h
        · intro he; rw [he, h] at hnone; cases hnone
      · exact h

/-- a repeated name is exactly one two-byte pointer -/
theorem repeat_is_pointer {n : Name} {t : Table} {p : Nat} (off : Nat)
    (h : Table.find t n = some p) (hn : n ≠ []) :
    compressName n off t = (beN 2 (p ||| 0xC000), t) := by
  cases n with
  | nil => exact absurd rfl hn
  | cons l rest => simp only [compressName, h]

/-- a first occurrence at an offset a pointer can hold is remembered -/
theorem compressName_records {n : Name} {t : Table} {off : Nat} (hn : n ≠ []) (hoff : off ≤ 0x3FFF)
    (h : Table.find t n = none) : Table.find (compressName n off t).2 n = some off := by
  cases n with
  | nil => exact absurd rfl hn
  | cons l rest =>
    simp only [compressName, h, if_pos hoff]
    exact table_monotone _ _ _ _ _ find_cons_eq

/-- after writing a non-root name at an offset of at most 16383 the table knows it -/
theorem compressName_known {n : Name} {t : Table} {off : Nat} (hn : n ≠ []) (hoff : off ≤ 0x3FFF) :
    ∃ q, Table.find (compressName n off t).2 n = some q := by
  cases h : Table.find t n with
  | none => exact ⟨off, compressName_records hn hoff h⟩
  | some q => exact ⟨q, table_monotone _ _ _ _ _ h⟩

/-! ### the shape of a compressed name -/

/-- the labels of a name, each behind its length byte, without the final zero byte -/
def labelBytes : Name → Bytes
  | [] => []
  | l :: rest => UInt8.ofNat l.length :: (l ++ labelBytes rest)

theorem write_eq_labelBytes (n : Name) : Name.write n = labelBytes n ++ [0] := by
  induction n with
  | nil => rfl
  | cons l rest ih => simp [Name.write, labelBytes, ih]

/-- **Pointer shape.** `compress_append` emits either all labels and the zero byte (no suffix of
the name is in the table), or the labels of a prefix followed by exactly one two-byte pointer
`11pppppp pppppppp`, where `p` is the table's offset for the remaining labels `suf`, the longest
suffix the table knows. -/
theorem compressName_shape (n : Name) : ∀ (off : Nat) (t : Table),
    ((compressName n off t).1 = labelBytes n ++ [0] ∧
      ∀ pre suf, n = pre ++ suf → suf ≠ [] → Table.find t suf = none) ∨
    ∃ pre suf p, n = pre ++ suf ∧ suf ≠ [] ∧ Table.find t suf = some p ∧
      (compressName n off t).1 = labelBytes pre ++ beN 2 (p ||| 0xC000) ∧
      ∀ pre' suf', n = pre' ++ suf' → pre'.length < pre.length → Table.find t suf' = none := by
  induction n with
  | nil =>
    intro off t
    left
    refine ⟨rfl, ?_⟩
    intro pre suf h hs
    have := congrArg List.length h
    cases suf with
    | nil => exact absurd rfl hs
    | cons _ _ => simp at this
  | cons l rest ih =>
    intro off t
    cases hf : Table.find t (l :: rest) with
    | some p =>
      right
      refine ⟨[], l :: rest, p, rfl, by simp, hf, by simp [compressName, hf, labelBytes], ?_⟩
      intro pre' suf' _ hlt; simp at hlt
    | none =>
      -- the entry added for `l :: rest` is longer than every suffix of `rest`
      have hskip : ∀ pre suf, rest = pre ++ suf →
          Table.find (if off ≤ 0x3FFF then (l :: rest, off) :: t else t) suf = Table.find t suf := by
        intro pre suf h
        split
        · apply find_cons_ne
          intro he
          have := congrArg List.length h
          rw [← he] at this
          simp at this
          omega
        · rfl
      simp only [compressName, hf]
      rcases ih (off + 1 + l.length) (if off ≤ 0x3FFF then (l :: rest, off) :: t else t) with
        ⟨h1, h2⟩ | ⟨pre, suf, p, h1, h2, h3, h4, h5⟩
      · left
        refine ⟨by simp [h1, labelBytes], ?_⟩
        intro pre suf h hs
        cases pre with
        | nil => simp at h; rw [← h]; exact hf
        | cons x pre' =>
          simp at h
          rw [← hskip pre' suf h.2]
          exact h2 pre' suf h.2 hs
      · right
        refine ⟨l :: pre, suf, p, by simp [h1], h2, ?_, by simp [h4, labelBytes], ?_⟩
        · rw [← hskip pre suf h1]; exact h3
        · intro pre' suf' h hlt
          cases pre' with
          | nil => simp at h; rw [← h]; exact hf
          | cons x pre'' =>
            simp at h hlt
            rw [← hskip pre'' suf' h.2]
            exact h5 pre'' suf' h.2 hlt

/-- **Pointers are valid.** Under the table invariant for the bytes `out` written so far, the
pointer emitted by `compress_append` (if any) holds an offset `p ≤ 16383` of earlier output
(`p < out.length`: strictly backwards, counted from the first byte of the message) at which the
remaining labels are completely encoded, and the whole name written expands to the intended one. -/
theorem pointers_valid_name (n : Name) (t : Table) (out : Bytes)
    (hn : ∀ l ∈ n, 1 ≤ l.length ∧ l.length ≤ 63) (hinv : TInv out t) :
    Enc (out ++ (compressName n out.length t).1) out.length n ∧
    ((compressName n out.length t).1 = Name.write n ∨
     ∃ pre suf p, n = pre ++ suf ∧ suf ≠ [] ∧ Table.find t suf = some p ∧
      (compressName n out.length t).1 = labelBytes pre ++ beN 2 (p ||| 0xC000) ∧
      p ≤ 0x3FFF ∧ p < out.length ∧ Enc out p suf) := by
  refine ⟨(compressName_spec n out.length t out hn rfl hinv).enc, ?_⟩
  rcases compressName_shape n out.length t with ⟨h1, _⟩ | ⟨pre, suf, p, h1, h2, h3, h4, _⟩
  · left; rw [h1, write_eq_labelBytes]
  · right
    obtain ⟨_, hp, henc⟩ := hinv _ (Table.find_mem h3)
    exact ⟨pre, suf, p, h1, h2, h3, h4, hp, henc.lt_length, henc⟩

/-! ### every site holds a valid encoding of its name -/

/-- the bytes `d` hold at site `s` a backward-pointer encoding of the site's name, and the plain
encoding if the site must not be compressed -/
def SiteOK (d : Bytes) (s : Site) : Prop :=
  Enc d s.off s.name ∧
  (s.compressible = false → (d.drop s.off).take (Name.write s.name).length = Name.write s.name)

theorem Name.write_pos (n : Name) : 1 ≤ (Name.write n).length := by
  rw [Name.write_length]; exact Name.wireLen_pos n

/-- a block found at `off` stays there when bytes are appended -/
theorem block_append {d x blk : Bytes} {off : Nat} (hpos : 1 ≤ blk.length)
    (h : (d.drop off).take blk.length = blk) : ((d ++ x).drop off).take blk.length = blk := by
  have hl := congrArg List.length h
  simp at hl
  rw [take_drop_append (by omega)]; exact h

theorem block_at (pre blk post : Bytes) :
    ((pre ++ (blk ++ post)).drop pre.length).take blk.length = blk := by simp

theorem SiteOK.append {d : Bytes} {s : Site} (x : Bytes) (h : SiteOK d s) : SiteOK (d ++ x) s :=
  ⟨h.1.append x, fun hc => block_append (Name.write_pos _) (h.2 hc)⟩

theorem encFieldG_name (c : Bool) (cb : Bool) (n : Name) (off : Nat) (t : Table) :
    encFieldG c (.name cb) (.name n) off t = if cb then nameG c n off t else (Name.write n, t) := by
  cases cb <;> rfl

theorem fieldSites_cases (k : FKind) (v : Val) (off : Nat) :
    (∃ cb n, k = .name cb ∧ v = .name n ∧ fieldSites k v off = [⟨off, n, cb⟩]) ∨
    (fieldSites k v off = [] ∧ ∀ c off t, encFieldG c k v off t = (encField k v, t)) := by
  cases k <;> cases v <;>
    first
      | exact Or.inr ⟨rfl, fun _ _ _ => rfl⟩
      | exact Or.inl ⟨_, _, rfl, rfl, rfl⟩
      | (rename_i cb _; cases cb <;> exact Or.inr ⟨rfl, fun _ _ _ => rfl⟩)

/-- one field: its site (if it is a name) is in order and the table invariant is kept -/
theorem encFieldG_sites (c : Bool) (k : FKind) (v : Val) (off : Nat) (t : Table) (out : Bytes)
    (hv : FieldOK k v) (hlen : out.length = off) (hinv : TInv out t) :
    TInv (out ++ (encFieldG c k v off t).1) (encFieldG c k v off t).2 ∧
    ∀ s ∈ fieldSites k v off, SiteOK (out ++ (encFieldG c k v off t).1) s := by
  rcases fieldSites_cases k v off with ⟨cb, n, rfl, rfl, hs⟩ | ⟨hs, he⟩
  · rw [hs, encFieldG_name]
    have hwf : Name.WF n := hv
    subst hlen
    cases cb
    · simp only [Bool.false_eq_true, if_false]
      refine ⟨hinv.append _, ?_⟩
      intro s hs
      simp only [List.mem_singleton] at hs
      subst hs
      have := (Name.write_Enc n hwf.1 out []).1
      simp only [List.append_nil] at this
      exact ⟨this, fun _ => by simp⟩
    · simp only [if_true]
      have hN := nameG_spec c n out.length t out hwf.1 rfl hinv
      refine ⟨hN.inv, ?_⟩
      intro s hs
      simp only [List.mem_singleton] at hs
      subst hs
      exact ⟨hN.enc, fun h => by cases h⟩
  · rw [hs, he]
    exact ⟨hinv.append _, fun s h => by cases h⟩

theorem encAllG_sites (c : Bool) (ks : List FKind) : ∀ (vs : List Val) (off : Nat) (t : Table)
    (out : Bytes), AllOK ks vs → out.length = off → TInv out t →
    TInv (out ++ (encAllG c ks vs off t).1) (encAllG c ks vs off t).2 ∧
    ∀ s ∈ sitesAll c ks vs off t, SiteOK (out ++ (encAllG c ks vs off t).1) s := by
  induction ks with
  | nil =>
    intro vs off t out _ _ hinv
    cases vs <;> exact ⟨hinv.append _, fun s h => by cases h⟩
  | cons k ks ih =>
    intro vs off t out hok hlen hinv
    cases vs with
    | nil => simp [AllOK] at hok
    | cons v vs =>
      simp only [AllOK] at hok
      obtain ⟨h1, h2⟩ := encFieldG_sites c k v off t out hok.1 hlen hinv
      simp only [encAllG, sitesAll]
      generalize encFieldG c k v off t = a at h1 h2 ⊢
      obtain ⟨h3, h4⟩ := ih vs (off + a.1.length) a.2 (out ++ a.1) hok.2 (by simp [hlen]) h1
      generalize encAllG c ks vs (off + a.1.length) a.2 = r at h3 h4 ⊢
      refine ⟨by simpa using h3, ?_⟩
      intro s hs
      rw [List.mem_append] at hs
      rcases hs with hs | hs
      · have := (h2 s hs).append r.1
        simpa using this
      · simpa using h4 s hs

theorem RData.writeG_sites (c : Bool) (rd : RData) (off : Nat) (t : Table) (hwf : rd.WF)
    (b : Bytes) (t' : Table) (hw : rd.writeG c off t = .ok (b, t')) (out : Bytes)
    (hlen : out.length = off) (hinv : TInv out t) :
    ∀ s ∈ rd.sites c off t, SiteOK (out ++ b) s := by
  cases rd with
  | flat code vs =>
    simp only [RData.WF, SchemaOK] at hwf
    cases hs : schemaOf code with
    | none => simp [hs] at hwf
    | some ks =>
      simp only [hs] at hwf
      simp only [RData.writeG, hs, hwf.2.1, if_true, Out.ok.injEq] at hw
      simp only [RData.sites, hs]
      have := (encAllG_sites c ks vs off t out hwf.1 hlen hinv).2
      rw [hw] at this
      exact this
  | ipseckey prec alg gw key =>
    cases gw with
    | domain n =>
      simp only [RData.writeG, RData.write, Out.bind_ok, Out.pure_eq, Out.ok.injEq,
        Prod.mk.injEq, Gateway.write] at hw
      obtain ⟨rfl, _⟩ := hw
      intro s hs
      simp only [RData.sites, List.mem_singleton] at hs
      subst hs
      have hn : Name.WF n := hwf.2.2.1
      have := (Name.write_Enc n hn.1
        (out ++ [UInt8.ofNat prec, UInt8.ofNat (Gateway.domain n).tag, UInt8.ofNat alg]) key).1
      have hl : (out ++ [UInt8.ofNat prec, UInt8.ofNat (Gateway.domain n).tag, UInt8.ofNat alg]).length
          = off + 3 := by simp [hlen]
      rw [hl] at this
      refine ⟨by simpa using this, fun _ => ?_⟩
      have hb := block_at
        (out ++ [UInt8.ofNat prec, UInt8.ofNat (Gateway.domain n).tag, UInt8.ofNat alg])
        (Name.write n) key
      rw [hl] at hb
      simpa using hb
    | _ => intro s hs; simp [RData.sites] at hs
  | _ => intro s hs; simp [RData.sites] at hs

theorem RR.writeG_sites (c : Bool) (r : RR) (off : Nat) (t : Table) (hwf : r.WF)
    (b : Bytes) (t' : Table) (hw : r.writeG c off t = .ok (b, t')) (out : Bytes)
    (hlen : out.length = off) (hinv : TInv out t) :
    ∀ s ∈ r.sites c off t, SiteOK (out ++ b) s := by
  obtain ⟨hn, _, hrdwf, _⟩ := hwf
  have hcom : r.writeCommon.length = 8 := by rw [RR.writeCommon_eq]; simp
  have hN := nameG_spec c r.name off t out hn.labelsOK hlen hinv
  unfold RR.writeG at hw
  obtain ⟨⟨rd, t2⟩, hrd, hw⟩ := Out.bind_eq_ok hw
  simp only [Out.pure_eq, Out.ok.injEq, Prod.mk.injEq] at hw
  obtain ⟨rfl, rfl⟩ := hw
  simp only [RR.sites]
  generalize nameG c r.name off t = nb at hrd hN ⊢
  intro s hs
  rw [List.mem_cons] at hs
  rcases hs with rfl | hs
  · refine ⟨?_, fun h => by cases h⟩
    have := hN.enc.append (r.writeCommon ++ (beN 2 (if c then rd.length else r.rdata.len) ++ rd))
    subst hlen
    simpa using this
  · have := RData.writeG_sites c r.rdata (off + nb.1.length + r.writeCommon.length + 2) nb.2 hrdwf
      rd t2 hrd (out ++ (nb.1 ++ (r.writeCommon ++ beN 2 (if c then rd.length else r.rdata.len))))
      (by simp [hcom, hlen]; omega)
      (by have := hN.inv.append (r.writeCommon ++ beN 2 (if c then rd.length else r.rdata.len))
          simpa using this)
    rw [hcom] at this
    have := this s (by simpa [Nat.add_assoc] using hs)
    simpa using this

theorem writeRRsG_sites (c : Bool) (rs : List RR) : ∀ (off : Nat) (t : Table),
    (∀ r ∈ rs, r.WF) → ∀ (b : Bytes) (t' : Table), writeRRsG c rs off t = .ok (b, t') →
    ∀ out : Bytes, out.length = off → TInv out t →
    ∀ s ∈ sitesRRs c rs off t, SiteOK (out ++ b) s := by
  induction rs with
  | nil => intro off t _ b t' _ out _ _ s hs; simp [sitesRRs] at hs
  | cons r rs ih =>
    intro off t hwf b t' hw out hlen hinv s hs
    simp only [writeRRsG] at hw
    obtain ⟨⟨a, ta⟩, ha, hw⟩ := Out.bind_eq_ok hw
    obtain ⟨⟨b', tb⟩, hb, hw⟩ := Out.bind_eq_ok hw
    simp only [Out.pure_eq, Out.ok.injEq, Prod.mk.injEq] at hw
    obtain ⟨rfl, rfl⟩ := hw
    simp only [sitesRRs, ha, afterG, List.mem_append] at hs
    obtain ⟨a', ta', hwa, hsa⟩ := RR.writeG_spec c r off t (hwf r (by simp))
    rw [ha] at hwa
    simp only [Out.ok.injEq, Prod.mk.injEq] at hwa
    obtain ⟨rfl, rfl⟩ := hwa
    rcases hs with hs | hs
    · have := (RR.writeG_sites c r off t (hwf r (by simp)) a ta ha out hlen hinv s hs).append b'
      simpa using this
    · have := ih (off + a.length) ta (fun x hx => hwf x (by simp [hx])) b' tb hb (out ++ a)
        (by simp [hlen]) (hsa out hlen hinv).inv s hs
      simpa using this

theorem writeQuestionsG_sites (c : Bool) (qs : List Question) : ∀ (off : Nat) (t : Table)
    (out : Bytes), (∀ q ∈ qs, q.WF) → out.length = off → TInv out t →
    ∀ s ∈ sitesQuestions c qs off t, SiteOK (out ++ (writeQuestionsG c qs off t).1) s := by
  induction qs with
  | nil => intro off t out _ _ _ s hs; simp [sitesQuestions] at hs
  | cons q qs ih =>
    intro off t out hwf hlen hinv s hs
    have hq := Question.writeG_spec c q off t out (hwf q (by simp)) hlen hinv
    have hN := nameG_spec c q.name off t out (hwf q (by simp)).1.labelsOK hlen hinv
    simp only [sitesQuestions, Question.sites, List.mem_append, List.mem_singleton] at hs
    simp only [writeQuestionsG]
    rcases hs with rfl | hs
    · refine ⟨?_, fun h => by cases h⟩
      have := hN.enc.append (q.writeCommon ++
        (writeQuestionsG c qs (off + (q.writeG c off t).1.length) (q.writeG c off t).2).1)
      subst hlen
      simpa [Question.writeG] using this
    · have := ih (off + (q.writeG c off t).1.length) (q.writeG c off t).2
        (out ++ (q.writeG c off t).1) (fun x hx => hwf x (by simp [hx])) (by simp [hlen]) hq.inv s hs
      simpa using this

/-- **Every name site of a built message is in order**: a valid backward-pointer encoding of the
intended name, and the full label-by-label encoding where compression is not allowed. -/
theorem buildG_sites (c : Bool) (p : Packet) (hwf : p.WF) (b : Bytes) (hb : p.buildG c = .ok b) :
    ∀ s ∈ p.sitesG c, SiteOK b s := by
  obtain ⟨qs, an, t1, ns, t2, ob, ar, t3, hqs, hwan, hwns, hwo, hwar, hbuild, hhl, hQ, hAN, hNS, hO,
    hAR⟩ := buildG_sections c p hwf
  rw [hbuild] at hb
  cases hb
  obtain ⟨_, _, _, _, _, hqwf, hanwf, hnswf, harwf, _⟩ := hwf
  intro s hs
  simp only [Packet.sitesG, hqs, hwan, hwns, hwo, afterG] at hs
  simp only [List.mem_append] at hs
  rcases hs with hs | hs | hs | hs | hs
  · have := (writeQuestionsG_sites c p.questions 12 [] p.writeHeader hqwf hhl (TInv.nil _) s hs).append
      (an ++ (ns ++ (ob ++ ar)))
    rw [hqs] at this
    simpa using this
  · have := (writeRRsG_sites c p.answers _ _ hanwf an t1 hwan (p.writeHeader ++ qs.1)
      (by simp [hhl]) hQ.inv s hs).append (ns ++ (ob ++ ar))
    simpa using this
  · have := (writeRRsG_sites c p.nameServers _ _ hnswf ns t2 hwns (p.writeHeader ++ qs.1 ++ an)
      (by simp [hhl]; omega) hAN.inv s hs).append (ob ++ ar)
    simpa using this
  · -- the OPT pseudo-record: root owner name, one zero byte
    cases ho : p.header.opt with
    | none => simp [Header.optRR, ho] at hs
    | some o =>
      simp only [Header.optRR, ho, Option.map_some, Option.toList_some, List.map_cons, List.map_nil,
        List.mem_singleton] at hs hwo
      subst hs
      simp only [writeRRs, RR.write, RData.write, Out.bind_ok, Out.pure_eq, Out.ok.injEq] at hwo
      subst hwo
      have hl : (p.writeHeader ++ qs.1 ++ an ++ ns).length
          = 12 + qs.1.length + an.length + ns.length := by simp [hhl]; omega
      constructor
      · refine Enc.root ?_
        show (p.writeHeader ++ _)[12 + qs.1.length + an.length + ns.length]? = some 0
        rw [← hl]
        simp [Name.write]
      · intro _
        show ((p.writeHeader ++ _).drop (12 + qs.1.length + an.length + ns.length)).take _ = _
        rw [← hl]
        simp [Name.write]
  · have := writeRRsG_sites c p.additional _ _ harwf ar t3 hwar (p.writeHeader ++ qs.1 ++ an ++ ns ++ ob)
      (by simp [hhl]; omega) hO.inv s (by simpa [Nat.add_assoc] using hs)
    simpa using this

/-! ### the suffix table along the sites of a message -/

/-- `Chain d L t t'`: going through the sites `L` in writing order with the table `t`, the bytes
`d` hold at every compressible site exactly what `compress_append` emits for the site's name with
the table as it is at that moment, and the table at the end is `t'`. Sites that must not be
compressed do not touch the table. -/
def Chain (d : Bytes) : List Site → Table → Table → Prop
  | [], t, t' => t' = t
  | s :: L, t, t' =>
    if s.compressible then
      (d.drop s.off).take (compressName s.name s.off t).1.length = (compressName s.name s.off t).1 ∧
      Chain d L (compressName s.name s.off t).2 t'
    else Chain d L t t'

theorem compressName_pos (n : Name) (off : Nat) (t : Table) : 1 ≤ (compressName n off t).1.length := by
  cases n with
  | nil => simp [compressName]
  | cons l rest => simp only [compressName]; split <;> simp

theorem Chain.append {d : Bytes} {L : List Site} {t t' : Table} (x : Bytes) (h : Chain d L t t') :
    Chain (d ++ x) L t t' := by
  induction L generalizing t with
  | nil => exact h
  | cons s L ih =>
    simp only [Chain] at h ⊢
    split
    · rename_i hc
      rw [if_pos hc] at h
      exact ⟨block_append (compressName_pos _ _ _) h.1, ih h.2⟩
    · rename_i hc
      rw [if_neg hc] at h
      exact ih h

theorem Chain.concat {d : Bytes} {L1 L2 : List Site} {t t1 t2 : Table} (h1 : Chain d L1 t t1)
    (h2 : Chain d L2 t1 t2) : Chain d (L1 ++ L2) t t2 := by
  induction L1 generalizing t with
  | nil => simp only [Chain] at h1; subst h1; exact h2
  | cons s L ih =>
    simp only [List.cons_append, Chain] at h1 ⊢
    split
    · rename_i hc
      rw [if_pos hc] at h1
      exact ⟨h1.1, ih h1.2⟩
    · rename_i hc
      rw [if_neg hc] at h1
      exact ih h1

theorem Chain.split {d : Bytes} {L1 L2 : List Site} {t t2 : Table} (h : Chain d (L1 ++ L2) t t2) :
    ∃ t1, Chain d L1 t t1 ∧ Chain d L2 t1 t2 := by
  induction L1 generalizing t with
  | nil => exact ⟨t, rfl, h⟩
  | cons s L ih =>
    simp only [List.cons_append, Chain] at h ⊢
    split
    · rename_i hc
      rw [if_pos hc] at h
      obtain ⟨t1, h1, h2⟩ := ih h.2
      exact ⟨t1, ⟨h.1, h1⟩, h2⟩
    · rename_i hc
      rw [if_neg hc] at h
      exact ih h

/-- entries are never lost or changed along a chain -/
theorem Chain.mono {d : Bytes} {L : List Site} {t t' : Table} (h : Chain d L t t') (m : Name)
    (q : Nat) (hf : Table.find t m = some q) : Table.find t' m = some q := by
  induction L generalizing t with
  | nil => simp only [Chain] at h; subst h; exact hf
  | cons s L ih =>
    simp only [Chain] at h
    split at h
    · exact ih h.2 (table_monotone _ _ _ _ _ hf)
    · exact ih h hf

/-- offsets in the table are at most 16383 -/
def TBound (t : Table) : Prop := ∀ e ∈ t, e.2 ≤ 0x3FFF

theorem compressName_bound (n : Name) : ∀ (off : Nat) (t : Table), TBound t →
    TBound (compressName n off t).2 := by
  induction n with
  | nil => intro off t h; simpa [compressName] using h
  | cons l rest ih =>
    intro off t h
    simp only [compressName]
    split
    · exact h
    · apply ih
      split
      · rename_i hoff
        intro e he
        rw [List.mem_cons] at he
        rcases he with rfl | he
        · exact hoff
        · exact h e he
      · exact h

theorem Chain.bound {d : Bytes} {L : List Site} {t t' : Table} (h : Chain d L t t')
    (hb : TBound t) : TBound t' := by
  induction L generalizing t with
  | nil => simp only [Chain] at h; subst h; exact hb
  | cons s L ih =>
    simp only [Chain] at h
    split at h
    · exact ih h.2 (compressName_bound _ _ _ hb)
    · exact ih h hb

/-- **A repeated name is a pointer** (list form): of two compressible sites with the same
non-root name, the first at an offset of at most 16383, the second holds exactly a two-byte
pointer. -/
theorem Chain.repeated {d : Bytes} {A B C : List Site} {s1 s2 : Site} {t t' : Table}
    (h : Chain d (A ++ s1 :: (B ++ s2 :: C)) t t') (hb : TBound t)
    (c1 : s1.compressible = true) (c2 : s2.compressible = true) (hname : s1.name = s2.name)
    (hne : s1.name ≠ []) (hoff : s1.off ≤ 0x3FFF) :
    ∃ q, q ≤ 0x3FFF ∧ (d.drop s2.off).take 2 = beN 2 (q ||| 0xC000) := by
  obtain ⟨ta, hA, h⟩ := h.split
  have hba := hA.bound hb
  simp only [Chain, if_pos c1] at h
  obtain ⟨_, h⟩ := h
  obtain ⟨q, hq⟩ := compressName_known (t := ta) hne hoff
  have hb1 := compressName_bound s1.name s1.off ta hba
  obtain ⟨tb, hB, h⟩ := h.split
  have hq2 := hB.mono _ _ hq
  have hbb := hB.bound hb1
  simp only [Chain, if_pos c2] at h
  rw [hname] at hq2 hne
  rw [repeat_is_pointer s2.off hq2 hne] at h
  refine ⟨q, hbb _ (Table.find_mem hq2), ?_⟩
  simpa using h.1

/-! ### the chain of each writer -/

theorem encFieldG_chain (k : FKind) (v : Val) (t : Table) (pre : Bytes) :
    Chain (pre ++ (encFieldG true k v pre.length t).1) (fieldSites k v pre.length) t
      (encFieldG true k v pre.length t).2 := by
  rcases fieldSites_cases k v pre.length with ⟨cb, n, rfl, rfl, hs⟩ | ⟨hs, he⟩
  · rw [hs, encFieldG_name]
    cases cb
    · simp [Chain]
    · simp [Chain, nameG]
  · rw [hs, he]; rfl

theorem encAllG_chain (ks : List FKind) : ∀ (vs : List Val) (t : Table) (pre : Bytes),
    Chain (pre ++ (encAllG true ks vs pre.length t).1) (sitesAll true ks vs pre.length t) t
      (encAllG true ks vs pre.length t).2 := by
  induction ks with
  | nil => intro vs t pre; cases vs <;> rfl
  | cons k ks ih =>
    intro vs t pre
    cases vs with
    | nil => rfl
    | cons v vs =>
      simp only [encAllG, sitesAll]
      have h1 := encFieldG_chain k v t pre
      generalize encFieldG true k v pre.length t = a at h1 ⊢
      have h2 := ih vs a.2 (pre ++ a.1)
      simp only [List.length_append] at h2
      generalize encAllG true ks vs (pre.length + a.1.length) a.2 = r at h2 ⊢
      have := (h1.append r.1).concat h2
      simpa using this

theorem RData.writeG_chain (rd : RData) (t : Table) (pre b : Bytes) (t' : Table)
    (hw : rd.writeG true pre.length t = .ok (b, t')) :
    Chain (pre ++ b) (rd.sites true pre.length t) t t' := by
  cases rd with
  | flat code vs =>
    simp only [RData.writeG, RData.sites] at hw ⊢
    cases hs : schemaOf code with
    | none => simp only [hs, Out.ok.injEq, Prod.mk.injEq] at hw ⊢; exact hw.2.symm
    | some ks =>
      simp only [hs] at hw ⊢
      split at hw
      · simp only [Out.ok.injEq] at hw
        have := encAllG_chain ks vs t pre
        rw [hw] at this
        exact this
      · cases hw
  | ipseckey prec alg gw key =>
    simp only [RData.writeG] at hw
    obtain ⟨_, _, hw2⟩ := Out.bind_eq_ok hw
    simp only [Out.pure_eq, Out.ok.injEq, Prod.mk.injEq] at hw2
    clear hw
    cases gw <;> simp [RData.sites, Chain, hw2.2]
  | _ =>
    simp only [RData.writeG] at hw
    obtain ⟨_, _, hw2⟩ := Out.bind_eq_ok hw
    simp only [Out.pure_eq, Out.ok.injEq, Prod.mk.injEq] at hw2
    simp [RData.sites, Chain, hw2.2]

theorem RR.writeG_chain (r : RR) (t : Table) (pre b : Bytes) (t' : Table)
    (hw : r.writeG true pre.length t = .ok (b, t')) :
    Chain (pre ++ b) (r.sites true pre.length t) t t' := by
  have hcom : r.writeCommon.length = 8 := by rw [RR.writeCommon_eq]; simp
  unfold RR.writeG at hw
  obtain ⟨⟨rd, t2⟩, hrd, hw⟩ := Out.bind_eq_ok hw
  simp only [Out.pure_eq, Out.ok.injEq, Prod.mk.injEq, nameG, if_true] at hw hrd
  obtain ⟨rfl, rfl⟩ := hw
  simp only [RR.sites, nameG, if_true, Chain]
  generalize compressName r.name pre.length t = nb at hrd ⊢
  refine ⟨by simp, ?_⟩
  have := RData.writeG_chain r.rdata nb.2 (pre ++ (nb.1 ++ (r.writeCommon ++ beN 2 rd.length))) rd t2
    (by simpa [hcom, Nat.add_assoc] using hrd)
  simpa [hcom, Nat.add_assoc] using this

theorem writeRRsG_chain (rs : List RR) : ∀ (t : Table) (pre b : Bytes) (t' : Table),
    writeRRsG true rs pre.length t = .ok (b, t') →
    Chain (pre ++ b) (sitesRRs true rs pre.length t) t t' := by
  induction rs with
  | nil =>
    intro t pre b t' hw
    simp only [writeRRsG, Out.ok.injEq, Prod.mk.injEq] at hw
    exact hw.2.symm
  | cons r rs ih =>
    intro t pre b t' hw
    simp only [writeRRsG] at hw
    obtain ⟨⟨a, ta⟩, ha, hw⟩ := Out.bind_eq_ok hw
    obtain ⟨⟨b', tb⟩, hb, hw⟩ := Out.bind_eq_ok hw
    simp only [Out.pure_eq, Out.ok.injEq, Prod.mk.injEq] at hw
    obtain ⟨rfl, rfl⟩ := hw
    simp only [sitesRRs, ha, afterG]
    have h1 := (RR.writeG_chain r t pre a ta ha).append b'
    have h2 := ih ta (pre ++ a) b' tb (by simpa using hb)
    have := h1.concat h2
    simpa using this

theorem writeQuestionsG_chain (qs : List Question) : ∀ (t : Table) (pre : Bytes),
    Chain (pre ++ (writeQuestionsG true qs pre.length t).1) (sitesQuestions true qs pre.length t) t
      (writeQuestionsG true qs pre.length t).2 := by
  induction qs with
  | nil => intro t pre; rfl
  | cons q qs ih =>
    intro t pre
    simp only [writeQuestionsG, sitesQuestions, Question.sites]
    have h2 := ih (q.writeG true pre.length t).2 (pre ++ (q.writeG true pre.length t).1)
    simp only [List.length_append] at h2
    generalize writeQuestionsG true qs (pre.length + (q.writeG true pre.length t).1.length)
      (q.writeG true pre.length t).2 = r at h2 ⊢
    have h1 : Chain (pre ++ (q.writeG true pre.length t).1) [⟨pre.length, q.name, true⟩] t
        (q.writeG true pre.length t).2 := by
      simp [Chain, Question.writeG, nameG]
    have := (h1.append r.1).concat h2
    simpa using this

theorem Chain.skip {d : Bytes} {L : List Site} (t : Table) (h : ∀ s ∈ L, s.compressible = false) :
    Chain d L t t := by
  induction L with
  | nil => rfl
  | cons s L ih =>
    simp only [Chain, h s (by simp), Bool.false_eq_true, if_false]
    exact ih (fun x hx => h x (by simp [hx]))

/-- the whole message: the bytes at the compressible sites are what `compress_append` emits with
the table threaded through all sites in writing order, starting from the empty table -/
theorem buildG_chain (p : Packet) (b : Bytes) (hb : p.buildG true = .ok b) :
    ∃ t', Chain b (p.sitesG true) [] t' := by
  unfold Packet.buildG at hb
  simp only at hb
  obtain ⟨⟨an, t1⟩, han, hb⟩ := Out.bind_eq_ok hb
  obtain ⟨⟨ns, t2⟩, hns, hb⟩ := Out.bind_eq_ok hb
  obtain ⟨o, ho, hb⟩ := Out.bind_eq_ok hb
  obtain ⟨⟨ar, t3⟩, har, hb⟩ := Out.bind_eq_ok hb
  simp only [Out.pure_eq, Out.ok.injEq] at hb
  subst hb
  have hhl : p.writeHeader.length = 12 := by simp [Packet.writeHeader, Header.write]
  rw [hhl] at han hns har ⊢
  have hq := writeQuestionsG_chain p.questions [] p.writeHeader
  rw [hhl] at hq
  simp only [Packet.sitesG]
  generalize writeQuestionsG true p.questions 12 [] = qs at hq han hns har ⊢
  simp only [han, hns, ho, afterG]
  have h1 := writeRRsG_chain p.answers qs.2 (p.writeHeader ++ qs.1) an t1 (by simpa [hhl] using han)
  have h2 := writeRRsG_chain p.nameServers t1 (p.writeHeader ++ qs.1 ++ an) ns t2
    (by simpa [hhl, Nat.add_assoc] using hns)
  have h3 := writeRRsG_chain p.additional t2 (p.writeHeader ++ qs.1 ++ an ++ ns ++ o) ar t3
    (by simpa [hhl, Nat.add_assoc] using har)
  refine ⟨t3, ?_⟩
  refine Chain.concat (t1 := qs.2) ?_ (Chain.concat (t1 := t1) ?_ (Chain.concat (t1 := t2) ?_
    (Chain.concat (t1 := t2) (Chain.skip t2 (by simp)) ?_)))
  · simpa using hq.append (an ++ (ns ++ (o ++ ar)))
  · simpa [hhl] using h1.append (ns ++ (o ++ ar))
  · simpa [hhl, Nat.add_assoc] using h2.append (o ++ ar)
  · simpa [hhl, Nat.add_assoc] using h3

/-- **A repeated name is written as a pointer.** In a compressed message, of two compressible
sites (question names, owner names, RFC 1035 RDATA names) with the same non-root name, the first
at an offset of at most 16383, the later one holds exactly a two-byte pointer. -/
theorem repeated_name_is_pointer (p : Packet) (b : Bytes) (hb : p.buildG true = .ok b)
    (A B C : List Site) (s1 s2 : Site) (hs : p.sitesG true = A ++ s1 :: (B ++ s2 :: C))
    (c1 : s1.compressible = true) (c2 : s2.compressible = true) (hname : s1.name = s2.name)
    (hne : s1.name ≠ []) (hoff : s1.off ≤ 0x3FFF) :
    ∃ q, q ≤ 0x3FFF ∧ (b.drop s2.off).take 2 = beN 2 (q ||| 0xC000) ∧
      ∃ x, b[s2.off]? = some x ∧ x.toNat &&& 0xC0 = 0xC0 := by
  obtain ⟨t', hc⟩ := buildG_chain p b hb
  rw [hs] at hc
  obtain ⟨q, hq, hbytes⟩ := hc.repeated (fun e he => by cases he) c1 c2 hname hne hoff
  refine ⟨q, hq, hbytes, UInt8.ofNat (192 + q / 256), ?_, ?_⟩
  · rw [ptr_bytes q hq] at hbytes
    have := congrArg (fun l => l[0]?) hbytes
    simp only [List.getElem?_take, List.getElem?_drop] at this
    simpa using this
  · have hk : q / 256 < 64 := by omega
    have : (UInt8.ofNat (192 + q / 256)).toNat = 192 + q / 256 := by
      simp [UInt8.toNat_ofNat']; omega
    rw [this]
    exact (ptr_bits (q / 256) hk).1

end Wr
end Dns
