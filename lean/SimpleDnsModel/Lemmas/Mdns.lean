/-
simple-mdns record store: lemmas for C13 and C20 (split in two parts).
-/
import SimpleDnsModel.Lemmas.MdnsA
import SimpleDnsModel.Lemmas.MdnsB
