/-
Helper lemmas for property C05 (parsing honours the record framing of the
message): the model's cursors against the independent RFC 1035 envelope walker
of Spec/Envelope.lean.

Import note: Lemmas/Name.lean and Lemmas/NoPanic.lean both declare
`Dns.nameLoop_pos_le` and `Dns.Name.parse_pos_le`, so the two modules cannot be
imported together. C05 needs NoPanic (through Props/C01); the two facts about
`nameLoop` that it needs from Lemmas/Name.lean (soundness for `Decodes`, the
cursor is the `InPlaceEnd`) are therefore re-proved here in the namespace
`Dns.Framing`, with the same proofs. `Name.parse_pos_le` below is the NoPanic
one (`p ≤ d.length`).
-/
import SimpleDnsModel.Lemmas.NoPanic
import SimpleDnsModel.Spec.NameDecode
import SimpleDnsModel.Spec.Envelope
namespace Dns
namespace Framing

/-! ### small facts -/

theorem lt_of_getElem?_some {d : Bytes} {i : Nat} {b : UInt8} (h : d[i]? = some b) :
    i < d.length := by
  rcases Nat.lt_or_ge i d.length with h' | h'
  · exact h'
  · simp [List.getElem?_eq_none h'] at h

theorem toNat_pos_of_ne_zero {b : UInt8} (h : b ≠ 0) : 1 ≤ b.toNat := by
  have : b.toNat ≠ 0 := by
    intro h0; apply h; exact UInt8.toNat_inj.mp (by simpa using h0)
  omega

theorem ne_zero_of_toNat_pos {b : UInt8} (h : 1 ≤ b.toNat) : b ≠ 0 := by
  intro h0; subst h0; simp at h

/-- the two top bits of a byte are set exactly when the byte is at least 192 -/
theorem ptr_bits_iff (k : Nat) (hk : k < 256) : (k &&& 0xC0 = 0xC0) ↔ 192 ≤ k := by
  constructor
  · intro h
    have : k &&& 192 ≤ k := Nat.and_le_left
    omega
  · intro h
    have key : ∀ j, j < 64 → (192 + j) &&& 192 = 192 := by decide
    have := key (k - 192) (by omega)
    rwa [show 192 + (k - 192) = k by omega] at this

theorem ptr_byte_iff (b : UInt8) : (b.toNat &&& 0xC0 = 0xC0) ↔ 192 ≤ b.toNat :=
  ptr_bits_iff b.toNat b.toNat_lt

/-- bytes `a .. a+n` of `d` are inside every prefix of `d` that reaches `a+n` -/
theorem take_drop_take {d : Bytes} {a n k : Nat} (h : a + n ≤ k) :
    ((d.take k).drop a).take n = (d.drop a).take n := by
  rw [List.drop_take, List.take_take]
  congr 1
  omega

theorem take_append_take {d tail : Bytes} {k : Nat} (hk : k ≤ d.length) :
    (d.take k ++ tail).take k = d.take k := by
  rw [List.take_append_of_le_length (by simp; omega), List.take_take, Nat.min_self]

/-! ### `Name.parse`: soundness and cursor (as in Lemmas/Name.lean) -/

theorem nameLoop_sound (d : Bytes) (s : NS) (n : Name) (p : Nat)
    (h : nameLoop d s = .ok (n, p)) :
    ∃ tail, n = s.labels.reverse ++ tail ∧ Decodes d s.pp tail := by
  fun_induction nameLoop d s generalizing n p
  all_goals try (simp at h; done)
  · rename_i s _ _ hz
    simp at h
    exact ⟨[], by simp [h.1], Decodes.root hz⟩
  · rename_i s _ _ b hb hnz hptr pos _ b2 hb2 ptr hlt ih
    obtain ⟨tail, h1, h2⟩ := ih n p h
    exact ⟨tail, h1, Decodes.ptr hb hptr hb2 h2⟩
  · rename_i s _ _ b hb hnz hptr len hfit h63 lab ih
    obtain ⟨tail, h1, h2⟩ := ih n p h
    refine ⟨lab :: tail, by simp [h1], ?_⟩
    have hb1 : 1 ≤ b.toNat := toNat_pos_of_ne_zero hnz
    have h2' : Decodes d (s.pp + 1 + b.toNat) tail := by
      have : s.pp + len + 1 = s.pp + 1 + b.toNat := by simp [len]; omega
      simpa [this] using h2
    exact Decodes.label hb hb1 (by omega) rfl (by omega) h2'

theorem name_sound {d : Bytes} {pos : Nat} {n : Name} {p : Nat}
    (h : Name.parse d pos = .ok (n, p)) : Decodes d pos n := by
  obtain ⟨tail, h1, h2⟩ := nameLoop_sound d _ n p h
  simp at h1; subst h1; exact h2

theorem nameLoop_cursor (d : Bytes) (s : NS) (n : Name) (p : Nat)
    (h : nameLoop d s = .ok (n, p)) :
    (s.follow = false → s.pos = s.pp → InPlaceEnd d s.pp p) ∧ (s.follow = true → p = s.pos + 1) := by
  fun_induction nameLoop d s generalizing n p
  all_goals try (simp at h; done)
  · rename_i s _ _ hz
    simp at h
    refine ⟨fun _ hp => ?_, fun _ => h.2.symm⟩
    rw [← h.2, hp]; exact InPlaceEnd.root hz
  · rename_i s _ _ b hb hnz hptr pos _ b2 hb2 ptr hlt ih
    obtain ⟨_, h2⟩ := ih n p h
    have h2 := h2 rfl
    refine ⟨fun hf hp => ?_, fun hf => ?_⟩
    · simp [pos, hf] at h2
      rw [h2, hp]; exact InPlaceEnd.ptr hb hptr
    · simpa [pos, hf] using h2
  · rename_i s _ _ b hb hnz hptr len hfit h63 lab ih
    obtain ⟨h1, h2⟩ := ih n p h
    have hb1 : 1 ≤ b.toNat := toNat_pos_of_ne_zero hnz
    refine ⟨fun hf hp => ?_, fun hf => ?_⟩
    · have h1 := h1 hf (by simp [hf, hp])
      have : s.pp + len + 1 = s.pp + 1 + b.toNat := by simp [len]; omega
      simp only [this] at h1
      exact InPlaceEnd.label hb hb1 (by omega) h1
    · simpa [hf] using h2 hf

theorem name_cursor {d : Bytes} {pos : Nat} {n : Name} {p : Nat}
    (h : Name.parse d pos = .ok (n, p)) : InPlaceEnd d pos p :=
  (nameLoop_cursor d _ n p h).1 rfl rfl

/-! ### 1. the in-place end of a name is where the envelope walker's `skipName` stops -/

/-- with enough fuel (`d.length + 1` always is), `skipName` returns the `InPlaceEnd`; the side
condition `e ≤ d.length` is only used by the pointer rule, which does not record that the second
pointer byte exists -/
theorem skipName_of_inPlaceEnd {d : Bytes} {off e : Nat} (h : InPlaceEnd d off e)
    (he : e ≤ d.length) :
    ∀ fuel, d.length < off + fuel → Spec.skipName d fuel off = some e := by
  induction h with
  | @root off h0 =>
    intro fuel hf
    have hlt := lt_of_getElem?_some h0
    obtain ⟨f, rfl⟩ : ∃ f, fuel = f + 1 := ⟨fuel - 1, by omega⟩
    simp [Spec.skipName, h0]
  | @label off e b hb h1 h63 _ ih =>
    intro fuel hf
    have hlt := lt_of_getElem?_some hb
    obtain ⟨f, rfl⟩ : ∃ f, fuel = f + 1 := ⟨fuel - 1, by omega⟩
    have hbz : b ≠ 0 := ne_zero_of_toNat_pos h1
    simp only [Spec.skipName, hb]
    rw [if_neg hbz, if_neg (by omega), if_neg (by omega)]
    exact ih he f (by omega)
  | @ptr off b hb hp =>
    intro fuel hf
    have hlt := lt_of_getElem?_some hb
    obtain ⟨f, rfl⟩ : ∃ f, fuel = f + 1 := ⟨fuel - 1, by omega⟩
    have h192 : 192 ≤ b.toNat := (ptr_byte_iff b).mp hp
    have hbz : b ≠ 0 := ne_zero_of_toNat_pos (by omega)
    simp only [Spec.skipName, hb]
    rw [if_neg hbz, if_pos h192, if_pos he]

/-- conversely, whatever `skipName` returns is the `InPlaceEnd`, and lies inside the message -/
theorem inPlaceEnd_of_skipName {d : Bytes} {fuel off e : Nat}
    (h : Spec.skipName d fuel off = some e) : InPlaceEnd d off e ∧ e ≤ d.length := by
  induction fuel generalizing off with
  | zero => simp [Spec.skipName] at h
  | succ f ih =>
    unfold Spec.skipName at h
    split at h
    · cases h
    · rename_i b hb
      have hlt := lt_of_getElem?_some hb
      split at h
      · rename_i hz
        cases h
        exact ⟨InPlaceEnd.root (by simpa [hz] using hb), by omega⟩
      · rename_i hnz
        split at h
        · rename_i h192
          split at h
          · cases h
            exact ⟨InPlaceEnd.ptr hb ((ptr_byte_iff b).mpr h192), by omega⟩
          · cases h
        · split at h
          · cases h
          · obtain ⟨h1, h2⟩ := ih h
            exact ⟨InPlaceEnd.label hb (toNat_pos_of_ne_zero hnz) (by omega) h1, h2⟩

theorem skipName_of_parse {d : Bytes} {off : Nat} {n : Name} {e : Nat}
    (h : Name.parse d off = .ok (n, e)) : Spec.skipName d (d.length + 1) off = some e :=
  skipName_of_inPlaceEnd (name_cursor h) (Name.parse_end_le h) _ (by omega)

/-! ### fixed-width fields -/

theorem field_of_slice {d s : Bytes} {a b w : Nat} (hb : b = a + w) (h : slice d a b = .ok s) :
    Spec.field d a w = some (deN s) := by
  subst hb
  unfold slice at h
  split at h
  · rename_i hc
    cases h
    simp [Spec.field, hc.2]
  · cases h

theorem field_of_peekU16 {d : Bytes} {a n : Nat} (h : peekU16 d a = .ok n) :
    Spec.field d a 2 = some n := by
  unfold peekU16 sliceOpt at h
  split at h
  · cases h
  · rename_i s hs
    split at hs
    · rename_i hc
      cases hs; cases h
      simp [Spec.field, hc.2]
    · cases hs

theorem field_le {d : Bytes} {a w n : Nat} (h : Spec.field d a w = some n) : a + w ≤ d.length := by
  unfold Spec.field at h
  split at h
  · assumption
  · cases h

theorem field_eq {d : Bytes} {a w : Nat} (h : a + w ≤ d.length) :
    Spec.field d a w = some (deN ((d.drop a).take w)) := by
  simp [Spec.field, h]

/-- a field that lies inside a prefix of the message is read from that prefix alone -/
theorem field_take {d : Bytes} {a w k : Nat} (h : a + w ≤ k) (hk : k ≤ d.length) :
    Spec.field (d.take k) a w = Spec.field d a w := by
  rw [field_eq (by simp; omega), field_eq (by omega), take_drop_take h]

/-! ### 2. the cursor after an RDATA, a record, a question -/

/-- the OPT option loop stops exactly at the end of the buffer it was given -/
theorem optLoop_end {d : Bytes} {pos : Nat} {acc xs : List (Nat × Bytes)} {p : Nat}
    (hp : pos ≤ d.length) (h : optLoop d pos acc = .ok (xs, p)) : p = d.length := by
  induction hn : d.length - pos using Nat.strongRecOn generalizing pos acc with
  | _ n ih =>
    rw [optLoop] at h
    split at h
    · split at h
      · rename_i x p' hone
        have := tlvOne_advances (by omega) hone
        exact ih (d.length - p') (by omega) (tlvOne_pos_le hone) h rfl
      · cases h
      · cases h
    · cases h; omega

theorem optParse_end {d : Bytes} {pos : Nat} {rd : RData} {p : Nat}
    (h : optParse d pos = .ok (rd, p)) : p = d.length := by
  unfold optParse at h
  split at h
  · cases h
  · obtain ⟨ub, _, h⟩ := Out.bind_eq_ok h
    obtain ⟨tb, _, h⟩ := Out.bind_eq_ok h
    dsimp only at h
    obtain ⟨⟨codes, q⟩, hl, h⟩ := Out.bind_eq_ok h
    cases h
    exact optLoop_end (by omega) hl

/-- the normal form of `RData.parse` once the RDLENGTH field is known: everything is read from
the message cut at the end of the record -/
def rdataOn (b : Bytes) (pos rdlen : Nat) : Out (RData × Nat) :=
  let t := TYPE.ofCode (deN ((b.drop pos).take 2))
  if t = .OPT then optParse b pos else
  if rdlen = 0 then .ok (.empty t, pos + 10) else do
    let (rd, _) ← parseTyped b (pos + 10) t
    pure (rd, pos + 10 + rdlen)

theorem RData.parse_eq_rdataOn {d : Bytes} {pos rdlen : Nat}
    (hl : Spec.field d (pos + 8) 2 = some rdlen) (hk : pos + 10 + rdlen ≤ d.length) :
    RData.parse d pos = rdataOn (d.take (pos + 10 + rdlen)) pos rdlen := by
  have hl' : deN ((d.drop (pos + 8)).take 2) = rdlen := by
    rw [field_eq (by omega)] at hl
    exact Option.some.inj hl
  unfold RData.parse rdataOn
  rw [if_neg (by omega), slice_ok (by omega) (by omega), slice_ok (by omega) (by omega)]
  simp only [Out.bind_ok]
  rw [show pos + 2 - pos = 2 by omega, show pos + 10 - (pos + 8) = 2 by omega, hl',
    if_neg (by omega), take_drop_take (by omega),
    show pos + rdlen + 10 = pos + 10 + rdlen by omega]

/-- a successful `RData.parse` ends at `pos + 10 + RDLENGTH`, inside the message, and the value
has the type announced by the TYPE field -/
theorem RData.parse_frame {d : Bytes} {pos : Nat} {rd : RData} {p : Nat}
    (h : RData.parse d pos = .ok (rd, p)) :
    ∃ t l, Spec.field d pos 2 = some t ∧ Spec.field d (pos + 8) 2 = some l ∧
      p = pos + 10 + l ∧ p ≤ d.length ∧ rd.typeOf = TYPE.ofCode t := by
  unfold RData.parse at h
  split at h
  · cases h
  · obtain ⟨tb, htb, h⟩ := Out.bind_eq_ok h
    dsimp only at h
    obtain ⟨lb, hlb, h⟩ := Out.bind_eq_ok h
    refine ⟨deN tb, deN lb, field_of_slice rfl htb, field_of_slice rfl hlb, ?_⟩
    split at h
    · cases h
    · rename_i hfit
      split at h
      · rename_i hopt
        have hp := optParse_end h
        obtain ⟨o, ho⟩ := optParse_is_opt h
        rw [List.length_take] at hp
        refine ⟨by omega, by omega, ?_⟩
        rw [ho, hopt]; rfl
      · split at h
        · rename_i hz
          cases h
          exact ⟨by omega, by omega, rfl⟩
        · obtain ⟨⟨rd', q⟩, hpt, h⟩ := Out.bind_eq_ok h
          cases h
          refine ⟨rfl, by omega, ?_⟩
          rw [parseTyped_typeOf hpt, TYPE.ofCode_toCode_ofCode]

/-- what one parsed record has to do with one walked entry -/
def RecOK (d : Bytes) (r : RR) (e : Spec.REntry) : Prop :=
  Decodes d e.off r.name ∧ r.ttl = e.ttl ∧ r.rdata.typeOf = TYPE.ofCode e.type ∧
  (r.rdata.typeOf ≠ .OPT →
    CLASS.ofCode (e.cls &&& 0x7FFF) = .ok r.cls ∧ r.flush = ((e.cls &&& 0x8000) == 0x8000))

/-- what one parsed question has to do with one walked entry -/
def QuOK (d : Bytes) (q : Question) (e : Spec.QEntry) : Prop :=
  Decodes d e.off q.name ∧ QTYPE.ofCode e.qtype = .ok q.qtype ∧
  QCLASS.ofCode (e.qclass &&& 0x7FFF) = .ok q.qclass ∧
  q.unicast = ((e.qclass &&& 0x8000) == 0x8000)

theorem RR.parse_frame {d : Bytes} {off : Nat} {r : RR} {p : Nat}
    (h : RR.parse d off = .ok (r, p)) :
    ∃ e, Spec.walkRecord d off = some e ∧ e.off = off ∧ p = e.next ∧ RecOK d r e := by
  unfold RR.parse at h
  obtain ⟨⟨name, q⟩, hname, h⟩ := Out.bind_eq_ok h
  dsimp only at h
  split at h
  · cases h
  · obtain ⟨cb, hcb, h⟩ := Out.bind_eq_ok h
    obtain ⟨tb, htb, h⟩ := Out.bind_eq_ok h
    obtain ⟨⟨rdata, p'⟩, hrd, h⟩ := Out.bind_eq_ok h
    dsimp only at h
    obtain ⟨t, l, ht, hl, hp', hple, hty⟩ := RData.parse_frame hrd
    have hwalk : Spec.walkRecord d off
        = some { off := off, nameEnd := q, type := t, cls := deN cb, ttl := deN tb, rdlen := l } := by
      unfold Spec.walkRecord
      rw [skipName_of_parse hname]
      simp only [Option.bind_eq_bind, Option.bind_some, ht,
        field_of_slice (show q + 4 = q + 2 + 2 by omega) hcb,
        field_of_slice (show q + 8 = q + 4 + 4 by omega) htb, hl]
      rw [if_pos (by omega)]; rfl
    refine ⟨_, hwalk, rfl, ?_, ?_⟩
    · split at h
      · cases h; simpa [Spec.REntry.next] using hp'
      · obtain ⟨cls, _, h⟩ := Out.bind_eq_ok h
        cases h; simpa [Spec.REntry.next] using hp'
    · split at h
      · rename_i hopt
        cases h
        exact ⟨name_sound hname, rfl, hty, fun hne => absurd hopt hne⟩
      · obtain ⟨cls, hcls, h⟩ := Out.bind_eq_ok h
        cases h
        exact ⟨name_sound hname, rfl, hty, fun _ => ⟨hcls, rfl⟩⟩

theorem Question.parse_frame {d : Bytes} {off : Nat} {q : Question} {p : Nat}
    (h : Question.parse d off = .ok (q, p)) :
    ∃ e, Spec.walkQuestion d off = some e ∧ e.off = off ∧ p = e.next ∧ QuOK d q e := by
  unfold Question.parse at h
  obtain ⟨⟨name, ne⟩, hname, h⟩ := Out.bind_eq_ok h
  dsimp only at h
  split at h
  · cases h
  · obtain ⟨tb, htb, h⟩ := Out.bind_eq_ok h
    obtain ⟨cb, hcb, h⟩ := Out.bind_eq_ok h
    obtain ⟨qt, hqt, h⟩ := Out.bind_eq_ok h
    obtain ⟨qc, hqc, h⟩ := Out.bind_eq_ok h
    cases h
    have hwalk : Spec.walkQuestion d off
        = some { off := off, nameEnd := ne, qtype := deN tb, qclass := deN cb } := by
      unfold Spec.walkQuestion
      rw [skipName_of_parse hname]
      simp only [Option.bind_eq_bind, Option.bind_some, field_of_slice rfl htb,
        field_of_slice (show ne + 4 = ne + 2 + 2 by omega) hcb]
      rfl
    exact ⟨_, hwalk, rfl, rfl, name_sound hname, hqt, hqc, rfl⟩

/-! ### 3. sections -/

/-- pointwise relation between two lists of the same length -/
inductive Corr {α β : Type} (R : α → β → Prop) : List α → List β → Prop where
  | nil : Corr R [] []
  | cons {a b as bs} : R a b → Corr R as bs → Corr R (a :: as) (b :: bs)

theorem Corr.length_eq {α β : Type} {R : α → β → Prop} {as : List α} {bs : List β}
    (h : Corr R as bs) : as.length = bs.length := by
  induction h with
  | nil => rfl
  | cons _ _ ih => simp [ih]

/-- `Corr` in index form -/
theorem Corr.get {α β : Type} {R : α → β → Prop} {as : List α} {bs : List β}
    (h : Corr R as bs) : ∀ i (ha : i < as.length) (hb : i < bs.length), R as[i] bs[i] := by
  induction h with
  | nil => intro i ha; simp at ha
  | cons hab _ ih =>
    intro i ha hb
    cases i with
    | zero => simpa using hab
    | succ i => simpa using ih i (by simpa using ha) (by simpa using hb)

theorem parseRRs_frame {d : Bytes} {n off : Nat} {rs : List RR} {p : Nat}
    (h : parseRRs d n off = .ok (rs, p)) :
    ∃ es, Spec.walkRecords d n off = some (es, p) ∧ rs.length = n ∧ es.length = n ∧
      Corr (RecOK d) rs es := by
  induction n generalizing off rs p with
  | zero =>
    simp only [parseRRs] at h
    cases h
    exact ⟨[], rfl, rfl, rfl, Corr.nil⟩
  | succ n ih =>
    simp only [parseRRs] at h
    obtain ⟨⟨r, q⟩, hr, h⟩ := Out.bind_eq_ok h
    dsimp only at h
    obtain ⟨⟨rs', q'⟩, hrs, h⟩ := Out.bind_eq_ok h
    cases h
    obtain ⟨e, he, _, hq, hok⟩ := RR.parse_frame hr
    subst hq
    obtain ⟨es, hes, hl1, hl2, hc⟩ := ih hrs
    refine ⟨e :: es, ?_, by simp [hl1], by simp [hl2], Corr.cons hok hc⟩
    simp [Spec.walkRecords, he, hes]

theorem parseQuestions_frame {d : Bytes} {n off : Nat} {qs : List Question} {p : Nat}
    (h : parseQuestions d n off = .ok (qs, p)) :
    ∃ es, Spec.walkQuestions d n off = some (es, p) ∧ qs.length = n ∧ es.length = n ∧
      Corr (QuOK d) qs es := by
  induction n generalizing off qs p with
  | zero =>
    simp only [parseQuestions] at h
    cases h
    exact ⟨[], rfl, rfl, rfl, Corr.nil⟩
  | succ n ih =>
    simp only [parseQuestions] at h
    obtain ⟨⟨r, q⟩, hr, h⟩ := Out.bind_eq_ok h
    dsimp only at h
    obtain ⟨⟨rs', q'⟩, hrs, h⟩ := Out.bind_eq_ok h
    cases h
    obtain ⟨e, he, _, hq, hok⟩ := Question.parse_frame hr
    subst hq
    obtain ⟨es, hes, hl1, hl2, hc⟩ := ih hrs
    refine ⟨e :: es, ?_, by simp [hl1], by simp [hl2], Corr.cons hok hc⟩
    simp [Spec.walkQuestions, he, hes]

end Framing
end Dns
