/-
Cost model for C01 ("time and peak heap are bounded by a modest linear function
of the input length"): helper definitions and lemmas. The theorems are stated in
Props/C01Cost.lean.
-/
import SimpleDnsModel.Lemmas.Name
import SimpleDnsModel.Lemmas.NoPanic
import SimpleDnsModel.Lemmas.Framing
namespace Dns

/-! ### 1. the name loop with an iteration counter -/

/-- `nameLoop` with a budget of loop iterations: the body is that of `nameLoop`, word for word;
every execution of the body consumes one unit of `fuel`; `none` = the budget ran out before the
loop finished, `some r` = the loop finished with result `r` after at most `fuel` iterations.

One iteration of the Rust loop does O(1) work: two bounds checks, one or two byte reads, a few
additions, and in the label case one `Vec::push` of a borrowed slice of at most 63 bytes (the
model copies the ≤ 63 bytes). -/
def nameLoopFuel : Nat → Bytes → NS → Option (Out (Name × Nat))
  | 0, _, _ => none
  | fuel+1, d, s =>
    if s.pos ≥ d.length ∨ s.pp ≥ d.length then some .err else
    if s.size ≥ 255 then some .err else
    match d[s.pp]? with
    | none => some .panic
    | some b =>
      if b = 0 then some (.ok (s.labels.reverse, s.pos + 1))
      else if b.toNat &&& 0xC0 = 0xC0 then
        let pos := if s.follow then s.pos else s.pos + 1
        if s.pp + 2 > d.length then some .err else
        match d[s.pp+1]? with
        | none => some .panic
        | some b2 =>
          let ptr := (b.toNat &&& 0x3F) * 256 + b2.toNat
          if ptr ≥ s.pp then some .err else
          nameLoopFuel fuel d { s with pos := pos, pp := ptr, follow := true }
      else
        let len := b.toNat
        if s.pp + 1 + len > d.length then some .err else
        if len > 63 then some .err else
        let lab := (d.drop (s.pp+1)).take len
        nameLoopFuel fuel d { pos := if s.follow then s.pos else s.pos + len + 1,
                              pp := s.pp + len + 1, follow := s.follow,
                              size := s.size + 1 + len, labels := lab :: s.labels }

namespace Cost

/-- The potential that bounds the remaining iterations: a label step adds the same `k ≥ 2` to
`pp` and to `size`, so it lowers `pp + 2 * (255 - size)` by `k`; a pointer step lowers `pp`; once
`size ≥ 255` the next iteration is the last. -/
theorem within_aux (d : Bytes) (s : NS) : ∀ fuel,
    ((255 ≤ s.size ∧ 1 ≤ fuel) ∨ s.pp + 2 * (255 - s.size) + 1 ≤ fuel) →
    nameLoopFuel fuel d s = some (nameLoop d s) := by
  fun_induction nameLoop d s
  all_goals intro fuel hf
  all_goals (cases fuel with
    | zero => omega
    | succ f => ?_)
  all_goals (simp only [nameLoopFuel]; simp [*])
  · rename_i ptr hge
    intro hlt
    simp only [ptr] at hge
    omega
  · rename_i ptr hlt ih
    simp only [ptr] at hlt
    rw [if_neg (by omega)]
    apply ih
    right
    simp only [ptr]
    omega
  · rename_i len hgt
    intro hle
    simp only [len] at hgt
    omega
  · rename_i len _ hgt
    intro _ hle
    simp only [len] at hgt
    omega
  · rename_i hnz _ len hfit h63 lab ih
    simp only [len] at hfit h63
    rw [if_neg (by omega), if_neg (by omega)]
    have hb1 : 1 ≤ len := UInt8.toNat_pos_of_ne_zero hnz
    simp only [len] at hb1
    simp only [len, lab] at ih ⊢
    apply ih
    omega

/-- The same with a budget that does not depend on where the name starts: a pointer holds a 14-bit
offset, so after the first jump `pp ≤ 0x3FFF`; before it there are only label steps. -/
theorem within_aux2 (d : Bytes) (s : NS) : ∀ fuel,
    ((255 ≤ s.size ∧ 1 ≤ fuel) ∨ 16383 + 2 * (255 - s.size) + 2 ≤ fuel) →
    nameLoopFuel fuel d s = some (nameLoop d s) := by
  fun_induction nameLoop d s
  all_goals intro fuel hf
  all_goals (cases fuel with
    | zero => omega
    | succ f => ?_)
  all_goals (simp only [nameLoopFuel]; simp [*])
  · rename_i ptr hge
    intro hlt
    simp only [ptr] at hge
    omega
  · rename_i b _ _ _ _ _ b2 _ ptr hlt ih
    simp only [ptr] at hlt
    rw [if_neg (by omega)]
    apply within_aux
    right
    have h1 : b.toNat &&& 63 ≤ 63 := Nat.and_le_right
    have h2 := b2.toNat_lt
    dsimp only
    omega
  · rename_i len hgt
    intro hle
    simp only [len] at hgt
    omega
  · rename_i len _ hgt
    intro _ hle
    simp only [len] at hgt
    omega
  · rename_i hnz _ len hfit h63 lab ih
    simp only [len] at hfit h63
    rw [if_neg (by omega), if_neg (by omega)]
    have hb1 : 1 ≤ len := UInt8.toNat_pos_of_ne_zero hnz
    simp only [len] at hb1
    simp only [len, lab] at ih ⊢
    apply ih
    omega

end Cost

/-! ### 2. what the parser allocates: definitions -/

/-- list items held by one decoded field: strings of a TXT, (key, value) triples of NSEC / SVCB -/
def Val.items : Val → Nat
  | .strs ss => ss.length
  | .tlvs xs => xs.length
  | _ => 0

/-- labels held by one decoded field -/
def Val.labels : Val → Nat
  | .name n => n.length
  | _ => 0

def Gateway.labels : Gateway → Nat
  | .domain n => n.length
  | _ => 0

/-- number of embedded names among the fields of a layout -/
def nameCount : List FKind → Nat
  | [] => 0
  | .name _ :: ks => nameCount ks + 1
  | _ :: ks => nameCount ks

/-- The number of list items inside an RDATA value: character-strings of a TXT, windows of an
NSEC, parameters of an SVCB/HTTPS, options of an OPT. Each is one `Vec::push` / `BTreeMap::insert`
in the Rust code. -/
def RData.itemCount : RData → Nat
  | .flat _ vs => (vs.map Val.items).sum
  | .opt o => o.codes.length
  | _ => 0

/-- The number of labels of the domain names embedded in an RDATA value. -/
def RData.nameLabels : RData → Nat
  | .flat _ vs => (vs.map Val.labels).sum
  | .ipseckey _ _ gw _ => gw.labels
  | _ => 0

/-- allocation units of one question: the entry itself and one per label of its name -/
def Question.units (q : Question) : Nat := 1 + q.name.length

/-- allocation units of one record: the entry itself, one per label of the owner name and of the
RDATA names, one per RDATA list item -/
def RR.units (r : RR) : Nat := 1 + r.name.length + r.rdata.nameLabels + r.rdata.itemCount

/-- allocation units of the EDNS data kept in the header -/
def OptData.units (o : OptData) : Nat := 1 + o.codes.length

def optUnits : Option OptData → Nat
  | some o => o.units
  | none => 0

def optItems : Option OptData → Nat
  | some o => o.codes.length
  | none => 0

/-- RDATA list items of a parsed message (TXT strings, NSEC windows, SVCB parameters, options of
OPT records left in a section and of the one moved into the header) -/
def Packet.itemCount (p : Packet) : Nat :=
  (p.answers.map (·.rdata.itemCount)).sum + (p.nameServers.map (·.rdata.itemCount)).sum +
  (p.additional.map (·.rdata.itemCount)).sum + optItems p.header.opt

/-- Allocation units of a parsed message: one per question and per record (an element pushed on a
section `Vec`), one per label of every name (an element pushed on a label `Vec`; the label bytes
themselves are borrowed from the message), one per TXT string / NSEC window / SVCB parameter / OPT
option. Byte payloads are borrowed (`Cow::Borrowed`) by the Rust parser and are not counted. -/
def allocUnits (p : Packet) : Nat :=
  (p.questions.map Question.units).sum + (p.answers.map RR.units).sum +
  (p.nameServers.map RR.units).sum + (p.additional.map RR.units).sum + optUnits p.header.opt

namespace Cost

/-! ### 3. names -/

theorem labels_wireLen (n : Name) (h : ∀ l ∈ n, 1 ≤ l.length) :
    2 * n.length + 1 ≤ Name.wireLen n ∧
    (n.map List.length).sum + n.length + 1 = Name.wireLen n := by
  induction n with
  | nil => simp [Name.wireLen]
  | cons l ls ih =>
    have h1 := h l (by simp)
    obtain ⟨a, b⟩ := ih (fun x hx => h x (by simp [hx]))
    simp only [List.length_cons, Name.wireLen, List.map_cons, List.sum_cons]
    omega

theorem name_bound {d : Bytes} {pos : Nat} {n : Name} {p : Nat}
    (h : Name.parse d pos = .ok (n, p)) :
    n.length ≤ 127 ∧ (n.map List.length).sum ≤ 253 := by
  obtain ⟨hl, hw⟩ := Name.parse_bounds h
  obtain ⟨a, b⟩ := labels_wireLen n (fun l hl' => (hl l hl').1)
  refine ⟨by omega, ?_⟩
  cases n with
  | nil => simp
  | cons l ls => simp only [List.length_cons] at a b; omega

/-! ### 4. the loops inside an RDATA: every item consumes at least one byte -/

theorem strsLoop_items {d : Bytes} {pos : Nat} {acc ss : List Bytes} {p : Nat}
    (h : strsLoop d pos acc = .ok (ss, p)) : pos ≤ p ∧ ss.length + pos ≤ acc.length + p := by
  induction hn : d.length - pos using Nat.strongRecOn generalizing pos acc with
  | _ n ih =>
    rw [strsLoop] at h
    split at h
    · split at h
      · rename_i s p' hcs
        have := CharStr.parse_advances hcs
        have := CharStr.parse_pos_le hcs
        have := ih (d.length - p') (by omega) h rfl
        simp only [List.length_cons] at this
        omega
      · cases h
      · cases h
    · cases h; simp

theorem tlvsLoop_items {d : Bytes} {kw lw : Nat} {strict : Bool} {pos : Nat}
    {acc xs : List (Nat × Bytes)} {p : Nat}
    (h : tlvsLoop d kw lw strict pos acc = .ok (xs, p)) :
    pos ≤ p ∧ xs.length + pos ≤ acc.length + p := by
  induction hn : d.length - pos using Nat.strongRecOn generalizing pos acc with
  | _ n ih =>
    rw [tlvsLoop] at h
    split at h
    · cases h
    · rename_i hk
      split at h
      · split at h
        · rename_i x p' hone
          have := tlvOne_advances (by omega) hone
          have := tlvOne_pos_le hone
          have := ih (d.length - p') (by omega) h rfl
          simp only [List.length_cons] at this
          omega
        · cases h
        · cases h
      · cases h; simp

theorem optLoop_items {d : Bytes} {pos : Nat} {acc xs : List (Nat × Bytes)} {p : Nat}
    (h : optLoop d pos acc = .ok (xs, p)) : pos ≤ p ∧ xs.length + pos ≤ acc.length + p := by
  induction hn : d.length - pos using Nat.strongRecOn generalizing pos acc with
  | _ n ih =>
    rw [optLoop] at h
    split at h
    · split at h
      · rename_i x p' hone
        have := tlvOne_advances (by omega) hone
        have := tlvOne_pos_le hone
        have := ih (d.length - p') (by omega) h rfl
        simp only [List.length_cons] at this
        omega
      · cases h
      · cases h
    · cases h; simp

/-! ### 5. the schema interpreter -/

theorem decField_cost {d : Bytes} {k : FKind} {pos : Nat} {v : Val} {p : Nat}
    (h : decField d k pos = .ok (v, p)) :
    pos ≤ p ∧ v.items + pos ≤ p ∧ v.labels ≤ 127 * nameCount [k] := by
  cases k with
  | int w =>
    simp only [decField] at h
    split at h
    · cases h
    · obtain ⟨s, _, h⟩ := Out.bind_eq_ok h
      cases h; simp [Val.items, Val.labels]
  | charstr =>
    simp only [decField] at h
    obtain ⟨⟨s, q⟩, hs, h⟩ := Out.bind_eq_ok h
    have := CharStr.parse_advances hs
    cases h; simp [Val.items, Val.labels]; omega
  | name c =>
    simp only [decField] at h
    obtain ⟨⟨s, q⟩, hs, h⟩ := Out.bind_eq_ok h
    have := (Name.parse_pos_le hs).1
    have := (name_bound hs).1
    cases h; simp [Val.items, Val.labels, nameCount]; omega
  | rest =>
    simp only [decField] at h
    obtain ⟨s, hs, h⟩ := Out.bind_eq_ok h
    have : pos ≤ d.length := by
      unfold slice at hs
      split at hs
      · omega
      · cases hs
    cases h; simp [Val.items, Val.labels]; omega
  | strs =>
    simp only [decField] at h
    obtain ⟨⟨s, q⟩, hs, h⟩ := Out.bind_eq_ok h
    have := strsLoop_items hs
    cases h; simp [Val.items, Val.labels] at this ⊢; omega
  | tlvs kw lw strict =>
    simp only [decField] at h
    obtain ⟨⟨s, q⟩, hs, h⟩ := Out.bind_eq_ok h
    have := tlvsLoop_items hs
    cases h; simp [Val.items, Val.labels] at this ⊢; omega

theorem nameCount_cons (k : FKind) (ks : List FKind) :
    nameCount (k :: ks) = nameCount [k] + nameCount ks := by
  cases k <;> simp [nameCount] <;> omega

theorem decAll_cost {d : Bytes} (ks : List FKind) : ∀ {pos : Nat} {vs : List Val} {p : Nat},
    decAll d ks pos = .ok (vs, p) →
    pos ≤ p ∧ (vs.map Val.items).sum + pos ≤ p ∧ (vs.map Val.labels).sum ≤ 127 * nameCount ks := by
  induction ks with
  | nil =>
    intro pos vs p h
    simp only [decAll] at h
    cases h; simp
  | cons k ks ih =>
    intro pos vs p h
    simp only [decAll] at h
    obtain ⟨⟨v, q⟩, hv, h⟩ := Out.bind_eq_ok h
    dsimp only at h
    obtain ⟨⟨vs', q'⟩, hvs, h⟩ := Out.bind_eq_ok h
    cases h
    obtain ⟨a1, a2, a3⟩ := decField_cost hv
    obtain ⟨b1, b2, b3⟩ := ih hvs
    rw [nameCount_cons]
    simp only [List.map_cons, List.sum_cons]
    omega

theorem decAll_end_le {d : Bytes} (ks : List FKind) : ∀ {pos : Nat} {vs : List Val} {p : Nat},
    pos ≤ d.length → decAll d ks pos = .ok (vs, p) → p ≤ d.length := by
  induction ks with
  | nil =>
    intro pos vs p hp h
    simp only [decAll] at h
    cases h; exact hp
  | cons k ks ih =>
    intro pos vs p hp h
    simp only [decAll] at h
    obtain ⟨⟨v, q⟩, hv, h⟩ := Out.bind_eq_ok h
    dsimp only at h
    obtain ⟨⟨vs', q'⟩, hvs, h⟩ := Out.bind_eq_ok h
    cases h
    exact ih (decField_pos_le hp hv) hvs

/-- no layout has more than two embedded names (SOA, MINFO, RP have two) -/
theorem schemaOf_nameCount {code : Nat} {ks : List FKind} (h : schemaOf code = some ks) :
    nameCount ks ≤ 2 := by
  unfold schemaOf at h
  split at h <;> first | (cases h; decide) | cases h

/-! ### 6. one RDATA -/

theorem ipseckey_cost {d : Bytes} {pos : Nat} {rd : RData} {p : Nat}
    (h : ipseckeyParse d pos = .ok (rd, p)) : rd.itemCount = 0 ∧ rd.nameLabels ≤ 127 := by
  unfold ipseckeyParse at h
  split at h
  · cases h
  · obtain ⟨prec, _, h⟩ := Out.bind_eq_ok h
    obtain ⟨gt, _, h⟩ := Out.bind_eq_ok h
    obtain ⟨alg, _, h⟩ := Out.bind_eq_ok h
    dsimp only at h
    obtain ⟨⟨gw, q⟩, hg, h⟩ := Out.bind_eq_ok h
    obtain ⟨key, _, h⟩ := Out.bind_eq_ok h
    cases h
    refine ⟨rfl, ?_⟩
    simp only [RData.nameLabels]
    split at hg
    · cases hg; simp [Gateway.labels]
    · split at hg
      · cases hg
      · obtain ⟨s, _, hg⟩ := Out.bind_eq_ok hg
        cases hg; simp [Gateway.labels]
    · split at hg
      · cases hg
      · obtain ⟨s, _, hg⟩ := Out.bind_eq_ok hg
        cases hg; simp [Gateway.labels]
    · obtain ⟨⟨n, q'⟩, hn, hg⟩ := Out.bind_eq_ok hg
      cases hg
      exact (name_bound hn).1
    · cases hg

theorem optParse_cost {d : Bytes} {pos : Nat} {rd : RData} {p : Nat}
    (h : optParse d pos = .ok (rd, p)) :
    rd.itemCount + pos + 10 ≤ d.length ∧ rd.nameLabels = 0 := by
  unfold optParse at h
  split at h
  · cases h
  · obtain ⟨ub, _, h⟩ := Out.bind_eq_ok h
    obtain ⟨tb, _, h⟩ := Out.bind_eq_ok h
    dsimp only at h
    obtain ⟨⟨codes, q⟩, hl, h⟩ := Out.bind_eq_ok h
    cases h
    have h1 := optLoop_items hl
    have h2 := optLoop_pos_le (by omega) hl
    simp only [List.length_nil] at h1
    refine ⟨?_, rfl⟩
    show codes.length + pos + 10 ≤ d.length
    omega

theorem parseTyped_cost {d : Bytes} {pos : Nat} {t : TYPE} {rd : RData} {p : Nat}
    (hp : pos ≤ d.length) (h : parseTyped d pos t = .ok (rd, p)) :
    rd.itemCount + pos ≤ d.length ∧ rd.nameLabels ≤ 254 := by
  unfold parseTyped at h
  split at h
  · obtain ⟨a, b⟩ := ipseckey_cost h
    omega
  · obtain ⟨s, _, h⟩ := Out.bind_eq_ok h
    split at h
    · cases h
    · cases h; simp [RData.itemCount, RData.nameLabels]; omega
  · obtain ⟨s, _, h⟩ := Out.bind_eq_ok h
    split at h
    · cases h
    · cases h; simp [RData.itemCount, RData.nameLabels]; omega
  · cases h
  · split at h
    · cases h
    · rename_i ks hs
      obtain ⟨⟨vs, q⟩, hd, h⟩ := Out.bind_eq_ok h
      dsimp only at h
      split at h
      · cases h
        obtain ⟨a1, a2, a3⟩ := decAll_cost ks hd
        have := decAll_end_le ks hp hd
        have := schemaOf_nameCount hs
        simp only [RData.itemCount, RData.nameLabels]
        omega
      · cases h

/-- An RDATA holds at most RDLENGTH list items and at most 254 labels of embedded names. -/
theorem rdata_cost {d : Bytes} {pos : Nat} {rd : RData} {p : Nat}
    (h : RData.parse d pos = .ok (rd, p)) :
    rd.itemCount + pos + 10 ≤ p ∧ p ≤ d.length ∧ rd.nameLabels ≤ 254 := by
  obtain ⟨_, l, _, _, hpl, hple, _⟩ := Framing.RData.parse_frame h
  refine ⟨?_, hple, ?_⟩
  all_goals
    unfold RData.parse at h
    split at h
    · cases h
    · obtain ⟨tb, _, h⟩ := Out.bind_eq_ok h
      dsimp only at h
      obtain ⟨lb, _, h⟩ := Out.bind_eq_ok h
      split at h
      · cases h
      · rename_i hfit
        split at h
        · obtain ⟨a, b⟩ := optParse_cost h
          have hp := Framing.optParse_end h
          rw [List.length_take] at a hp
          omega
        · split at h
          · cases h; simp [RData.itemCount, RData.nameLabels]
          · obtain ⟨⟨rd', q⟩, hpt, h⟩ := Out.bind_eq_ok h
            cases h
            obtain ⟨a, b⟩ := parseTyped_cost (by rw [List.length_take]; omega) hpt
            rw [List.length_take] at a
            dsimp only
            omega

/-! ### 7. one question, one record, a section -/

theorem question_cost {d : Bytes} {pos : Nat} {q : Question} {p : Nat}
    (h : Question.parse d pos = .ok (q, p)) :
    pos + 5 ≤ p ∧ p ≤ d.length ∧ q.units ≤ 128 := by
  unfold Question.parse at h
  obtain ⟨⟨name, ne⟩, hname, h⟩ := Out.bind_eq_ok h
  dsimp only at h
  split at h
  · cases h
  · obtain ⟨tb, _, h⟩ := Out.bind_eq_ok h
    obtain ⟨cb, _, h⟩ := Out.bind_eq_ok h
    obtain ⟨qt, _, h⟩ := Out.bind_eq_ok h
    obtain ⟨qc, _, h⟩ := Out.bind_eq_ok h
    cases h
    have := (Name.parse_pos_le hname).1
    have := (name_bound hname).1
    simp only [Question.units]
    omega

/-- A record occupies at least 11 bytes; its allocation units are at most 382 + RDLENGTH while it
occupies at least 11 + RDLENGTH bytes. -/
theorem rr_cost {d : Bytes} {pos : Nat} {r : RR} {p : Nat}
    (h : RR.parse d pos = .ok (r, p)) :
    pos + 11 ≤ p ∧ p ≤ d.length ∧ r.units + pos ≤ p + 371 ∧
    r.rdata.itemCount + pos + 11 ≤ p := by
  unfold RR.parse at h
  obtain ⟨⟨name, q⟩, hname, h⟩ := Out.bind_eq_ok h
  dsimp only at h
  split at h
  · cases h
  · obtain ⟨cb, _, h⟩ := Out.bind_eq_ok h
    obtain ⟨tb, _, h⟩ := Out.bind_eq_ok h
    obtain ⟨⟨rdata, p'⟩, hrd, h⟩ := Out.bind_eq_ok h
    dsimp only at h
    have := (Name.parse_pos_le hname).1
    have := (name_bound hname).1
    obtain ⟨a, b, c⟩ := rdata_cost hrd
    split at h
    · cases h
      simp only [RR.units]
      omega
    · obtain ⟨cls, _, h⟩ := Out.bind_eq_ok h
      cases h
      simp only [RR.units]
      omega

theorem parseQuestions_cost {d : Bytes} {n pos : Nat} {qs : List Question} {p : Nat}
    (hp : pos ≤ d.length) (h : parseQuestions d n pos = .ok (qs, p)) :
    pos + 5 * qs.length ≤ p ∧ p ≤ d.length ∧
    (qs.map Question.units).sum + 35 * pos ≤ 35 * p := by
  induction n generalizing pos qs p with
  | zero =>
    simp only [parseQuestions] at h
    cases h
    simp; exact hp
  | succ n ih =>
    simp only [parseQuestions] at h
    obtain ⟨⟨q, p1⟩, hq, h⟩ := Out.bind_eq_ok h
    dsimp only at h
    obtain ⟨⟨qs', p2⟩, hqs, h⟩ := Out.bind_eq_ok h
    cases h
    obtain ⟨a1, a2, a3⟩ := question_cost hq
    obtain ⟨b1, b2, b3⟩ := ih a2 hqs
    simp only [List.length_cons, List.map_cons, List.sum_cons]
    omega

theorem parseRRs_cost {d : Bytes} {n pos : Nat} {rs : List RR} {p : Nat}
    (hp : pos ≤ d.length) (h : parseRRs d n pos = .ok (rs, p)) :
    pos + 11 * rs.length + (rs.map (·.rdata.itemCount)).sum ≤ p ∧ p ≤ d.length ∧
    (rs.map RR.units).sum + 35 * pos ≤ 35 * p := by
  induction n generalizing pos rs p with
  | zero =>
    simp only [parseRRs] at h
    cases h
    simp; exact hp
  | succ n ih =>
    simp only [parseRRs] at h
    obtain ⟨⟨r, p1⟩, hr, h⟩ := Out.bind_eq_ok h
    dsimp only at h
    obtain ⟨⟨rs', p2⟩, hrs, h⟩ := Out.bind_eq_ok h
    cases h
    obtain ⟨a1, a2, a3, a4⟩ := rr_cost hr
    obtain ⟨b1, b2, b3⟩ := ih a2 hrs
    simp only [List.length_cons, List.map_cons, List.sum_cons]
    omega

/-! ### 8. the OPT record moved into the header -/

theorem liftOpt_cost (f : RR → Nat) (l : List RR) :
    (liftOpt l).2.length + (if (liftOpt l).1.isSome then 1 else 0) = l.length ∧
    ((liftOpt l).2.map f).sum + ((liftOpt l).1.map f).getD 0 = (l.map f).sum := by
  induction l with
  | nil => simp [liftOpt]
  | cons x xs ih =>
    obtain ⟨i1, i2⟩ := ih
    simp only [liftOpt]
    split
    · simp; omega
    · cases hl : liftOpt xs with
      | mk o rest =>
        rw [hl] at i1 i2
        simp only [List.length_cons, List.map_cons, List.sum_cons] at i1 i2 ⊢
        omega

theorem extractOpt_cost {h0 h : Header} {o : Option RR} (h0n : h0.opt = none)
    (hh : h0.extractOpt o = .ok h) :
    h.opt.isSome = o.isSome ∧ optUnits h.opt ≤ (o.map RR.units).getD 0 ∧
    optItems h.opt ≤ (o.map (·.rdata.itemCount)).getD 0 := by
  cases o with
  | none =>
    simp only [Header.extractOpt] at hh
    cases hh
    simp [h0n, optUnits, optItems]
  | some r =>
    simp only [Header.extractOpt] at hh
    split at hh
    · rename_i x hx
      cases hh
      simp [RR.units, OptData.units, hx, RData.itemCount, optUnits, optItems]
      omega
    · cases hh

theorem header_opt_none {d : Bytes} {h : Header} (hh : Header.parse d = .ok h) :
    h.opt = none ∧ 12 ≤ d.length := by
  unfold Header.parse at hh
  split at hh
  · cases hh
  · obtain ⟨fb, _, hh⟩ := Out.bind_eq_ok hh
    dsimp only at hh
    split at hh
    · cases hh
    · obtain ⟨ib, _, hh⟩ := Out.bind_eq_ok hh
      cases hh
      exact ⟨rfl, by omega⟩

/-! ### 9. the message -/

theorem packet_cost {d : Bytes} {p : Packet} (h : Packet.parse d = .ok p) :
    5 * p.questions.length + 11 * (p.answers.length + p.nameServers.length +
      p.additional.length + (if p.header.opt.isSome then 1 else 0)) + p.itemCount + 12
      ≤ d.length ∧
    allocUnits p + 420 ≤ 35 * d.length := by
  unfold Packet.parse at h
  obtain ⟨h0, hh0, h⟩ := Out.bind_eq_ok h
  obtain ⟨qd, hqd, h⟩ := Out.bind_eq_ok h
  obtain ⟨⟨qs, p1⟩, hqs, h⟩ := Out.bind_eq_ok h
  dsimp only at h
  obtain ⟨an, han, h⟩ := Out.bind_eq_ok h
  obtain ⟨⟨as, p2⟩, has, h⟩ := Out.bind_eq_ok h
  dsimp only at h
  obtain ⟨ns, hns, h⟩ := Out.bind_eq_ok h
  obtain ⟨⟨nss, p3⟩, hnss, h⟩ := Out.bind_eq_ok h
  dsimp only at h
  obtain ⟨ar, har, h⟩ := Out.bind_eq_ok h
  obtain ⟨⟨all, p4⟩, hall, h⟩ := Out.bind_eq_ok h
  dsimp only at h
  obtain ⟨h1, hh1, h⟩ := Out.bind_eq_ok h
  cases h
  obtain ⟨hnone, hlen⟩ := header_opt_none hh0
  obtain ⟨q1, q2, q3⟩ := parseQuestions_cost hlen hqs
  obtain ⟨a1, a2, a3⟩ := parseRRs_cost q2 has
  obtain ⟨n1, n2, n3⟩ := parseRRs_cost a2 hnss
  obtain ⟨r1, r2, r3⟩ := parseRRs_cost n2 hall
  obtain ⟨l1, l2⟩ := liftOpt_cost RR.units all
  obtain ⟨_, l3⟩ := liftOpt_cost (·.rdata.itemCount) all
  obtain ⟨e1, e2, e3⟩ := extractOpt_cost hnone hh1
  dsimp only [allocUnits, Packet.itemCount]
  rw [e1]
  omega

/-! ### 10. the same count on the reference walker of Spec/Envelope.lean -/

theorem skipName_gt {d : Bytes} : ∀ (fuel off : Nat) {e : Nat},
    Spec.skipName d fuel off = some e → off < e := by
  intro fuel
  induction fuel with
  | zero => intro off e h; simp [Spec.skipName] at h
  | succ f ih =>
    intro off e h
    simp only [Spec.skipName] at h
    split at h
    · cases h
    · split at h
      · cases h; omega
      · split at h
        · split at h
          · cases h; omega
          · cases h
        · split at h
          · cases h
          · have := ih _ h
            omega

theorem walkQuestion_adv {d : Bytes} {off : Nat} {e : Spec.QEntry}
    (h : Spec.walkQuestion d off = some e) : off + 5 ≤ e.next ∧ e.next ≤ d.length := by
  simp only [Spec.walkQuestion, Option.bind_eq_bind, Option.bind_eq_some_iff] at h
  obtain ⟨ne, hne, t, _, c, hc, h⟩ := h
  simp only [Option.pure_def, Option.some.injEq] at h
  subst h
  have := skipName_gt _ _ hne
  have := Framing.field_le hc
  simp only [Spec.QEntry.next]
  omega

theorem walkRecord_adv {d : Bytes} {off : Nat} {e : Spec.REntry}
    (h : Spec.walkRecord d off = some e) : off + 11 + e.rdlen ≤ e.next ∧ e.next ≤ d.length := by
  simp only [Spec.walkRecord, Option.bind_eq_bind, Option.bind_eq_some_iff] at h
  obtain ⟨ne, hne, t, _, c, _, ttl, _, l, _, h⟩ := h
  split at h
  · simp only [Option.pure_def, Option.some.injEq] at h
    subst h
    have := skipName_gt _ _ hne
    simp only [Spec.REntry.next]
    omega
  · cases h

theorem walkQuestions_adv {d : Bytes} {n off : Nat} {es : List Spec.QEntry} {p : Nat}
    (hp : off ≤ d.length) (h : Spec.walkQuestions d n off = some (es, p)) :
    off + 5 * es.length ≤ p ∧ p ≤ d.length := by
  induction n generalizing off es p with
  | zero =>
    simp only [Spec.walkQuestions, Option.some.injEq, Prod.mk.injEq] at h
    obtain ⟨rfl, rfl⟩ := h
    simp; exact hp
  | succ n ih =>
    simp only [Spec.walkQuestions, Option.bind_eq_bind, Option.bind_eq_some_iff] at h
    obtain ⟨e, he, ⟨es', p'⟩, hes, h⟩ := h
    simp only [Option.pure_def, Option.some.injEq, Prod.mk.injEq] at h
    obtain ⟨rfl, rfl⟩ := h
    obtain ⟨a1, a2⟩ := walkQuestion_adv he
    obtain ⟨b1, b2⟩ := ih a2 hes
    simp only [List.length_cons]
    omega

theorem walkRecords_adv {d : Bytes} {n off : Nat} {es : List Spec.REntry} {p : Nat}
    (hp : off ≤ d.length) (h : Spec.walkRecords d n off = some (es, p)) :
    off + 11 * es.length + (es.map (·.rdlen)).sum ≤ p ∧ p ≤ d.length := by
  induction n generalizing off es p with
  | zero =>
    simp only [Spec.walkRecords, Option.some.injEq, Prod.mk.injEq] at h
    obtain ⟨rfl, rfl⟩ := h
    simp; exact hp
  | succ n ih =>
    simp only [Spec.walkRecords, Option.bind_eq_bind, Option.bind_eq_some_iff] at h
    obtain ⟨e, he, ⟨es', p'⟩, hes, h⟩ := h
    simp only [Option.pure_def, Option.some.injEq, Prod.mk.injEq] at h
    obtain ⟨rfl, rfl⟩ := h
    obtain ⟨a1, a2⟩ := walkRecord_adv he
    obtain ⟨b1, b2⟩ := ih a2 hes
    simp only [List.length_cons, List.map_cons, List.sum_cons]
    omega

theorem walk_cost {d : Bytes} {w : Spec.Walk} (h : Spec.walk d = some w) :
    12 + 5 * w.questions.length +
      11 * (w.answers.length + w.nameServers.length + w.additional.length) +
      ((w.answers.map (·.rdlen)).sum + (w.nameServers.map (·.rdlen)).sum +
        (w.additional.map (·.rdlen)).sum) ≤ w.stop ∧ w.stop ≤ d.length := by
  unfold Spec.walk at h
  simp only [Option.bind_eq_bind, Option.bind_eq_some_iff] at h
  obtain ⟨qd, _, an, _, ns, _, ar, har, ⟨qs, p1⟩, hqs, ⟨a, p2⟩, ha, ⟨n, p3⟩, hn,
    ⟨r, p4⟩, hr, h⟩ := h
  simp only [Option.pure_def, Option.some.injEq] at h
  subst h
  have := Framing.field_le har
  obtain ⟨q1, q2⟩ := walkQuestions_adv (by omega) hqs
  obtain ⟨a1, a2⟩ := walkRecords_adv q2 ha
  obtain ⟨n1, n2⟩ := walkRecords_adv a2 hn
  obtain ⟨r1, r2⟩ := walkRecords_adv n2 hr
  dsimp only
  omega

end Cost
end Dns
