/-
Round trip, part B: the fields of the schema interpreter. For each field kind,
the decoder applied to the written bytes (embedded after an arbitrary prefix and,
for the kinds that do not run to the end of the RDATA, before an arbitrary
suffix) returns the value and stops exactly after them.
-/
import SimpleDnsModel.Lemmas.RoundTripA
namespace Dns

/-! ### character-strings -/

theorem CharStr.write_length (s : Bytes) : (CharStr.write s).length = s.length + 1 := by
  simp [CharStr.write]

theorem CharStr.parse_frame (pre s post : Bytes) (hs : s.length ≤ 255) :
    CharStr.parse (pre ++ (CharStr.write s ++ post)) pre.length
      = .ok (s, pre.length + (s.length + 1)) := by
  have hlb : (UInt8.ofNat s.length).toNat = s.length := by
    simp [UInt8.toNat_ofNat']; omega
  unfold CharStr.parse
  rw [if_neg (by simp [CharStr.write])]
  rw [idx_at (b := UInt8.ofNat s.length) (a := pre) (z := s ++ post) (by simp [CharStr.write]) rfl]
  simp only [Out.bind_ok, hlb]
  rw [if_neg (by simp [CharStr.write]; omega)]
  rw [slice_at (a := pre ++ [UInt8.ofNat s.length]) (m := s) (z := post)
    (by simp [CharStr.write]) (by simp) (by simp)]
  simp only [Out.bind_ok, Out.pure_eq]
  congr 2

theorem strsLoop_frame (ss : List Bytes) : ∀ (pre : Bytes) (acc : List Bytes),
    (∀ s ∈ ss, s.length ≤ 255) →
    strsLoop (pre ++ encStrs ss) pre.length acc
      = .ok (acc.reverse ++ ss, pre.length + (encStrs ss).length) := by
  induction ss with
  | nil =>
    intro pre acc _
    rw [strsLoop]
    simp [encStrs]
  | cons s ss ih =>
    intro pre acc hs
    have h1 := CharStr.parse_frame pre s (encStrs ss) (hs s (by simp))
    have h2 := ih (pre ++ CharStr.write s) (s :: acc) (fun x hx => hs x (by simp [hx]))
    simp only [encStrs]
    rw [strsLoop]
    rw [dif_pos (by simp [CharStr.write])]
    split
    · rename_i s' p' hcs
      rw [h1] at hcs
      cases hcs
      have e : pre ++ (CharStr.write s ++ encStrs ss) = (pre ++ CharStr.write s) ++ encStrs ss := by
        simp
      have e2 : pre.length + (s.length + 1) = (pre ++ CharStr.write s).length := by
        simp [CharStr.write]
      rw [e, e2, h2]
      simp [CharStr.write]; omega
    · rename_i hcs; rw [h1] at hcs; cases hcs
    · rename_i hcs; rw [h1] at hcs; cases hcs

/-! ### (key, length, value) triples -/

theorem tlvOne_frame (pre : Bytes) (kw lw k : Nat) (v post : Bytes) (strict : Bool)
    (prev : Option Nat) (hk : k < 256 ^ kw) (hv : v.length < 256 ^ lw)
    (hord : (strict && keyNotAfter prev k) = false) :
    tlvOne (pre ++ (beN kw k ++ (beN lw v.length ++ (v ++ post)))) kw lw strict prev pre.length
      = .ok ((k, v), pre.length + kw + lw + v.length) := by
  unfold tlvOne
  rw [if_neg (by simp; omega)]
  rw [slice_at (a := pre) (m := beN kw k) (z := beN lw v.length ++ (v ++ post)) rfl rfl (by simp)]
  simp only [Out.bind_ok]
  rw [slice_at (a := pre ++ beN kw k) (m := beN lw v.length) (z := v ++ post) (by simp) (by simp)
    (by simp)]
  simp only [Out.bind_ok, deN_beN kw k hk, deN_beN lw v.length hv, hord]
  rw [if_neg (by simp)]
  rw [if_neg (by simp; omega)]
  rw [slice_at (a := pre ++ (beN kw k ++ beN lw v.length)) (m := v) (z := post) (by simp)
    (by simp; omega) (by simp; omega)]
  simp

theorem encTlvs_length (kw lw : Nat) (xs : List (Nat × Bytes)) :
    (encTlvs kw lw xs).length = (xs.map (fun x => x.2.length + kw + lw)).sum := by
  induction xs with
  | nil => rfl
  | cons x xs ih => obtain ⟨k, v⟩ := x; simp [encTlvs, ih]; omega

/-- the ordering premise of the strict loop: the keys still to be read increase, starting above
the key read last -/
def KeysAfter (acc xs : List (Nat × Bytes)) : Prop :=
  KeysIncreasing xs ∧ ∀ a ∈ acc.head?, ∀ x ∈ xs.head?, a.1 < x.1

theorem tlvsLoop_frame (kw lw : Nat) (strict : Bool) (hkl : 0 < kw + lw)
    (xs : List (Nat × Bytes)) : ∀ (pre : Bytes) (acc : List (Nat × Bytes)),
    (∀ x ∈ xs, x.1 < 256 ^ kw ∧ x.2.length < 256 ^ lw) →
    (strict = true → KeysAfter acc xs) →
    tlvsLoop (pre ++ encTlvs kw lw xs) kw lw strict pre.length acc
      = .ok (acc.reverse ++ xs, pre.length + (encTlvs kw lw xs).length) := by
  induction xs with
  | nil =>
    intro pre acc _ _
    rw [tlvsLoop]
    rw [dif_neg (by omega)]
    simp [encTlvs]
  | cons x xs ih =>
    intro pre acc hx hord
    obtain ⟨k, v⟩ := x
    have hkv := hx (k, v) (by simp)
    simp only at hkv
    have hord1 : (strict && keyNotAfter (acc.head?.map (·.1)) k) = false := by
      cases strict
      · rfl
      · obtain ⟨_, h2⟩ := hord rfl
        cases hacc : acc.head? with
        | none => simp [keyNotAfter]
        | some a =>
          have := h2 a (by simp [hacc]) (k, v) (by simp)
          simp [keyNotAfter]; omega
    have h1 := tlvOne_frame pre kw lw k v (encTlvs kw lw xs) strict (acc.head?.map (·.1))
      hkv.1 hkv.2 hord1
    have h2 := ih (pre ++ (beN kw k ++ (beN lw v.length ++ v))) ((k, v) :: acc)
      (fun y hy => hx y (by simp [hy]))
      (by
        intro hs
        obtain ⟨hinc, _⟩ := hord hs
        cases xs with
        | nil => exact ⟨trivial, by simp⟩
        | cons y ys =>
          simp only [KeysIncreasing] at hinc
          exact ⟨hinc.2, by simpa using hinc.1⟩)
    simp only [encTlvs]
    rw [tlvsLoop]
    rw [dif_neg (by omega)]
    rw [dif_pos (by
      have : 0 < (beN kw k ++ (beN lw v.length ++ (v ++ encTlvs kw lw xs))).length := by
        simp; omega
      simp only [List.length_append] at this ⊢; omega)]
    split
    · rename_i x' p' hone
      rw [h1] at hone
      cases hone
      have e : pre ++ (beN kw k ++ (beN lw v.length ++ (v ++ encTlvs kw lw xs)))
          = (pre ++ (beN kw k ++ (beN lw v.length ++ v))) ++ encTlvs kw lw xs := by simp
      have e2 : pre.length + kw + lw + v.length
          = (pre ++ (beN kw k ++ (beN lw v.length ++ v))).length := by simp; omega
      rw [e, e2, h2]
      simp; omega
    · rename_i hone; rw [h1] at hone; cases hone
    · rename_i hone; rw [h1] at hone; cases hone

theorem optLoop_frame (xs : List (Nat × Bytes)) : ∀ (pre : Bytes) (acc : List (Nat × Bytes)),
    (∀ x ∈ xs, x.1 < 65536 ∧ x.2.length < 65536) →
    optLoop (pre ++ encTlvs 2 2 xs) pre.length acc
      = .ok (acc.reverse ++ xs, pre.length + (encTlvs 2 2 xs).length) := by
  induction xs with
  | nil =>
    intro pre acc _
    rw [optLoop]
    simp [encTlvs]
  | cons x xs ih =>
    intro pre acc hx
    obtain ⟨k, v⟩ := x
    have hkv := hx (k, v) (by simp)
    simp only at hkv
    have h1 := tlvOne_frame pre 2 2 k v (encTlvs 2 2 xs) false none hkv.1 hkv.2 rfl
    have h2 := ih (pre ++ (beN 2 k ++ (beN 2 v.length ++ v))) ((k, v) :: acc)
      (fun y hy => hx y (by simp [hy]))
    simp only [encTlvs]
    rw [optLoop]
    rw [dif_pos (by simp; omega)]
    split
    · rename_i x' p' hone
      rw [h1] at hone
      cases hone
      have e : pre ++ (beN 2 k ++ (beN 2 v.length ++ (v ++ encTlvs 2 2 xs)))
          = (pre ++ (beN 2 k ++ (beN 2 v.length ++ v))) ++ encTlvs 2 2 xs := by simp
      have e2 : pre.length + 2 + 2 + v.length
          = (pre ++ (beN 2 k ++ (beN 2 v.length ++ v))).length := by simp; omega
      rw [e, e2, h2]
      simp; omega
    · rename_i hone; rw [h1] at hone; cases hone
    · rename_i hone; rw [h1] at hone; cases hone

/-! ### sorting an increasing list -/

theorem sortByKey_of_increasing (xs : List (Nat × Bytes)) (h : KeysIncreasing xs) :
    sortByKey xs = xs := by
  induction xs with
  | nil => rfl
  | cons x xs ih =>
    cases xs with
    | nil => rfl
    | cons y ys =>
      simp only [KeysIncreasing] at h
      rw [sortByKey, ih h.2]
      simp [insertByKey, h.1]

end Dns
