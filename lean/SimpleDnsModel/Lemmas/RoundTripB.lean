/-
Round trip, part B: the fields of the schema interpreter. For each field kind,
the decoder applied to the written bytes (embedded after an arbitrary prefix and,
for the kinds that do not run to the end of the RDATA, before an arbitrary
suffix) returns the value and stops exactly after them.
-/
import SimpleDnsModel.Lemmas.RoundTripA
namespace Dns

/-! ### character-strings -/

theorem CharStr.write_length (s : Bytes) : (CharStr.write s).length = s.length + 1 := by
  simp [CharStr.write]

theorem CharStr.parse_frame (pre s post : Bytes) (hs : s.length ≤ 255) :
    CharStr.parse (pre ++ (CharStr.write s ++ post)) pre.length
      = .ok (s, pre.length + (s.length + 1)) := by
  have hlb : (UInt8.ofNat s.length).toNat = s.length := by
    simp [UInt8.toNat_ofNat']; omega
  unfold CharStr.parse
  rw [if_neg (by simp [CharStr.write])]
  rw [idx_at (b := UInt8.ofNat s.length) (a := pre) (z := s ++ post) (by simp [CharStr.write]) rfl]
  simp only [Out.bind_ok, hlb]
  rw [if_neg (by simp [CharStr.write]; omega)]
  rw [slice_at (a := pre ++ [UInt8.ofNat s.length]) (m := s) (z := post)
    (by simp [CharStr.write]) (by simp) (by simp)]
  simp only [Out.bind_ok, Out.pure_eq]
  congr 2

theorem strsLoop_frame (ss : List Bytes) : ∀ (pre : Bytes) (acc : List Bytes),
    (∀ s ∈ ss, s.length ≤ 255) →
    strsLoop (pre ++ encStrs ss) pre.length acc
      = .ok (acc.reverse ++ ss, pre.length + (encStrs ss).length) := by
  induction ss with
  | nil =>
    intro pre acc _
    rw [strsLoop]
    simp [encStrs]
  | cons s ss ih =>
    intro pre acc hs
    have h1 := CharStr.parse_frame pre s (encStrs ss) (hs s (by simp))
    have h2 := ih (pre ++ CharStr.write s) (s :: acc) (fun x hx => hs x (by simp [hx]))
    simp only [encStrs]
    rw [strsLoop]
    rw [dif_pos (by simp [CharStr.write])]
    split
    · rename_i s' p' hcs
      rw [h1] at hcs
      cases hcs
      have e : pre ++ (CharStr.write s ++ encStrs ss) = (pre ++ CharStr.write s) ++ encStrs ss := by
        simp
      have e2 : pre.length + (s.length + 1) = (pre ++ CharStr.write s).length := by
        simp [CharStr.write]
      rw [e, e2, h2]
      simp [CharStr.write]; omega
    · rename_i hcs; rw [h1] at hcs; cases hcs
    · rename_i hcs; rw [h1] at hcs; cases hcs

/-! ### (key, length, value) triples -/

theorem tlvOne_frame (pre : Bytes) (kw lw k : Nat) (v post : Bytes) (strict : Bool)
    (prev : Option Nat) (hk : k < 256 ^ kw) (hv : v.length < 256 ^ lw)
    (hord : (strict && keyNotAfter prev k) = false) :
    tlvOne (pre ++ (beN kw k ++ (beN lw v.length ++ (v ++ post)))) kw lw strict prev pre.length
      = .ok ((k, v), pre.length + kw + lw + v.length) := by
  unfold tlvOne
  rw [if_neg (by simp; omega)]
  rw [slice_at (a := pre) (m := beN kw k) (z := beN lw v.length ++ (v ++ post)) rfl rfl (by simp)]
  simp only [Out.bind_ok]
  rw [slice_at (a := pre ++ beN kw k) (m := beN lw v.length) (z := v ++ post) (by simp) (by simp)
    (by simp)]
  simp only [Out.bind_ok, deN_beN kw k hk, deN_beN lw v.length hv, hord]
  rw [if_neg (by simp)]
  rw [if_neg (by simp; omega)]
  rw [slice_at (a := pre ++ (beN kw k ++ beN lw v.length)) (m := v) (z := post) (by simp)
    (by simp; omega) (by simp; omega)]
  simp

theorem encTlvs_length (kw lw : Nat) (xs : List (Nat × Bytes)) :
    (encTlvs kw lw xs).length = (xs.map (fun x => x.2.length + kw + lw)).sum := by
  induction xs with
  | nil => rfl
  | cons x xs ih => obtain ⟨k, v⟩ := x; simp [encTlvs, ih]; omega

/-- the ordering premise of the strict loop: the keys still to be read increase, starting above
the key read last -/
def KeysAfter (acc xs : List (Nat × Bytes)) : Prop :=
  KeysIncreasing xs ∧ ∀ a ∈ acc.head?, ∀ x ∈ xs.head?, a.1 < x.1

theorem tlvsLoop_frame (kw lw : Nat) (strict : Bool) (hkl : 0 < kw + lw)
    (xs : List (Nat × Bytes)) : ∀ (pre : Bytes) (acc : List (Nat × Bytes)),
    (∀ x ∈ xs, x.1 < 256 ^ kw ∧ x.2.length < 256 ^ lw) →
    (strict = true → KeysAfter acc xs) →
    tlvsLoop (pre ++ encTlvs kw lw xs) kw lw strict pre.length acc
      = .ok (acc.reverse ++ xs, pre.length + (encTlvs kw lw xs).length) := by
  induction xs with
  | nil =>
    intro pre acc _ _
    rw [tlvsLoop]
    rw [dif_neg (by omega)]
    simp [encTlvs]
  | cons x xs ih =>
    intro pre acc hx hord
    obtain ⟨k, v⟩ := x
    have hkv := hx (k, v) (by simp)
    simp only at hkv
    have hord1 : (strict && keyNotAfter (acc.head?.map (·.1)) k) = false := by
      cases strict
      · rfl
      · obtain ⟨_, h2⟩ := hord rfl
        cases hacc : acc.head? with
        | none => simp [keyNotAfter]
        | some a =>
          have := h2 a (by simp [hacc]) (k, v) (by simp)
          simp [keyNotAfter]; omega
    have h1 := tlvOne_frame pre kw lw k v (encTlvs kw lw xs) strict (acc.head?.map (·.1))
      hkv.1 hkv.2 hord1
    have h2 := ih (pre ++ (beN kw k ++ (beN lw v.length ++ v))) ((k, v) :: acc)
      (fun y hy => hx y (by simp [hy]))
      (by
        intro hs
        obtain ⟨hinc, _⟩ := hord hs
        cases xs with
        | nil => exact ⟨trivial, by simp⟩
        | cons y ys =>
          simp only [KeysIncreasing] at hinc
          exact ⟨hinc.2, by simpa using hinc.1⟩)
    simp only [encTlvs]
    rw [tlvsLoop]
    rw [dif_neg (by omega)]
    rw [dif_pos (by
      have : 0 < (beN kw k ++ (beN lw v.length ++ (v ++ encTlvs kw lw xs))).length := by
        simp; omega
      simp only [List.length_append] at this ⊢; omega)]
    split
    · rename_i x' p' hone
      rw [h1] at hone
      cases hone
      have e : pre ++ (beN kw k ++ (beN lw v.length ++ (v ++ encTlvs kw lw xs)))
          = (pre ++ (beN kw k ++ (beN lw v.length ++ v))) ++ encTlvs kw lw xs := by simp
      have e2 : pre.length + kw + lw + v.length
          = (pre ++ (beN kw k ++ (beN lw v.length ++ v))).length := by simp; omega
      rw [e, e2, h2]
      simp; omega
    · rename_i hone; rw [h1] at hone; cases hone
    · rename_i hone; rw [h1] at hone; cases hone

theorem optLoop_frame (xs : List (Nat × Bytes)) : ∀ (pre : Bytes) (acc : List (Nat × Bytes)),
    (∀ x ∈ xs, x.1 < 65536 ∧ x.2.length < 65536) →
    optLoop (pre ++ encTlvs 2 2 xs) pre.length acc
      = .ok (acc.reverse ++ xs, pre.length + (encTlvs 2 2 xs).length) := by
  induction xs with
  | nil =>
    intro pre acc _
    rw [optLoop]
    simp [encTlvs]
  | cons x xs ih =>
    intro pre acc hx
    obtain ⟨k, v⟩ := x
    have hkv := hx (k, v) (by simp)
    simp only at hkv
    have h1 := tlvOne_frame pre 2 2 k v (encTlvs 2 2 xs) false none hkv.1 hkv.2 rfl
    have h2 := ih (pre ++ (beN 2 k ++ (beN 2 v.length ++ v))) ((k, v) :: acc)
      (fun y hy => hx y (by simp [hy]))
    simp only [encTlvs]
    rw [optLoop]
    rw [dif_pos (by simp; omega)]
    split
    · rename_i x' p' hone
      rw [h1] at hone
      cases hone
      have e : pre ++ (beN 2 k ++ (beN 2 v.length ++ (v ++ encTlvs 2 2 xs)))
          = (pre ++ (beN 2 k ++ (beN 2 v.length ++ v))) ++ encTlvs 2 2 xs := by simp
      have e2 : pre.length + 2 + 2 + v.length
          = (pre ++ (beN 2 k ++ (beN 2 v.length ++ v))).length := by simp; omega
      rw [e, e2, h2]
      simp; omega
    · rename_i hone; rw [h1] at hone; cases hone
    · rename_i hone; rw [h1] at hone; cases hone

/-! ### sorting an increasing list -/

theorem sortByKey_of_increasing (xs : List (Nat × Bytes)) (h : KeysIncreasing xs) :
    sortByKey xs = xs := by
  induction xs with
  | nil => rfl
  | cons x xs ih =>
    cases xs with
    | nil => rfl
    | cons y ys =>
      simp only [KeysIncreasing] at h
      rw [sortByKey, ih h.2]
      simp [insertByKey, Nat.le_of_lt h.1]

/-! ### one field -/

/-- kinds that read up to the end of the (cut) buffer -/
def FKind.isTail : FKind → Bool
  | .rest | .strs | .tlvs .. => true
  | _ => false

/-- the `tlvs` head is not empty (otherwise the loop could not advance) -/
def FKind.headOK : FKind → Bool
  | .tlvs kw lw _ => decide (0 < kw + lw)
  | _ => true

/-- kinds whose encoding of a fitting value has at least one byte -/
def FKind.minOne : FKind → Bool
  | .int w => decide (1 ≤ w)
  | .charstr | .name _ | .strs => true
  | _ => false

/-- a tail kind may only be the last field -/
def tailLast : List FKind → Bool
  | [] => true
  | [_] => true
  | k :: ks => !k.isTail && tailLast ks

theorem encStrs_length (ss : List Bytes) :
    (encStrs ss).length = (ss.map (·.length + 1)).sum := by
  induction ss with
  | nil => rfl
  | cons s ss ih => simp [encStrs, CharStr.write, ih]; omega

/-- `len()` of a field is the length of its plain encoding -/
theorem lenField_eq (k : FKind) (v : Val) (hv : FieldOK k v) :
    lenField k v = (encField k v).length := by
  cases k <;> cases v <;> simp only [FieldOK] at hv <;> simp only [lenField, encField]
  · simp
  · simp [CharStr.write]
  · rw [Name.write_length]
  · split
    · rfl
    · exact (encStrs_length _).symm
  · rename_i kw lw strict xs
    rw [encTlvs_length]
    cases strict
    · simp
    · simp [sortByKey_of_increasing xs (hv.2 rfl)]

theorem lenAll_eq (ks : List FKind) : ∀ (vs : List Val), AllOK ks vs →
    lenAll ks vs = (encAll ks vs).length := by
  induction ks with
  | nil => intro vs h; cases vs <;> simp [lenAll, encAll]
  | cons k ks ih =>
    intro vs h
    cases vs with
    | nil => simp [AllOK] at h
    | cons v vs =>
      simp only [AllOK] at h
      simp [lenAll, encAll, lenField_eq k v h.1, ih vs h.2]

/-- what a field writer guarantees (compare `NameSpec`) -/
structure FieldSpec (out : Bytes) (k : FKind) (v : Val) (b : Bytes) (t' : Table) : Prop where
  dec : ∀ post, (k.isTail = true → post = []) →
    decField (out ++ (b ++ post)) k out.length = .ok (v, out.length + b.length)
  inv : TInv (out ++ b) t'
  le : b.length ≤ (encField k v).length
  pos : k.minOne = true → 1 ≤ b.length

theorem encFieldG_false (k : FKind) (v : Val) (off : Nat) (t : Table) :
    encFieldG false k v off t = (encField k v, t) := by
  unfold encFieldG
  split
  · simp [nameG, encField]
  · rfl

theorem decField_name (d : Bytes) (b : Bool) (pos : Nat) :
    decField d (.name b) pos = (do
      let (n, p) ← Name.parse d pos
      pure (.name n, p)) := rfl

theorem NameSpec.toField {out : Bytes} {n : Name} {b : Bytes} {t' : Table} (cb : Bool)
    (h : NameSpec out n b t') (hn : Name.WF n) : FieldSpec out (.name cb) (.name n) b t' := by
  refine ⟨?_, h.inv, ?_, fun _ => h.pos⟩
  · intro post _
    rw [decField_name, h.parse hn.2 post]
    rfl
  · simp only [encField]; rw [Name.write_length]; exact h.le

theorem encFieldG_spec (c : Bool) (k : FKind) (v : Val) (off : Nat) (t : Table) (out : Bytes)
    (hv : FieldOK k v) (hk : k.headOK = true) (hlen : out.length = off) (hinv : TInv out t) :
    FieldSpec out k v (encFieldG c k v off t).1 (encFieldG c k v off t).2 := by
  cases k <;> cases v <;> simp only [FieldOK] at hv
  · -- int
    rename_i w n
    have e : encFieldG c (.int w) (.int n) off t = (beN w n, t) := rfl
    rw [e]
    refine ⟨?_, hinv.append _, Nat.le_refl _, ?_⟩
    · intro post _
      simp only [decField]
      rw [if_neg (by simp)]
      rw [slice_at (a := out) (m := beN w n) (z := post) rfl rfl (by simp)]
      simp [deN_beN w n hv]
    · simp [FKind.minOne]
  · -- charstr
    rename_i s
    have e : encFieldG c .charstr (.bytes s) off t = (CharStr.write s, t) := rfl
    rw [e]
    refine ⟨?_, hinv.append _, Nat.le_refl _, fun _ => by simp [CharStr.write]⟩
    intro post _
    simp only [decField]
    rw [CharStr.parse_frame out s post hv]
    simp [CharStr.write]
  · -- name
    rename_i cb n
    cases cb
    · have e : encFieldG c (.name false) (.name n) off t = (Name.write n, t) := rfl
      rw [e]
      have := nameG_spec false n off t out hv.labelsOK hlen hinv
      rw [nameG_false] at this
      exact this.toField false hv
    · have e : encFieldG c (.name true) (.name n) off t = nameG c n off t := rfl
      rw [e]
      exact (nameG_spec c n off t out hv.labelsOK hlen hinv).toField true hv
  · -- rest
    rename_i b
    have e : encFieldG c .rest (.bytes b) off t = (b, t) := rfl
    rw [e]
    refine ⟨?_, hinv.append _, Nat.le_refl _, fun h => by simp [FKind.minOne] at h⟩
    intro post hpost
    rw [hpost rfl]
    simp only [decField, List.append_nil]
    rw [slice_at (a := out) (m := b) (z := []) (by simp) rfl (by simp)]
    simp
  · -- strs
    rename_i ss
    have hne : ss.isEmpty = false := by cases ss <;> simp_all
    have e : encFieldG c .strs (.strs ss) off t = (encStrs ss, t) := by
      show (encField .strs (.strs ss), t) = _
      simp [encField, hne]
    rw [e]
    refine ⟨?_, hinv.append _, by simp [encField, hne], ?_⟩
    · intro post hpost
      rw [hpost rfl]
      simp only [decField, List.append_nil]
      rw [strsLoop_frame ss out [] hv.2]
      simp
    · intro _
      cases ss with
      | nil => simp at hne
      | cons s ss => simp [encStrs, CharStr.write]
  · -- tlvs
    rename_i kw lw strict xs
    have hsort : (if strict then sortByKey xs else xs) = xs := by
      cases strict
      · rfl
      · simp [sortByKey_of_increasing xs (hv.2 rfl)]
    have e : encFieldG c (.tlvs kw lw strict) (.tlvs xs) off t = (encTlvs kw lw xs, t) := by
      show (encField (.tlvs kw lw strict) (.tlvs xs), t) = _
      simp only [encField, hsort]
    rw [e]
    refine ⟨?_, hinv.append _, by simp only [encField, hsort]; exact Nat.le_refl _,
      fun h => by simp [FKind.minOne] at h⟩
    intro post hpost
    rw [hpost rfl]
    simp only [decField, List.append_nil]
    rw [tlvsLoop_frame kw lw strict (by simpa [FKind.headOK] using hk) xs out [] hv.1
      (fun hs => ⟨hv.2 hs, by simp⟩)]
    simp

/-! ### all fields of a schema -/

theorem encAllG_false (ks : List FKind) : ∀ (vs : List Val) (off : Nat) (t : Table),
    encAllG false ks vs off t = (encAll ks vs, t) := by
  induction ks with
  | nil => intro vs off t; cases vs <;> rfl
  | cons k ks ih =>
    intro vs off t
    cases vs with
    | nil => rfl
    | cons v vs => simp [encAllG, encAll, encFieldG_false, ih]

structure AllSpec (out : Bytes) (ks : List FKind) (vs : List Val) (b : Bytes) (t' : Table) :
    Prop where
  dec : decAll (out ++ b) ks out.length = .ok (vs, out.length + b.length)
  inv : TInv (out ++ b) t'
  le : b.length ≤ (encAll ks vs).length
  pos : ∀ k ks', ks = k :: ks' → k.minOne = true → 1 ≤ b.length

theorem encAllG_spec (c : Bool) (ks : List FKind) : ∀ (vs : List Val) (off : Nat) (t : Table)
    (out : Bytes), AllOK ks vs → tailLast ks = true → (∀ k ∈ ks, k.headOK = true) →
    out.length = off → TInv out t →
    AllSpec out ks vs (encAllG c ks vs off t).1 (encAllG c ks vs off t).2 := by
  induction ks with
  | nil =>
    intro vs off t out hok _ _ hlen hinv
    cases vs with
    | cons v vs => simp [AllOK] at hok
    | nil =>
      simp only [encAllG]
      exact ⟨by simp [decAll], hinv.append _, by simp, fun k ks' h => by cases h⟩
  | cons k ks ih =>
    intro vs off t out hok htl hhd hlen hinv
    cases vs with
    | nil => simp [AllOK] at hok
    | cons v vs =>
      simp only [AllOK] at hok
      have hf := encFieldG_spec c k v off t out hok.1 (hhd k (by simp)) hlen hinv
      simp only [encAllG]
      generalize encFieldG c k v off t = a at hf ⊢
      have htl' : tailLast ks = true := by
        cases ks with
        | nil => rfl
        | cons k2 ks2 => simp [tailLast] at htl; exact htl.2
      have hr := ih vs (off + a.1.length) a.2 (out ++ a.1) hok.2 htl'
        (fun k' hk' => hhd k' (by simp [hk'])) (by simp [hlen]) hf.inv
      generalize encAllG c ks vs (off + a.1.length) a.2 = r at hr ⊢
      have hdec : decField (out ++ (a.1 ++ r.1)) k out.length = .ok (v, out.length + a.1.length) := by
        apply hf.dec
        intro hkt
        cases ks with
        | cons k2 ks2 => simp [tailLast, hkt] at htl
        | nil =>
          cases vs with
          | nil => have := hr.le; simp [encAll] at this; exact this
          | cons v2 vs2 => simp [AllOK] at hok
      refine ⟨?_, ?_, ?_, ?_⟩
      · simp only [decAll]
        rw [hdec]
        simp only [Out.bind_ok]
        have e := hr.dec
        simp only [List.append_assoc, List.length_append] at e
        rw [e]
        simp [Nat.add_assoc]
      · have := hr.inv; simpa using this
      · have h1 := hf.le; have h2 := hr.le; simp [encAll]; omega
      · intro k' ks' hks hmin
        cases hks
        have := hf.pos hmin
        simp; omega

end Dns
