/-
Lemmas for C17 (textual name API): the label iterator computes the dot-separated
non-empty pieces, `Label::new` decides the label grammar, `Name::new` decides
`Spec.NameTextOK`, `Display` joins the labels with single dots, and the
suffix algebra (`is_subdomain_of`, `without`) and `is_link_local`.
-/
import SimpleDnsModel.Model.NameText
import SimpleDnsModel.Spec.LabelGrammar
namespace Dns

/-! ### `LabelsIter` is `splitOn '.'` with the empty pieces dropped -/

theorem splitLabelsAux_eq_filter (s cur : Bytes) :
    splitLabelsAux s cur =
      (List.splitOnPPrepend (· == (46 : UInt8)) s cur).filter (fun p => !p.isEmpty) := by
  induction s generalizing cur with
  | nil => cases cur <;> simp [splitLabelsAux]
  | cons b rest ih =>
    simp only [splitLabelsAux, List.splitOnPPrepend_cons_eq_if]
    by_cases hb : b = 46
    · subst hb; cases cur <;> simp [ih]
    · simp [hb, ih]

theorem splitLabels_spec (s : Bytes) : splitLabels s = Spec.pieces s := by
  simp [splitLabels, Spec.pieces, splitLabelsAux_eq_filter, List.splitOn_eq_splitOnP]

/-! ### byte classes -/

theorem isAlnum_iff (b : UInt8) : isAlnum b = true ↔ Spec.isLetter b ∨ Spec.isDigit b := by
  simp only [isAlnum, Spec.isLetter, Spec.isDigit, Bool.or_eq_true, Bool.and_eq_true,
    decide_eq_true_eq]
  omega

theorem beq_byte_iff (b c : UInt8) : (b == c) = true ↔ b.toNat = c.toNat := by
  simp [UInt8.toNat_inj]

theorem first_ok_iff (b : UInt8) :
    (isAlnum b || b == 95) = true ↔ Spec.isLetter b ∨ Spec.isDigit b ∨ Spec.isUnderscore b := by
  rw [Bool.or_eq_true, isAlnum_iff, beq_byte_iff]; simp only [Spec.isUnderscore]
  have : (95 : UInt8).toNat = 95 := rfl
  rw [this]; exact or_assoc

theorem mid_ok_iff (b : UInt8) :
    (isAlnum b || b == 45 || b == 95) = true ↔
      Spec.isLetter b ∨ Spec.isDigit b ∨ Spec.isHyphen b ∨ Spec.isUnderscore b := by
  rw [Bool.or_eq_true, Bool.or_eq_true, isAlnum_iff, beq_byte_iff, beq_byte_iff]
  simp only [Spec.isUnderscore, Spec.isHyphen]
  have h1 : (95 : UInt8).toNat = 95 := rfl
  have h2 : (45 : UInt8).toNat = 45 := rfl
  rw [h1, h2]
  constructor
  · rintro ((h | h) | h) <;> simp_all
    rcases h with h | h <;> simp [h]
  · rintro (h | h | h | h) <;> simp_all

/-! ### `Label::new` -/

/-- the three checks of `is_valid_label` on a non-empty label, positionally -/
theorem Label.isValid_cons_iff (a : UInt8) (t : Bytes) :
    Label.isValid (a :: t) = true ↔
      t.length + 1 ≤ 63 ∧ (isAlnum a || a == 95) = true ∧
      (∀ c ∈ t, (isAlnum c || c == 45 || c == 95) = true) ∧
      isAlnum ((a :: t).getLast (by simp)) = true := by
  simp only [Label.isValid, List.isEmpty_cons, Bool.false_or, List.length_cons, List.head?_cons,
    List.drop_succ_cons, List.drop_zero, List.getLast?_eq_some_getLast (l := a :: t) (by simp)]
  by_cases h : t.length + 1 > 63
  · simp [h]; omega
  · simp only [decide_eq_true_eq, h, if_false, Bool.and_eq_true, List.all_eq_true]
    constructor
    · rintro ⟨⟨h1, h2⟩, h3⟩; exact ⟨by omega, h1, h2, h3⟩
    · rintro ⟨_, h1, h2, h3⟩; exact ⟨⟨h1, h2⟩, h3⟩

theorem Label.isValid_iff (l : Bytes) : Label.isValid l = true ↔ Spec.LabelOK l := by
  cases l with
  | nil => simp [Label.isValid, Spec.LabelOK]
  | cons a t =>
    rw [Label.isValid_cons_iff]
    simp only [first_ok_iff, mid_ok_iff, isAlnum_iff, Spec.LabelOK, List.length_cons]
    constructor
    · rintro ⟨hlen, h1, h2, h3⟩
      refine ⟨by omega, hlen, fun i hi => ⟨?_, ?_, ?_⟩⟩
      · rintro rfl; simpa using h1
      · intro hpos
        obtain ⟨j, rfl⟩ : ∃ j, i = j + 1 := ⟨i - 1, by omega⟩
        simp only [List.getElem_cons_succ]
        exact h2 _ (List.getElem_mem _)
      · intro hlast
        have : (a :: t)[i] = (a :: t).getLast (by simp) := by
          rw [List.getLast_eq_getElem]; congr 1; simp; omega
        rw [this]; exact h3
    · rintro ⟨_, hlen, h⟩
      refine ⟨hlen, ?_, ?_, ?_⟩
      · simpa using (h 0 (by simp)).1 rfl
      · intro c hc
        obtain ⟨j, hj, rfl⟩ := List.mem_iff_getElem.1 hc
        have := (h (j + 1) (by simp; omega)).2.1 (by omega)
        simpa only [List.getElem_cons_succ] using this
      · rw [List.getLast_eq_getElem]
        exact (h _ (by simp)).2.2 (by simp)

theorem Label.new_ok_iff (l l' : Bytes) : Label.new l = .ok l' ↔ (Spec.LabelOK l ∧ l' = l) := by
  unfold Label.new
  by_cases h : Label.isValid l = true
  · simp [h, (Label.isValid_iff l).1 h, eq_comm]
  · have : ¬ Spec.LabelOK l := fun h' => h ((Label.isValid_iff l).2 h')
    simp [h, this]

theorem Label.new_ne_panic (l : Bytes) : Label.new l ≠ .panic := by
  unfold Label.new; split <;> simp

theorem Label.new_eq_err_iff (l : Bytes) : Label.new l = .err ↔ ¬ Spec.LabelOK l := by
  rw [← Label.isValid_iff]; unfold Label.new; split <;> simp_all

/-! ### `Name::new` -/

theorem labelsNew_ok_iff (ls ls' : List Bytes) :
    labelsNew ls = .ok ls' ↔ ((∀ l ∈ ls, Spec.LabelOK l) ∧ ls' = ls) := by
  induction ls generalizing ls' with
  | nil => simp [labelsNew, eq_comm]
  | cons l t ih =>
    simp only [labelsNew, List.mem_cons, forall_eq_or_imp]
    cases h : Label.new l with
    | ok a =>
      obtain ⟨hl, rfl⟩ := (Label.new_ok_iff l a).1 h
      cases h2 : labelsNew t with
      | ok b =>
        obtain ⟨ht, rfl⟩ := (ih b).1 h2
        simp only [Out.bind_ok, Out.pure_eq, Out.ok.injEq]
        exact ⟨fun e => ⟨⟨hl, ht⟩, e.symm⟩, fun e => e.2.symm⟩
      | err =>
        have : ¬ ∀ l ∈ t, Spec.LabelOK l := fun hh => by
          have := (ih t).2 ⟨hh, rfl⟩; rw [h2] at this; cases this
        simp [this]
      | panic =>
        have : ¬ ∀ l ∈ t, Spec.LabelOK l := fun hh => by
          have := (ih t).2 ⟨hh, rfl⟩; rw [h2] at this; cases this
        simp [this]
    | err => simp [(Label.new_eq_err_iff l).1 h]
    | panic => exact absurd h (Label.new_ne_panic l)

theorem labelsNew_ne_panic (ls : List Bytes) : labelsNew ls ≠ .panic := by
  induction ls with
  | nil => simp [labelsNew]
  | cons l t ih =>
    simp only [labelsNew]
    refine Out.bind_ne_panic (Label.new_ne_panic l) fun a _ => ?_
    exact Out.bind_ne_panic ih fun b _ => by simp

theorem Name.wireLen_eq_encodedLen (ls : List Bytes) : Name.wireLen ls = Spec.encodedLen ls := by
  induction ls with
  | nil => rfl
  | cons l t ih => simp only [Name.wireLen, ih, Spec.encodedLen, List.map_cons, List.sum_cons]; omega

theorem Name.new_ok_iff (s : Bytes) (n : Name) :
    Name.new s = .ok n ↔ (Spec.NameTextOK s ∧ n = Spec.pieces s) := by
  unfold Name.new Spec.NameTextOK
  simp only [splitLabels_spec, Name.wireLen_eq_encodedLen]
  cases h : labelsNew (Spec.pieces s) with
  | ok ls =>
    obtain ⟨hl, rfl⟩ := (labelsNew_ok_iff _ _).1 h
    by_cases hlen : Spec.encodedLen (Spec.pieces s) > 255
    · simp [hlen]; omega
    · simp only [hlen, if_false, Out.bind_ok, Out.pure_eq, Out.ok.injEq]
      exact ⟨fun e => ⟨⟨hl, by omega⟩, e.symm⟩, fun e => e.2.symm⟩
  | err =>
    have : ¬ ∀ l ∈ Spec.pieces s, Spec.LabelOK l := fun hh => by
      have := (labelsNew_ok_iff _ _).2 ⟨hh, rfl⟩; rw [h] at this; cases this
    simp [this]
  | panic => exact absurd h (labelsNew_ne_panic _)

theorem Name.new_ne_panic (s : Bytes) : Name.new s ≠ .panic := by
  unfold Name.new
  refine Out.bind_ne_panic (labelsNew_ne_panic _) fun a _ => ?_
  split <;> simp

theorem Name.new_err_iff (s : Bytes) : Name.new s = .err ↔ ¬ Spec.NameTextOK s := by
  constructor
  · intro h hok
    have := (Name.new_ok_iff s _).2 ⟨hok, rfl⟩
    rw [h] at this; cases this
  · intro h
    cases h2 : Name.new s with
    | ok n => exact absurd ((Name.new_ok_iff s n).1 h2).1 h
    | err => rfl
    | panic => exact absurd h2 (Name.new_ne_panic s)

/-! ### `Display`, and re-splitting a dot-joined list of labels -/

theorem Name.display_eq_intercalate (n : Name) : Name.display n = [46].intercalate n := by
  induction n with
  | nil => rfl
  | cons l t ih =>
    cases t with
    | nil => simp [Name.display]
    | cons l' t' =>
      rw [Name.display, ih, List.intercalate_cons_cons]
      · simp
      · simp

theorem splitOnPPrepend_forall_false {p : UInt8 → Bool} (s acc : Bytes)
    (hacc : ∀ x ∈ acc, p x = false) :
    ∀ l ∈ List.splitOnPPrepend p s acc, ∀ x ∈ l, p x = false := by
  induction s generalizing acc with
  | nil => simpa using hacc
  | cons b rest ih =>
    rw [List.splitOnPPrepend_cons_eq_if]
    cases hb : p b with
    | true =>
      simp only [if_true, List.mem_cons, forall_eq_or_imp]
      exact ⟨by simpa using hacc, ih [] (by simp)⟩
    | false =>
      simp only [Bool.false_eq_true, if_false]
      exact ih (b :: acc) (by simpa [hb] using hacc)

theorem Spec.pieces_ne_nil (s : Bytes) : ∀ p ∈ Spec.pieces s, p ≠ [] := by
  intro p hp; simp [Spec.pieces] at hp; exact hp.2

theorem Spec.pieces_dot_free (s : Bytes) : ∀ p ∈ Spec.pieces s, (46 : UInt8) ∉ p := by
  intro p hp hmem
  simp only [Spec.pieces, List.mem_filter, List.splitOn_eq_splitOnP,
    List.splitOnP_eq_splitOnPPrepend] at hp
  have := splitOnPPrepend_forall_false (p := (· == (46 : UInt8))) s [] (by simp) p hp.1 46 hmem
  simp at this

theorem Spec.pieces_intercalate (ps : List Bytes) (h1 : ∀ p ∈ ps, p ≠ [])
    (h2 : ∀ p ∈ ps, (46 : UInt8) ∉ p) : Spec.pieces ([46].intercalate ps) = ps := by
  cases ps with
  | nil => simp [Spec.pieces]
  | cons a t =>
    rw [Spec.pieces, List.splitOn_intercalate 46 h2 (by simp), List.filter_eq_self]
    intro p hp; simpa using h1 p hp

theorem Spec.pieces_normalised (s : Bytes) : Spec.pieces (Spec.normalised s) = Spec.pieces s :=
  Spec.pieces_intercalate _ (Spec.pieces_ne_nil s) (Spec.pieces_dot_free s)

theorem splitLabels_intercalate (ps : List Bytes) (h1 : ∀ p ∈ ps, p ≠ [])
    (h2 : ∀ p ∈ ps, (46 : UInt8) ∉ p) : splitLabels ([46].intercalate ps) = ps := by
  rw [splitLabels_spec, Spec.pieces_intercalate ps h1 h2]

/-- the pieces are the only list of non-empty dot-free labels whose dot-join is the normalised text -/
theorem Spec.pieces_unique (s : Bytes) (ps : List Bytes) (h1 : ∀ p ∈ ps, p ≠ [])
    (h2 : ∀ p ∈ ps, (46 : UInt8) ∉ p) (h : [46].intercalate ps = Spec.normalised s) :
    ps = Spec.pieces s := by
  rw [← Spec.pieces_intercalate ps h1 h2, h, Spec.pieces_normalised]

/-- a valid label is non-empty and contains no dot -/
theorem Spec.LabelOK.dot_free {l : Bytes} (h : Spec.LabelOK l) : l ≠ [] ∧ (46 : UInt8) ∉ l := by
  obtain ⟨h1, _, h3⟩ := h
  refine ⟨fun e => by simp [e] at h1, fun hm => ?_⟩
  obtain ⟨i, hi, e⟩ := List.mem_iff_getElem.1 hm
  have hi' := h3 i hi
  rw [e] at hi'
  rcases Nat.eq_zero_or_pos i with h0 | h0
  · have := hi'.1 h0; revert this; decide
  · have := hi'.2.1 h0; revert this; decide

/-! ### suffix algebra and link-local -/

theorem zip_all_beq_iff_prefix {α : Type} [BEq α] [LawfulBEq α] (x y : List α)
    (hlen : x.length ≤ y.length) :
    (x.zip y).all (fun p => p.1 == p.2) = true ↔ x <+: y := by
  induction x generalizing y with
  | nil => simp
  | cons a t ih =>
    cases y with
    | nil => simp at hlen
    | cons b u =>
      simp only [List.length_cons, Nat.add_le_add_iff_right] at hlen
      simp [List.cons_prefix_cons, ih u hlen]

theorem Name.isSubdomainOf_iff (a b : Name) :
    a.isSubdomainOf b = true ↔ (b.length < a.length ∧ b <:+ a) := by
  unfold Name.isSubdomainOf
  rw [Bool.and_eq_true, decide_eq_true_eq]
  constructor
  · rintro ⟨h1, h2⟩
    exact ⟨h1, List.reverse_prefix.1 ((zip_all_beq_iff_prefix _ _ (by simp; omega)).1 h2)⟩
  · rintro ⟨h1, h2⟩
    exact ⟨h1, (zip_all_beq_iff_prefix _ _ (by simp; omega)).2 (List.reverse_prefix.2 h2)⟩

theorem Name.without_eq_some_iff (a b pre : Name) :
    a.without b = some pre ↔ (b.length < a.length ∧ a = pre ++ b) := by
  unfold Name.without
  by_cases h : a.isSubdomainOf b = true
  · obtain ⟨hlen, t, rfl⟩ := (Name.isSubdomainOf_iff a b).1 h
    simp only [h, if_true, Option.some.injEq, List.length_append, Nat.add_sub_cancel,
      List.take_left']
    constructor
    · rintro rfl; exact ⟨by simpa using hlen, rfl⟩
    · rintro ⟨_, e⟩; exact (List.append_cancel_right e)
  · simp only [h, Bool.false_eq_true, if_false]
    refine ⟨fun e => (by cases e), ?_⟩
    rintro ⟨hlen, rfl⟩
    exact absurd ((Name.isSubdomainOf_iff _ b).2 ⟨hlen, List.suffix_append _ _⟩) h

theorem Name.without_eq_none_iff (a b : Name) :
    a.without b = none ↔ ¬ (b.length < a.length ∧ b <:+ a) := by
  rw [← Name.isSubdomainOf_iff]; unfold Name.without; split <;> simp_all

theorem asciiLower_spec (b : UInt8) :
    (asciiLower b).toNat = if 65 ≤ b.toNat ∧ b.toNat ≤ 90 then b.toNat + 32 else b.toNat := by
  unfold asciiLower
  split
  · rw [UInt8.toNat_add]; have : (32 : UInt8).toNat = 32 := rfl; rw [this]; omega
  · rfl

theorem Name.isLinkLocal_iff (n : Name) :
    n.isLinkLocal = true ↔ ∃ l, n.getLast? = some l ∧ l.map asciiLower = [108, 111, 99, 97, 108] := by
  unfold Name.isLinkLocal
  cases n.getLast? with
  | none => simp
  | some l =>
    have : ([108, 111, 99, 97, 108] : Bytes).map asciiLower = [108, 111, 99, 97, 108] := by decide
    simp only [eqIgnoreAsciiCase, this, beq_iff_eq, Option.some.injEq, exists_eq_left']
    exact eq_comm

/-- `to_ascii_lowercase` hits a lower-case letter exactly from itself and from its upper-case form -/
theorem asciiLower_eq_iff (b c : UInt8) (hc : 97 ≤ c.toNat ∧ c.toNat ≤ 122) :
    asciiLower b = c ↔ (b = c ∨ b.toNat + 32 = c.toNat) := by
  rw [← UInt8.toNat_inj, asciiLower_spec, ← UInt8.toNat_inj]
  split <;> omega

/-- link-local, letter by letter: the last label is `l|L o|O c|C a|A l|L` -/
theorem Name.isLinkLocal_iff_letters (n : Name) :
    n.isLinkLocal = true ↔ ∃ c0 c1 c2 c3 c4 : UInt8, n.getLast? = some [c0, c1, c2, c3, c4] ∧
      (c0 = 108 ∨ c0 = 76) ∧ (c1 = 111 ∨ c1 = 79) ∧ (c2 = 99 ∨ c2 = 67) ∧
      (c3 = 97 ∨ c3 = 65) ∧ (c4 = 108 ∨ c4 = 76) := by
  have key : ∀ (b c C : UInt8), 97 ≤ c.toNat ∧ c.toNat ≤ 122 → C.toNat + 32 = c.toNat →
      (asciiLower b = c ↔ (b = c ∨ b = C)) := by
    intro b c C hc hC
    rw [asciiLower_eq_iff b c hc, ← UInt8.toNat_inj (a := b) (b := C)]
    constructor
    · rintro (h | h)
      · exact .inl h
      · exact .inr (by omega)
    · rintro (h | h)
      · exact .inl h
      · exact .inr (by omega)
  rw [Name.isLinkLocal_iff]
  constructor
  · rintro ⟨l, hl, hm⟩
    rcases l with _ | ⟨c0, _ | ⟨c1, _ | ⟨c2, _ | ⟨c3, _ | ⟨c4, _ | ⟨c5, t⟩⟩⟩⟩⟩⟩
    all_goals try (simp at hm; done)
    · simp only [List.map_cons, List.map_nil, List.cons.injEq, and_true] at hm
      obtain ⟨h0, h1, h2, h3, h4⟩ := hm
      exact ⟨c0, c1, c2, c3, c4, hl,
        (key c0 108 76 (by decide) (by decide)).1 h0, (key c1 111 79 (by decide) (by decide)).1 h1,
        (key c2 99 67 (by decide) (by decide)).1 h2, (key c3 97 65 (by decide) (by decide)).1 h3,
        (key c4 108 76 (by decide) (by decide)).1 h4⟩
  · rintro ⟨c0, c1, c2, c3, c4, hl, h0, h1, h2, h3, h4⟩
    refine ⟨_, hl, ?_⟩
    simp only [List.map_cons, List.map_nil, List.cons.injEq, and_true]
    exact ⟨(key c0 108 76 (by decide) (by decide)).2 h0, (key c1 111 79 (by decide) (by decide)).2 h1,
        (key c2 99 67 (by decide) (by decide)).2 h2, (key c3 97 65 (by decide) (by decide)).2 h3,
        (key c4 108 76 (by decide) (by decide)).2 h4⟩

end Dns
