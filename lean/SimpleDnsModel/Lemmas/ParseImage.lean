/-
The image of the parser (for C11): every value `Packet.parse` returns satisfies
the well-formedness predicate of Model/WF.lean except, possibly, the clauses
"`writtenLen ≤ 65535`" (the re-encoded RDATA fits the 16-bit RDLENGTH).

  * `RData.WFcore`, `RR.WFcore`, `Header.WFcore`, `Packet.WFcore`: the
    definitions of Model/WF.lean with exactly the `writtenLen ≤ 65535`
    conjuncts removed; `PlainFits` collects the removed conjuncts;
    `Packet.WF_iff : p.WF ↔ p.WFcore ∧ PlainFits p`.
  * `Img.*`: one lemma per parser function, bottom-up, giving the `WFcore`
    facts and, at the same time, a bound on the re-encoded size of the RDATA:
    the plain encoding is at most RDLENGTH + 254 bytes (only a name that was
    compressed on the wire can grow, to at most 255 bytes from at least 1;
    layouts with two names have no variable-length tail and are small).
-/
import SimpleDnsModel.Lemmas.Name
import SimpleDnsModel.Lemmas.NoPanic
import SimpleDnsModel.Lemmas.Framing
import SimpleDnsModel.Lemmas.RoundTripC
namespace Dns

/-! ### well-formedness without the RDLENGTH clauses -/

/-- `RData.WF` without `writtenLen ≤ 65535` -/
def RData.WFcore : RData → Prop
  | .flat code vs => SchemaOK code vs ∧ flatCheck code vs = true
  | .ipseckey prec alg gw _ => prec < 256 ∧ alg < 256 ∧ gw.WF
  | .opt o => o.WF
  | .null code data =>
    data ≠ [] ∧ data.length ≤ 65535 ∧ code < 65536 ∧
      (code = 10 ∨ (TYPE.ofCode code).isUnknown = true)
  | .empty t => t ≠ .OPT ∧ TYPE.ofCode t.toCode = t ∧ t.toCode < 65536

instance (rd : RData) : Decidable rd.WFcore := by
  cases rd <;> unfold RData.WFcore <;> infer_instance

theorem RData.writtenLen_null (c : Nat) (data : Bytes) :
    (RData.null c data).writtenLen = data.length := rfl

theorem RData.writtenLen_empty (t : TYPE) : (RData.empty t).writtenLen = 0 := rfl

theorem RData.WF_iff (rd : RData) : rd.WF ↔ rd.WFcore ∧ rd.writtenLen ≤ 65535 := by
  cases rd with
  | flat code vs =>
    simp only [RData.WF, RData.WFcore]
    exact ⟨fun ⟨a, b, c⟩ => ⟨⟨a, b⟩, c⟩, fun ⟨⟨a, b⟩, c⟩ => ⟨a, b, c⟩⟩
  | ipseckey prec alg gw key =>
    simp only [RData.WF, RData.WFcore]
    exact ⟨fun ⟨a, b, c, e⟩ => ⟨⟨a, b, c⟩, e⟩, fun ⟨⟨a, b, c⟩, e⟩ => ⟨a, b, c, e⟩⟩
  | opt o => simp only [RData.WF, RData.WFcore]
  | null code data =>
    simp only [RData.WF, RData.WFcore, RData.writtenLen_null]
    exact ⟨fun h => ⟨h, h.2.1⟩, fun h => h.1⟩
  | empty t =>
    simp only [RData.WF, RData.WFcore, RData.writtenLen_empty]
    exact ⟨fun h => ⟨h, by omega⟩, fun h => h.1⟩

/-- `RR.WF` with `RData.WFcore` in place of `RData.WF` -/
def RR.WFcore (r : RR) : Prop :=
  Name.WF r.name ∧ r.ttl < 2 ^ 32 ∧ r.rdata.WFcore ∧
  (match r.rdata with
   | .opt o => r.cls = .IN ∧ r.flush = false ∧ o.version = (r.ttl >>> 8) % 256
   | _ => True)

instance (r : RR) : Decidable r.WFcore := by
  unfold RR.WFcore
  have : Decidable (match r.rdata with
   | .opt o => r.cls = .IN ∧ r.flush = false ∧ o.version = (r.ttl >>> 8) % 256
   | _ => True) := by split <;> infer_instance
  infer_instance

theorem RR.WF_iff (r : RR) : r.WF ↔ r.WFcore ∧ r.rdata.writtenLen ≤ 65535 := by
  unfold RR.WF RR.WFcore
  rw [RData.WF_iff]
  exact ⟨fun ⟨a, b, ⟨c, e⟩, f⟩ => ⟨⟨a, b, c, f⟩, e⟩, fun ⟨⟨a, b, c, f⟩, e⟩ => ⟨a, b, ⟨c, e⟩, f⟩⟩

/-- `Header.WF` with `RData.WFcore` in place of `RData.WF` -/
def Header.WFcore (h : Header) : Prop :=
  h.id < 65536 ∧ h.flags &&& Mask.ALLFLAGS = h.flags ∧
  (match h.opt with
   | some o => (RData.opt o).WFcore
   | none => h.rcode ≠ .BADVERS)

instance (h : Header) : Decidable h.WFcore := by
  unfold Header.WFcore
  have : Decidable (match h.opt with
   | some o => (RData.opt o).WFcore
   | none => h.rcode ≠ .BADVERS) := by split <;> infer_instance
  infer_instance

/-- the clause dropped from `Header.WF`: the OPT pseudo-record's RDATA fits RDLENGTH -/
def Header.OptFits (h : Header) : Prop :=
  match h.opt with
  | some o => (RData.opt o).writtenLen ≤ 65535
  | none => True

instance (h : Header) : Decidable h.OptFits := by
  unfold Header.OptFits; split <;> infer_instance

theorem Header.WF_iff (h : Header) : h.WF ↔ h.WFcore ∧ h.OptFits := by
  unfold Header.WF Header.WFcore Header.OptFits
  cases h.opt with
  | none => exact ⟨fun ⟨a, b, c⟩ => ⟨⟨a, b, c⟩, trivial⟩, fun ⟨⟨a, b, c⟩, _⟩ => ⟨a, b, c⟩⟩
  | some o =>
    simp only [RData.WF_iff]
    exact ⟨fun ⟨a, b, c, e⟩ => ⟨⟨a, b, c⟩, e⟩, fun ⟨⟨a, b, c⟩, e⟩ => ⟨a, b, c, e⟩⟩

/-- `Packet.WF` with the `WFcore` predicates in place of the `WF` ones -/
def Packet.WFcore (p : Packet) : Prop :=
  p.header.WFcore ∧
  p.questions.length ≤ 65535 ∧ p.answers.length ≤ 65535 ∧ p.nameServers.length ≤ 65535 ∧
  p.additional.length + (if p.header.opt.isSome then 1 else 0) ≤ 65535 ∧
  (∀ q ∈ p.questions, q.WF) ∧ (∀ r ∈ p.answers, r.WFcore) ∧ (∀ r ∈ p.nameServers, r.WFcore) ∧
  (∀ r ∈ p.additional, r.WFcore) ∧
  (p.header.opt = none → ∀ r ∈ p.additional, r.rdata.typeOf ≠ .OPT)

instance (p : Packet) : Decidable p.WFcore := by unfold Packet.WFcore; infer_instance

/-- exactly the clauses dropped from `Packet.WF`: the RDATA of every record of the three record
sections (questions carry no RDATA), and of the OPT pseudo-record kept in the header, re-encodes
without compression into at most 65 535 bytes -/
def PlainFits (p : Packet) : Prop :=
  p.header.OptFits ∧
  (∀ r ∈ p.answers, r.rdata.writtenLen ≤ 65535) ∧
  (∀ r ∈ p.nameServers, r.rdata.writtenLen ≤ 65535) ∧
  (∀ r ∈ p.additional, r.rdata.writtenLen ≤ 65535)

instance (p : Packet) : Decidable (PlainFits p) := by unfold PlainFits; infer_instance

theorem Packet.WF_iff (p : Packet) : p.WF ↔ p.WFcore ∧ PlainFits p := by
  unfold Packet.WF Packet.WFcore PlainFits
  simp only [RR.WF_iff, Header.WF_iff]
  constructor
  · rintro ⟨⟨a, a'⟩, b, c, e, f, g, h, i, j, k⟩
    exact ⟨⟨a, b, c, e, f, g, fun r hr => (h r hr).1, fun r hr => (i r hr).1,
      fun r hr => (j r hr).1, k⟩,
      a', fun r hr => (h r hr).2, fun r hr => (i r hr).2, fun r hr => (j r hr).2⟩
  · rintro ⟨⟨a, b, c, e, f, g, h, i, j, k⟩, a', h', i', j'⟩
    exact ⟨⟨a, a'⟩, b, c, e, f, g, fun r hr => ⟨h r hr, h' r hr⟩, fun r hr => ⟨i r hr, i' r hr⟩,
      fun r hr => ⟨j r hr, j' r hr⟩, k⟩

/-! ## what each parser function guarantees about its result -/

namespace Img

/-! ### character-strings -/

theorem charstr_ok {d : Bytes} {pos : Nat} {s : Bytes} {p : Nat}
    (h : CharStr.parse d pos = .ok (s, p)) :
    s.length ≤ 255 ∧ p = pos + s.length + 1 ∧ p ≤ d.length := by
  unfold CharStr.parse at h
  split at h
  · cases h
  · obtain ⟨lb, _, h⟩ := Out.bind_eq_ok h
    split at h
    · cases h
    · obtain ⟨s', hs, h⟩ := Out.bind_eq_ok h
      have hl := slice_length hs
      have := lb.toNat_lt
      simp at h
      obtain ⟨rfl, rfl⟩ := h
      refine ⟨by omega, by omega, by omega⟩

theorem strsLoop_ok {d : Bytes} {pos : Nat} {acc ss : List Bytes} {p : Nat}
    (hp : pos ≤ d.length) (hacc : ∀ s ∈ acc, s.length ≤ 255)
    (h : strsLoop d pos acc = .ok (ss, p)) :
    (∀ s ∈ ss, s.length ≤ 255) ∧ (pos < d.length ∨ acc ≠ [] → ss ≠ []) ∧ pos ≤ p ∧
      p ≤ d.length ∧
      (ss.map (·.length + 1)).sum = (acc.map (·.length + 1)).sum + (p - pos) := by
  induction hn : d.length - pos using Nat.strongRecOn generalizing pos acc with
  | _ n ih =>
    rw [strsLoop] at h
    split at h
    · split at h
      · rename_i s p' hcs
        obtain ⟨hs, hp', hple⟩ := charstr_ok hcs
        have := ih (d.length - p') (by omega) hple
          (fun x hx => by
            rcases List.mem_cons.mp hx with rfl | hx
            · exact hs
            · exact hacc x hx) h rfl
        obtain ⟨h1, h2, h3, h4, h5⟩ := this
        refine ⟨h1, fun _ => h2 (Or.inr (by simp)), by omega, h4, ?_⟩
        rw [h5]; simp; omega
      · cases h
      · cases h
    · rename_i hlt
      cases h
      refine ⟨by simpa using hacc, fun hc => ?_, by omega, hp, ?_⟩
      · rcases hc with hc | hc
        · exact absurd hc hlt
        · simpa using hc
      · simp [List.sum_reverse]


theorem tlvOne_ok {d : Bytes} {kw lw : Nat} {strict : Bool} {prev : Option Nat}
    {pos : Nat} {x : Nat × Bytes} {p : Nat}
    (h : tlvOne d kw lw strict prev pos = .ok (x, p)) :
    x.1 < 256 ^ kw ∧ x.2.length < 256 ^ lw ∧ p = pos + kw + lw + x.2.length ∧ p ≤ d.length ∧
      (strict = true → ∀ k, prev = some k → k < x.1) := by
  unfold tlvOne at h
  split at h
  · cases h
  · obtain ⟨kb, hkb, h⟩ := Out.bind_eq_ok h
    obtain ⟨lb, hlb, h⟩ := Out.bind_eq_ok h
    split at h
    · cases h
    · rename_i hord
      split at h
      · cases h
      · obtain ⟨v, hv, h⟩ := Out.bind_eq_ok h
        have h1 := deN_lt kb
        have h2 := deN_lt lb
        rw [slice_length hkb, show pos + kw - pos = kw by omega] at h1
        rw [slice_length hlb, show pos + kw + lw - (pos + kw) = lw by omega] at h2
        have h3 := slice_length hv
        simp at h
        obtain ⟨rfl, rfl⟩ := h
        refine ⟨h1, by simp only; omega, by simp only; omega, by omega, ?_⟩
        intro hs k hk
        subst hs hk
        simp [keyNotAfter] at hord
        exact hord

/-- keys strictly decreasing: the accumulator of the strict loop (most recent first) -/
def KeysDec : List (Nat × Bytes) → Prop
  | [] => True
  | [_] => True
  | x :: y :: rest => y.1 < x.1 ∧ KeysDec (y :: rest)

theorem KeysDec.tail {x : Nat × Bytes} {l : List (Nat × Bytes)} (h : KeysDec (x :: l)) :
    KeysDec l := by
  cases l with
  | nil => trivial
  | cons y ys => exact h.2

theorem keysInc_cons {a : Nat × Bytes} {tail : List (Nat × Bytes)} (ht : KeysIncreasing tail)
    (hh : ∀ t ∈ tail.head?, a.1 < t.1) : KeysIncreasing (a :: tail) := by
  cases tail with
  | nil => trivial
  | cons t ts => exact ⟨hh t (by simp), ht⟩

theorem keysInc_reverse_append : ∀ (acc tail : List (Nat × Bytes)), KeysDec acc →
    KeysIncreasing tail → (∀ a ∈ acc.head?, ∀ t ∈ tail.head?, a.1 < t.1) →
    KeysIncreasing (acc.reverse ++ tail) := by
  intro acc
  induction acc with
  | nil => intro tail _ ht _; simpa using ht
  | cons a acc ih =>
    intro tail hd ht hh
    rw [List.reverse_cons, List.append_assoc]
    apply ih _ hd.tail
    · exact keysInc_cons ht (fun t htm => hh a (by simp) t htm)
    · intro b hb t htm
      simp at htm
      subst htm
      cases acc with
      | nil => simp at hb
      | cons c cs =>
        simp at hb
        subst hb
        exact hd.1

theorem tlvsLoop_ok {d : Bytes} {kw lw : Nat} {strict : Bool} {pos : Nat}
    {acc xs : List (Nat × Bytes)} {p : Nat}
    (hp : pos ≤ d.length) (hacc : ∀ x ∈ acc, x.1 < 256 ^ kw ∧ x.2.length < 256 ^ lw)
    (hdec : strict = true → KeysDec acc)
    (h : tlvsLoop d kw lw strict pos acc = .ok (xs, p)) :
    (∀ x ∈ xs, x.1 < 256 ^ kw ∧ x.2.length < 256 ^ lw) ∧ (strict = true → KeysIncreasing xs) ∧
      pos ≤ p ∧ p ≤ d.length ∧
      (xs.map (fun x => x.2.length + kw + lw)).sum
        = (acc.map (fun x => x.2.length + kw + lw)).sum + (p - pos) := by
  induction hn : d.length - pos using Nat.strongRecOn generalizing pos acc with
  | _ n ih =>
    rw [tlvsLoop] at h
    split at h
    · cases h
    · rename_i hk
      split at h
      · split at h
        · rename_i x p' hone
          obtain ⟨hx1, hx2, hp', hple, hord⟩ := tlvOne_ok hone
          have hadv := tlvOne_advances (by omega) hone
          have := ih (d.length - p') (by omega) hple
            (fun y hy => by
              rcases List.mem_cons.mp hy with rfl | hy
              · exact ⟨hx1, hx2⟩
              · exact hacc y hy)
            (fun hs => by
              have hd := hdec hs
              cases acc with
              | nil => trivial
              | cons a as => exact ⟨hord hs a.1 (by simp), hd⟩) h rfl
          obtain ⟨h1, h2, h3, h4, h5⟩ := this
          refine ⟨h1, h2, by omega, h4, ?_⟩
          rw [h5]; simp; omega
        · cases h
        · cases h
      · cases h
        refine ⟨by simpa using hacc, fun hs => ?_, by omega, hp, ?_⟩
        · have := keysInc_reverse_append acc [] (hdec hs) trivial (by simp)
          simpa using this
        · simp [List.sum_reverse]

theorem optLoop_ok {d : Bytes} {pos : Nat} {acc xs : List (Nat × Bytes)} {p : Nat}
    (hp : pos ≤ d.length) (hacc : ∀ x ∈ acc, x.1 < 65536 ∧ x.2.length < 65536)
    (h : optLoop d pos acc = .ok (xs, p)) :
    (∀ x ∈ xs, x.1 < 65536 ∧ x.2.length < 65536) ∧ pos ≤ p ∧ p ≤ d.length ∧
      (xs.map (fun x => x.2.length + 4)).sum
        = (acc.map (fun x => x.2.length + 4)).sum + (p - pos) := by
  induction hn : d.length - pos using Nat.strongRecOn generalizing pos acc with
  | _ n ih =>
    rw [optLoop] at h
    split at h
    · split at h
      · rename_i x p' hone
        obtain ⟨hx1, hx2, hp', hple, _⟩ := tlvOne_ok hone
        have hadv := tlvOne_advances (by omega) hone
        have := ih (d.length - p') (by omega) hple
          (fun y hy => by
            rcases List.mem_cons.mp hy with rfl | hy
            · exact ⟨hx1, hx2⟩
            · exact hacc y hy) h rfl
        obtain ⟨h1, h3, h4, h5⟩ := this
        refine ⟨h1, by omega, h4, ?_⟩
        rw [h5]; simp; omega
      · cases h
      · cases h
    · cases h
      refine ⟨by simpa using hacc, by omega, hp, ?_⟩
      simp [List.sum_reverse]

/-! ### fields of the schema interpreter -/

/-- by how much the plain re-encoding of a field list can exceed the bytes it was decoded from:
254 per embedded name (at most 255 bytes written, at least 1 read) -/
def growth : List FKind → Nat
  | [] => 0
  | .name _ :: ks => 254 + growth ks
  | _ :: ks => growth ks

/-- the largest encoding of a fitting value of a fixed-size kind -/
def fixedMax : FKind → Nat
  | .int w => w
  | .charstr => 256
  | .name _ => 255
  | _ => 0

def capAll : List FKind → Nat
  | [] => 0
  | k :: ks => fixedMax k + capAll ks

def noTail : List FKind → Bool
  | [] => true
  | k :: ks => !k.isTail && noTail ks

theorem decField_ok {d : Bytes} {k : FKind} {pos : Nat} {v : Val} {p : Nat}
    (hp : pos ≤ d.length) (hs : k = .strs → pos < d.length)
    (h : decField d k pos = .ok (v, p)) :
    FieldOK k v ∧ pos ≤ p ∧ p ≤ d.length ∧ lenField k v ≤ (p - pos) + growth [k] := by
  cases k with
  | int w =>
    simp only [decField] at h
    split at h
    · cases h
    · obtain ⟨s, hsl, h⟩ := Out.bind_eq_ok h
      have h1 := deN_lt s
      rw [slice_length hsl, show pos + w - pos = w by omega] at h1
      simp at h
      obtain ⟨rfl, rfl⟩ := h
      exact ⟨h1, by omega, by omega, by simp [lenField]⟩
  | charstr =>
    simp only [decField] at h
    obtain ⟨⟨s, q⟩, hcs, h⟩ := Out.bind_eq_ok h
    obtain ⟨h1, h2, h3⟩ := charstr_ok hcs
    simp at h
    obtain ⟨rfl, rfl⟩ := h
    exact ⟨h1, by omega, h3, by simp [lenField]; omega⟩
  | name c =>
    simp only [decField] at h
    obtain ⟨⟨n, q⟩, hn, h⟩ := Out.bind_eq_ok h
    have hwf := Name.parse_WF hn
    obtain ⟨h2, h3⟩ := Name.parse_pos_le hn
    simp at h
    obtain ⟨rfl, rfl⟩ := h
    refine ⟨hwf, by omega, h3, ?_⟩
    have := hwf.2
    simp [lenField, growth]; omega
  | rest =>
    simp only [decField] at h
    obtain ⟨s, hsl, h⟩ := Out.bind_eq_ok h
    have := slice_length hsl
    simp at h
    obtain ⟨rfl, rfl⟩ := h
    exact ⟨trivial, hp, Nat.le_refl _, by simp [lenField]; omega⟩
  | strs =>
    simp only [decField] at h
    obtain ⟨⟨ss, q⟩, hl, h⟩ := Out.bind_eq_ok h
    obtain ⟨h1, h2, h3, h4, h5⟩ := strsLoop_ok hp (by simp) hl
    simp at h
    obtain ⟨rfl, rfl⟩ := h
    have hne := h2 (Or.inl (hs rfl))
    refine ⟨⟨hne, h1⟩, h3, h4, ?_⟩
    simp only [lenField]
    rw [if_neg (by simpa using hne), h5]
    simp
  | tlvs kw lw strict =>
    simp only [decField] at h
    obtain ⟨⟨xs, q⟩, hl, h⟩ := Out.bind_eq_ok h
    obtain ⟨h1, h2, h3, h4, h5⟩ := tlvsLoop_ok hp (by simp) (fun _ => by simp [KeysDec]) hl
    simp at h
    obtain ⟨rfl, rfl⟩ := h
    refine ⟨⟨h1, h2⟩, h3, h4, ?_⟩
    simp only [lenField]
    rw [h5]
    simp

theorem decAll_ok {d : Bytes} (ks : List FKind) : ∀ {pos : Nat} {vs : List Val} {p : Nat},
    pos ≤ d.length → (∀ k ∈ ks, k ≠ .strs) → decAll d ks pos = .ok (vs, p) →
    AllOK ks vs ∧ pos ≤ p ∧ p ≤ d.length ∧ lenAll ks vs ≤ (p - pos) + growth ks := by
  induction ks with
  | nil =>
    intro pos vs p hp _ h
    simp only [decAll] at h
    cases h
    exact ⟨trivial, Nat.le_refl _, hp, by simp [lenAll]⟩
  | cons k ks ih =>
    intro pos vs p hp hns h
    simp only [decAll] at h
    obtain ⟨⟨v, q⟩, hv, h⟩ := Out.bind_eq_ok h
    dsimp only at h
    obtain ⟨⟨vs', q'⟩, hvs, h⟩ := Out.bind_eq_ok h
    cases h
    obtain ⟨a1, a2, a3, a4⟩ := decField_ok hp (fun hk => absurd hk (hns k (by simp))) hv
    obtain ⟨b1, b2, b3, b4⟩ := ih a3 (fun k' hk' => hns k' (by simp [hk'])) hvs
    refine ⟨⟨a1, b1⟩, by omega, b3, ?_⟩
    have hg : growth (k :: ks) = growth [k] + growth ks := by
      cases k <;> simp [growth]
    simp only [lenAll]
    omega

theorem decAll_strs {d : Bytes} {pos : Nat} {vs : List Val} {p : Nat}
    (hp : pos < d.length) (h : decAll d [.strs] pos = .ok (vs, p)) :
    AllOK [.strs] vs ∧ pos ≤ p ∧ p ≤ d.length ∧ lenAll [.strs] vs ≤ (p - pos) + growth [.strs] := by
  simp only [decAll] at h
  obtain ⟨⟨v, q⟩, hv, h⟩ := Out.bind_eq_ok h
  simp at h
  obtain ⟨rfl, rfl⟩ := h
  obtain ⟨a1, a2, a3, a4⟩ := decField_ok (by omega) (fun _ => hp) hv
  exact ⟨⟨a1, trivial⟩, a2, a3, by simpa [lenAll] using a4⟩

/-- a layout without a variable-length tail has a bounded encoding -/
theorem lenAll_le_cap (ks : List FKind) : ∀ (vs : List Val), AllOK ks vs → noTail ks = true →
    lenAll ks vs ≤ capAll ks := by
  induction ks with
  | nil => intro vs _ _; cases vs <;> simp [lenAll]
  | cons k ks ih =>
    intro vs h hn
    cases vs with
    | nil => simp [AllOK] at h
    | cons v vs =>
      simp only [AllOK] at h
      simp only [noTail, Bool.and_eq_true] at hn
      have := ih vs h.2 hn.2
      have hk : lenField k v ≤ fixedMax k := by
        have h1 := h.1
        cases k <;> cases v <;> simp only [FieldOK] at h1 <;>
          simp [FKind.isTail] at hn <;> simp [lenField, fixedMax]
        · omega
        · exact h1.2
      simp only [lenAll, capAll]
      omega

/-- the two facts about the schema table the bounds need: character-string lists only occur as the
whole RDATA (TXT), and a layout either has at most one name or no variable-length tail (and then
at most 1 044 bytes: NAPTR) -/
theorem schemaOf_shape {code : Nat} {ks : List FKind} (h : schemaOf code = some ks) :
    (ks = [.strs] ∨ ∀ k ∈ ks, k ≠ .strs) ∧
    (growth ks ≤ 254 ∨ (noTail ks = true ∧ capAll ks ≤ 65535)) := by
  unfold schemaOf at h
  split at h <;> first
    | (cases h; exact ⟨by decide, by decide⟩)
    | cases h

/-! ### IPSECKEY, OPT, the dispatch, `RData.parse` -/

theorem pow_256_2 : (256 : Nat) ^ 2 = 65536 := by decide
theorem pow_256_4 : (256 : Nat) ^ 4 = 2 ^ 32 := by decide
theorem pow_256_16 : (256 : Nat) ^ 16 = 2 ^ 128 := by decide

theorem slice_of_take {d s : Bytes} {k a b : Nat} (h : slice (d.take k) a b = .ok s) :
    slice d a b = .ok s := by
  unfold slice at h ⊢
  split at h
  · rename_i hc
    rw [List.length_take] at hc
    rw [if_pos ⟨hc.1, by omega⟩]
    rw [Framing.take_drop_take (by omega)] at h
    exact h
  · cases h

theorem ipseckey_ok {d : Bytes} {pos : Nat} {rd : RData} {p : Nat}
    (h : ipseckeyParse d pos = .ok (rd, p)) :
    rd.WFcore ∧ rd.writtenLen ≤ (d.length - pos) + 254 := by
  unfold ipseckeyParse at h
  split at h
  · cases h
  · obtain ⟨prec, _, h⟩ := Out.bind_eq_ok h
    obtain ⟨gt, _, h⟩ := Out.bind_eq_ok h
    obtain ⟨alg, _, h⟩ := Out.bind_eq_ok h
    dsimp only at h
    obtain ⟨⟨gw, q⟩, hg, h⟩ := Out.bind_eq_ok h
    obtain ⟨key, hkey, h⟩ := Out.bind_eq_ok h
    cases h
    have hgw : gw.WF ∧ pos + 3 ≤ q ∧ q ≤ d.length ∧ gw.write.length ≤ (q - (pos + 3)) + 254 := by
      split at hg
      · cases hg
        exact ⟨trivial, by omega, by omega, by simp [Gateway.write]⟩
      · split at hg
        · cases hg
        · obtain ⟨s, hs, hg⟩ := Out.bind_eq_ok hg
          have h1 := deN_lt s
          rw [slice_length hs, show pos + 3 + 4 - (pos + 3) = 4 by omega, pow_256_4] at h1
          simp at hg
          obtain ⟨rfl, rfl⟩ := hg
          exact ⟨h1, by omega, by omega, by simp [Gateway.write]⟩
      · split at hg
        · cases hg
        · obtain ⟨s, hs, hg⟩ := Out.bind_eq_ok hg
          have h1 := deN_lt s
          rw [slice_length hs, show pos + 3 + 16 - (pos + 3) = 16 by omega, pow_256_16] at h1
          simp at hg
          obtain ⟨rfl, rfl⟩ := hg
          exact ⟨h1, by omega, by omega, by simp [Gateway.write]⟩
      · obtain ⟨⟨n, q'⟩, hn, hg⟩ := Out.bind_eq_ok hg
        have hwf := Name.parse_WF hn
        obtain ⟨h2, h3⟩ := Name.parse_pos_le hn
        simp at hg
        obtain ⟨rfl, rfl⟩ := hg
        refine ⟨hwf, by omega, h3, ?_⟩
        have := hwf.2
        simp only [Gateway.write, Name.write_length]
        omega
      · cases hg
    have hk := slice_length hkey
    refine ⟨⟨prec.toNat_lt, alg.toNat_lt, hgw.1⟩, ?_⟩
    simp [RData.writtenLen, RData.write]
    omega

theorem optParse_ok {d : Bytes} {pos : Nat} {rd : RData} {p : Nat}
    (h : optParse d pos = .ok (rd, p)) :
    ∃ o, rd = .opt o ∧ o.WF ∧ (RData.opt o).writtenLen = d.length - (pos + 10) ∧ p = d.length ∧
      ∃ tb, slice d (pos + 4) (pos + 8) = .ok tb ∧ o.version = (deN tb >>> 8) % 256 := by
  unfold optParse at h
  split at h
  · cases h
  · obtain ⟨ub, hub, h⟩ := Out.bind_eq_ok h
    obtain ⟨tb, htb, h⟩ := Out.bind_eq_ok h
    dsimp only at h
    obtain ⟨⟨codes, q⟩, hl, h⟩ := Out.bind_eq_ok h
    cases h
    obtain ⟨h1, h2, h3, h4⟩ := optLoop_ok (by omega) (by simp) hl
    have hu := deN_lt ub
    rw [slice_length hub, show pos + 4 - (pos + 2) = 2 by omega, pow_256_2] at hu
    have hq := Framing.optLoop_end (by omega) hl
    refine ⟨_, rfl, ⟨hu, Nat.mod_lt _ (by decide), h1⟩, ?_, hq, tb, htb, version_bits _⟩
    simp only [RData.writtenLen, RData.write, encOptCodes, encTlvs_length, h4]
    simp; omega

theorem parseTyped_ok {d : Bytes} {pos : Nat} {t : TYPE} {rd : RData} {p : Nat}
    (hp : pos < d.length) (hc : t.toCode < 65536) (hrt : TYPE.ofCode t.toCode = t)
    (h : parseTyped d pos t = .ok (rd, p)) :
    rd.WFcore ∧ (rd.writtenLen ≤ 65535 ∨ rd.writtenLen ≤ (d.length - pos) + 254) := by
  unfold parseTyped at h
  split at h
  · obtain ⟨h1, h2⟩ := ipseckey_ok h
    exact ⟨h1, Or.inr h2⟩
  · obtain ⟨s, hs, h⟩ := Out.bind_eq_ok h
    have hl := slice_length hs
    split at h
    · cases h
    · cases h
      refine ⟨⟨?_, by omega, by decide, Or.inl rfl⟩, Or.inl (by rw [RData.writtenLen_null]; omega)⟩
      intro h0; rw [h0] at hl; simp at hl; omega
  · rename_i c
    obtain ⟨s, hs, h⟩ := Out.bind_eq_ok h
    have hl := slice_length hs
    split at h
    · cases h
    · cases h
      simp only [TYPE.toCode] at hc hrt
      refine ⟨⟨?_, by omega, hc, Or.inr (by rw [hrt]; rfl)⟩,
        Or.inl (by rw [RData.writtenLen_null]; omega)⟩
      intro h0; rw [h0] at hl; simp at hl; omega
  · cases h
  · split at h
    · cases h
    · rename_i ks hks
      obtain ⟨⟨vs, q⟩, hdec, h⟩ := Out.bind_eq_ok h
      dsimp only at h
      obtain ⟨hshape, hsize⟩ := schemaOf_shape hks
      have hall : AllOK ks vs ∧ pos ≤ q ∧ q ≤ d.length ∧ lenAll ks vs ≤ (q - pos) + growth ks := by
        rcases hshape with rfl | hno
        · exact decAll_strs hp hdec
        · exact decAll_ok ks (by omega) hno hdec
      obtain ⟨a1, a2, a3, a4⟩ := hall
      split at h
      · rename_i hfc
        cases h
        have hw : (RData.flat t.toCode vs).writtenLen = lenAll ks vs := by
          simp only [RData.writtenLen, RData.write, hks, hfc, if_true]
          exact (lenAll_eq ks vs a1).symm
        refine ⟨⟨by simp only [SchemaOK, hks]; exact a1, hfc⟩, ?_⟩
        rw [hw]
        rcases hsize with hg | ⟨hn, hcap⟩
        · right; omega
        · left
          have := lenAll_le_cap ks vs a1 hn
          omega
      · cases h

theorem rdata_ok {d : Bytes} {pos : Nat} {rd : RData} {p : Nat}
    (h : RData.parse d pos = .ok (rd, p)) :
    rd.WFcore ∧ pos + 10 ≤ p ∧ p ≤ d.length ∧ p - (pos + 10) ≤ 65535 ∧
      (rd.writtenLen ≤ 65535 ∨ rd.writtenLen ≤ (p - (pos + 10)) + 254) ∧
      (∀ o, rd = .opt o → rd.writtenLen ≤ 65535 ∧
        ∃ tb, slice d (pos + 4) (pos + 8) = .ok tb ∧ o.version = (deN tb >>> 8) % 256) := by
  unfold RData.parse at h
  split at h
  · cases h
  · obtain ⟨tb, htb, h⟩ := Out.bind_eq_ok h
    dsimp only at h
    obtain ⟨lb, hlb, h⟩ := Out.bind_eq_ok h
    have hl := deN_lt lb
    rw [slice_length hlb, show pos + 10 - (pos + 8) = 2 by omega, pow_256_2] at hl
    have ht := deN_lt tb
    rw [slice_length htb, show pos + 2 - pos = 2 by omega, pow_256_2] at ht
    split at h
    · cases h
    · rename_i hfit
      split at h
      · obtain ⟨o, rfl, ho, hw, hp, tb', htb', hv⟩ := optParse_ok h
        rw [List.length_take] at hw hp
        refine ⟨ho, by omega, by omega, by omega, Or.inl (by omega), ?_⟩
        intro o' ho'
        cases ho'
        exact ⟨by omega, tb', slice_of_take htb', hv⟩
      · rename_i hnopt
        split at h
        · rename_i hz
          cases h
          refine ⟨⟨hnopt, TYPE.ofCode_toCode_ofCode _, by rw [type_toCode_ofCode]; exact ht⟩,
            by omega, by omega, by omega, Or.inl (by rw [RData.writtenLen_empty]; omega), ?_⟩
          intro o ho; cases ho
        · rename_i hnz
          obtain ⟨⟨rd', q⟩, hpt, h⟩ := Out.bind_eq_ok h
          cases h
          have hlen : (d.take (pos + 10 + deN lb)).length = pos + 10 + deN lb := by
            rw [List.length_take]; omega
          obtain ⟨h1, h2⟩ := parseTyped_ok (by omega) (by rw [type_toCode_ofCode]; exact ht)
            (TYPE.ofCode_toCode_ofCode _) hpt
          rw [hlen] at h2
          refine ⟨h1, by omega, by omega, by omega, ?_, ?_⟩
          · rcases h2 with h2 | h2
            · exact Or.inl h2
            · right; omega
          · intro o ho
            subst ho
            have hty := parseTyped_typeOf hpt
            rw [TYPE.ofCode_toCode_ofCode] at hty
            exact absurd hty.symm hnopt

/-! ### records, questions, sections -/

/-- what one parsed record has to do with the walked entry (Spec/Envelope.lean) at its offset:
its RDATA re-encodes into at most RDLENGTH + 254 bytes (or fits anyway); OPT RDATA always fits;
the entry lies inside the message after a non-empty owner name -/
def RecFit (d : Bytes) (r : RR) (e : Spec.REntry) : Prop :=
  (r.rdata.writtenLen ≤ 65535 ∨ r.rdata.writtenLen ≤ e.rdlen + 254) ∧
  (∀ o, r.rdata = .opt o → r.rdata.writtenLen ≤ 65535) ∧
  e.off < e.nameEnd ∧ e.nameEnd + 10 + e.rdlen ≤ d.length

theorem rr_ok {d : Bytes} {pos : Nat} {r : RR} {p : Nat} (h : RR.parse d pos = .ok (r, p)) :
    r.WFcore ∧ ∃ e, Spec.walkRecord d pos = some e ∧ e.off = pos ∧ p = e.next ∧ RecFit d r e := by
  unfold RR.parse at h
  obtain ⟨⟨name, q⟩, hname, h⟩ := Out.bind_eq_ok h
  dsimp only at h
  split at h
  · cases h
  · obtain ⟨cb, hcb, h⟩ := Out.bind_eq_ok h
    obtain ⟨tb, htb, h⟩ := Out.bind_eq_ok h
    obtain ⟨⟨rdata, p'⟩, hrd, h⟩ := Out.bind_eq_ok h
    dsimp only at h
    obtain ⟨t, l, ht, hl, hp', hple, hty⟩ := Framing.RData.parse_frame hrd
    obtain ⟨hcore, _, _, _, hsize, hopt⟩ := rdata_ok hrd
    obtain ⟨hq, _⟩ := Name.parse_pos_le hname
    have httl := deN_lt tb
    rw [slice_length htb, show q + 8 - (q + 4) = 4 by omega, pow_256_4] at httl
    have hwalk : Spec.walkRecord d pos
        = some { off := pos, nameEnd := q, type := t, cls := deN cb, ttl := deN tb, rdlen := l } := by
      unfold Spec.walkRecord
      rw [Framing.skipName_of_parse hname]
      simp only [Option.bind_eq_bind, Option.bind_some, ht,
        Framing.field_of_slice (show q + 4 = q + 2 + 2 by omega) hcb,
        Framing.field_of_slice (show q + 8 = q + 4 + 4 by omega) htb, hl]
      rw [if_pos (by omega)]; rfl
    have hfit : ∀ r : RR, r.rdata = rdata → RecFit d r
        { off := pos, nameEnd := q, type := t, cls := deN cb, ttl := deN tb, rdlen := l } := by
      intro r hr
      rw [RecFit, hr]
      refine ⟨?_, fun o ho => (hopt o ho).1, hq, by simp only; omega⟩
      rcases hsize with hs | hs
      · exact Or.inl hs
      · right; simp only; omega
    split at h
    · rename_i hisopt
      cases h
      refine ⟨⟨Name.parse_WF hname, httl, hcore, ?_⟩, _, hwalk, rfl,
        by simpa [Spec.REntry.next] using hp', hfit _ rfl⟩
      cases rdata with
      | opt o =>
        obtain ⟨_, tb', htb', hv⟩ := hopt o rfl
        rw [htb] at htb'
        cases htb'
        exact ⟨rfl, rfl, hv⟩
      | _ => exact trivial
    · rename_i hnotopt
      obtain ⟨cls, _, h⟩ := Out.bind_eq_ok h
      cases h
      refine ⟨⟨Name.parse_WF hname, httl, hcore, ?_⟩, _, hwalk, rfl,
        by simpa [Spec.REntry.next] using hp', hfit _ rfl⟩
      cases rdata with
      | opt o => exact absurd rfl hnotopt
      | _ => exact trivial

theorem parseRRs_ok {d : Bytes} {n pos : Nat} {rs : List RR} {p : Nat}
    (h : parseRRs d n pos = .ok (rs, p)) :
    rs.length = n ∧ pos ≤ p ∧ ∃ es, Spec.walkRecords d n pos = some (es, p) ∧
      ∀ r ∈ rs, r.WFcore ∧ ∃ e ∈ es, pos ≤ e.off ∧ RecFit d r e := by
  induction n generalizing pos rs p with
  | zero =>
    simp only [parseRRs] at h
    cases h
    exact ⟨rfl, Nat.le_refl _, [], rfl, by simp⟩
  | succ n ih =>
    simp only [parseRRs] at h
    obtain ⟨⟨r, q⟩, hr, h⟩ := Out.bind_eq_ok h
    dsimp only at h
    obtain ⟨⟨rs', q'⟩, hrs, h⟩ := Out.bind_eq_ok h
    cases h
    obtain ⟨hcore, e, he, heoff, hq, hfit⟩ := rr_ok hr
    obtain ⟨hlen, hle, es, hes, hall⟩ := ih hrs
    have hadv : pos < q := by
      have := hfit.2.2.1
      simp only [Spec.REntry.next] at hq
      omega
    refine ⟨by simp [hlen], by omega, e :: es, ?_, ?_⟩
    · subst hq
      simp [Spec.walkRecords, he, hes]
    · intro r' hr'
      rcases List.mem_cons.mp hr' with rfl | hm
      · exact ⟨hcore, e, by simp, by omega, hfit⟩
      · obtain ⟨h1, e', he', hoff, hf⟩ := hall r' hm
        exact ⟨h1, e', by simp [he'], by omega, hf⟩

theorem qtype_ofCode_toCode {c : Nat} {q : QTYPE} (h : QTYPE.ofCode c = .ok q) :
    QTYPE.ofCode q.toCode = .ok q := by
  have hc : q.toCode = c := by
    unfold QTYPE.ofCode at h
    split at h <;> try (cases h; rfl)
    split at h
    · cases h
    · cases h; exact type_toCode_ofCode _
  rw [hc]; exact h

theorem question_ok {d : Bytes} {pos : Nat} {q : Question} {p : Nat}
    (h : Question.parse d pos = .ok (q, p)) : q.WF ∧ pos ≤ p := by
  unfold Question.parse at h
  obtain ⟨⟨name, ne⟩, hname, h⟩ := Out.bind_eq_ok h
  dsimp only at h
  split at h
  · cases h
  · obtain ⟨tb, _, h⟩ := Out.bind_eq_ok h
    obtain ⟨cb, _, h⟩ := Out.bind_eq_ok h
    obtain ⟨qt, hqt, h⟩ := Out.bind_eq_ok h
    obtain ⟨qc, _, h⟩ := Out.bind_eq_ok h
    cases h
    have := (Name.parse_pos_le hname).1
    exact ⟨⟨Name.parse_WF hname, qtype_ofCode_toCode hqt⟩, by omega⟩

theorem parseQuestions_ok {d : Bytes} {n pos : Nat} {qs : List Question} {p : Nat}
    (h : parseQuestions d n pos = .ok (qs, p)) : (∀ q ∈ qs, q.WF) ∧ pos ≤ p := by
  induction n generalizing pos qs p with
  | zero => simp only [parseQuestions] at h; cases h; simp
  | succ n ih =>
    simp only [parseQuestions] at h
    obtain ⟨⟨q, p1⟩, hq, h⟩ := Out.bind_eq_ok h
    dsimp only at h
    obtain ⟨⟨qs', p2⟩, hqs, h⟩ := Out.bind_eq_ok h
    cases h
    obtain ⟨hwf, hle⟩ := question_ok hq
    obtain ⟨ih1, ih2⟩ := ih hqs
    refine ⟨?_, by omega⟩
    intro q' hq'
    rcases List.mem_cons.mp hq' with rfl | hm
    · exact hwf
    · exact ih1 q' hm

/-! ### header, counts, lifting the OPT record -/

theorem rcode_lt16_ne_badvers : ∀ k < 16, RCODE.ofCode k ≠ .BADVERS := by decide

theorem header_ok {d : Bytes} {h : Header} (hh : Header.parse d = .ok h) :
    h.id < 65536 ∧ h.flags &&& Mask.ALLFLAGS = h.flags ∧ h.rcode ≠ .BADVERS ∧ h.opt = none := by
  unfold Header.parse at hh
  split at hh
  · cases hh
  · obtain ⟨fb, _, hh⟩ := Out.bind_eq_ok hh
    dsimp only at hh
    split at hh
    · cases hh
    · obtain ⟨ib, hib, hh⟩ := Out.bind_eq_ok hh
      cases hh
      have hid := deN_lt ib
      rw [slice_length hib, pow_256_2] at hid
      refine ⟨hid, ?_, ?_, rfl⟩
      · simp only [flagsTruncate]
        rw [Nat.and_assoc, Nat.and_self]
      · apply rcode_lt16_ne_badvers
        have : deN fb &&& Mask.RCODE ≤ 15 := Nat.and_le_right
        omega

theorem peek_ok {d : Bytes} {a n : Nat} (h : peekU16 d a = .ok n) : n < 65536 := by
  unfold peekU16 sliceOpt at h
  split at h
  · cases h
  · rename_i s hs
    split at hs
    · rename_i hc
      cases hs; cases h
      have := deN_lt ((d.drop a).take (a + 2 - a))
      rw [List.length_take, List.length_drop] at this
      have h2 : min (a + 2 - a) (d.length - a) = 2 := by omega
      rw [h2, pow_256_2] at this
      exact this
    · cases hs

theorem liftOpt_facts (l : List RR) :
    (liftOpt l).2.length + (if (liftOpt l).1.isSome then 1 else 0) = l.length ∧
    (∀ r ∈ (liftOpt l).2, r ∈ l) ∧
    ((liftOpt l).1 = none → ∀ r ∈ l, r.rdata.typeOf ≠ .OPT) ∧
    (∀ r, (liftOpt l).1 = some r → r ∈ l ∧ r.rdata.typeOf = .OPT) := by
  induction l with
  | nil => simp [liftOpt]
  | cons x xs ih =>
    obtain ⟨i1, i2, i3, i4⟩ := ih
    simp only [liftOpt]
    split
    · rename_i hx
      refine ⟨by simp, fun r hr => by simp [hr], fun hc => by simp at hc, ?_⟩
      intro r hr
      simp at hr
      subst hr
      exact ⟨by simp, hx⟩
    · rename_i hx
      refine ⟨by simp; omega, ?_, ?_, ?_⟩
      · intro r hr
        rcases List.mem_cons.mp hr with rfl | hm
        · simp
        · simp [i2 r hm]
      · intro hn r hr
        rcases List.mem_cons.mp hr with rfl | hm
        · exact hx
        · exact i3 hn r hm
      · intro r hr
        obtain ⟨a, b⟩ := i4 r hr
        exact ⟨by simp [a], b⟩

theorem extractOpt_ok {h0 h : Header} {o : Option RR} (hh : h0.extractOpt o = .ok h)
    (h0ok : h0.id < 65536 ∧ h0.flags &&& Mask.ALLFLAGS = h0.flags ∧ h0.rcode ≠ .BADVERS ∧
      h0.opt = none)
    (ho : ∀ r, o = some r → r.WFcore ∧ (∀ x, r.rdata = .opt x → r.rdata.writtenLen ≤ 65535)) :
    h.WFcore ∧ h.OptFits ∧ h.opt.isSome = o.isSome := by
  obtain ⟨a, b, c, e⟩ := h0ok
  cases o with
  | none =>
    simp only [Header.extractOpt] at hh
    cases hh
    refine ⟨⟨a, b, ?_⟩, ?_, by simp [e]⟩
    · rw [e]; exact c
    · simp only [Header.OptFits, e]
  | some r =>
    obtain ⟨hr, hfits⟩ := ho r rfl
    simp only [Header.extractOpt] at hh
    split at hh
    · rename_i x hx
      cases hh
      have hx' : (RData.opt x).WFcore := by rw [← hx]; exact hr.2.2.1
      have hf := hfits x hx
      rw [hx] at hf
      exact ⟨⟨a, b, hx'⟩, hf, rfl⟩
    · cases hh

/-! ### the message -/

/-- Everything successful parsing guarantees about the result: well-formedness but for the RDLENGTH
clauses; the OPT pseudo-record always fits; and every record corresponds to an entry of the
envelope walk of the message whose RDLENGTH bounds the re-encoded size of its RDATA. -/
theorem packet_ok {d : Bytes} {p : Packet} (h : Packet.parse d = .ok p) :
    p.WFcore ∧ p.header.OptFits ∧ ∃ w, Spec.walk d = some w ∧
      (∀ r ∈ p.answers, ∃ e ∈ w.answers, 12 ≤ e.off ∧ RecFit d r e) ∧
      (∀ r ∈ p.nameServers, ∃ e ∈ w.nameServers, 12 ≤ e.off ∧ RecFit d r e) ∧
      (∀ r ∈ p.additional, ∃ e ∈ w.additional, 12 ≤ e.off ∧ RecFit d r e) := by
  unfold Packet.parse at h
  obtain ⟨h0, hh0, h⟩ := Out.bind_eq_ok h
  obtain ⟨qd, hqd, h⟩ := Out.bind_eq_ok h
  obtain ⟨⟨qs, p1⟩, hqs, h⟩ := Out.bind_eq_ok h
  dsimp only at h
  obtain ⟨an, han, h⟩ := Out.bind_eq_ok h
  obtain ⟨⟨as, p2⟩, has, h⟩ := Out.bind_eq_ok h
  dsimp only at h
  obtain ⟨ns, hns, h⟩ := Out.bind_eq_ok h
  obtain ⟨⟨nss, p3⟩, hnss, h⟩ := Out.bind_eq_ok h
  dsimp only at h
  obtain ⟨ar, har, h⟩ := Out.bind_eq_ok h
  obtain ⟨⟨all, p4⟩, hall, h⟩ := Out.bind_eq_ok h
  dsimp only at h
  obtain ⟨h1, hh1, h⟩ := Out.bind_eq_ok h
  cases h
  obtain ⟨eq, heq, hqlen, _, _⟩ := Framing.parseQuestions_frame hqs
  obtain ⟨hqwf, hp1⟩ := parseQuestions_ok hqs
  obtain ⟨halen, hle2, ea, hea, hanswers⟩ := parseRRs_ok has
  obtain ⟨hnlen, hle3, en, hen, hauth⟩ := parseRRs_ok hnss
  obtain ⟨hrlen, _, er, her, hadd⟩ := parseRRs_ok hall
  obtain ⟨l1, l2, l3, l4⟩ := liftOpt_facts all
  have hhdr := header_ok hh0
  obtain ⟨hcore, hfits, hsome⟩ := extractOpt_ok hh1 hhdr (fun r hr => by
    obtain ⟨hm, _⟩ := l4 r hr
    obtain ⟨c, e, _, _, hf⟩ := hadd r hm
    exact ⟨c, hf.2.1⟩)
  have c1 := peek_ok hqd
  have c2 := peek_ok han
  have c3 := peek_ok hns
  have c4 := peek_ok har
  refine ⟨⟨hcore, by dsimp only; omega, by dsimp only; omega, by dsimp only; omega, ?_, hqwf,
    fun r hr => (hanswers r hr).1, fun r hr => (hauth r hr).1,
    fun r hr => (hadd r (l2 r hr)).1, ?_⟩, hfits,
    { questions := eq, answers := ea, nameServers := en, additional := er, stop := p4 }, ?_,
    ?_, ?_, ?_⟩
  · dsimp only
    rw [hsome]
    omega
  · dsimp only
    intro hnone r hr
    have : (liftOpt all).1 = none := by
      cases hl : (liftOpt all).1 with
      | none => rfl
      | some x => rw [hl, hnone] at hsome; simp at hsome
    exact l3 this r (l2 r hr)
  · unfold Spec.walk
    simp [Framing.field_of_peekU16 hqd, Framing.field_of_peekU16 han,
      Framing.field_of_peekU16 hns, Framing.field_of_peekU16 har, heq, hea, hen, her]
  · intro r hr
    obtain ⟨_, e, he, hoff, hf⟩ := hanswers r hr
    exact ⟨e, he, by omega, hf⟩
  · intro r hr
    obtain ⟨_, e, he, hoff, hf⟩ := hauth r hr
    exact ⟨e, he, by omega, hf⟩
  · intro r hr
    obtain ⟨_, e, he, hoff, hf⟩ := hadd r (l2 r hr)
    exact ⟨e, he, by omega, hf⟩

end Img

end Dns
