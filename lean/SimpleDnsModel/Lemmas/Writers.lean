/-
Writer lemmas for C04 and C07:
  WritersA  framing of the built message, `overwrite`, `write_all`, refinement of the imperative
            compressed writer (Model/Writer.lean) to the functional one (Model/Compress.lean)
  WritersB  suffix table and pointer shape, name sites of a message, validity of every site,
            repeated names are pointers
-/
import SimpleDnsModel.Lemmas.WritersA
import SimpleDnsModel.Lemmas.WritersB
