/-
simple-mdns record store, part B: what `get_domain_resources` returns, the
trie-node rule for inserted keys, the abstract transition function `absStep`
with `abs (s.run ops) = foldl absStep (abs s) ops`, and the membership
characterisations of `answersFor` / `buildReply` that C13 rests on.
-/
import SimpleDnsModel.Lemmas.MdnsA
namespace Dns.Mdns

/-! ### filters -/

@[simp] theorem Filter.matches_auth (f : Filter) (now : Nat) :
    f.matches .auth now = f.authoritative := rfl

@[simp] theorem Filter.matches_cached (f : Filter) (e r now : Nat) :
    f.matches (.cached e r) now = (f.cached && decide (now < e)) := rfl

theorem Filter.auth_matches {sub : Bool} {kind : Kind} {now : Nat} :
    (Filter.auth sub).matches kind now = true ↔ kind = .auth := by
  cases kind <;> simp [Filter.auth]

theorem Filter.cachedOnly_matches {kind : Kind} {now : Nat} :
    Filter.cachedOnly.matches kind now = true ↔ ∃ e r, kind = .cached e r ∧ now < e := by
  cases kind <;> simp [Filter.cachedOnly]

theorem Filter.all_matches {kind : Kind} {now : Nat} :
    Filter.all.matches kind now = true ↔ kind = .auth ∨ ∃ e r, kind = .cached e r ∧ now < e := by
  cases kind <;> simp [Filter.all]

/-- no filter lets an expired cache entry through, at the expiry instant or ever after -/
theorem Filter.matches_expired (f : Filter) {e r now : Nat} (h : e ≤ now) :
    f.matches (.cached e r) now = false := by
  simp only [Filter.matches_cached, Bool.and_eq_false_iff, decide_eq_false_iff_not]
  exact .inr (by omega)

/-! ### trie nodes -/

/-- an inserted key has a trie node -/
theorem Store.nodeExists_of_mem {s : Store} {k : Key} {b : Bucket} (h : (k, b) ∈ s.entries) :
    s.nodeExists k = true := by
  unfold Store.nodeExists
  have : s.entries.any (fun e => e.1 == k) = true := List.any_eq_true.mpr ⟨(k, b), h, by simp⟩
  simp [this]

/-- the root is always a node: querying the empty name enumerates everything -/
theorem Store.nodeExists_root (s : Store) : s.nodeExists (getKey []) = true := rfl

/-! ### `get_domain_resources` -/

/-- What a domain query returns (no invariant needed): the records of a bucket that pass the filter;
the bucket is the one `Store.bucket` finds for the key (exact query), or any entry whose key extends
the queried key provided the trie has a node at the queried key (subdomain query). -/
theorem mem_getDomain {s : Store} {name : Name} {f : Filter} {now : Nat} {x : RR} :
    x ∈ (s.getDomain name f now).flatten ↔
      ∃ b kind, (x, kind) ∈ b ∧ f.matches kind now = true ∧
        (if f.subdomain = true then
            s.nodeExists (getKey name) = true ∧
              ∃ k, (k, b) ∈ s.entries ∧ isPrefixOf (getKey name) k = true
         else s.bucket (getKey name) = some b) := by
  unfold Store.getDomain
  simp only [List.mem_flatten, List.mem_filter]
  constructor
  · rintro ⟨g, ⟨hg, _⟩, hx⟩
    by_cases hsub : f.subdomain = true
    · simp only [if_pos hsub] at hg ⊢
      by_cases hn : s.nodeExists (getKey name) = true
      · rw [if_pos hn] at hg
        obtain ⟨e, he, rfl⟩ := List.mem_map.mp hg
        obtain ⟨p, hp, rfl⟩ := List.mem_map.mp hx
        rw [List.mem_filter] at he hp
        exact ⟨e.2, p.2, hp.1, hp.2, hn, e.1, he.1, he.2⟩
      · rw [if_neg hn] at hg; cases hg
    · simp only [if_neg hsub] at hg ⊢
      cases hb : s.bucket (getKey name) with
      | none => rw [hb] at hg; cases hg
      | some b =>
        rw [hb] at hg
        simp only [List.mem_singleton] at hg; subst hg
        obtain ⟨p, hp, rfl⟩ := List.mem_map.mp hx
        rw [List.mem_filter] at hp
        exact ⟨b, p.2, hp.1, hp.2, rfl⟩
  · rintro ⟨b, kind, hx, hm, hc⟩
    have hpick : x ∈ (b.filter (fun e => f.matches e.2 now)).map (·.1) :=
      List.mem_map.mpr ⟨(x, kind), List.mem_filter.mpr ⟨hx, hm⟩, rfl⟩
    refine ⟨_, ⟨?_, ?_⟩, hpick⟩
    · by_cases hsub : f.subdomain = true
      · rw [if_pos hsub] at hc ⊢
        obtain ⟨hn, k, hk, hp⟩ := hc
        rw [if_pos hn]
        exact List.mem_map.mpr ⟨(k, b), List.mem_filter.mpr ⟨hk, hp⟩, rfl⟩
      · rw [if_neg hsub] at hc ⊢
        rw [hc]; simp
    · cases hq : (b.filter (fun e => f.matches e.2 now)).map (·.1) with
      | nil => rw [hq] at hpick; cases hpick
      | cons _ _ => rfl

/-- the same under the store invariant, in terms of the entries only -/
theorem Inv.mem_getDomain {s : Store} (h : Inv s) {name : Name} {f : Filter} {now : Nat} {x : RR} :
    x ∈ (s.getDomain name f now).flatten ↔
      ∃ k b kind, (k, b) ∈ s.entries ∧ (x, kind) ∈ b ∧ f.matches kind now = true ∧
        (if f.subdomain = true then
            s.nodeExists (getKey name) = true ∧ isPrefixOf (getKey name) k = true
         else k = getKey name) := by
  rw [Mdns.mem_getDomain]
  by_cases hsub : f.subdomain = true
  · simp only [if_pos hsub]
    constructor
    · rintro ⟨b, kind, hx, hm, hn, k, hk, hp⟩; exact ⟨k, b, kind, hk, hx, hm, hn, hp⟩
    · rintro ⟨k, b, kind, hk, hx, hm, hn, hp⟩; exact ⟨b, kind, hx, hm, hn, k, hk, hp⟩
  · simp only [if_neg hsub]
    constructor
    · rintro ⟨b, kind, hx, hm, hb⟩; exact ⟨_, b, kind, Store.bucket_mem hb, hx, hm, rfl⟩
    · rintro ⟨k, b, kind, hk, hx, hm, rfl⟩; exact ⟨b, kind, hx, hm, h.bucket_of_mem hk⟩

/-- a query result, read through the abstract view -/
theorem Inv.abs_of_mem_getDomain {s : Store} (h : Inv s) {name : Name} {f : Filter} {now : Nat}
    {x : RR} (hx : x ∈ (s.getDomain name f now).flatten) :
    ∃ kind, abs s x = some kind ∧ f.matches kind now = true := by
  obtain ⟨k, b, kind, hk, hxb, hm, _⟩ := h.mem_getDomain.mp hx
  exact ⟨kind, h.abs_of_mem hk hxb, hm⟩

/-- what the abstract view holds is returned (as the stored representative of its `rrEq` class) by
the exact query for its owner name and by the subdomain query for every name that has a trie node
and whose key is a prefix of the owner's key -/
theorem getDomain_of_abs {s : Store} {x : RR} {kind : Kind} (hx : abs s x = some kind)
    {f : Filter} {now : Nat} (hm : f.matches kind now = true) {name : Name}
    (hname : if f.subdomain = true then
        s.nodeExists (getKey name) = true ∧ isPrefixOf (getKey name) (getKey x.name) = true
      else name = x.name) :
    ∃ x', rrEq x' x = true ∧ x' ∈ (s.getDomain name f now).flatten := by
  obtain ⟨b, x', hb, hx', he⟩ := mem_of_abs hx
  refine ⟨x', he, mem_getDomain.mpr ⟨b, kind, hx', hm, ?_⟩⟩
  by_cases hsub : f.subdomain = true
  · rw [if_pos hsub] at hname ⊢
    exact ⟨hname.1, _, Store.bucket_mem hb, hname.2⟩
  · rw [if_neg hsub] at hname ⊢
    rw [hname]; exact hb

/-! ### the abstract transition function -/

def absStep (m : RR → Option Kind) : Op → RR → Option Kind
  | .addAuth r => fun x => if rrEq x r = true then some .auth else m x
  | .addCached r now => fun x =>
      if rrEq x r = true then
        (if m r = some .auth then some .auth
         else some (.cached (now + 1000 * (if r.flush = true then 1 else r.ttl))
                (now + 1000 * refreshOffsetSecs (if r.flush = true then 1 else r.ttl))))
      else m x
  | .remove r => fun x => if rrEq x r = true then none else m x
  | .clear => fun _ => none

theorem abs_apply (s : Store) (op : Op) : abs (s.apply op) = absStep (abs s) op := by
  funext x
  cases op with
  | addAuth r => exact abs_addAuth s r x
  | addCached r now => exact abs_addCached s r now x
  | remove r => exact abs_remove s r x
  | clear => rfl

/-- the store refines the abstract map along every history -/
theorem abs_run (s : Store) (ops : List Op) : abs (s.run ops) = ops.foldl absStep (abs s) := by
  induction ops generalizing s with
  | nil => rfl
  | cons op ops ih => rw [Store.run_cons, ih, abs_apply]; rfl

/-- an operation that concerns the record `r` -/
def Op.touches (op : Op) (r : RR) : Bool :=
  match op with
  | .addAuth r' => rrEq r' r
  | .addCached r' _ => rrEq r' r
  | .remove r' => rrEq r' r
  | .clear => true

theorem absStep_untouched (m : RR → Option Kind) {op : Op} {r : RR} (h : op.touches r = false) :
    absStep m op r = m r := by
  cases op with
  | addAuth r' => simp only [Op.touches] at h; simp [absStep, rrEq_comm r r', h]
  | addCached r' now => simp only [Op.touches] at h; simp [absStep, rrEq_comm r r', h]
  | remove r' => simp only [Op.touches] at h; simp [absStep, rrEq_comm r r', h]
  | clear => cases h

theorem abs_run_untouched (s : Store) {ops : List Op} {r : RR}
    (h : ∀ op ∈ ops, op.touches r = false) : abs (s.run ops) r = abs s r := by
  induction ops generalizing s with
  | nil => rfl
  | cons op ops ih =>
    rw [Store.run_cons, ih _ (fun o ho => h o (by simp [ho])), abs_apply,
      absStep_untouched _ (h op (by simp))]

/-! ### `build_reply` -/

theorem mem_dedupRR {l : List RR} {x : RR} (h : x ∈ dedupRR l) : x ∈ l := by
  induction l with
  | nil => cases h
  | cons r rs ih =>
    simp only [dedupRR, List.mem_cons, List.mem_filter] at h ⊢
    rcases h with h | h
    · exact .inl h
    · exact .inr (ih h.1)

/-- every record survives deduplication up to `rrEq` -/
theorem dedupRR_complete {l : List RR} {x : RR} (h : x ∈ l) :
    ∃ x' ∈ dedupRR l, rrEq x x' = true := by
  induction l with
  | nil => cases h
  | cons r rs ih =>
    by_cases hr : rrEq x r = true
    · exact ⟨r, by simp [dedupRR], hr⟩
    · rcases List.mem_cons.mp h with h | h
      · subst h; simp at hr
      · obtain ⟨x', hx', he⟩ := ih h
        refine ⟨x', ?_, he⟩
        simp only [dedupRR, List.mem_cons, List.mem_filter]
        refine .inr ⟨hx', ?_⟩
        cases hq : rrEq x' r with
        | false => rfl
        | true => exact absurd (rrEq_trans he hq) hr

/-- the answers `build_reply` collects over all questions -/
def answersOf (q : Packet) (s : Store) (now : Nat) : List RR :=
  (q.questions.map (fun qu => answersFor s qu now)).flatMap (·.1)

/-- the additional records before deduplication -/
def extrasOf (q : Packet) (s : Store) (now : Nat) : List RR :=
  (q.questions.map (fun qu => answersFor s qu now)).flatMap (·.2)

theorem buildReply_eq_some {q : Packet} {s : Store} {now : Nat} {r : Packet} {u : Bool}
    (h : buildReply q s now = some (r, u)) :
    answersOf q s now ≠ [] ∧ r.answers = answersOf q s now ∧
    r.additional = dedupRR (extrasOf q s now) ∧ r.questions = [] ∧ r.nameServers = [] ∧
    r.header = { id := q.header.id, opcode := .StandardQuery, rcode := .NoError,
                 flags := 0x8000, opt := none } ∧
    u = q.questions.any (·.unicast) := by
  unfold buildReply at h
  simp only at h
  split at h
  · cases h
  · rename_i hne
    simp only [Option.some.injEq, Prod.mk.injEq] at h
    obtain ⟨rfl, rfl⟩ := h
    refine ⟨?_, rfl, rfl, rfl, rfl, rfl, rfl⟩
    intro h0; exact hne (by unfold answersOf at h0; rw [h0]; rfl)

theorem buildReply_eq_none {q : Packet} {s : Store} {now : Nat} :
    buildReply q s now = none ↔ answersOf q s now = [] := by
  unfold buildReply answersOf
  simp only
  split
  · rename_i h; simp only [List.isEmpty_iff] at h; simp [h]
  · rename_i h; simp only [List.isEmpty_iff] at h; simp [h]

theorem buildReply_isSome_of_mem {q : Packet} {s : Store} {now : Nat} {a : RR}
    (h : a ∈ answersOf q s now) : ∃ r u, buildReply q s now = some (r, u) ∧ a ∈ r.answers := by
  cases hb : buildReply q s now with
  | none => rw [buildReply_eq_none.mp hb] at h; cases h
  | some p =>
    obtain ⟨r, u⟩ := p
    exact ⟨r, u, rfl, by rw [(buildReply_eq_some hb).2.1]; exact h⟩

theorem mem_answersFor {s : Store} {qu : Question} {now : Nat} {a : RR} :
    a ∈ (answersFor s qu now).1 ↔
      a ∈ (s.getDomain qu.name (Filter.auth true) now).flatten ∧
      a.matchQClass qu.qclass = true ∧ a.matchQType qu.qtype = true := by
  simp only [answersFor, List.mem_filter, Bool.and_eq_true]

theorem mem_answersOf {q : Packet} {s : Store} {now : Nat} {a : RR} :
    a ∈ answersOf q s now ↔ ∃ qu ∈ q.questions,
      a ∈ (s.getDomain qu.name (Filter.auth true) now).flatten ∧
      a.matchQClass qu.qclass = true ∧ a.matchQType qu.qtype = true := by
  unfold answersOf
  simp only [List.mem_flatMap, List.mem_map]
  constructor
  · rintro ⟨p, ⟨qu, hqu, rfl⟩, ha⟩; exact ⟨qu, hqu, mem_answersFor.mp ha⟩
  · rintro ⟨qu, hqu, ha⟩; exact ⟨_, ⟨qu, hqu, rfl⟩, mem_answersFor.mpr ha⟩

theorem mem_extrasOf {q : Packet} {s : Store} {now : Nat} {x : RR} :
    x ∈ extrasOf q s now ↔ ∃ qu ∈ q.questions, ∃ a ∈ (answersFor s qu now).1, ∃ t,
      srvTarget a.rdata = some t ∧
      x ∈ (s.getDomain t (Filter.auth false) now).flatten ∧
      (x.matchQType (.TYPE .A) = true ∨ x.matchQType (.TYPE .AAAA) = true) ∧
      x.matchQClass qu.qclass = true := by
  unfold extrasOf
  simp only [List.mem_flatMap, List.mem_map]
  constructor
  · rintro ⟨p, ⟨qu, hqu, rfl⟩, hx⟩
    simp only [answersFor, List.mem_flatMap] at hx
    obtain ⟨a, ha, hx⟩ := hx
    refine ⟨qu, hqu, a, ha, ?_⟩
    cases ht : srvTarget a.rdata with
    | none => rw [ht] at hx; cases hx
    | some t =>
      rw [ht] at hx
      simp only [List.mem_filter, Bool.and_eq_true, Bool.or_eq_true] at hx
      exact ⟨t, rfl, hx.1, hx.2.1, hx.2.2⟩
  · rintro ⟨qu, hqu, a, ha, t, ht, hx, hty, hcl⟩
    refine ⟨_, ⟨qu, hqu, rfl⟩, ?_⟩
    simp only [answersFor, List.mem_flatMap]
    refine ⟨a, ha, ?_⟩
    rw [ht]
    simp only [List.mem_filter, Bool.and_eq_true, Bool.or_eq_true]
    exact ⟨hx, hty, hcl⟩

theorem matchQType_A {x : RR} (h : x.matchQType (.TYPE .A) = true) : x.rdata.typeOf = .A := by
  simp only [RR.matchQType, matchQType, beq_iff_eq] at h; exact h.symm

theorem matchQType_AAAA {x : RR} (h : x.matchQType (.TYPE .AAAA) = true) : x.rdata.typeOf = .AAAA := by
  simp only [RR.matchQType, matchQType, beq_iff_eq] at h; exact h.symm

end Dns.Mdns
