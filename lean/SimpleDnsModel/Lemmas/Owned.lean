/-
Lemmas for C16: `into_owned` rebuilds every value unchanged; the insertion sort used by
`Hash for InstanceInformation` is a canonical form of a set; `ipKey` separates addresses.
Helper lemmas live in `Dns.OwnedL` so they cannot clash with other lemma files.
-/
import SimpleDnsModel.Model.Owned
import SimpleDnsModel.Model.Compress
namespace Dns

/-- `Packet::into_owned`: the header is kept (its EDNS data converted), the four sections are
mapped element by element -/
def Packet.intoOwned (p : Packet) : Packet :=
  { header := { id := p.header.id, opcode := p.header.opcode, rcode := p.header.rcode,
                flags := p.header.flags, opt := p.header.opt.map OptData.intoOwned }
    questions := p.questions.map Question.intoOwned
    answers := p.answers.map RR.intoOwned
    nameServers := p.nameServers.map RR.intoOwned
    additional := p.additional.map RR.intoOwned }

namespace OwnedL

theorem map_eq_self {f : α → α} (h : ∀ a, f a = a) (l : List α) : l.map f = l := by
  induction l with
  | nil => rfl
  | cons x xs ih => simp [h x, ih]

theorem label (l : Label) : Label.intoOwned l = l := by simp [Label.intoOwned]

theorem name (n : Name) : Name.intoOwned n = n := map_eq_self label n

theorem tlvs (xs : List (Nat × Bytes)) : (xs.map fun x => (x.1, x.2.map id)) = xs :=
  map_eq_self (fun x => by simp) xs

theorem val (v : Val) : Val.intoOwned v = v := by
  cases v with
  | int n => rfl
  | bytes b => simp [Val.intoOwned]
  | name n => simp [Val.intoOwned, name]
  | strs ss => simp [Val.intoOwned]
  | tlvs xs => simp only [Val.intoOwned, tlvs]

theorem gateway (g : Gateway) : Gateway.intoOwned g = g := by
  cases g <;> simp [Gateway.intoOwned, name]

theorem optData (o : OptData) : OptData.intoOwned o = o := by
  cases o; simp only [OptData.intoOwned, tlvs]

theorem rdata (rd : RData) : RData.intoOwned rd = rd := by
  cases rd with
  | flat code vs => simp only [RData.intoOwned, map_eq_self val]
  | ipseckey p a g k => simp [RData.intoOwned, gateway]
  | opt o => simp only [RData.intoOwned, optData]
  | null c d => simp [RData.intoOwned]
  | empty t => rfl

theorem rr (r : RR) : RR.intoOwned r = r := by
  cases r; simp only [RR.intoOwned, name, rdata]

theorem question (q : Question) : Question.intoOwned q = q := by
  cases q; simp only [Question.intoOwned, name]

theorem packet (p : Packet) : Packet.intoOwned p = p := by
  obtain ⟨⟨i, oc, rc, fl, o⟩, qs, an, ns, ar⟩ := p
  have ho : o.map OptData.intoOwned = o := by cases o <;> simp [optData]
  simp only [Packet.intoOwned, map_eq_self rr, map_eq_self question, ho]

/-! ### the insertion sort is a canonical form -/

open Mdns

theorem insert_perm (x : Nat) (l : List Nat) : (insertSortedNat x l).Perm (x :: l) := by
  induction l with
  | nil => exact List.Perm.refl _
  | cons y ys ih =>
    unfold insertSortedNat
    split
    · exact List.Perm.refl _
    · exact (List.Perm.cons y ih).trans (List.Perm.swap x y ys)

theorem sort_perm (l : List Nat) : (sortNat l).Perm l := by
  induction l with
  | nil => exact List.Perm.refl _
  | cons x xs ih =>
    show (insertSortedNat x (sortNat xs)).Perm (x :: xs)
    exact (insert_perm x _).trans (List.Perm.cons x ih)

theorem insert_sorted (x : Nat) (l : List Nat) (h : l.Pairwise (· ≤ ·)) :
    (insertSortedNat x l).Pairwise (· ≤ ·) := by
  induction l with
  | nil => simp [insertSortedNat]
  | cons y ys ih =>
    unfold insertSortedNat
    rw [List.pairwise_cons] at h
    split
    · rename_i hxy
      refine List.pairwise_cons.mpr ⟨?_, List.pairwise_cons.mpr h⟩
      intro z hz
      rcases List.mem_cons.mp hz with rfl | hz
      · exact hxy
      · exact Nat.le_trans hxy (h.1 z hz)
    · rename_i hxy
      refine List.pairwise_cons.mpr ⟨?_, ih h.2⟩
      intro z hz
      rcases List.mem_cons.mp ((insert_perm x ys).mem_iff.mp hz) with rfl | hz
      · omega
      · exact h.1 z hz

theorem sort_sorted (l : List Nat) : (sortNat l).Pairwise (· ≤ ·) := by
  induction l with
  | nil => exact List.Pairwise.nil
  | cons x xs ih => exact insert_sorted x _ ih

/-- sorting forgets the order of insertion -/
theorem sort_eq_of_perm {l₁ l₂ : List Nat} (h : l₁.Perm l₂) : sortNat l₁ = sortNat l₂ :=
  List.Perm.eq_of_pairwise (le := (· ≤ ·)) (fun _ _ _ _ h1 h2 => Nat.le_antisymm h1 h2)
    (sort_sorted l₁) (sort_sorted l₂) (((sort_perm l₁).trans h).trans (sort_perm l₂).symm)

/-- two duplicate-free lists with the same members sort to the same list (also after mapping) -/
theorem sort_map_eq_of_same_members {α : Type} (f : α → Nat) {l₁ l₂ : List α}
    (d₁ : l₁.Nodup) (d₂ : l₂.Nodup) (h : ∀ a, a ∈ l₁ ↔ a ∈ l₂) :
    sortNat (l₁.map f) = sortNat (l₂.map f) :=
  sort_eq_of_perm (((List.perm_ext_iff_of_nodup d₁ d₂).mpr h).map f)

theorem mem_sort (l : List Nat) (x : Nat) : x ∈ sortNat l ↔ x ∈ l := (sort_perm l).mem_iff

theorem sort_nodup {l : List Nat} (h : l.Nodup) : (sortNat l).Nodup :=
  (sort_perm l).nodup_iff.mpr h

end OwnedL

namespace Mdns

/-- well-formed addresses: an IPv4 address is a 32-bit number -/
def Instance.AddrOK (i : Instance) : Prop := ∀ ip ∈ i.ips, ip.1 = false → ip.2 < 2 ^ 32

/-- on well-formed addresses the sort key separates distinct addresses -/
theorem ipKey_inj {a b : Bool × Nat} (ha : a.1 = false → a.2 < 2 ^ 32)
    (hb : b.1 = false → b.2 < 2 ^ 32) (h : ipKey a = ipKey b) : a = b := by
  obtain ⟨a1, a2⟩ := a
  obtain ⟨b1, b2⟩ := b
  unfold ipKey at h
  cases a1 <;> cases b1 <;> simp at ha hb h ⊢ <;> omega

end Mdns
end Dns
