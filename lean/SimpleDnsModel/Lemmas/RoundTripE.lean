/-
Round trip, part E: the whole message. `buildG false` is the plain builder;
for either writer, `Packet.parse ∘ Packet.buildG c` is the identity on
well-formed packets, and the output is never longer than the plain one.
-/
import SimpleDnsModel.Lemmas.RoundTripD
import SimpleDnsModel.Lemmas.RoundTripH
namespace Dns

/-! ### `buildG false` is `build` (no side condition) -/

theorem RData.writeG_false (rd : RData) (off : Nat) (t : Table) :
    rd.writeG false off t = (do let b ← rd.write; pure (b, t)) := by
  cases rd with
  | flat code vs =>
    simp only [RData.writeG, RData.write]
    cases schemaOf code with
    | none => rfl
    | some ks =>
      simp only
      split
      · rw [encAllG_false]; rfl
      · rfl
  | _ => rfl

theorem RR.writeG_false (r : RR) (off : Nat) (t : Table) :
    r.writeG false off t = (do let b ← r.write; pure (b, t)) := by
  unfold RR.writeG RR.write
  simp only [nameG_false, RData.writeG_false]
  cases r.rdata.write <;> rfl

theorem writeRRsG_false (rs : List RR) : ∀ (off : Nat) (t : Table),
    writeRRsG false rs off t = (do let b ← writeRRs rs; pure (b, t)) := by
  induction rs with
  | nil => intro off t; rfl
  | cons r rs ih =>
    intro off t
    simp only [writeRRsG, writeRRs, RR.writeG_false]
    cases r.write with
    | ok a =>
      simp only [Out.bind_ok, Out.pure_eq, ih]
      cases writeRRs rs <;> rfl
    | err => rfl
    | panic => rfl

theorem writeQuestionsG_false (qs : List Question) : ∀ (off : Nat) (t : Table),
    writeQuestionsG false qs off t = (writeQuestions qs, t) := by
  induction qs with
  | nil => intro off t; rfl
  | cons q qs ih =>
    intro off t
    simp [writeQuestionsG, writeQuestions, Question.writeG, Question.write, nameG_false, ih]

theorem Packet.buildG_false (p : Packet) : p.buildG false = p.build := by
  unfold Packet.buildG Packet.build
  simp only [writeQuestionsG_false, writeRRsG_false]
  cases writeRRs p.answers with
  | ok an =>
    simp only [Out.bind_ok, Out.pure_eq]
    cases writeRRs p.nameServers with
    | ok ns =>
      simp only [Out.bind_ok]
      cases writeRRs p.header.optRR.toList with
      | ok o =>
        simp only [Out.bind_ok]
        cases writeRRs p.additional <;> rfl
      | err => rfl
      | panic => rfl
    | err => rfl
    | panic => rfl
  | err => rfl
  | panic => rfl

/-! ### the additional section and the OPT pseudo-record -/

theorem parseRRs_append (d : Bytes) (n1 : Nat) : ∀ (n2 pos : Nat) (l1 l2 : List RR) (p1 p2 : Nat),
    parseRRs d n1 pos = .ok (l1, p1) → parseRRs d n2 p1 = .ok (l2, p2) →
    parseRRs d (n1 + n2) pos = .ok (l1 ++ l2, p2) := by
  induction n1 with
  | zero =>
    intro n2 pos l1 l2 p1 p2 h1 h2
    simp only [parseRRs] at h1
    cases h1
    simpa using h2
  | succ n ih =>
    intro n2 pos l1 l2 p1 p2 h1 h2
    simp only [parseRRs] at h1
    obtain ⟨⟨r, q⟩, hr, h1⟩ := Out.bind_eq_ok h1
    obtain ⟨⟨rs, q'⟩, hrs, h1⟩ := Out.bind_eq_ok h1
    simp only [Out.pure_eq, Out.ok.injEq, Prod.mk.injEq] at h1
    obtain ⟨rfl, rfl⟩ := h1
    have := ih n2 q rs l2 q' p2 hrs h2
    rw [show n + 1 + n2 = (n + n2) + 1 by omega]
    simp only [parseRRs, hr, Out.bind_ok, this, Out.pure_eq, List.cons_append]

theorem liftOpt_none (l : List RR) (h : ∀ r ∈ l, r.rdata.typeOf ≠ .OPT) : liftOpt l = (none, l) := by
  induction l with
  | nil => rfl
  | cons r rs ih =>
    simp only [liftOpt]
    rw [if_neg (h r (by simp)), ih (fun x hx => h x (by simp [hx]))]

/-- the OPT pseudo-record of a well-formed header is a well-formed record -/
theorem Header.optRR_WF (h : Header) (o : OptData) (ho : (RData.opt o).WF) :
    ({ name := [], cls := .IN, ttl := encodeTtl o h, rdata := .opt o, flush := false } : RR).WF := by
  have hv : o.version < 256 := ho.1.2.1
  obtain ⟨h1, h2, _⟩ := rcode_with_opt h.rcode o.version hv
  refine ⟨by show Name.WF []; decide, ?_, ho, ?_⟩
  · rw [encodeTtl_eq]; exact h1
  · show CLASS.IN = CLASS.IN ∧ false = false ∧ o.version = (encodeTtl o h >>> 8) % 256
    rw [encodeTtl_eq]
    exact ⟨rfl, rfl, h2⟩

/-! ### the message -/

theorem Packet.buildG_parse (c : Bool) (p : Packet) (hwf : p.WF) :
    ∃ b, p.buildG c = .ok b ∧ Packet.parse b = .ok p ∧
      ∃ pb, p.build = .ok pb ∧ b.length ≤ pb.length := by
  obtain ⟨hH, hqd, han, hns, har, hqs, hans, hnss, hars, hnoopt⟩ := hwf
  obtain ⟨hid, hfl, hopt⟩ := hH
  -- the writers, section by section
  have hhl : p.writeHeader.length = 12 := by simp [Packet.writeHeader, Header.write]
  have hQ := writeQuestionsG_spec c p.questions 12 [] p.writeHeader hqs hhl (TInv.nil _)
  generalize hqsb : writeQuestionsG c p.questions 12 [] = qs at hQ
  obtain ⟨an, t1, hwan, hsan⟩ := writeRRsG_spec c p.answers (12 + qs.1.length) qs.2 hans
  have hAN := hsan (p.writeHeader ++ qs.1) (by simp [hhl]) hQ.inv
  obtain ⟨ns, t2, hwns, hsns⟩ := writeRRsG_spec c p.nameServers (12 + qs.1.length + an.length) t1 hnss
  have hNS := hsns (p.writeHeader ++ qs.1 ++ an) (by simp [hhl]; omega) hAN.inv
  have hoptwf : ∀ r ∈ p.header.optRR.toList, r.WF := by
    intro r hr
    cases ho : p.header.opt with
    | none => simp [Header.optRR, ho] at hr
    | some o =>
      rw [ho] at hopt
      simp only [Header.optRR, ho, Option.map_some, Option.toList_some, List.mem_singleton] at hr
      subst hr
      exact Header.optRR_WF p.header o hopt
  obtain ⟨ob, t2', hwo, hso⟩ := writeRRsG_spec false p.header.optRR.toList
    (12 + qs.1.length + an.length + ns.length) t2 hoptwf
  have hwo' : writeRRs p.header.optRR.toList = .ok ob ∧ t2' = t2 := by
    rw [writeRRsG_false] at hwo
    cases hw : writeRRs p.header.optRR.toList with
    | ok x => rw [hw] at hwo; simp at hwo; exact ⟨by rw [hwo.1], hwo.2.symm⟩
    | err => rw [hw] at hwo; cases hwo
    | panic => rw [hw] at hwo; cases hwo
  obtain ⟨hwo1, rfl⟩ := hwo'
  have hO := hso (p.writeHeader ++ qs.1 ++ an ++ ns) (by simp [hhl]; omega) hNS.inv
  obtain ⟨ar, t3, hwar, hsar⟩ := writeRRsG_spec c p.additional
    (12 + qs.1.length + an.length + ns.length + ob.length) t2' hars
  have hAR := hsar (p.writeHeader ++ qs.1 ++ an ++ ns ++ ob) (by simp [hhl]; omega) hO.inv
  -- the builder
  have hbuild : p.buildG c = .ok (p.writeHeader ++ (qs.1 ++ (an ++ (ns ++ (ob ++ ar))))) := by
    unfold Packet.buildG
    simp only [hhl, hqsb, hwan, Out.bind_ok, hwns, hwo1, hwar, Out.pure_eq]
  refine ⟨_, hbuild, ?_, ?_⟩
  · -- the parser
    have hcnt : p.additional.length % 65536 + (if p.header.opt.isSome then 1 else 0)
        = p.header.optRR.toList.length + p.additional.length := by
      have : p.additional.length % 65536 = p.additional.length := Nat.mod_eq_of_lt (by omega)
      rw [this]
      cases ho : p.header.opt with
      | none => simp [Header.optRR, ho]
      | some o => simp [Header.optRR, ho]; omega
    obtain ⟨hhp, hgf⟩ := header_parse_built p.header p.questions.length p.answers.length
      p.nameServers.length (p.additional.length % 65536 + (if p.header.opt.isSome then 1 else 0))
      (qs.1 ++ (an ++ (ns ++ (ob ++ ar)))) hid hfl
    obtain ⟨hp1, hp2, hp3, hp4⟩ := peek_built p.header p.questions.length p.answers.length
      p.nameServers.length (p.additional.length % 65536 + (if p.header.opt.isSome then 1 else 0))
      (qs.1 ++ (an ++ (ns ++ (ob ++ ar)))) hid hgf (by omega) (by omega) (by omega)
      (by have : p.additional.length % 65536 ≤ p.additional.length := Nat.mod_le _ _
          omega)
    have e1 := hQ.dec (an ++ (ns ++ (ob ++ ar)))
    have e2 := hAN.dec (ns ++ (ob ++ ar))
    have e3 := hNS.dec (ob ++ ar)
    have e4 := hO.dec ar
    have e5 := hAR.dec []
    simp only [List.append_assoc, List.length_append, List.append_nil, hhl, Nat.add_assoc] at e1 e2 e3 e4 e5
    have e45 := parseRRs_append _ _ _ _ _ _ _ _ e4 e5
    rw [← hcnt] at e45
    unfold Packet.parse
    simp only [Packet.writeHeader] at hhp hp1 hp2 hp3 hp4 e1 e2 e3 e45 ⊢
    simp only [hhp, Out.bind_ok, hp1, e1, hp2, e2, hp3, e3, hp4, e45]
    -- the OPT record is lifted back into the header
    cases ho : p.header.opt with
    | none =>
      have hl : liftOpt (p.header.optRR.toList ++ p.additional) = (none, p.additional) := by
        simp only [Header.optRR, ho, Option.map_none, Option.toList_none, List.nil_append]
        exact liftOpt_none _ (hnoopt ho)
      rw [hl]
      simp only [Header.extractOpt, Out.bind_ok, Out.pure_eq]
      rw [ho] at hopt
      rw [rcode_without_opt _ hopt]
      obtain ⟨⟨id, opc, rc, fl, opt⟩, q, a, n, x⟩ := p
      simp only at ho
      subst ho
      rfl
    | some o =>
      have hl : liftOpt (p.header.optRR.toList ++ p.additional)
          = (some { name := [], cls := .IN, ttl := encodeTtl o p.header, rdata := .opt o,
                    flush := false }, p.additional) := by
        simp only [Header.optRR, ho, Option.map_some, Option.toList_some, List.cons_append,
          List.nil_append, liftOpt, RData.typeOf, if_true]
      rw [hl]
      rw [ho] at hopt
      have hv : o.version < 256 := hopt.1.2.1
      obtain ⟨_, _, h3⟩ := rcode_with_opt p.header.rcode o.version hv
      simp only [Header.extractOpt, Out.bind_ok, Out.pure_eq, extractRcode, encodeTtl_eq, h3]
      obtain ⟨⟨id, opc, rc, fl, opt⟩, q, a, n, x⟩ := p
      simp only at ho
      subst ho
      rfl
  · -- never longer than the plain message
    obtain ⟨pan, hpan, hlan, _⟩ := hAN.plain
    obtain ⟨pns, hpns, hlns, _⟩ := hNS.plain
    obtain ⟨par, hpar, hlar, _⟩ := hAR.plain
    refine ⟨p.writeHeader ++ (writeQuestions p.questions ++ (pan ++ (pns ++ (ob ++ par)))), ?_, ?_⟩
    · unfold Packet.build
      simp only [hpan, hpns, hwo1, hpar, Out.bind_ok, Out.pure_eq]
    · have := hQ.le
      simp only [List.length_append]
      omega

end Dns
