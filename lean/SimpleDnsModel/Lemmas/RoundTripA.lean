/-
Round trip, part A: names. The suffix-table invariant of `compressName`
(every entry is a complete backward encoding in the bytes written so far),
the specification shared by the plain and the compressing name writer
(`nameG_spec`), and parser completeness for an encoding with a known in-place
end (`Name.parse_of_Enc_end`).
-/
import SimpleDnsModel.Lemmas.Name
import SimpleDnsModel.Model.Compress
import SimpleDnsModel.Model.WF
namespace Dns

/-! ### generic helpers -/

theorem InPlaceEnd.append {d : Bytes} {off e : Nat} (x : Bytes) (h : InPlaceEnd d off e) :
    InPlaceEnd (d ++ x) off e := by
  induction h with
  | root h0 => exact InPlaceEnd.root (getElem?_append_some h0)
  | label hb h1 h63 _ ih => exact InPlaceEnd.label (getElem?_append_some hb) h1 h63 ih
  | ptr hb hp => exact InPlaceEnd.ptr (getElem?_append_some hb) hp

/-- the parser returns the name of a backward-pointer encoding and stops at its in-place end -/
theorem Name.parse_of_Enc_end {d : Bytes} {off e : Nat} {n : Name}
    (hE : Enc d off n) (hI : InPlaceEnd d off e) (hlen : Name.wireLen n ≤ 255) :
    Name.parse d off = .ok (n, e) := by
  obtain ⟨p, hp⟩ := Name.parse_of_Enc hE hlen
  rw [hp, InPlaceEnd.det (Name.parse_cursor hp) hI]

/-- a slice that is the middle part of a buffer given as a three-way split -/
theorem slice_at {d a m z : Bytes} {x y : Nat} (hd : d = a ++ (m ++ z)) (hx : x = a.length)
    (hy : y = a.length + m.length) : slice d x y = .ok m := by
  subst hd; exact slice_mid a m z x y hx hy

theorem idx_at {d a z : Bytes} {b : UInt8} {x : Nat} (hd : d = a ++ (b :: z)) (hx : x = a.length) :
    idx d x = .ok b := by
  subst hd hx; simp [idx]

/-! ### the table invariant -/

def LabelsOK (n : Name) : Prop := ∀ l ∈ n, 1 ≤ l.length ∧ l.length ≤ 63

theorem Name.WF.labelsOK {n : Name} (h : Name.WF n) : LabelsOK n := h.1

/-- a table entry that can be pointed at: a non-empty suffix whose complete encoding starts at an
offset a 14-bit pointer can hold -/
def Good (out : Bytes) (e : Name × Nat) : Prop := e.1 ≠ [] ∧ e.2 ≤ 0x3FFF ∧ Enc out e.2 e.1

/-- the table invariant relative to the message prefix written so far -/
def TInv (out : Bytes) (t : Table) : Prop := ∀ e ∈ t, Good out e

theorem Good.append {out : Bytes} {e : Name × Nat} (x : Bytes) (h : Good out e) :
    Good (out ++ x) e := ⟨h.1, h.2.1, h.2.2.append x⟩

theorem TInv.append {out : Bytes} {t : Table} (x : Bytes) (h : TInv out t) : TInv (out ++ x) t :=
  fun e he => (h e he).append x

theorem TInv.nil (out : Bytes) : TInv out [] := fun _ h => by cases h

theorem Table.find_mem {t : Table} {n : Name} {off : Nat} (h : Table.find t n = some off) :
    (n, off) ∈ t := by
  induction t with
  | nil => simp [Table.find] at h
  | cons e rest ih =>
    obtain ⟨m, o⟩ := e
    simp only [Table.find] at h
    split at h
    · rename_i hm; simp at h; subst hm; subst h; simp
    · exact List.mem_cons_of_mem _ (ih h)

/-! ### pointer bytes -/

theorem ptr_or_table : ∀ hi < 64, ∀ lo < 256, (hi * 256 + lo) ||| 0xC000 = 0xC000 + hi * 256 + lo := by
  decide +kernel

theorem ptr_bits : ∀ k < 64, (192 + k) &&& 192 = 192 ∧ (192 + k) &&& 63 = k := by decide

theorem ptr_or (p : Nat) (h : p ≤ 0x3FFF) : p ||| 0xC000 = 0xC000 + p := by
  have := ptr_or_table (p / 256) (by omega) (p % 256) (by omega)
  rw [Nat.div_add_mod' p 256] at this
  omega

/-- the two bytes of a compression pointer to `p` -/
theorem ptr_bytes (p : Nat) (h : p ≤ 0x3FFF) :
    beN 2 (p ||| 0xC000) = [UInt8.ofNat (192 + p / 256), UInt8.ofNat (p % 256)] := by
  rw [ptr_or p h]
  have h1 : (0xC000 + p) / 256 = 192 + p / 256 := by omega
  have h2 : (0xC000 + p) % 256 = p % 256 := by omega
  simp [beN, h1, h2]

/-! ### `compressName` -/

/-- Specification of `Name::compress_append` against the bytes `out` already written
(`out.length = off`). Entries of the table are complete encodings in `out` or *pending* (suffixes
strictly longer than the name being written, whose encoding ends with this name). -/
theorem compressName_spec' (n : Name) : ∀ (off : Nat) (t : Table) (out : Bytes),
    LabelsOK n → out.length = off →
    (∀ e ∈ t, Good out e ∨ e.1.length > n.length) →
    Enc (out ++ (compressName n off t).1) off n ∧
    InPlaceEnd (out ++ (compressName n off t).1) off (off + (compressName n off t).1.length) ∧
    (∀ e ∈ (compressName n off t).2, e ∈ t ∨ Good (out ++ (compressName n off t).1) e) ∧
    (compressName n off t).1.length ≤ Name.wireLen n := by
  induction n with
  | nil =>
    intro off t out _ hlen _
    subst hlen
    simp only [compressName]
    exact ⟨Enc.root (by simp), InPlaceEnd.root (by simp), fun e he => Or.inl he, by simp⟩
  | cons l rest ih =>
    intro off t out hok hlen hinv
    subst hlen
    simp only [compressName]
    split
    · -- found: emit a pointer
      rename_i p hfind
      have hmem := Table.find_mem hfind
      have hgood : Good out (l :: rest, p) := by
        rcases hinv _ hmem with h | h
        · exact h
        · simp at h
      obtain ⟨_, hp, henc⟩ := hgood
      simp only at hp henc
      have hlt := henc.lt_length
      have hk : p / 256 < 64 := by omega
      obtain ⟨hb1, hb2⟩ := ptr_bits (p / 256) hk
      have e1 : (UInt8.ofNat (192 + p / 256)).toNat = 192 + p / 256 := by
        simp [UInt8.toNat_ofNat']; omega
      have e2 : (UInt8.ofNat (p % 256)).toNat = p % 256 := by
        simp [UInt8.toNat_ofNat']
      rw [ptr_bytes p hp]
      refine ⟨?_, ?_, fun e he => Or.inl he, by
        have := hok l (by simp); have := Name.wireLen_pos rest; simp; omega⟩
      · refine Enc.ptr (b := UInt8.ofNat (192 + p / 256)) (b2 := UInt8.ofNat (p % 256))
          (by simp) (by rw [e1]; exact hb1) (by simp) ?_ (by simp) ?_
        · rw [e1, e2, hb2]; omega
        · rw [e1, e2, hb2]
          have : p / 256 * 256 + p % 256 = p := by omega
          rw [this]; exact henc.append _
      · exact InPlaceEnd.ptr (b := UInt8.ofNat (192 + p / 256)) (by simp) (by rw [e1]; exact hb1)
    · -- not found: write the label, recurse
      rename_i hfind
      have hl := hok l (by simp)
      have hokr : LabelsOK rest := fun x hx => hok x (by simp [hx])
      let out2 := out ++ (UInt8.ofNat l.length :: l)
      let t2 : Table := if out.length ≤ 0x3FFF then (l :: rest, out.length) :: t else t
      have hout2len : out2.length = out.length + 1 + l.length := by simp [out2]; omega
      have hinv2 : ∀ e ∈ t2, Good out2 e ∨ e.1.length > rest.length := by
        intro e he
        have : e = (l :: rest, out.length) ∨ e ∈ t := by
          simp only [t2] at he; split at he
          · simpa using he
          · exact Or.inr he
        rcases this with h | h
        · subst h; right; simp
        · rcases hinv e h with g | g
          · left; exact g.append _
          · right; simp at g ⊢; omega
      obtain ⟨henc, hend, hnew, hlenle⟩ := ih (out.length + 1 + l.length) t2 out2 hokr hout2len hinv2
      generalize hr : compressName rest (out.length + 1 + l.length) t2 = r at henc hend hnew hlenle
      have hlen : (UInt8.ofNat l.length).toNat = l.length := by
        simp [UInt8.toNat_ofNat']; omega
      have hbuf : out ++ (UInt8.ofNat l.length :: (l ++ r.1)) = out2 ++ r.1 := by simp [out2]
      have hb : (out2 ++ r.1)[out.length]? = some (UInt8.ofNat l.length) := by simp [out2]
      simp only [hbuf]
      have hfull : Enc (out2 ++ r.1) out.length (l :: rest) := by
        refine Enc.label hb (by rw [hlen]; exact hl.1) (by rw [hlen]; exact hl.2) ?_ ?_ ?_
        · rw [hlen]; simp [out2]
        · rw [hlen]; simp [out2]; omega
        · rw [hlen]; exact henc
      refine ⟨hfull, ?_, ?_, ?_⟩
      · refine InPlaceEnd.label hb (by rw [hlen]; exact hl.1) (by rw [hlen]; exact hl.2) ?_
        rw [hlen]
        have : out.length + (UInt8.ofNat l.length :: (l ++ r.1)).length
            = out.length + 1 + l.length + r.1.length := by simp; omega
        rw [this]; exact hend
      · intro e he
        rcases hnew e he with h | h
        · by_cases hc : out.length ≤ 0x3FFF
          · have : e = (l :: rest, out.length) ∨ e ∈ t := by
              simpa [t2, hc] using h
            rcases this with h' | h'
            · right; subst h'; exact ⟨by simp, hc, hfull⟩
            · left; exact h'
          · left; simpa [t2, hc] using h
        · right; exact h
      · simp; omega

/-- the table only grows -/
theorem compressName_table_mono (n : Name) : ∀ (off : Nat) (t : Table),
    ∀ e ∈ t, e ∈ (compressName n off t).2 := by
  induction n with
  | nil => intro off t e he; simpa [compressName] using he
  | cons l rest ih =>
    intro off t e he
    simp only [compressName]
    split
    · exact he
    · apply ih
      split
      · exact List.mem_cons_of_mem _ he
      · exact he

/-! ### the name writer of both paths -/

/-- what a name writer guarantees about the bytes `b` it appends after `out` and the table `t'` it
leaves: `b` is an encoding of `n` at `out.length` with the in-place end just after `b`, the table
invariant holds for the longer prefix, and `b` is no longer than the plain encoding -/
structure NameSpec (out : Bytes) (n : Name) (b : Bytes) (t' : Table) : Prop where
  enc : Enc (out ++ b) out.length n
  fin : InPlaceEnd (out ++ b) out.length (out.length + b.length)
  inv : TInv (out ++ b) t'
  le : b.length ≤ Name.wireLen n
  pos : 1 ≤ b.length

theorem compressName_spec (n : Name) (off : Nat) (t : Table) (out : Bytes)
    (hok : LabelsOK n) (hlen : out.length = off) (hinv : TInv out t) :
    NameSpec out n (compressName n off t).1 (compressName n off t).2 := by
  obtain ⟨h1, h2, h3, h4⟩ := compressName_spec' n off t out hok hlen (fun e he => Or.inl (hinv e he))
  subst hlen
  refine ⟨h1, h2, ?_, h4, ?_⟩
  · intro e he
    rcases h3 e he with h | h
    · exact (hinv e h).append _
    · exact h
  · cases n <;> simp only [compressName]
    · simp
    · split <;> simp

theorem nameG_spec (c : Bool) (n : Name) (off : Nat) (t : Table) (out : Bytes)
    (hok : LabelsOK n) (hlen : out.length = off) (hinv : TInv out t) :
    NameSpec out n (nameG c n off t).1 (nameG c n off t).2 := by
  cases c
  · simp only [nameG, Bool.false_eq_true, if_false]
    obtain ⟨hE, hI⟩ := Name.write_Enc n hok out []
    simp only [List.append_nil] at hE hI
    refine ⟨hE, ?_, hinv.append _, by rw [Name.write_length]; exact Nat.le_refl _, ?_⟩
    · rw [Name.write_length]; exact hI
    · rw [Name.write_length]; exact Name.wireLen_pos n
  · simp only [nameG, if_true]
    exact compressName_spec n off t out hok hlen hinv

theorem nameG_false (n : Name) (off : Nat) (t : Table) : nameG false n off t = (Name.write n, t) := by
  simp [nameG]

/-- parsing a name written by either path, with anything after it -/
theorem NameSpec.parse {out : Bytes} {n : Name} {b : Bytes} {t' : Table}
    (h : NameSpec out n b t') (hlen : Name.wireLen n ≤ 255) (post : Bytes) :
    Name.parse (out ++ (b ++ post)) out.length = .ok (n, out.length + b.length) := by
  rw [← List.append_assoc]
  exact Name.parse_of_Enc_end (h.enc.append post) (h.fin.append post) hlen

end Dns
