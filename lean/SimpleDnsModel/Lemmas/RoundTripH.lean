/-
Round trip, part H: the header. Every flags value inside the seven flag bits is
one of the 128 subsets of C08's `flagSet`, so `build_table` (C08) applies to
every well-formed header; the response code with and without the OPT record.
-/
import SimpleDnsModel.Props.C08
import SimpleDnsModel.Model.WF
namespace Dns

/-- index of a flags word in C08's enumeration `flagSet` -/
def flagIdx (w : Nat) : Nat :=
  w / 32768 % 2 + 2 * (w / 1024 % 2) + 4 * (w / 512 % 2) + 8 * (w / 256 % 2) +
    16 * (w / 128 % 2) + 32 * (w / 32 % 2) + 64 * (w / 16 % 2)

theorem flagIdx_table : ∀ hi < 256, ∀ lo < 256,
    (hi * 256 + lo) &&& 0x87B0 = hi * 256 + lo → hi * 256 + lo = flagSet (flagIdx (hi * 256 + lo)) := by
  decide +kernel

theorem flags_eq_flagSet (f : Nat) (h : f &&& Mask.ALLFLAGS = f) :
    ∃ i, i < 128 ∧ f = flagSet i := by
  have hlt : f < 65536 := by
    have : f &&& Mask.ALLFLAGS ≤ Mask.ALLFLAGS := Nat.and_le_right
    rw [h] at this
    simp only [Mask.ALLFLAGS] at this
    omega
  have := flagIdx_table (f / 256) (by omega) (f % 256) (by omega)
  rw [Nat.div_add_mod' f 256] at this
  exact ⟨flagIdx f, by unfold flagIdx; omega, this h⟩

/-- `Header.parse` of a written header followed by the message body -/
theorem header_parse_built (h : Header) (qd an ns ar : Nat) (body : Bytes) (hid : h.id < 65536)
    (hf : h.flags &&& Mask.ALLFLAGS = h.flags) :
    Header.parse (h.write qd an ns ar ++ body) =
      .ok { id := h.id, opcode := h.opcode, rcode := RCODE.ofCode (h.rcode.toCode % 16),
            flags := h.flags, opt := none } ∧ h.getFlags < 65536 := by
  obtain ⟨i, hi, hfi⟩ := flags_eq_flagSet h.flags hf
  have hb := build_table h.opcode (allOpcodes_complete _) h.rcode (allRcodes_complete _) i hi
  have hw : h.getFlags =
      ({ id := 0, opcode := h.opcode, rcode := h.rcode, flags := flagSet i, opt := none } :
        Header).getFlags := by simp [Header.getFlags, hfi]
  simp only [BuildOK] at hb
  rw [← hw] at hb
  obtain ⟨h1, h2, h3, h4, h5, h6⟩ := hb
  refine ⟨?_, h1⟩
  have e : h.write qd an ns ar ++ body = beN 2 h.id ++ (beN 2 h.getFlags ++
      (beN 2 qd ++ (beN 2 an ++ (beN 2 ns ++ (beN 2 ar ++ body))))) := by
    simp [Header.write]
  rw [e, header_layout h.id h.getFlags _ hid h1 (by simp; omega) h2, h6, h4, h5, hfi]

/-- the four counts peeked from a written header followed by the message body -/
theorem peek_built (h : Header) (qd an ns ar : Nat) (body : Bytes) (hid : h.id < 65536)
    (hw : h.getFlags < 65536) (hqd : qd < 65536) (han : an < 65536) (hns : ns < 65536)
    (har : ar < 65536) :
    Peek.questions (h.write qd an ns ar ++ body) = .ok qd ∧
    Peek.answers (h.write qd an ns ar ++ body) = .ok an ∧
    Peek.nameServers (h.write qd an ns ar ++ body) = .ok ns ∧
    Peek.additional (h.write qd an ns ar ++ body) = .ok ar := by
  have := peek_agrees h.id h.getFlags qd an ns ar body hid hw hqd han hns har
  simp only [hdrBytes] at this
  obtain ⟨_, h2, h3, h4, h5, _⟩ := this
  exact ⟨h2, h3, h4, h5⟩

/-! ### response code -/

theorem rcode_without_opt (r : RCODE) (h : r ≠ .BADVERS) : RCODE.ofCode (r.toCode % 16) = r := by
  cases r <;> first | rfl | exact absurd rfl h

/-- the TTL of the OPT pseudo-record as a function of response code and version -/
def encTtl (r : RCODE) (v : Nat) : Nat := ((r.toCode &&& 0xFF) >>> 4) ||| (v <<< 8)

theorem encodeTtl_eq (o : OptData) (h : Header) : encodeTtl o h = encTtl h.rcode o.version := rfl

theorem rcode_with_opt (r : RCODE) : ∀ v < 256,
    encTtl r v < 2 ^ 32 ∧ v = (encTtl r v >>> 8) % 256 ∧
    RCODE.ofCode ((((encTtl r v &&& 0xFF) <<< 4) ||| (RCODE.ofCode (r.toCode % 16)).toCode) % 65536)
      = r := by
  cases r <;> decide +kernel

end Dns
