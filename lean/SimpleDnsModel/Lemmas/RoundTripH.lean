/-
Round trip, part H: the header. Every flags value inside the seven flag bits is
one of the 128 subsets of C08's `flagSet`, so `build_table` (C08) applies to
every well-formed header; the response code with and without the OPT record.
-/
import SimpleDnsModel.Props.C08
import SimpleDnsModel.Model.WF
namespace Dns

/-- index of a flags word in C08's enumeration `flagSet` -/
def flagIdx (w : Nat) : Nat :=
  w / 32768 % 2 + 2 * (w / 1024 % 2) + 4 * (w / 512 % 2) + 8 * (w / 256 % 2) +
    16 * (w / 128 % 2) + 32 * (w / 32 % 2) + 64 * (w / 16 % 2)

theorem flagSet_bits (a b c d e g h : Nat) (ha : a < 2) (hb : b < 2) (hc : c < 2) (hd : d < 2)
    (he : e < 2) (hg : g < 2) (hh : h < 2) :
    flagSet (a + 2 * b + 4 * c + 8 * d + 16 * e + 32 * g + 64 * h)
      = a * 32768 + b * 1024 + c * 512 + d * 256 + e * 128 + g * 32 + h * 16 := by
  generalize hi : a + 2 * b + 4 * c + 8 * d + 16 * e + 32 * g + 64 * h = i
  have h0 : i % 2 = a := by omega
  have h1 : i / 2 % 2 = b := by omega
  have h2 : i / 4 % 2 = c := by omega
  have h3 : i / 8 % 2 = d := by omega
  have h4 : i / 16 % 2 = e := by omega
  have h5 : i / 32 % 2 = g := by omega
  have h6 : i / 64 % 2 = h := by omega
  unfold flagSet
  rw [h0, h1, h2, h3, h4, h5, h6]

theorem zero_bit (f k : Nat) (h : f &&& 0x87B0 = f) (hk : (0x87B0 : Nat).testBit k = false) :
    f / 2 ^ k % 2 = 0 := by
  have h1 : (f &&& 0x87B0).testBit k = (f.testBit k && (0x87B0 : Nat).testBit k) := Nat.testBit_and _ _ _
  rw [h, hk, Bool.and_false] at h1
  rw [Nat.testBit_eq_decide_div_mod_eq] at h1
  have := of_decide_eq_false h1
  omega

theorem lo_bits : ∀ lo < 256, (lo % 2 = 0 ∧ lo / 2 % 2 = 0 ∧ lo / 4 % 2 = 0 ∧ lo / 8 % 2 = 0 ∧
    lo / 64 % 2 = 0) → lo = (lo / 128 % 2) * 128 + (lo / 32 % 2) * 32 + (lo / 16 % 2) * 16 := by
  decide +kernel

theorem hi_bits : ∀ hi < 256, (hi / 8 % 2 = 0 ∧ hi / 16 % 2 = 0 ∧ hi / 32 % 2 = 0 ∧ hi / 64 % 2 = 0) →
    hi = (hi / 128 % 2) * 128 + (hi / 4 % 2) * 4 + (hi / 2 % 2) * 2 + hi % 2 := by
  decide +kernel

theorem flags_eq_flagSet_idx (f : Nat) (h : f &&& 0x87B0 = f) : f = flagSet (flagIdx f) := by
  have hlt : f < 65536 := by
    have : f &&& 0x87B0 ≤ 0x87B0 := Nat.and_le_right
    rw [h] at this
    omega
  -- bits of the two bytes against bits of the word
  have l0 : f % 256 % 2 = f / 1 % 2 := by omega
  have l1 : f % 256 / 2 % 2 = f / 2 % 2 := by omega
  have l2 : f % 256 / 4 % 2 = f / 4 % 2 := by omega
  have l3 : f % 256 / 8 % 2 = f / 8 % 2 := by omega
  have l4 : f % 256 / 16 % 2 = f / 16 % 2 := by omega
  have l5 : f % 256 / 32 % 2 = f / 32 % 2 := by omega
  have l6 : f % 256 / 64 % 2 = f / 64 % 2 := by omega
  have l7 : f % 256 / 128 % 2 = f / 128 % 2 := by omega
  have u0 : f / 256 % 2 = f / 256 % 2 := rfl
  have u1 : f / 256 / 2 % 2 = f / 512 % 2 := by rw [Nat.div_div_eq_div_mul]
  have u2 : f / 256 / 4 % 2 = f / 1024 % 2 := by rw [Nat.div_div_eq_div_mul]
  have u3 : f / 256 / 8 % 2 = f / 2048 % 2 := by rw [Nat.div_div_eq_div_mul]
  have u4 : f / 256 / 16 % 2 = f / 4096 % 2 := by rw [Nat.div_div_eq_div_mul]
  have u5 : f / 256 / 32 % 2 = f / 8192 % 2 := by rw [Nat.div_div_eq_div_mul]
  have u6 : f / 256 / 64 % 2 = f / 16384 % 2 := by rw [Nat.div_div_eq_div_mul]
  have u7 : f / 256 / 128 % 2 = f / 32768 % 2 := by rw [Nat.div_div_eq_div_mul]
  have hsplit : f = f / 256 * 256 + f % 256 := by omega
  have hl : f % 256 < 256 := by omega
  have hu : f / 256 < 256 := by omega
  clear hlt
  have b0 := zero_bit f 0 h (by decide)
  have b1 := zero_bit f 1 h (by decide)
  have b2 := zero_bit f 2 h (by decide)
  have b3 := zero_bit f 3 h (by decide)
  have b6 := zero_bit f 6 h (by decide)
  have b11 := zero_bit f 11 h (by decide)
  have b12 := zero_bit f 12 h (by decide)
  have b13 := zero_bit f 13 h (by decide)
  have b14 := zero_bit f 14 h (by decide)
  simp only [Nat.reducePow] at b0 b1 b2 b3 b6 b11 b12 b13 b14
  have hlo := lo_bits (f % 256) hl ⟨l0.trans b0, l1.trans b1, l2.trans b2, l3.trans b3, l6.trans b6⟩
  have hhi := hi_bits (f / 256) hu ⟨u3.trans b11, u4.trans b12, u5.trans b13, u6.trans b14⟩
  rw [l7, l5, l4] at hlo
  rw [u7, u2, u1] at hhi
  unfold flagIdx
  rw [flagSet_bits _ _ _ _ _ _ _ (Nat.mod_lt _ (by decide)) (Nat.mod_lt _ (by decide))
    (Nat.mod_lt _ (by decide)) (Nat.mod_lt _ (by decide)) (Nat.mod_lt _ (by decide))
    (Nat.mod_lt _ (by decide)) (Nat.mod_lt _ (by decide))]
  generalize f / 32768 % 2 = a15 at *
  generalize f / 1024 % 2 = a10 at *
  generalize f / 512 % 2 = a9 at *
  generalize f / 256 % 2 = a8 at *
  generalize f / 128 % 2 = a7 at *
  generalize f / 32 % 2 = a5 at *
  generalize f / 16 % 2 = a4 at *
  generalize f / 256 = hi at *
  generalize f % 256 = lo at *
  subst hsplit hhi hlo
  simp only [Nat.add_mul, Nat.mul_assoc, Nat.reduceMul, Nat.add_assoc]
theorem flags_eq_flagSet (f : Nat) (h : f &&& Mask.ALLFLAGS = f) :
    ∃ i, i < 128 ∧ f = flagSet i :=
  ⟨flagIdx f, by unfold flagIdx; omega, flags_eq_flagSet_idx f h⟩

/-- `Header.parse` of a written header followed by the message body -/
theorem header_parse_built (h : Header) (qd an ns ar : Nat) (body : Bytes) (hid : h.id < 65536)
    (hf : h.flags &&& Mask.ALLFLAGS = h.flags) :
    Header.parse (h.write qd an ns ar ++ body) =
      .ok { id := h.id, opcode := h.opcode, rcode := RCODE.ofCode (h.rcode.toCode % 16),
            flags := h.flags, opt := none } ∧ h.getFlags < 65536 := by
  obtain ⟨i, hi, hfi⟩ := flags_eq_flagSet h.flags hf
  have hb := build_table h.opcode (allOpcodes_complete _) h.rcode (allRcodes_complete _) i hi
  have hw : h.getFlags =
      ({ id := 0, opcode := h.opcode, rcode := h.rcode, flags := flagSet i, opt := none } :
        Header).getFlags := by simp [Header.getFlags, hfi]
  simp only [BuildOK] at hb
  rw [← hw] at hb
  obtain ⟨h1, h2, h3, h4, h5, h6⟩ := hb
  refine ⟨?_, h1⟩
  have e : h.write qd an ns ar ++ body = beN 2 h.id ++ (beN 2 h.getFlags ++
      (beN 2 qd ++ (beN 2 an ++ (beN 2 ns ++ (beN 2 ar ++ body))))) := by
    simp [Header.write]
  rw [e, header_layout h.id h.getFlags _ hid h1 (by simp; omega) h2, h6, h4, h5, hfi]

/-- the four counts peeked from a written header followed by the message body -/
theorem peek_built (h : Header) (qd an ns ar : Nat) (body : Bytes) (hid : h.id < 65536)
    (hw : h.getFlags < 65536) (hqd : qd < 65536) (han : an < 65536) (hns : ns < 65536)
    (har : ar < 65536) :
    Peek.questions (h.write qd an ns ar ++ body) = .ok qd ∧
    Peek.answers (h.write qd an ns ar ++ body) = .ok an ∧
    Peek.nameServers (h.write qd an ns ar ++ body) = .ok ns ∧
    Peek.additional (h.write qd an ns ar ++ body) = .ok ar := by
  have := peek_agrees h.id h.getFlags qd an ns ar body hid hw hqd han hns har
  simp only [hdrBytes] at this
  obtain ⟨_, h2, h3, h4, h5, _⟩ := this
  exact ⟨h2, h3, h4, h5⟩

/-! ### response code -/

theorem rcode_without_opt (r : RCODE) (h : r ≠ .BADVERS) : RCODE.ofCode (r.toCode % 16) = r := by
  cases r <;> first | rfl | exact absurd rfl h

/-- the TTL of the OPT pseudo-record as a function of response code and version -/
def encTtl (r : RCODE) (v : Nat) : Nat := ((r.toCode &&& 0xFF) >>> 4) ||| (v <<< 8)

theorem encodeTtl_eq (o : OptData) (h : Header) : encodeTtl o h = encTtl h.rcode o.version := rfl

theorem rcode_with_opt (r : RCODE) : ∀ v < 256,
    encTtl r v < 2 ^ 32 ∧ v = (encTtl r v >>> 8) % 256 ∧
    RCODE.ofCode ((((encTtl r v &&& 0xFF) <<< 4) ||| (RCODE.ofCode (r.toCode % 16)).toCode) % 65536)
      = r := by
  cases r <;> decide +kernel

end Dns
