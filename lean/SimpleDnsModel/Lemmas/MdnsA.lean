/-
simple-mdns record store, part A: the record equality `rrEq`, the key encoding
(`getKey` is prefix-decodable on names whose labels are shorter than 256 bytes),
`Name.isSubdomainOf` as a strict label-wise suffix, buckets, `setBucket`, the
operations `Op`, the store invariant `Inv` and the abstract view `abs` of a store
as a finite map from records (up to `rrEq`) to `Kind`, with the refinement
equation of every operation.
-/
import SimpleDnsModel.Model.Mdns
namespace Dns.Mdns

/-! ### `rrEq` is an equivalence that fixes the owner name -/

theorem rrEq_iff {a b : RR} :
    rrEq a b = true ↔ a.name = b.name ∧ a.cls = b.cls ∧ a.rdata = b.rdata := by
  simp [rrEq, and_assoc]

@[simp] theorem rrEq_refl (a : RR) : rrEq a a = true := by simp [rrEq_iff]

theorem rrEq_symm {a b : RR} (h : rrEq a b = true) : rrEq b a = true := by
  rw [rrEq_iff] at *; exact ⟨h.1.symm, h.2.1.symm, h.2.2.symm⟩

theorem rrEq_trans {a b c : RR} (h1 : rrEq a b = true) (h2 : rrEq b c = true) :
    rrEq a c = true := by
  rw [rrEq_iff] at *
  exact ⟨h1.1.trans h2.1, h1.2.1.trans h2.2.1, h1.2.2.trans h2.2.2⟩

theorem rrEq_comm (a b : RR) : rrEq a b = rrEq b a :=
  Bool.eq_iff_iff.mpr ⟨rrEq_symm, rrEq_symm⟩

theorem rrEq_name {a b : RR} (h : rrEq a b = true) : a.name = b.name := (rrEq_iff.mp h).1

/-- equal records are interchangeable on the right of `rrEq` -/
theorem rrEq_congr_right {a b : RR} (h : rrEq a b = true) (c : RR) : rrEq c a = rrEq c b :=
  Bool.eq_iff_iff.mpr ⟨fun h' => rrEq_trans h' h, fun h' => rrEq_trans h' (rrEq_symm h)⟩

/-- equal records are interchangeable on the left of `rrEq` -/
theorem rrEq_congr_left {a b : RR} (h : rrEq a b = true) (c : RR) : rrEq a c = rrEq b c :=
  Bool.eq_iff_iff.mpr ⟨fun h' => rrEq_trans (rrEq_symm h) h', fun h' => rrEq_trans h h'⟩

/-- TTL and cache-flush bit do not take part in the comparison -/
theorem rrEq_ttl_flush (a : RR) (t : Nat) (f : Bool) :
    rrEq { a with ttl := t, flush := f } a = true := by simp [rrEq_iff]

/-! ### the key encoding -/

/-- every label fits the one-byte length prefix of the key -/
def NameOK (n : Name) : Prop := ∀ l ∈ n, l.length < 256

instance (n : Name) : Decidable (NameOK n) := by unfold NameOK; infer_instance

theorem NameOK_of_WF {n : Name} (h : Name.WF n) : NameOK n := fun l hl => by
  have := (h.1 l hl).2; omega

/-- the key of the labels listed from the root down -/
def enc : List Label → Bytes
  | [] => []
  | l :: ls => (UInt8.ofNat l.length :: l) ++ enc ls

theorem getKey_eq_enc (n : Name) : getKey n = enc n.reverse := by
  unfold getKey
  generalize n.reverse = m
  induction m with
  | nil => rfl
  | cons l ls ih => simp [enc, ih]

theorem enc_prefix_of_prefix {a b : List Label} (h : a <+: b) : enc a <+: enc b := by
  obtain ⟨t, rfl⟩ := h
  induction a with
  | nil => simp [enc]
  | cons l ls ih =>
    simp only [List.cons_append, enc]
    obtain ⟨u, hu⟩ := ih
    exact ⟨u, by simp [← hu]⟩

theorem append_prefix_append_of_length_eq {l m x y : Bytes} (h : l.length = m.length) :
    l ++ x <+: m ++ y ↔ l = m ∧ x <+: y := by
  induction l generalizing m with
  | nil => cases m with
    | nil => simp
    | cons _ _ => simp at h
  | cons a l ih => cases m with
    | nil => simp at h
    | cons b m =>
      simp only [List.cons_append, List.cons_prefix_cons]
      simp at h
      rw [ih h]
      constructor
      · rintro ⟨rfl, rfl, hp⟩; exact ⟨rfl, hp⟩
      · rintro ⟨heq, hp⟩; cases heq; exact ⟨rfl, rfl, hp⟩

theorem enc_prefix_iff {a b : List Label} (ha : NameOK a) (hb : NameOK b) :
    enc a <+: enc b ↔ a <+: b := by
  constructor
  · intro h
    induction a generalizing b with
    | nil => simp
    | cons l ls ih =>
      cases b with
      | nil => simp [enc] at h
      | cons m ms =>
        simp only [enc, List.cons_append, List.cons_prefix_cons] at h
        have hl := ha l (by simp)
        have hm := hb m (by simp)
        obtain ⟨hlen, hrest⟩ := h
        have hlen' : l.length = m.length := by
          have := congrArg UInt8.toNat hlen
          simp [UInt8.toNat_ofNat'] at this
          omega
        obtain ⟨hlm, htail⟩ := (append_prefix_append_of_length_eq hlen').mp hrest
        subst hlm
        rw [List.cons_prefix_cons]
        exact ⟨rfl, ih (fun x hx => ha x (by simp [hx])) (fun x hx => hb x (by simp [hx])) htail⟩
  · exact enc_prefix_of_prefix

theorem NameOK_reverse {n : Name} (h : NameOK n) : NameOK n.reverse :=
  fun l hl => h l (List.mem_reverse.mp hl)

theorem isPrefixOf_iff (a b : Key) : isPrefixOf a b = true ↔ a <+: b := by
  simp [isPrefixOf, List.prefix_iff_eq_take]

@[simp] theorem isPrefixOf_refl (a : Key) : isPrefixOf a a = true :=
  (isPrefixOf_iff a a).mpr (List.prefix_refl a)

/-- one key is a prefix of another exactly when the first name is a label-wise suffix (an
ancestor or the same name) of the second -/
theorem key_prefix_iff {a b : Name} (ha : NameOK a) (hb : NameOK b) :
    isPrefixOf (getKey a) (getKey b) = true ↔ a <:+ b := by
  rw [isPrefixOf_iff, getKey_eq_enc, getKey_eq_enc,
    enc_prefix_iff (NameOK_reverse ha) (NameOK_reverse hb), List.reverse_prefix]

/-- the easy direction needs no bound on the labels -/
theorem key_prefix_of_suffix {a b : Name} (h : a <:+ b) : isPrefixOf (getKey a) (getKey b) = true := by
  rw [isPrefixOf_iff, getKey_eq_enc, getKey_eq_enc]
  exact enc_prefix_of_prefix (List.reverse_prefix.mpr h)

theorem key_inj {a b : Name} (ha : NameOK a) (hb : NameOK b) (h : getKey a = getKey b) : a = b := by
  have h1 := (key_prefix_iff ha hb).mp (by rw [h]; simp)
  have h2 := (key_prefix_iff hb ha).mp (by rw [h]; simp)
  exact List.IsSuffix.eq_of_length_le h1 h2.length_le

/-! ### `is_subdomain_of` is "strictly longer and a label-wise suffix" -/

theorem zip_all_eq_iff_prefix {x y : List Label} (h : x.length ≤ y.length) :
    (x.zip y).all (fun p => p.1 == p.2) = true ↔ x <+: y := by
  induction x generalizing y with
  | nil => simp
  | cons a x ih =>
    cases y with
    | nil => simp at h
    | cons b y =>
      simp only [List.length_cons, Nat.add_le_add_iff_right] at h
      simp only [List.zip_cons_cons, List.all_cons, Bool.and_eq_true, beq_iff_eq,
        List.cons_prefix_cons, ih h]

theorem isSubdomainOf_iff_suffix (a b : Name) :
    a.isSubdomainOf b = true ↔ b.length < a.length ∧ b <:+ a := by
  unfold Name.isSubdomainOf
  rw [Bool.and_eq_true, decide_eq_true_eq]
  constructor
  · rintro ⟨hl, hz⟩
    exact ⟨hl, List.reverse_prefix.mp ((zip_all_eq_iff_prefix (by simp; omega)).mp hz)⟩
  · rintro ⟨hl, hs⟩
    exact ⟨hl, (zip_all_eq_iff_prefix (by simp; omega)).mpr (List.reverse_prefix.mpr hs)⟩

/-- a label-wise suffix is the name itself or one of its proper ancestors -/
theorem suffix_iff_eq_or_subdomain (a b : Name) :
    b <:+ a ↔ a = b ∨ a.isSubdomainOf b = true := by
  rw [isSubdomainOf_iff_suffix]
  constructor
  · intro h
    by_cases hl : b.length < a.length
    · exact .inr ⟨hl, h⟩
    · exact .inl (h.eq_of_length_le (by omega)).symm
  · rintro (rfl | ⟨_, h⟩)
    · exact List.suffix_refl _
    · exact h

/-! ### buckets -/

@[simp] theorem Bucket.get_nil (x : RR) : Bucket.get [] x = none := rfl

theorem Bucket.get_congr (b : Bucket) {x y : RR} (h : rrEq x y = true) : b.get x = b.get y := by
  unfold Bucket.get
  have : (fun e : RR × Kind => rrEq e.1 x) = (fun e => rrEq e.1 y) :=
    funext fun e => rrEq_congr_right h e.1
  rw [this]

theorem Bucket.get_eq_some {b : Bucket} {x : RR} {k : Kind} (h : b.get x = some k) :
    ∃ x', (x', k) ∈ b ∧ rrEq x' x = true := by
  unfold Bucket.get at h
  rw [Option.map_eq_some_iff] at h
  obtain ⟨e, he, rfl⟩ := h
  exact ⟨e.1, List.mem_of_find?_eq_some he, by simpa using List.find?_some he⟩

theorem Bucket.get_eq_none {b : Bucket} {x : RR} :
    b.get x = none ↔ ∀ e ∈ b, rrEq e.1 x = false := by
  simp [Bucket.get]

/-- in a bucket without `rrEq`-duplicates a stored pair is what `get` finds -/
theorem Bucket.get_of_mem {b : Bucket} (hp : b.Pairwise (fun a c => rrEq a.1 c.1 = false))
    {x : RR} {k : Kind} (h : (x, k) ∈ b) : b.get x = some k := by
  induction b with
  | nil => cases h
  | cons hd tl ih =>
    rw [List.pairwise_cons] at hp
    rcases List.mem_cons.mp h with h | h
    · subst h; simp [Bucket.get]
    · have := hp.1 _ h
      have ih' := ih hp.2 h
      simp only [Bucket.get, List.find?_cons] at ih' ⊢
      simp only at this
      rw [this]; exact ih'

private theorem insert_map_fst (r : RR) (k : Kind) (e : RR × Kind) :
    (if rrEq e.1 r = true then (e.1, k) else e).1 = e.1 := by split <;> rfl

theorem Bucket.get_insert (b : Bucket) (r : RR) (k : Kind) (x : RR) :
    (b.insert r k).get x = if rrEq x r = true then some k else b.get x := by
  unfold Bucket.insert
  split
  · rename_i hany
    induction b with
    | nil => simp at hany
    | cons hd tl ih =>
      simp only [Bucket.get, List.map_cons, List.find?_cons, insert_map_fst] at ih ⊢
      by_cases hx : rrEq x r = true
      · simp only [hx, if_true] at ih ⊢
        rw [rrEq_congr_right hx hd.1]
        by_cases hh : rrEq hd.1 r = true
        · simp [hh]
        · simp only [Bool.not_eq_true] at hh
          simp only [hh]
          apply ih
          simpa [hh] using hany
      · have hx' : rrEq x r = false := by simpa using hx
        simp only [hx', Bool.false_eq_true, if_false] at ih ⊢
        by_cases hh : rrEq hd.1 x = true
        · have hr : rrEq hd.1 r = false := by
            cases h : rrEq hd.1 r with
            | false => rfl
            | true => exact absurd (rrEq_trans (rrEq_symm hh) h) hx
          simp [hh, hr]
        · simp only [Bool.not_eq_true] at hh
          simp only [hh]
          by_cases ht : tl.any (fun e => rrEq e.1 r) = true
          · exact ih ht
          · -- nothing in the tail is touched
            have hid : tl.map (fun e => if rrEq e.1 r = true then (e.1, k) else e) = tl := by
              simp only [List.any_eq_true, not_exists, not_and, Bool.not_eq_true] at ht
              conv => rhs; rw [← List.map_id tl]
              apply List.map_congr_left
              intro e he; simp [ht e he]
            rw [hid]
  · rename_i hany
    simp only [List.any_eq_true, not_exists, not_and, Bool.not_eq_true] at hany
    simp only [Bucket.get, List.find?_append, List.find?_cons, List.find?_nil]
    by_cases hx : rrEq x r = true
    · have hnone : b.find? (fun e => rrEq e.1 x) = none := by
        rw [List.find?_eq_none]; intro e he
        rw [rrEq_congr_right hx e.1]; simp [hany e he]
      simp [hnone, hx, rrEq_symm hx]
    · have : rrEq r x = false := by rw [rrEq_comm]; simpa using hx
      simp [this, hx]

theorem Bucket.get_remove (b : Bucket) (r x : RR) :
    (b.remove r).get x = if rrEq x r = true then none else b.get x := by
  unfold Bucket.remove
  by_cases hx : rrEq x r = true
  · simp only [hx, if_true]
    rw [Bucket.get_eq_none]
    intro e he
    have := (List.mem_filter.mp he).2
    rw [rrEq_congr_right hx e.1]; simpa using this
  · have hx' : rrEq x r = false := by simpa using hx
    simp only [hx', Bool.false_eq_true, if_false, Bucket.get]
    induction b with
    | nil => rfl
    | cons hd tl ih =>
      simp only [List.filter_cons, List.find?_cons]
      by_cases hh : rrEq hd.1 x = true
      · have hr : rrEq hd.1 r = false := by
          cases h : rrEq hd.1 r with
          | false => rfl
          | true => exact absurd (rrEq_trans (rrEq_symm hh) h) hx
        simp [hh, hr]
      · have hh' : rrEq hd.1 x = false := by simpa using hh
        by_cases hr : rrEq hd.1 r = true
        · simp only [hr, hh', Bool.not_true, Bool.false_eq_true, if_false]; exact ih
        · have hr' : rrEq hd.1 r = false := by simpa using hr
          simp only [hr', hh', Bool.not_false, if_true, List.find?_cons]; exact ih

/-- `insert` stores the record under the key already present, if there is one -/
theorem Bucket.mem_insert {b : Bucket} {r : RR} {k : Kind} {e : RR × Kind} (h : e ∈ b.insert r k) :
    (e ∈ b ∧ rrEq e.1 r = false) ∨ (e.2 = k ∧ rrEq e.1 r = true ∧ (e.1 = r ∨ ∃ k', (e.1, k') ∈ b)) := by
  unfold Bucket.insert at h
  split at h
  · obtain ⟨e', he', rfl⟩ := List.mem_map.mp h
    by_cases hr : rrEq e'.1 r = true
    · rw [if_pos hr]
      exact .inr ⟨rfl, hr, .inr ⟨e'.2, he'⟩⟩
    · rw [if_neg hr]
      exact .inl ⟨he', by simpa using hr⟩
  · rename_i hany
    simp only [List.any_eq_true, not_exists, not_and, Bool.not_eq_true] at hany
    rcases List.mem_append.mp h with h | h
    · exact .inl ⟨h, hany e h⟩
    · simp only [List.mem_singleton] at h; subst h
      exact .inr ⟨rfl, rrEq_refl r, .inl rfl⟩

theorem Bucket.pairwise_insert {b : Bucket} (hp : b.Pairwise (fun a c => rrEq a.1 c.1 = false))
    (r : RR) (k : Kind) : (b.insert r k).Pairwise (fun a c => rrEq a.1 c.1 = false) := by
  unfold Bucket.insert
  split
  · rw [List.pairwise_map]
    simpa only [insert_map_fst] using hp
  · rename_i hany
    simp only [List.any_eq_true, not_exists, not_and, Bool.not_eq_true] at hany
    rw [List.pairwise_append]
    refine ⟨hp, by simp, ?_⟩
    intro a ha c hc
    simp only [List.mem_singleton] at hc; subst hc
    exact hany a ha

theorem Bucket.mem_remove {b : Bucket} {r : RR} {e : RR × Kind} :
    e ∈ b.remove r ↔ e ∈ b ∧ rrEq e.1 r = false := by
  simp [Bucket.remove, List.mem_filter]

theorem Bucket.pairwise_remove {b : Bucket} (hp : b.Pairwise (fun a c => rrEq a.1 c.1 = false))
    (r : RR) : (b.remove r).Pairwise (fun a c => rrEq a.1 c.1 = false) :=
  hp.filter _

/-! ### the key → bucket association -/

theorem Store.bucket_mem {s : Store} {k : Key} {b : Bucket} (h : s.bucket k = some b) :
    (k, b) ∈ s.entries := by
  unfold Store.bucket at h
  rw [Option.map_eq_some_iff] at h
  obtain ⟨e, he, rfl⟩ := h
  have h1 := List.mem_of_find?_eq_some he
  have h2 : e.1 = k := by simpa using List.find?_some he
  subst h2; exact h1

theorem Store.bucket_eq_none {s : Store} {k : Key} :
    s.bucket k = none ↔ ∀ e ∈ s.entries, e.1 ≠ k := by
  simp [Store.bucket]

private theorem setBucket_map_fst (k : Key) (b : Bucket) (e : Key × Bucket) :
    (if (e.1 == k) = true then (k, b) else e).1 = e.1 := by
  split
  · rename_i h; simp at h; exact h.symm
  · rfl

theorem Store.bucket_setBucket (s : Store) (k : Key) (b : Bucket) (k' : Key) :
    (s.setBucket k b).bucket k' = if k' = k then some b else s.bucket k' := by
  unfold Store.setBucket
  split
  · rename_i hany
    simp only [Store.bucket]
    generalize s.entries = l at hany
    induction l with
    | nil => simp at hany
    | cons hd tl ih =>
      simp only [List.map_cons, List.find?_cons]
      by_cases hk : k' = k
      · subst hk
        simp only [if_true] at ih ⊢
        by_cases hh : hd.1 = k'
        · simp [hh]
        · have hh' : (hd.1 == k') = false := by simpa using hh
          simp only [hh', Bool.false_eq_true, if_false]
          apply ih; simpa [hh'] using hany
      · simp only [hk, if_false] at ih ⊢
        by_cases hh : hd.1 = k
        · have h1 : (k == k') = false := by simpa using fun h => hk h.symm
          have h2 : (hd.1 == k') = false := by rw [hh]; exact h1
          simp only [hh, beq_self_eq_true, if_true, h1]
          by_cases ht : tl.any (·.1 == k) = true
          · exact ih ht
          · have hid : tl.map (fun e => if (e.1 == k) = true then (k, b) else e) = tl := by
              simp only [List.any_eq_true, not_exists, not_and, Bool.not_eq_true] at ht
              conv => rhs; rw [← List.map_id tl]
              apply List.map_congr_left
              intro e he; simp [ht e he]
            rw [hid]
        · have hh' : (hd.1 == k) = false := by simpa using hh
          simp only [hh', Bool.false_eq_true, if_false]
          by_cases h2 : (hd.1 == k') = true
          · simp [h2]
          · simp only [h2]
            apply ih; simpa [hh'] using hany
  · rename_i hany
    simp only [List.any_eq_true, not_exists, not_and, Bool.not_eq_true] at hany
    simp only [Store.bucket, List.find?_append, List.find?_cons, List.find?_nil]
    by_cases hk : k' = k
    · subst hk
      have : s.entries.find? (fun e => e.1 == k') = none := by
        rw [List.find?_eq_none]; intro e he; simpa using hany e he
      simp [this]
    · have h1 : (k == k') = false := by simpa using fun h => hk h.symm
      simp [h1, hk]

theorem Store.mem_setBucket {s : Store} {k : Key} {b : Bucket} {e : Key × Bucket}
    (h : e ∈ (s.setBucket k b).entries) : e = (k, b) ∨ (e ∈ s.entries ∧ e.1 ≠ k) := by
  unfold Store.setBucket at h
  split at h
  · obtain ⟨e', he', rfl⟩ := List.mem_map.mp h
    by_cases hk : (e'.1 == k) = true
    · simp [hk]
    · rw [if_neg hk]
      exact .inr ⟨he', by simpa using hk⟩
  · rename_i hany
    simp only [List.any_eq_true, not_exists, not_and, Bool.not_eq_true] at hany
    rcases List.mem_append.mp h with h | h
    · exact .inr ⟨h, by simpa using hany e h⟩
    · simp only [List.mem_singleton] at h; exact .inl h

theorem Store.setBucket_keys_pairwise {s : Store} (hp : s.entries.Pairwise (fun a c => a.1 ≠ c.1))
    (k : Key) (b : Bucket) : (s.setBucket k b).entries.Pairwise (fun a c => a.1 ≠ c.1) := by
  unfold Store.setBucket
  split
  · simp only
    rw [List.pairwise_map]
    simpa only [setBucket_map_fst] using hp
  · rename_i hany
    simp only [List.any_eq_true, not_exists, not_and, Bool.not_eq_true] at hany
    simp only
    rw [List.pairwise_append]
    refine ⟨hp, by simp, ?_⟩
    intro a ha c hc
    simp only [List.mem_singleton] at hc; subst hc
    simpa using hany a ha

/-- the keys present are kept by `setBucket`, and `k` is present afterwards -/
theorem Store.key_mem_setBucket (s : Store) (k : Key) (b : Bucket) (k' : Key) :
    (∃ b', (k', b') ∈ (s.setBucket k b).entries) ↔ k' = k ∨ ∃ b', (k', b') ∈ s.entries := by
  constructor
  · rintro ⟨b', h⟩
    rcases Store.mem_setBucket h with h | h
    · cases h; exact .inl rfl
    · exact .inr ⟨b', h.1⟩
  · intro h
    have hb := Store.bucket_setBucket s k b k'
    by_cases hk : k' = k
    · rw [if_pos hk] at hb; exact ⟨b, Store.bucket_mem hb⟩
    · rcases h with h | ⟨b', h⟩
      · exact absurd h hk
      · rw [if_neg hk] at hb
        cases hs : s.bucket k' with
        | none => exact absurd rfl (Store.bucket_eq_none.mp hs _ h)
        | some b'' => rw [hs] at hb; exact ⟨b'', Store.bucket_mem hb⟩

/-! ### operations and reachable stores -/

inductive Op where
  | addAuth (r : RR)
  | addCached (r : RR) (now : Nat)
  | remove (r : RR)
  | clear
deriving DecidableEq, Repr

def Store.apply (s : Store) : Op → Store
  | .addAuth r => s.addAuth r
  | .addCached r now => s.addCached r now
  | .remove r => s.remove r
  | .clear => s.clear

def Store.run (s : Store) (ops : List Op) : Store := ops.foldl Store.apply s

@[simp] theorem Store.run_nil (s : Store) : s.run [] = s := rfl
@[simp] theorem Store.run_cons (s : Store) (op : Op) (ops : List Op) :
    s.run (op :: ops) = (s.apply op).run ops := rfl
theorem Store.run_append (s : Store) (a b : List Op) : s.run (a ++ b) = (s.run a).run b := by
  simp [Store.run, List.foldl_append]

/-- the stores that sequences of the four public operations produce from the empty store -/
def Reachable (s : Store) : Prop := ∃ ops, s = Store.empty.run ops

/-! ### the store invariant -/

structure Inv (s : Store) : Prop where
  /-- one entry per key -/
  keys : s.entries.Pairwise (fun a c => a.1 ≠ c.1)
  /-- a bucket holds records of the name its key encodes -/
  owner : ∀ k b, (k, b) ∈ s.entries → ∀ e ∈ b, getKey e.1.name = k
  /-- a bucket holds at most one record of every `rrEq` class -/
  nodup : ∀ k b, (k, b) ∈ s.entries → b.Pairwise (fun a c => rrEq a.1 c.1 = false)

theorem Inv.empty : Inv Store.empty := ⟨List.Pairwise.nil, by simp [Store.empty], by simp [Store.empty]⟩

theorem Inv.setBucket {s : Store} (h : Inv s) {k : Key} {b : Bucket}
    (ho : ∀ e ∈ b, getKey e.1.name = k) (hn : b.Pairwise (fun a c => rrEq a.1 c.1 = false)) :
    Inv (s.setBucket k b) := by
  refine ⟨Store.setBucket_keys_pairwise h.keys k b, ?_, ?_⟩
  · intro k' b' hm
    rcases Store.mem_setBucket hm with hm | hm
    · cases hm; exact ho
    · exact h.owner k' b' hm.1
  · intro k' b' hm
    rcases Store.mem_setBucket hm with hm | hm
    · cases hm; exact hn
    · exact h.nodup k' b' hm.1

theorem Inv.getD_owner {s : Store} (h : Inv s) (k : Key) :
    ∀ e ∈ (s.bucket k).getD [], getKey e.1.name = k := by
  cases hb : s.bucket k with
  | none => simp
  | some b => exact h.owner k b (Store.bucket_mem hb)

theorem Inv.getD_nodup {s : Store} (h : Inv s) (k : Key) :
    ((s.bucket k).getD []).Pairwise (fun a c => rrEq a.1 c.1 = false) := by
  cases hb : s.bucket k with
  | none => simp
  | some b => exact h.nodup k b (Store.bucket_mem hb)

theorem Inv.insert {s : Store} (h : Inv s) (r : RR) (kind : Kind) :
    Inv (s.setBucket (getKey r.name) (((s.bucket (getKey r.name)).getD []).insert r kind)) := by
  apply h.setBucket
  · intro e he
    rcases Bucket.mem_insert he with he | ⟨_, hr, _⟩
    · exact h.getD_owner _ e he.1
    · rw [rrEq_name hr]
  · exact Bucket.pairwise_insert (h.getD_nodup _) r kind

theorem Inv.addAuth {s : Store} (h : Inv s) (r : RR) : Inv (s.addAuth r) := h.insert r .auth

theorem Inv.addCached {s : Store} (h : Inv s) (r : RR) (now : Nat) : Inv (s.addCached r now) := by
  unfold Store.addCached
  simp only
  split
  · exact h
  · exact h.insert r _

theorem Inv.remove {s : Store} (h : Inv s) (r : RR) : Inv (s.remove r) := by
  unfold Store.remove
  simp only
  split
  · rename_i b hb
    have hm := Store.bucket_mem hb
    apply h.setBucket
    · intro e he; exact h.owner _ b hm e (Bucket.mem_remove.mp he).1
    · exact Bucket.pairwise_remove (h.nodup _ b hm) r
  · exact h

theorem Inv.clear (s : Store) : Inv s.clear := Inv.empty

theorem Inv.apply {s : Store} (h : Inv s) (op : Op) : Inv (s.apply op) := by
  cases op with
  | addAuth r => exact h.addAuth r
  | addCached r now => exact h.addCached r now
  | remove r => exact h.remove r
  | clear => exact Inv.clear s

theorem Inv.run {s : Store} (h : Inv s) (ops : List Op) : Inv (s.run ops) := by
  induction ops generalizing s with
  | nil => exact h
  | cons op ops ih => exact ih (h.apply op)

theorem Reachable.inv {s : Store} (h : Reachable s) : Inv s := by
  obtain ⟨ops, rfl⟩ := h; exact Inv.empty.run ops

theorem Reachable.empty : Reachable Store.empty := ⟨[], rfl⟩

theorem Reachable.apply {s : Store} (h : Reachable s) (op : Op) : Reachable (s.apply op) := by
  obtain ⟨ops, rfl⟩ := h
  exact ⟨ops ++ [op], by simp [Store.run_append]⟩

theorem Reachable.run {s : Store} (h : Reachable s) (ops : List Op) : Reachable (s.run ops) := by
  obtain ⟨ops0, rfl⟩ := h
  exact ⟨ops0 ++ ops, by simp [Store.run_append]⟩

/-- under the invariant the entry of a key is the bucket `Store.bucket` finds -/
theorem Inv.bucket_of_mem {s : Store} (h : Inv s) {k : Key} {b : Bucket} (hm : (k, b) ∈ s.entries) :
    s.bucket k = some b := by
  have hp := h.keys
  unfold Store.bucket
  generalize s.entries = l at hm hp
  induction l with
  | nil => cases hm
  | cons hd tl ih =>
    rw [List.pairwise_cons] at hp
    rcases List.mem_cons.mp hm with hm | hm
    · subst hm; simp
    · have hne : hd.1 ≠ k := hp.1 _ hm
      have : (hd.1 == k) = false := by simpa using hne
      simp only [List.find?_cons, this]
      exact ih hm hp.2

theorem Inv.bucket_iff {s : Store} (h : Inv s) {k : Key} {b : Bucket} :
    s.bucket k = some b ↔ (k, b) ∈ s.entries := ⟨Store.bucket_mem, h.bucket_of_mem⟩

/-! ### every name's labels fit the key's length byte -/

/-- all stored owner names have labels shorter than 256 bytes -/
def StoreOK (s : Store) : Prop := ∀ k b, (k, b) ∈ s.entries → ∀ e ∈ b, NameOK e.1.name

def Op.OK : Op → Prop
  | .addAuth r => NameOK r.name
  | .addCached r _ => NameOK r.name
  | _ => True

instance (op : Op) : Decidable op.OK := by cases op <;> unfold Op.OK <;> infer_instance

theorem StoreOK.empty : StoreOK Store.empty := by simp [StoreOK, Store.empty]

theorem StoreOK.getD {s : Store} (h : StoreOK s) (k : Key) :
    ∀ e ∈ (s.bucket k).getD [], NameOK e.1.name := by
  cases hb : s.bucket k with
  | none => simp
  | some b => exact h k b (Store.bucket_mem hb)

theorem StoreOK.setBucket {s : Store} (h : StoreOK s) {k : Key} {b : Bucket}
    (hb : ∀ e ∈ b, NameOK e.1.name) : StoreOK (s.setBucket k b) := by
  intro k' b' hm
  rcases Store.mem_setBucket hm with hm | hm
  · cases hm; exact hb
  · exact h k' b' hm.1

theorem StoreOK.insert {s : Store} (h : StoreOK s) {r : RR} (hr : NameOK r.name) (kind : Kind) :
    StoreOK (s.setBucket (getKey r.name) (((s.bucket (getKey r.name)).getD []).insert r kind)) := by
  apply h.setBucket
  intro e he
  rcases Bucket.mem_insert he with he | ⟨_, he, _⟩
  · exact h.getD _ e he.1
  · rw [rrEq_name he]; exact hr

theorem StoreOK.apply {s : Store} (h : StoreOK s) {op : Op} (hop : op.OK) : StoreOK (s.apply op) := by
  cases op with
  | addAuth r => exact h.insert hop .auth
  | addCached r now =>
    simp only [Store.apply, Store.addCached]
    split
    · exact h
    · exact h.insert hop _
  | remove r =>
    simp only [Store.apply, Store.remove]
    split
    · rename_i b hb
      apply h.setBucket
      intro e he; exact h _ b (Store.bucket_mem hb) e (Bucket.mem_remove.mp he).1
    · exact h
  | clear => exact StoreOK.empty

theorem StoreOK.run {s : Store} (h : StoreOK s) {ops : List Op} (hops : ∀ op ∈ ops, op.OK) :
    StoreOK (s.run ops) := by
  induction ops generalizing s with
  | nil => exact h
  | cons op ops ih =>
    exact ih (h.apply (hops op (by simp))) (fun o ho => hops o (by simp [ho]))

/-! ### the abstract view: a finite map from records (up to `rrEq`) to `Kind` -/

def abs (s : Store) (r : RR) : Option Kind := (s.bucket (getKey r.name)).bind (·.get r)

theorem abs_congr (s : Store) {x y : RR} (h : rrEq x y = true) : abs s x = abs s y := by
  unfold abs
  rw [rrEq_name h]
  cases s.bucket (getKey y.name) with
  | none => rfl
  | some b => exact Bucket.get_congr b h

@[simp] theorem abs_empty (x : RR) : abs Store.empty x = none := rfl

theorem abs_getD (s : Store) (x : RR) : ((s.bucket (getKey x.name)).getD []).get x = abs s x := by
  unfold abs; cases s.bucket (getKey x.name) <;> rfl

theorem abs_setBucket_insert (s : Store) (r : RR) (kind : Kind) (x : RR) :
    abs (s.setBucket (getKey r.name) (((s.bucket (getKey r.name)).getD []).insert r kind)) x =
      if rrEq x r = true then some kind else abs s x := by
  by_cases hx : rrEq x r = true
  · rw [abs_congr _ hx, if_pos hx]
    simp [abs, Store.bucket_setBucket, Bucket.get_insert]
  · rw [if_neg hx]
    unfold abs
    rw [Store.bucket_setBucket]
    by_cases hk : getKey x.name = getKey r.name
    · rw [if_pos hk, Option.bind_some, Bucket.get_insert, if_neg hx, ← hk]
      exact abs_getD s x
    · rw [if_neg hk]

theorem abs_addAuth (s : Store) (r x : RR) :
    abs (s.addAuth r) x = if rrEq x r = true then some .auth else abs s x :=
  abs_setBucket_insert s r .auth x

theorem abs_addCached (s : Store) (r : RR) (now : Nat) (x : RR) :
    abs (s.addCached r now) x =
      if rrEq x r = true then
        (if abs s r = some .auth then some .auth
         else some (.cached (now + 1000 * (if r.flush = true then 1 else r.ttl))
                (now + 1000 * refreshOffsetSecs (if r.flush = true then 1 else r.ttl))))
      else abs s x := by
  unfold Store.addCached
  simp only
  rw [abs_getD]
  split
  · rename_i ha
    rw [if_pos ha]
    by_cases hx : rrEq x r = true
    · rw [if_pos hx, abs_congr _ hx, ha]
    · rw [if_neg hx]
  · rename_i ha
    have ha' : abs s r ≠ some .auth := fun h => ha h
    rw [if_neg ha']
    exact abs_setBucket_insert s r _ x

theorem abs_remove (s : Store) (r x : RR) :
    abs (s.remove r) x = if rrEq x r = true then none else abs s x := by
  unfold Store.remove
  simp only
  split
  · rename_i b hb
    unfold abs
    rw [Store.bucket_setBucket]
    by_cases hk : getKey x.name = getKey r.name
    · rw [if_pos hk, Option.bind_some, Bucket.get_remove, hk, hb]; rfl
    · rw [if_neg hk]
      have : ¬ rrEq x r = true := fun h => hk (by rw [rrEq_name h])
      rw [if_neg this]
  · rename_i hb
    by_cases hx : rrEq x r = true
    · rw [if_pos hx, abs_congr _ hx]; simp [abs, hb]
    · rw [if_neg hx]

theorem abs_clear (s : Store) (x : RR) : abs s.clear x = none := rfl

/-- what is stored, as seen through `abs` (needs the invariant) -/
theorem Inv.abs_of_mem {s : Store} (h : Inv s) {k : Key} {b : Bucket} {x : RR} {kind : Kind}
    (hm : (k, b) ∈ s.entries) (hx : (x, kind) ∈ b) : abs s x = some kind := by
  have hk := h.owner k b hm _ hx
  simp only at hk
  unfold abs
  rw [hk, h.bucket_of_mem hm, Option.bind_some]
  exact Bucket.get_of_mem (h.nodup k b hm) hx

/-- what `abs` sees is stored, under the stored key's representative -/
theorem mem_of_abs {s : Store} {x : RR} {kind : Kind} (h : abs s x = some kind) :
    ∃ b x', s.bucket (getKey x.name) = some b ∧ (x', kind) ∈ b ∧ rrEq x' x = true := by
  unfold abs at h
  cases hb : s.bucket (getKey x.name) with
  | none => rw [hb] at h; cases h
  | some b =>
    rw [hb, Option.bind_some] at h
    obtain ⟨x', h1, h2⟩ := Bucket.get_eq_some h
    exact ⟨b, x', rfl, h1, h2⟩

end Dns.Mdns
