/-
Text form of model values for the line protocol between the Rust harness and
the driver. Not part of the model proper; trusted only for the correspondence.
-/
import SimpleDnsModel.Model.Packet
namespace Dns.Text

def hexDigit (n : Nat) : Char :=
  if n < 10 then Char.ofNat (48 + n) else Char.ofNat (87 + n)

def hexOfBytes (b : Bytes) : String :=
  String.ofList ('x' :: b.foldr (fun x acc => hexDigit (x.toNat / 16) :: hexDigit (x.toNat % 16) :: acc) [])

def hexVal (c : Char) : Option Nat :=
  if '0' ≤ c ∧ c ≤ '9' then some (c.toNat - 48)
  else if 'a' ≤ c ∧ c ≤ 'f' then some (c.toNat - 87)
  else if 'A' ≤ c ∧ c ≤ 'F' then some (c.toNat - 55)
  else none

def bytesOfHexChars : List Char → Option Bytes
  | [] => some []
  | [_] => none
  | a :: b :: rest => do
    let x ← hexVal a
    let y ← hexVal b
    let r ← bytesOfHexChars rest
    pure (UInt8.ofNat (x * 16 + y) :: r)

/-- `x<hex digits>` -/
def bytesOfHex (s : String) : Option Bytes :=
  match s.toList with
  | 'x' :: cs => bytesOfHexChars cs
  | _ => none

abbrev P (α : Type) := List String → Option (α × List String)

def pNat : P Nat
  | t :: ts => t.toNat?.map (·, ts)
  | [] => none

def pBytes : P Bytes
  | t :: ts => (bytesOfHex t).map (·, ts)
  | [] => none

def pBool : P Bool
  | "0" :: ts => some (false, ts)
  | "1" :: ts => some (true, ts)
  | _ => none

def pMany (p : P α) : Nat → P (List α)
  | 0, ts => some ([], ts)
  | n+1, ts => do
    let (a, ts) ← p ts
    let (as, ts) ← pMany p n ts
    pure (a :: as, ts)

def pCounted (p : P α) : P (List α) := fun ts => do
  let (k, ts) ← pNat ts
  pMany p k ts

def pPair (p : P α) (q : P β) : P (α × β) := fun ts => do
  let (a, ts) ← p ts
  let (b, ts) ← q ts
  pure ((a, b), ts)

/-- `n <k> <hex>*` -/
def pName : P Name
  | "n" :: ts => pCounted pBytes ts
  | _ => none

def showList (f : α → String) (xs : List α) : String :=
  xs.foldl (fun acc x => acc ++ " " ++ f x) (toString xs.length)

def showName (n : Name) : String := "n " ++ showList hexOfBytes n

def showKV (x : Nat × Bytes) : String := toString x.1 ++ " " ++ hexOfBytes x.2

def pVal : P Val
  | "i" :: ts => (pNat ts).map fun (n, ts) => (.int n, ts)
  | "b" :: ts => (pBytes ts).map fun (b, ts) => (.bytes b, ts)
  | "n" :: ts => (pCounted pBytes ts).map fun (n, ts) => (.name n, ts)
  | "s" :: ts => (pCounted pBytes ts).map fun (n, ts) => (.strs n, ts)
  | "t" :: ts => (pCounted (pPair pNat pBytes) ts).map fun (n, ts) => (.tlvs n, ts)
  | _ => none

def showVal : Val → String
  | .int n => "i " ++ toString n
  | .bytes b => "b " ++ hexOfBytes b
  | .name n => showName n
  | .strs ss => "s " ++ showList hexOfBytes ss
  | .tlvs xs => "t " ++ showList showKV xs

def pGateway : P Gateway
  | "g0" :: ts => some (.none, ts)
  | "g4" :: ts => (pNat ts).map fun (n, ts) => (.v4 n, ts)
  | "g6" :: ts => (pNat ts).map fun (n, ts) => (.v6 n, ts)
  | "gn" :: ts => (pName ts).map fun (n, ts) => (.domain n, ts)
  | _ => none

def showGateway : Gateway → String
  | .none => "g0"
  | .v4 a => "g4 " ++ toString a
  | .v6 a => "g6 " ++ toString a
  | .domain n => "gn " ++ showName n

def pOptData : P OptData := fun ts => do
  let (udp, ts) ← pNat ts
  let (ver, ts) ← pNat ts
  let (codes, ts) ← pCounted (pPair pNat pBytes) ts
  pure ({ udp := udp, version := ver, codes := codes }, ts)

def showOptData (o : OptData) : String :=
  toString o.udp ++ " " ++ toString o.version ++ " " ++ showList showKV o.codes

def pRData : P RData
  | "F" :: ts => do
    let (code, ts) ← pNat ts
    let (vs, ts) ← pCounted pVal ts
    pure (.flat code vs, ts)
  | "K" :: ts => do
    let (prec, ts) ← pNat ts
    let (alg, ts) ← pNat ts
    let (gw, ts) ← pGateway ts
    let (key, ts) ← pBytes ts
    pure (.ipseckey prec alg gw key, ts)
  | "O" :: ts => (pOptData ts).map fun (o, ts) => (.opt o, ts)
  | "U" :: ts => do
    let (code, ts) ← pNat ts
    let (b, ts) ← pBytes ts
    pure (.null code b, ts)
  | "E" :: ts => (pNat ts).map fun (c, ts) => (.empty (TYPE.ofCode c), ts)
  | _ => none

def showRData : RData → String
  | .flat code vs => "F " ++ toString code ++ " " ++ showList showVal vs
  | .ipseckey prec alg gw key =>
    "K " ++ toString prec ++ " " ++ toString alg ++ " " ++ showGateway gw ++ " " ++ hexOfBytes key
  | .opt o => "O " ++ showOptData o
  | .null code b => "U " ++ toString code ++ " " ++ hexOfBytes b
  | .empty t => "E " ++ toString t.toCode

def outToOpt : Out α → Option α
  | .ok a => some a
  | _ => none

def pQuestion : P Question := fun ts => do
  let (name, ts) ← pName ts
  let (t, ts) ← pNat ts
  let (c, ts) ← pNat ts
  let (u, ts) ← pBool ts
  let qt ← outToOpt (QTYPE.ofCode t)
  let qc ← outToOpt (QCLASS.ofCode c)
  pure ({ name := name, qtype := qt, qclass := qc, unicast := u }, ts)

def showBool (b : Bool) : String := if b then "1" else "0"

def showQuestion (q : Question) : String :=
  showName q.name ++ " " ++ toString q.qtype.toCode ++ " " ++ toString q.qclass.toCode ++ " " ++
    showBool q.unicast

def pRR : P RR := fun ts => do
  let (name, ts) ← pName ts
  let (c, ts) ← pNat ts
  let (ttl, ts) ← pNat ts
  let (f, ts) ← pBool ts
  let (rd, ts) ← pRData ts
  let cls ← outToOpt (CLASS.ofCode c)
  pure ({ name := name, cls := cls, ttl := ttl, rdata := rd, flush := f }, ts)

def showRR (r : RR) : String :=
  showName r.name ++ " " ++ toString r.cls.toCode ++ " " ++ toString r.ttl ++ " " ++
    showBool r.flush ++ " " ++ showRData r.rdata

def pOpt : P (Option OptData)
  | "o0" :: ts => some (none, ts)
  | "o1" :: ts => (pOptData ts).map fun (o, ts) => (some o, ts)
  | _ => none

/-- `P id flags opcode rcode opt #q q* #an rr* #ns rr* #ar rr*` -/
def pPacket : P Packet
  | "P" :: ts => do
    let (id, ts) ← pNat ts
    let (flags, ts) ← pNat ts
    let (opc, ts) ← pNat ts
    let (rc, ts) ← pNat ts
    let (opt, ts) ← pOpt ts
    let (qs, ts) ← pCounted pQuestion ts
    let (an, ts) ← pCounted pRR ts
    let (ns, ts) ← pCounted pRR ts
    let (ar, ts) ← pCounted pRR ts
    pure ({ header := { id := id, opcode := OPCODE.ofCode opc, rcode := RCODE.ofCode rc,
                        flags := flags, opt := opt },
            questions := qs, answers := an, nameServers := ns, additional := ar }, ts)
  | _ => none

def showHeader (h : Header) : String :=
  toString h.id ++ " " ++ toString h.flags ++ " " ++ toString h.opcode.toCode ++ " " ++
    toString h.rcode.toCode ++ " " ++
    (match h.opt with | none => "o0" | some o => "o1 " ++ showOptData o)

def showPacket (p : Packet) : String :=
  "P " ++ showHeader p.header ++ " " ++ showList showQuestion p.questions ++ " " ++
    showList showRR p.answers ++ " " ++ showList showRR p.nameServers ++ " " ++
    showList showRR p.additional

def showOut (f : α → String) : Out α → String
  | .ok a => "ok " ++ f a
  | .err => "err"
  | .panic => "panic"

end Dns.Text
