/-
Basic vocabulary of the model: bytes, the three-valued outcome monad `Out`
(`ok` / `err` / `panic`), the Rust primitives that can panic (indexing and
slicing), and fixed-width big-endian integers.
Import-free (core only) so that the driver links as a native executable.
-/
namespace Dns

abbrev Bytes := List UInt8

/-- Outcome of a Rust function returning `Result`: a value, an `Err(_)` (all
error variants collapsed), or a panic (index out of bounds, slice out of
range, `unwrap` on `None`, arithmetic overflow in a debug build). -/
inductive Out (α : Type) where
  | ok : α → Out α
  | err : Out α
  | panic : Out α
deriving Repr, DecidableEq

@[inline] def Out.bind : Out α → (α → Out β) → Out β
  | .ok a, f => f a
  | .err, _ => .err
  | .panic, _ => .panic

instance : Monad Out where
  pure := .ok
  bind := Out.bind

@[simp] theorem Out.bind_ok (a : α) (f : α → Out β) : (Out.ok a >>= f) = f a := rfl
@[simp] theorem Out.bind_err (f : α → Out β) : ((Out.err : Out α) >>= f) = .err := rfl
@[simp] theorem Out.bind_panic (f : α → Out β) : ((Out.panic : Out α) >>= f) = .panic := rfl
@[simp] theorem Out.pure_eq (a : α) : (pure a : Out α) = .ok a := rfl
@[simp] theorem Out.bind_def (x : Out α) (f : α → Out β) : Out.bind x f = (x >>= f) := rfl

def Out.isOk : Out α → Bool
  | .ok _ => true
  | _ => false

/-- `x >>= f` does not panic when neither `x` nor any continuation does. -/
theorem Out.bind_ne_panic {x : Out α} {f : α → Out β}
    (hx : x ≠ .panic) (hf : ∀ a, x = .ok a → f a ≠ .panic) : (x >>= f) ≠ .panic := by
  cases x with
  | ok a => simpa using hf a rfl
  | err => simp
  | panic => exact absurd rfl hx

theorem Out.bind_eq_ok {x : Out α} {f : α → Out β} {b : β}
    (h : (x >>= f) = .ok b) : ∃ a, x = .ok a ∧ f a = .ok b := by
  cases x with
  | ok a => exact ⟨a, rfl, by simpa using h⟩
  | err => simp at h
  | panic => simp at h

/-- `data[i]` -/
@[inline] def idx (d : Bytes) (i : Nat) : Out UInt8 :=
  match d[i]? with
  | some b => .ok b
  | none => .panic

/-- `data[a..b]` -/
def slice (d : Bytes) (a b : Nat) : Out Bytes :=
  if a ≤ b ∧ b ≤ d.length then .ok ((d.drop a).take (b - a)) else .panic

/-- `data.get(a..b)` (returns `None` instead of panicking) -/
def sliceOpt (d : Bytes) (a b : Nat) : Option Bytes :=
  if a ≤ b ∧ b ≤ d.length then some ((d.drop a).take (b - a)) else none

/-- big-endian, fixed width `w` bytes (`to_be_bytes`; a value wider than the
field is truncated like an `as` cast: high bits dropped) -/
def beN : Nat → Nat → Bytes
  | 0, _ => []
  | w+1, n => UInt8.ofNat (n / 256 ^ w) :: beN w (n % 256 ^ w)

/-- `from_be_bytes` -/
def deN : Bytes → Nat
  | [] => 0
  | b :: rest => b.toNat * 256 ^ rest.length + deN rest

@[simp] theorem beN_length (w n : Nat) : (beN w n).length = w := by
  induction w generalizing n with
  | zero => rfl
  | succ w ih => simp [beN, ih]

theorem deN_lt (b : Bytes) : deN b < 256 ^ b.length := by
  induction b with
  | nil => simp [deN]
  | cons x xs ih =>
    simp only [deN, List.length_cons, Nat.pow_succ]
    have := x.toNat_lt
    have hx : x.toNat ≤ 255 := by omega
    calc x.toNat * 256 ^ xs.length + deN xs
        < x.toNat * 256 ^ xs.length + 256 ^ xs.length := by omega
      _ = (x.toNat + 1) * 256 ^ xs.length := by rw [Nat.add_mul]; simp
      _ ≤ 256 * 256 ^ xs.length := Nat.mul_le_mul_right _ (by omega)
      _ = 256 ^ xs.length * 256 := Nat.mul_comm _ _

theorem deN_beN (w n : Nat) (h : n < 256 ^ w) : deN (beN w n) = n := by
  induction w generalizing n with
  | zero => simp at h; simp [beN, deN, h]
  | succ w ih =>
    have hpos : 0 < 256 ^ w := Nat.pow_pos (by decide)
    have hq : n / 256 ^ w < 256 := by
      rw [Nat.div_lt_iff_lt_mul hpos]; rw [Nat.pow_succ] at h; rw [Nat.mul_comm]; exact h
    simp [beN, deN, ih _ (Nat.mod_lt _ hpos), UInt8.toNat_ofNat', Nat.mod_eq_of_lt hq]
    exact Nat.div_add_mod' n (256 ^ w)

theorem beN_deN (b : Bytes) : beN b.length (deN b) = b := by
  induction b with
  | nil => rfl
  | cons x xs ih =>
    have hlt := deN_lt xs
    have hpos : 0 < 256 ^ xs.length := Nat.pow_pos (by decide)
    simp only [List.length_cons, beN, deN]
    have h1 : (x.toNat * 256 ^ xs.length + deN xs) / 256 ^ xs.length = x.toNat := by
      rw [Nat.mul_comm, Nat.mul_add_div hpos, Nat.div_eq_of_lt hlt]; rfl
    have h2 : (x.toNat * 256 ^ xs.length + deN xs) % 256 ^ xs.length = deN xs := by
      rw [Nat.mul_comm, Nat.mul_add_mod, Nat.mod_eq_of_lt hlt]
    rw [h1, h2, ih]; simp

theorem slice_ok {d : Bytes} {a b : Nat} (h1 : a ≤ b) (h2 : b ≤ d.length) :
    slice d a b = .ok ((d.drop a).take (b - a)) := by simp [slice, h1, h2]

theorem slice_mid (pre mid post : Bytes) (a b : Nat) (ha : a = pre.length)
    (hb : b = pre.length + mid.length) :
    slice (pre ++ (mid ++ post)) a b = .ok mid := by
  subst ha hb; simp [slice]

theorem slice_length {d s : Bytes} {a b : Nat} (h : slice d a b = .ok s) : s.length = b - a := by
  unfold slice at h; split at h
  · cases h; simp; omega
  · cases h

theorem slice_ne_panic {d : Bytes} {a b : Nat} (h1 : a ≤ b) (h2 : b ≤ d.length) :
    slice d a b ≠ .panic := by simp [slice, h1, h2]

theorem idx_ne_panic {d : Bytes} {i : Nat} (h : i < d.length) : idx d i ≠ .panic := by
  simp [idx, List.getElem?_eq_getElem h]

theorem idx_ok {d : Bytes} {i : Nat} (h : i < d.length) : idx d i = .ok d[i] := by
  simp [idx, List.getElem?_eq_getElem h]

end Dns
