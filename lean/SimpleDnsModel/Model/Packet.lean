/-
Questions (`dns/question.rs`), resource records (`dns/resource_record.rs`) and
the message envelope (`dns/packet.rs`): parsing and uncompressed serialisation.
-/
import SimpleDnsModel.Model.RData
namespace Dns

structure Question where
  name : Name
  qtype : QTYPE
  qclass : QCLASS
  unicast : Bool
deriving DecidableEq, Repr

structure RR where
  name : Name
  cls : CLASS
  ttl : Nat
  rdata : RData
  flush : Bool
deriving DecidableEq, Repr

structure Packet where
  header : Header
  questions : List Question
  answers : List RR
  nameServers : List RR
  additional : List RR
deriving DecidableEq, Repr

/-- `Question::parse` -/
def Question.parse (d : Bytes) (pos : Nat) : Out (Question × Nat) := do
  let (name, pos) ← Name.parse d pos
  if pos + 4 > d.length then .err else do
    let tb ← slice d pos (pos + 2)
    let cb ← slice d (pos + 2) (pos + 4)
    let qtype ← QTYPE.ofCode (deN tb)
    let qclass ← QCLASS.ofCode (deN cb &&& 0x7FFF)
    pure ({ name := name, qtype := qtype, qclass := qclass,
            unicast := (deN cb &&& 0x8000) == 0x8000 }, pos + 4)

/-- `Question::write_common` -/
def Question.writeCommon (q : Question) : Bytes :=
  beN 2 q.qtype.toCode ++ beN 2 (if q.unicast then q.qclass.toCode ||| 0x8000 else q.qclass.toCode)

/-- `Question::write_to` -/
def Question.write (q : Question) : Bytes := Name.write q.name ++ q.writeCommon

/-- `ResourceRecord::parse` -/
def RR.parse (d : Bytes) (pos : Nat) : Out (RR × Nat) := do
  let (name, pos) ← Name.parse d pos
  if pos + 8 > d.length then .err else do
    let cb ← slice d (pos + 2) (pos + 4)
    let tb ← slice d (pos + 4) (pos + 8)
    let (rdata, pos') ← RData.parse d pos
    if rdata.typeOf = .OPT then
      pure ({ name := name, cls := .IN, ttl := deN tb, rdata := rdata, flush := false }, pos')
    else do
      let cls ← CLASS.ofCode (deN cb &&& 0x7FFF)
      pure ({ name := name, cls := cls, ttl := deN tb, rdata := rdata,
              flush := (deN cb &&& 0x8000) == 0x8000 }, pos')

/-- `ResourceRecord::write_common`: TYPE, CLASS (UDP size for OPT), TTL -/
def RR.writeCommon (r : RR) : Bytes :=
  beN 2 r.rdata.typeOf.toCode ++
  ((match r.rdata with
    | .opt o => beN 2 o.udp
    | _ => beN 2 (if r.flush then r.cls.toCode ||| 0x8000 else r.cls.toCode)) ++
   beN 4 r.ttl)

/-- `ResourceRecord::write_to`: RDLENGTH comes from `rdata.len() as u16` -/
def RR.write (r : RR) : Out Bytes := do
  let rd ← r.rdata.write
  pure (Name.write r.name ++ (r.writeCommon ++ (beN 2 r.rdata.len ++ rd)))

/-- `Packet::parse_section` for questions -/
def parseQuestions (d : Bytes) : Nat → Nat → Out (List Question × Nat)
  | 0, pos => .ok ([], pos)
  | n+1, pos => do
    let (q, p) ← Question.parse d pos
    let (qs, p') ← parseQuestions d n p
    pure (q :: qs, p')

/-- `Packet::parse_section` for resource records -/
def parseRRs (d : Bytes) : Nat → Nat → Out (List RR × Nat)
  | 0, pos => .ok ([], pos)
  | n+1, pos => do
    let (r, p) ← RR.parse d pos
    let (rs, p') ← parseRRs d n p
    pure (r :: rs, p')

/-- `OPT::extract_rcode_from_ttl` -/
def extractRcode (ttl : Nat) (h : Header) : RCODE :=
  RCODE.ofCode ((((ttl &&& 0xFF) <<< 4) ||| h.rcode.toCode) % 65536)

/-- `OPT::encode_ttl` -/
def encodeTtl (o : OptData) (h : Header) : Nat :=
  ((h.rcode.toCode &&& 0xFF) >>> 4) ||| (o.version <<< 8)

/-- split the additional section at the first record whose type is OPT
(`iter().position(..).map(|i| remove(i))`) -/
def liftOpt : List RR → Option RR × List RR
  | [] => (none, [])
  | r :: rs =>
    if r.rdata.typeOf = .OPT then (some r, rs)
    else let (o, rest) := liftOpt rs; (o, r :: rest)

/-- `Header::extract_info_from_opt_rr` -/
def Header.extractOpt (h : Header) : Option RR → Out Header
  | none => .ok h
  | some r =>
    match r.rdata with
    | .opt o => .ok { h with rcode := extractRcode r.ttl h, opt := some o }
    | _ => .panic   -- `unreachable!()`

/-- `Packet::parse` -/
def Packet.parse (d : Bytes) : Out Packet := do
  let header ← Header.parse d
  let qd ← Peek.questions d
  let (questions, p) ← parseQuestions d qd 12
  let an ← Peek.answers d
  let (answers, p) ← parseRRs d an p
  let ns ← Peek.nameServers d
  let (nameServers, p) ← parseRRs d ns p
  let ar ← Peek.additional d
  let (additional, _) ← parseRRs d ar p
  let (o, rest) := liftOpt additional
  let header ← header.extractOpt o
  pure { header := header, questions := questions, answers := answers,
         nameServers := nameServers, additional := rest }

/-- `Header::opt_rr` -/
def Header.optRR (h : Header) : Option RR :=
  h.opt.map fun o => { name := [], cls := .IN, ttl := encodeTtl o h, rdata := .opt o, flush := false }

def writeRRs : List RR → Out Bytes
  | [] => .ok []
  | r :: rs => do
    let a ← r.write
    let b ← writeRRs rs
    pure (a ++ b)

def writeQuestions : List Question → Bytes
  | [] => []
  | q :: qs => q.write ++ writeQuestions qs

/-- `Packet::write_header` (counts are `len() as u16`) -/
def Packet.writeHeader (p : Packet) : Bytes :=
  p.header.write p.questions.length p.answers.length p.nameServers.length
    ((p.additional.length % 65536 + (if p.header.opt.isSome then 1 else 0)))

/-- `Packet::build_bytes_vec` -/
def Packet.build (p : Packet) : Out Bytes := do
  let an ← writeRRs p.answers
  let ns ← writeRRs p.nameServers
  let o ← writeRRs p.header.optRR.toList
  let ar ← writeRRs p.additional
  pure (p.writeHeader ++ (writeQuestions p.questions ++ (an ++ (ns ++ (o ++ ar)))))

end Dns
