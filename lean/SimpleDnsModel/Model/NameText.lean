/-
Textual name API of `dns/name.rs`: `LabelsIter`, `Label::new` /
`is_valid_label`, `Name::new`, `Display`, `is_subdomain_of`, `without`,
`is_link_local`. Text is modelled as the UTF-8 bytes of the `&str`.
-/
import SimpleDnsModel.Model.NameWire
namespace Dns

/-- `LabelsIter`: the maximal runs of bytes between dots, empty runs skipped
(`cur` is the run being collected, most recent byte first) -/
def splitLabelsAux : Bytes → Bytes → List Bytes
  | [], cur => if cur.isEmpty then [] else [cur.reverse]
  | b :: rest, cur =>
    if b = 46 then
      (if cur.isEmpty then splitLabelsAux rest [] else cur.reverse :: splitLabelsAux rest [])
    else splitLabelsAux rest (b :: cur)

def splitLabels (s : Bytes) : List Bytes := splitLabelsAux s []

/-- `u8::is_ascii_alphanumeric` -/
def isAlnum (b : UInt8) : Bool :=
  (48 ≤ b.toNat && b.toNat ≤ 57) || (65 ≤ b.toNat && b.toNat ≤ 90) || (97 ≤ b.toNat && b.toNat ≤ 122)

/-- `Label::is_valid_label` -/
def Label.isValid (data : Bytes) : Bool :=
  if data.isEmpty || data.length > 63 then false else
  (match data.head? with
   | some first => isAlnum first || first == 95
   | none => true) &&
  (data.drop 1).all (fun c => isAlnum c || c == 45 || c == 95) &&
  (match data.getLast? with
   | some last => isAlnum last
   | none => true)

/-- `Label::new` -/
def Label.new (data : Bytes) : Out Label := if Label.isValid data then .ok data else .err

def labelsNew : List Bytes → Out (List Label)
  | [] => .ok []
  | l :: ls => do
    let a ← Label.new l
    let b ← labelsNew ls
    pure (a :: b)

/-- `Name::new` -/
def Name.new (s : Bytes) : Out Name := do
  let labels ← labelsNew (splitLabels s)
  if Name.wireLen labels > 255 then .err else pure labels

/-- `Name::new_unchecked` -/
def Name.newUnchecked (s : Bytes) : Name := splitLabels s

/-- `Display for Name` as bytes (each label is rendered with `from_utf8_lossy`; for labels that are
valid UTF-8, in particular for every name accepted by `Name::new`, the text is these bytes) -/
def Name.display : Name → Bytes
  | [] => []
  | [l] => l
  | l :: rest => l ++ (46 :: Name.display rest)

/-- `Name::is_subdomain_of`: longer, and equal label-wise from the right (`zip` of the reversed
iterators stops at the shorter one) -/
def Name.isSubdomainOf (a b : Name) : Bool :=
  a.length > b.length && (b.reverse.zip a.reverse).all (fun p => p.1 == p.2)

/-- `Name::without` -/
def Name.without (a b : Name) : Option Name :=
  if a.isSubdomainOf b then some (a.take (a.length - b.length)) else none

/-- `u8::to_ascii_lowercase` -/
def asciiLower (b : UInt8) : UInt8 := if 65 ≤ b.toNat ∧ b.toNat ≤ 90 then b + 32 else b

/-- `<[u8]>::eq_ignore_ascii_case` -/
def eqIgnoreAsciiCase (a b : Bytes) : Bool := a.map asciiLower == b.map asciiLower

/-- `Name::is_link_local` -/
def Name.isLinkLocal (n : Name) : Bool :=
  match n.getLast? with
  | some l => eqIgnoreAsciiCase [108, 111, 99, 97, 108] l
  | none => false

end Dns
