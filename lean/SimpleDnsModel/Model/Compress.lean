/-
Serialisation with name compression: `Name::compress_append` (name.rs:136-159),
the `write_compressed_to` methods of questions, records and the RDATA types
that override it, and `Packet::write_compressed_to` (packet.rs:205-229).

Functional, append-only form: every writer takes the offset (from the first
byte of the message) at which its output starts and the suffix table, and
returns the bytes it appends and the new table. The RDLENGTH back-patch of
`ResourceRecord::write_compressed_to` is the measured length of the RDATA
bytes, emitted in front of them (the imperative seek/patch form is related to
this one in `Model/Writer.lean`).

`buildG c` is one walker for both entry points: `c = false` is
`Packet::write_to` (names in full, RDLENGTH from `len()`), `c = true` is
`Packet::write_compressed_to`.
-/
import SimpleDnsModel.Model.Packet
namespace Dns

/-- `name_refs: HashMap<&[Label], usize>`: label suffix ↦ offset of its first occurrence.
Entries are only added for keys that are absent, so the list never holds a key twice. -/
abbrev Table := List (Name × Nat)

def Table.find (t : Table) (n : Name) : Option Nat :=
  match t with
  | [] => none
  | (m, off) :: rest => if m = n then some off else Table.find rest n

/-- `Name::compress_append` with the writer at message offset `off` -/
def compressName : Name → Nat → Table → Bytes × Table
  | [], _, t => ([0], t)
  | l :: rest, off, t =>
    match Table.find t (l :: rest) with
    | some p => (beN 2 (p ||| 0xC000), t)
    | none =>
      let r := compressName rest (off + 1 + l.length)
        (if off ≤ 0x3FFF then (l :: rest, off) :: t else t)
      (UInt8.ofNat l.length :: (l ++ r.1), r.2)

/-- a name written by the plain (`c = false`) or the compressing (`c = true`) path -/
def nameG (c : Bool) (n : Name) (off : Nat) (t : Table) : Bytes × Table :=
  if c then compressName n off t else (Name.write n, t)

/-- one field; only names marked compressible in the schema go through the table -/
def encFieldG (c : Bool) (k : FKind) (v : Val) (off : Nat) (t : Table) : Bytes × Table :=
  match k, v with
  | .name true, .name n => nameG c n off t
  | k, v => (encField k v, t)

def encAllG (c : Bool) : List FKind → List Val → Nat → Table → Bytes × Table
  | k :: ks, v :: vs, off, t =>
    let a := encFieldG c k v off t
    let b := encAllG c ks vs (off + a.1.length) a.2
    (a.1 ++ b.1, b.2)
  | _, _, _, t => ([], t)

/-- `RData::write_to` / `RData::write_compressed_to` -/
def RData.writeG (c : Bool) (rd : RData) (off : Nat) (t : Table) : Out (Bytes × Table) :=
  match rd with
  | .flat code vs =>
    match schemaOf code with
    | none => .ok ([], t)
    | some ks => if flatCheck code vs then .ok (encAllG c ks vs off t) else .err
  | rd => do
    let b ← rd.write
    pure (b, t)

/-- `ResourceRecord::write_to` / `write_compressed_to` -/
def RR.writeG (c : Bool) (r : RR) (off : Nat) (t : Table) : Out (Bytes × Table) := do
  let nb := nameG c r.name off t
  let common := r.writeCommon
  let (rd, t2) ← r.rdata.writeG c (off + nb.1.length + common.length + 2) nb.2
  pure (nb.1 ++ (common ++ (beN 2 (if c then rd.length else r.rdata.len) ++ rd)), t2)

/-- `Question::write_to` / `write_compressed_to` -/
def Question.writeG (c : Bool) (q : Question) (off : Nat) (t : Table) : Bytes × Table :=
  let nb := nameG c q.name off t
  (nb.1 ++ q.writeCommon, nb.2)

def writeQuestionsG (c : Bool) : List Question → Nat → Table → Bytes × Table
  | [], _, t => ([], t)
  | q :: qs, off, t =>
    let a := q.writeG c off t
    let b := writeQuestionsG c qs (off + a.1.length) a.2
    (a.1 ++ b.1, b.2)

def writeRRsG (c : Bool) : List RR → Nat → Table → Out (Bytes × Table)
  | [], _, t => .ok ([], t)
  | r :: rs, off, t => do
    let a ← r.writeG c off t
    let b ← writeRRsG c rs (off + a.1.length) a.2
    pure (a.1 ++ b.1, b.2)

/-- `Packet::write_to` (`c = false`) / `Packet::write_compressed_to` (`c = true`) into an empty
vector. The OPT pseudo-record is always written by the plain `write_to`. -/
def Packet.buildG (c : Bool) (p : Packet) : Out Bytes := do
  let hdr := p.writeHeader
  let qs := writeQuestionsG c p.questions hdr.length []
  let o1 := hdr.length + qs.1.length
  let (an, t1) ← writeRRsG c p.answers o1 qs.2
  let o2 := o1 + an.length
  let (ns, t2) ← writeRRsG c p.nameServers o2 t1
  let o3 := o2 + ns.length
  let o ← writeRRs p.header.optRR.toList
  let (ar, _) ← writeRRsG c p.additional (o3 + o.length) t2
  pure (hdr ++ (qs.1 ++ (an ++ (ns ++ (o ++ ar)))))

/-- `Packet::build_bytes_vec_compressed` -/
def Packet.buildCompressed (p : Packet) : Out Bytes := p.buildG true

end Dns
