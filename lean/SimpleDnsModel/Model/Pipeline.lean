/-
The datagram-handling steps of the mDNS services, as performed inside the
receive loops of `simple_responder.rs`, `service_discovery.rs` and
`oneshot_resolver.rs`: header peek, parse, answer a query or ingest a
response, serialise the reply. Sockets, threads and locks are not modelled; a
`.panic` outcome of a step is what would kill the receive thread (and poison
the store's lock).
-/
import SimpleDnsModel.Model.Mdns
import SimpleDnsModel.Model.Compress
namespace Dns.Mdns

/-- serialise a reply: `build_bytes_vec_compressed`, an error is logged and the datagram dropped -/
def sendReply (r : Option (Packet × Bool)) : Out (Option Bytes) :=
  match r with
  | none => .ok none
  | some (p, _) =>
    match p.buildCompressed with
    | .ok b => .ok (some b)
    | .err => .ok none
    | .panic => .panic

/-- one iteration of `SimpleMdnsResponder`'s loop on a received datagram:
`has_flags(RESPONSE).unwrap_or(true)` → skip; parse error → log; otherwise reply -/
def handleResponder (s : Store) (d : Bytes) (now : Nat) : Out (Option Bytes) :=
  match Peek.hasFlags d 0x8000 with
  | .panic => .panic
  | .err => .ok none
  | .ok true => .ok none
  | .ok false =>
    match Packet.parse d with
    | .panic => .panic
    | .err => .ok none
    | .ok p => sendReply (buildReply p s now)

/-- one iteration of `ServiceDiscovery`'s loop: responses are ingested, queries answered -/
def handleDiscovery (s : Store) (service full : Name) (d : Bytes) (now : Nat) :
    Out (Store × Option Bytes) :=
  match Packet.parse d with
  | .panic => .panic
  | .err => .ok (s, none)
  | .ok p =>
    if p.header.hasFlags 0x8000 then .ok (ingest p service full s now, none)
    else match sendReply (buildReply p s now) with
      | .ok r => .ok (s, r)
      | .err => .err
      | .panic => .panic

/-- the one-shot resolver's treatment of a datagram: `header_buffer::id` peek then parse -/
def handleResolver (d : Bytes) : Out (Option Packet) :=
  match Peek.id d with
  | .panic => .panic
  | .err => .ok none
  | .ok _ =>
    match Packet.parse d with
    | .panic => .panic
    | .err => .ok none
    | .ok p => .ok (some p)

/-! ### sending the reply

`handleResponder` ends with the bytes to send. What the loop does when `UdpSocket::send_to` refuses
them decides whether one datagram can end the service: a reply is as large as the matching records
times the number of questions, so a query of a few hundred questions for one registered name asks for
more than a datagram can carry. -/

/-- the largest UDP payload over IPv4: `send_to` of more fails with EMSGSIZE -/
def udpMaxPayload : Nat := 65507

/-- `UdpSocket::send_to`: refused because of the size, or by the environment (`envOk = false`:
destination unreachable, interface down, buffer full) -/
def sendTo (b : Bytes) (envOk : Bool) : Bool := envOk && decide (b.length ≤ udpMaxPayload)

/-- what one iteration of a receive loop leaves behind -/
inductive LoopStep where
  | continues (sent : Option Bytes)
  | ends
deriving DecidableEq, Repr

/-- how a loop treats a failed send: the error is logged and the reply dropped, or `?` returns from
the loop function and the thread ends -/
inductive OnSendError where
  | log | propagate
deriving DecidableEq, Repr

/-- `SimpleMdnsResponder::responder_loop` (both flavours), one iteration; since fix 4185208 the
policy is `.log` (`Props/TieEnv.lean` reads it from the source) -/
def responderIteration (pol : OnSendError) (s : Store) (d : Bytes) (now : Nat) (envOk : Bool) :
    Out LoopStep :=
  match handleResponder s d now with
  | .panic => .panic
  | .err => .err
  | .ok none => .ok (.continues none)
  | .ok (some b) =>
    if sendTo b envOk then .ok (.continues (some b))
    else match pol with
      | .log => .ok (.continues none)
      | .propagate => .ok .ends

/-- the policy of the code: `if let Err(err) = sender_socket.send_to(..) { log::error!(..) }` -/
def responderSendPolicy : OnSendError := .log

/-- the records `ServiceDiscovery::new` registers for its own instance: the service PTR and the
instance's address, SRV and TXT records -/
def discoveryInit (service full : Name) (own : List RR) : Store :=
  (own.foldl (fun s r => s.addAuth r)
    (Store.empty.addAuth { name := service, cls := .IN, ttl := 0, rdata := .flat 12 [.name full], flush := false }))

end Dns.Mdns
