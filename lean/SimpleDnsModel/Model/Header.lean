/-
The 12-byte header: `Header::parse`, `Header::write_to`, `Header::get_flags`
(`simple-dns/src/dns/header.rs`), the flag algebra of `PacketFlag`
(`dns/mod.rs`, bitflags) and the peek functions of `dns/header_buffer.rs`.
-/
import SimpleDnsModel.Model.Codes
namespace Dns

/-- EDNS data carried in the header (`rdata::OPT`). -/
structure OptData where
  udp : Nat
  version : Nat
  codes : List (Nat × Bytes)
deriving DecidableEq, Repr

structure Header where
  id : Nat
  opcode : OPCODE
  rcode : RCODE
  /-- `z_flags.bits()` -/
  flags : Nat
  opt : Option OptData
deriving DecidableEq, Repr

namespace Mask
def OPCODE : Nat := 0x7800
def RESERVED : Nat := 0x0040
def RCODE : Nat := 0x000F
/-- union of all `PacketFlag` constants: RESPONSE, AA, TC, RD, RA, AD, CD -/
def ALLFLAGS : Nat := 0x87B0
end Mask

/-- `PacketFlag::from_bits_truncate` -/
def flagsTruncate (w : Nat) : Nat := w &&& Mask.ALLFLAGS

/-- `Header::parse` -/
def Header.parse (d : Bytes) : Out Header :=
  if d.length < 12 then .err else do
    let fb ← slice d 2 4
    let flags := deN fb
    if flags &&& Mask.RESERVED ≠ 0 then .err else do
      let ib ← slice d 0 2
      pure { id := deN ib
             opcode := OPCODE.ofCode ((flags &&& Mask.OPCODE) >>> 11)
             rcode := RCODE.ofCode (flags &&& Mask.RCODE)
             flags := flagsTruncate flags
             opt := none }

/-- `Header::get_flags` -/
def Header.getFlags (h : Header) : Nat :=
  (h.flags ||| (h.opcode.toCode <<< 11)) ||| (h.rcode.toCode &&& Mask.RCODE)

/-- `Header::write_to` (counts are `as u16` casts of the section lengths) -/
def Header.write (h : Header) (qd an ns ar : Nat) : Bytes :=
  beN 2 h.id ++ (beN 2 h.getFlags ++ (beN 2 qd ++ (beN 2 an ++ (beN 2 ns ++ beN 2 ar))))

/-- `Header::set_flags` : `z_flags |= flags` -/
def Header.setFlags (h : Header) (f : Nat) : Header := { h with flags := h.flags ||| f }
/-- `Header::remove_flags` : `z_flags.remove(flags)` -/
def Header.removeFlags (h : Header) (f : Nat) : Header :=
  { h with flags := h.flags &&& (Mask.ALLFLAGS ^^^ f) }
/-- `Header::has_flags` : `z_flags.contains(flags)` -/
def Header.hasFlags (h : Header) (f : Nat) : Bool := h.flags &&& f == f

/-- the `buffer.get(a..b).ok_or(..)?.try_into().map(u16::from_be_bytes)` pattern -/
def peekU16 (d : Bytes) (a : Nat) : Out Nat :=
  match sliceOpt d a (a + 2) with
  | none => .err
  | some s => .ok (deN s)

namespace Peek
def id (d : Bytes) : Out Nat := peekU16 d 0
def questions (d : Bytes) : Out Nat := peekU16 d 4
def answers (d : Bytes) : Out Nat := peekU16 d 6
def nameServers (d : Bytes) : Out Nat := peekU16 d 8
def additional (d : Bytes) : Out Nat := peekU16 d 10
def hasFlags (d : Bytes) (f : Nat) : Out Bool := do
  let w ← peekU16 d 2
  pure (flagsTruncate w &&& f == f)
def rcode (d : Bytes) : Out RCODE := do
  let w ← peekU16 d 2
  pure (RCODE.ofCode (w &&& Mask.RCODE))
def opcode (d : Bytes) : Out OPCODE := do
  let w ← peekU16 d 2
  pure (OPCODE.ofCode ((w &&& Mask.OPCODE) >>> 11))
end Peek

end Dns
