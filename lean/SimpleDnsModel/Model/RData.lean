/-
RDATA: character-strings (`dns/character_string.rs`), the per-type parsers and
writers of `dns/rdata/*.rs` and the dispatch of `rdata_enum!`
(`dns/rdata/macros.rs`).

The 38 types whose RDATA is a fixed sequence of fields are rows of the table
`schemaOf` (field kinds in the order the Rust `parse` / `write_to` read and
write them; a name is marked compressible when the type overrides
`write_compressed_to` and delegates to `Name::write_compressed_to`), run by one
generic interpreter. IPSECKEY, OPT, NULL/unknown and empty RDATA are modelled
function by function.
-/
import SimpleDnsModel.Model.Header
import SimpleDnsModel.Model.NameWire
namespace Dns

/-! ### character-strings -/

/-- `CharacterString::parse` -/
def CharStr.parse (d : Bytes) (pos : Nat) : Out (Bytes × Nat) :=
  if pos ≥ d.length then .err else do
    let lb ← idx d pos
    if lb.toNat > 255 ∨ lb.toNat + pos + 1 > d.length then .err else do
      let s ← slice d (pos + 1) (pos + 1 + lb.toNat)
      pure (s, pos + lb.toNat + 1)

/-- `CharacterString::write_to` (`self.data.len() as u8` truncates) -/
def CharStr.write (s : Bytes) : Bytes := UInt8.ofNat s.length :: s

theorem CharStr.parse_advances {d : Bytes} {pos : Nat} {s : Bytes} {p : Nat}
    (h : CharStr.parse d pos = .ok (s, p)) : p > pos := by
  unfold CharStr.parse at h
  split at h
  · cases h
  · obtain ⟨lb, _, h⟩ := Out.bind_eq_ok h
    split at h
    · cases h
    · obtain ⟨s', _, h⟩ := Out.bind_eq_ok h
      simp at h; omega

/-! ### field kinds and values -/

inductive FKind where
  /-- big-endian unsigned integer of `w` bytes (`i32` fields are compared as `u32`) -/
  | int (w : Nat)
  | charstr
  /-- embedded domain name; `compress` = written through `write_compressed_to` -/
  | name (compress : Bool)
  /-- opaque bytes up to the end of the RDATA -/
  | rest
  /-- character-strings up to the end of the RDATA (TXT) -/
  | strs
  /-- (key, length, value) triples up to the end of the RDATA, key of `kw` bytes, length of
  `lw` bytes; `strict`: keys must be strictly increasing (NSEC windows, SVCB parameters) -/
  | tlvs (kw lw : Nat) (strict : Bool)
deriving DecidableEq, Repr

inductive Val where
  | int (n : Nat)
  | bytes (b : Bytes)
  | name (n : Name)
  | strs (ss : List Bytes)
  | tlvs (xs : List (Nat × Bytes))
deriving DecidableEq, Repr

/-- `while *position < data.len() { strings.push(CharacterString::parse(..)?) }` (txt.rs) -/
def strsLoop (d : Bytes) (pos : Nat) (acc : List Bytes) : Out (List Bytes × Nat) :=
  if h : pos < d.length then
    match hcs : CharStr.parse d pos with
    | .ok (s, p) => strsLoop d p (s :: acc)
    | .err => .err
    | .panic => .panic
  else .ok (acc.reverse, pos)
termination_by d.length - pos
decreasing_by
  have := CharStr.parse_advances hcs
  omega

/-- `type_bit_maps.last().is_some_and(|f| f.window_block >= window_block)` /
`i32::from(key) <= previous_key` -/
def keyNotAfter (prev : Option Nat) (key : Nat) : Bool :=
  match prev with
  | some p => key ≤ p
  | none => false

/-- one (key, length, value) triple: the guard on the key+length head, the ordering check, the
guard on the value, as in `NSEC::parse` / `SVCB::parse` -/
def tlvOne (d : Bytes) (kw lw : Nat) (strict : Bool) (prev : Option Nat) (pos : Nat) :
    Out ((Nat × Bytes) × Nat) :=
  if pos + kw + lw > d.length then .err else do
    let kb ← slice d pos (pos + kw)
    let lb ← slice d (pos + kw) (pos + kw + lw)
    if strict && keyNotAfter prev (deN kb) then .err else
    if pos + kw + lw + deN lb > d.length then .err else do
      let v ← slice d (pos + kw + lw) (pos + kw + lw + deN lb)
      pure ((deN kb, v), pos + kw + lw + deN lb)

theorem tlvOne_advances {d : Bytes} {kw lw : Nat} {strict : Bool} {prev : Option Nat}
    {pos : Nat} {x : Nat × Bytes} {p : Nat} (hk : 0 < kw + lw)
    (h : tlvOne d kw lw strict prev pos = .ok (x, p)) : p > pos := by
  unfold tlvOne at h
  split at h
  · cases h
  · obtain ⟨kb, _, h⟩ := Out.bind_eq_ok h
    obtain ⟨lb, _, h⟩ := Out.bind_eq_ok h
    split at h
    · cases h
    · split at h
      · cases h
      · obtain ⟨v, _, h⟩ := Out.bind_eq_ok h
        simp at h; omega

def tlvsLoop (d : Bytes) (kw lw : Nat) (strict : Bool) (pos : Nat) (acc : List (Nat × Bytes)) :
    Out (List (Nat × Bytes) × Nat) :=
  if hk : kw + lw = 0 then .panic else
  if h : pos < d.length then
    match hone : tlvOne d kw lw strict (acc.head?.map (·.1)) pos with
    | .ok (x, p) => tlvsLoop d kw lw strict p (x :: acc)
    | .err => .err
    | .panic => .panic
  else .ok (acc.reverse, pos)
termination_by d.length - pos
decreasing_by
  have := tlvOne_advances (by omega) hone
  omega

/-- decode one field at `pos` of the (already cut at RDLENGTH) buffer `d` -/
def decField (d : Bytes) : FKind → Nat → Out (Val × Nat)
  | .int w, pos =>
    if pos + w > d.length then .err else do
      let s ← slice d pos (pos + w)
      pure (.int (deN s), pos + w)
  | .charstr, pos => do
      let (s, p) ← CharStr.parse d pos
      pure (.bytes s, p)
  | .name _, pos => do
      let (n, p) ← Name.parse d pos
      pure (.name n, p)
  | .rest, pos => do
      let s ← slice d pos d.length
      pure (.bytes s, d.length)
  | .strs, pos => do
      let (ss, p) ← strsLoop d pos []
      pure (.strs ss, p)
  | .tlvs kw lw strict, pos => do
      let (xs, p) ← tlvsLoop d kw lw strict pos []
      pure (.tlvs xs, p)

def decAll (d : Bytes) : List FKind → Nat → Out (List Val × Nat)
  | [], pos => .ok ([], pos)
  | k :: ks, pos => do
    let (v, p) ← decField d k pos
    let (vs, p') ← decAll d ks p
    pure (v :: vs, p')

/-- stable insertion sort by key (`sort_by(|a, b| a.window_block.cmp(..))` in `NSEC::write_to`) -/
def insertByKey (x : Nat × Bytes) : List (Nat × Bytes) → List (Nat × Bytes)
  | [] => [x]
  | y :: ys => if x.1 ≤ y.1 then x :: y :: ys else y :: insertByKey x ys

def sortByKey : List (Nat × Bytes) → List (Nat × Bytes)
  | [] => []
  | x :: xs => insertByKey x (sortByKey xs)

def encTlvs (kw lw : Nat) : List (Nat × Bytes) → Bytes
  | [] => []
  | (k, v) :: xs => beN kw k ++ (beN lw v.length ++ (v ++ encTlvs kw lw xs))

def encStrs : List Bytes → Bytes
  | [] => []
  | s :: ss => CharStr.write s ++ encStrs ss

/-- uncompressed encoding of one field -/
def encField : FKind → Val → Bytes
  | .int w, .int n => beN w n
  | .charstr, .bytes b => CharStr.write b
  | .name _, .name n => Name.write n
  | .rest, .bytes b => b
  /- `TXT::write_to`: no strings at all are written as one empty string -/
  | .strs, .strs ss => if ss.isEmpty then [0] else encStrs ss
  /- NSEC sorts a copy of its windows before writing; SVCB's `BTreeMap` iterates in key order -/
  | .tlvs kw lw strict, .tlvs xs => encTlvs kw lw (if strict then sortByKey xs else xs)
  | _, _ => []

def encAll : List FKind → List Val → Bytes
  | k :: ks, v :: vs => encField k v ++ encAll ks vs
  | _, _ => []

/-- the per-field contribution to `WireFormat::len()` -/
def lenField : FKind → Val → Nat
  | .int w, .int _ => w
  | .charstr, .bytes b => b.length + 1
  | .name _, .name n => Name.wireLen n
  | .rest, .bytes b => b.length
  | .strs, .strs ss => if ss.isEmpty then 1 else (ss.map (·.length + 1)).sum
  | .tlvs kw lw _, .tlvs xs => (xs.map (fun x => x.2.length + kw + lw)).sum
  | _, _ => 0

def lenAll : List FKind → List Val → Nat
  | k :: ks, v :: vs => lenField k v + lenAll ks vs
  | _, _ => 0

/-- the field layout of each flat type, keyed by its `TYPE_CODE` -/
def schemaOf (code : Nat) : Option (List FKind) :=
  match code with
  | 1 => some [.int 4]                                    -- A
  | 28 => some [.int 16]                                  -- AAAA
  | 2 | 3 | 4 | 5 | 7 | 8 | 9 | 12 | 23 => some [.name true]   -- NS MD MF CNAME MB MG MR PTR NSAP_PTR
  | 13 => some [.charstr, .charstr]                       -- HINFO
  | 14 => some [.name true, .name true]                   -- MINFO
  | 15 => some [.int 2, .name true]                       -- MX
  | 16 => some [.strs]                                    -- TXT
  | 6 => some [.name true, .name true, .int 4, .int 4, .int 4, .int 4, .int 4]  -- SOA
  | 11 => some [.int 4, .int 1, .rest]                    -- WKS
  | 33 => some [.int 2, .int 2, .int 2, .name false]      -- SRV
  | 17 => some [.name true, .name true]                   -- RP
  | 18 => some [.int 2, .name true]                       -- AFSDB
  | 20 => some [.charstr, .charstr]                       -- ISDN
  | 21 => some [.int 2, .name true]                       -- RouteThrough
  | 35 => some [.int 2, .int 2, .charstr, .charstr, .charstr, .name false]  -- NAPTR
  | 22 => some [.int 1, .int 2, .int 1, .int 3, .int 2, .int 2, .int 2, .int 6, .int 1]  -- NSAP
  | 29 => some [.int 1, .int 1, .int 1, .int 1, .int 4, .int 4, .int 4]     -- LOC
  | 257 => some [.int 1, .charstr, .rest]                 -- CAA
  | 64 | 65 => some [.int 2, .name false, .tlvs 2 2 true] -- SVCB HTTPS
  | 108 => some [.int 6]                                  -- EUI48
  | 109 => some [.int 8]                                  -- EUI64
  | 37 => some [.int 2, .int 2, .int 1, .rest]            -- CERT
  | 63 => some [.int 4, .int 1, .int 1, .rest]            -- ZONEMD
  | 36 => some [.int 2, .name false]                      -- KX
  | 48 => some [.int 2, .int 1, .int 1, .rest]            -- DNSKEY
  | 46 => some [.int 2, .int 1, .int 1, .int 4, .int 4, .int 4, .int 2, .name false, .rest]  -- RRSIG
  | 43 => some [.int 2, .int 1, .int 1, .rest]            -- DS
  | 47 => some [.name false, .tlvs 1 1 true]              -- NSEC
  | 49 => some [.int 2, .int 1, .rest]                    -- DHCID
  | _ => none

/-- extra structural rule a type enforces on both parse and write: LOC version must be 0 -/
def flatCheck (code : Nat) (vs : List Val) : Bool :=
  match code, vs with
  | 29, .int v :: _ => v == 0
  | _, _ => true

/-! ### the RDATA value -/

inductive Gateway where
  | none
  | v4 (a : Nat)
  | v6 (a : Nat)
  | domain (n : Name)
deriving DecidableEq, Repr

inductive RData where
  | flat (code : Nat) (vs : List Val)
  | ipseckey (prec alg : Nat) (gw : Gateway) (key : Bytes)
  | opt (o : OptData)
  /-- `RData::NULL(code, NULL)`: opaque content of type NULL or of an unknown type -/
  | null (code : Nat) (data : Bytes)
  | empty (t : TYPE)
deriving DecidableEq, Repr

/-- `RData::type_code` -/
def RData.typeOf : RData → TYPE
  | .flat code _ => TYPE.ofCode code
  | .ipseckey .. => .IPSECKEY
  | .opt _ => .OPT
  | .null code _ => TYPE.ofCode code
  | .empty t => t

/-- `IPSECKEY::parse` -/
def ipseckeyParse (d : Bytes) (pos : Nat) : Out (RData × Nat) :=
  if pos + 3 > d.length then .err else do
    let prec ← idx d pos
    let gt ← idx d (pos + 1)
    let alg ← idx d (pos + 2)
    let pos := pos + 3
    let (gw, pos) ← (match gt.toNat with
      | 0 => (.ok (Gateway.none, pos) : Out (Gateway × Nat))
      | 1 => if d.length < pos + 4 then .err else do
          let s ← slice d pos (pos + 4)
          pure (Gateway.v4 (deN s), pos + 4)
      | 2 => if d.length < pos + 16 then .err else do
          let s ← slice d pos (pos + 16)
          pure (Gateway.v6 (deN s), pos + 16)
      | 3 => do
          let (n, p) ← Name.parse d pos
          pure (Gateway.domain n, p)
      | _ => .err)
    let key ← slice d pos d.length
    pure (.ipseckey prec.toNat alg.toNat gw key, d.length)

def Gateway.write : Gateway → Bytes
  | .none => []
  | .v4 a => beN 4 a
  | .v6 a => beN 16 a
  | .domain n => Name.write n

def Gateway.tag : Gateway → Nat
  | .none => 0 | .v4 _ => 1 | .v6 _ => 2 | .domain _ => 3

def Gateway.len : Gateway → Nat
  | .none => 0 | .v4 _ => 4 | .v6 _ => 16 | .domain n => Name.wireLen n

/-- the option loop of `OPT::parse` -/
def optLoop (d : Bytes) (pos : Nat) (acc : List (Nat × Bytes)) : Out (List (Nat × Bytes) × Nat) :=
  if h : pos < d.length then
    match hone : tlvOne d 2 2 false none pos with
    | .ok (x, p) => optLoop d p (x :: acc)
    | .err => .err
    | .panic => .panic
  else .ok (acc.reverse, pos)
termination_by d.length - pos
decreasing_by
  have := tlvOne_advances (by omega) hone
  omega

/-- `OPT::parse`: `d` is the message cut at the end of this record, `pos` is at the TYPE field -/
def optParse (d : Bytes) (pos : Nat) : Out (RData × Nat) :=
  if pos + 10 > d.length then .err else do
    let ub ← slice d (pos + 2) (pos + 4)
    let tb ← slice d (pos + 4) (pos + 8)
    let ttl := deN tb
    let version := ((ttl &&& 0xFF00) >>> 8) % 256
    let (codes, p) ← optLoop d (pos + 10) []
    pure (.opt { udp := deN ub, version := version, codes := codes }, p)

/-- `parse_rdata`: dispatch on the type; `d` is the message cut at the end of the RDATA -/
def parseTyped (d : Bytes) (pos : Nat) (t : TYPE) : Out (RData × Nat) :=
  match t with
  | .IPSECKEY => ipseckeyParse d pos
  | .NULL => do
      let s ← slice d pos d.length
      if s.length > 65535 then .err else pure (.null 10 s, pos + s.length)
  | .Unknown c => do
      let s ← slice d pos d.length
      if s.length > 65535 then .err else pure (.null c s, pos + s.length)
  | .OPT => .panic   -- not reachable: `RData::parse` handles OPT before dispatching
  | t =>
    match schemaOf t.toCode with
    | none => .panic   -- not reachable: every other variant has a schema
    | some ks => do
      let (vs, p) ← decAll d ks pos
      if flatCheck t.toCode vs then pure (.flat t.toCode vs, p) else .err

/-- `RData::parse` (macros.rs:84-113): `pos` is at the TYPE field of the record -/
def RData.parse (d : Bytes) (pos : Nat) : Out (RData × Nat) :=
  if pos + 10 > d.length then .err else do
    let tb ← slice d pos (pos + 2)
    let t := TYPE.ofCode (deN tb)
    let lb ← slice d (pos + 8) (pos + 10)
    let rdlen := deN lb
    if pos + 10 + rdlen > d.length then .err else
    if t = .OPT then optParse (d.take (pos + rdlen + 10)) pos else
    let pos := pos + 10
    if rdlen = 0 then .ok (.empty t, pos) else do
      let rdataEnd := pos + rdlen
      let (rd, _) ← parseTyped (d.take rdataEnd) pos t
      pure (rd, rdataEnd)

def encOptCodes : List (Nat × Bytes) → Bytes := encTlvs 2 2

/-- `RData::write_to`; the only writer that can fail on its own is LOC (version ≠ 0) -/
def RData.write : RData → Out Bytes
  | .flat code vs =>
    match schemaOf code with
    | none => .ok []
    | some ks => if flatCheck code vs then .ok (encAll ks vs) else .err
  | .ipseckey prec alg gw key =>
    .ok (UInt8.ofNat prec :: UInt8.ofNat gw.tag :: UInt8.ofNat alg :: (gw.write ++ key))
  | .opt o => .ok (encOptCodes o.codes)
  | .null _ data => .ok data
  | .empty _ => .ok []

/-- `RData::len` as each type computes it -/
def RData.len : RData → Nat
  | .flat code vs =>
    match schemaOf code with
    | none => 0
    | some ks => lenAll ks vs
  | .ipseckey _ _ gw key => 3 + gw.len + key.length
  | .opt o => (o.codes.map (fun x => x.2.length + 4)).sum
  /- `NULL::len` returns the stored `length: u16`, i.e. the data length truncated to 16 bits -/
  | .null _ data => data.length % 65536
  | .empty _ => 0

end Dns
