/-
The writer-based entry points `Packet::write_to` and
`Packet::write_compressed_to` (packet.rs) over the `std::io` writers a caller
can pass: `Vec<u8>`, `Cursor<Vec<u8>>`, `Cursor<&mut [u8]>` and `&mut [u8]`.

The behaviour of these std types is modelled (trusted base, DESIGN.md §5):
* `Vec<u8>`: `write_all` appends; no `Seek`.
* `Cursor<Vec<u8>>`: `write_all` overwrites from the position, zero-filling a
  gap and extending the vector; `Seek` anywhere.
* `Cursor<&mut [u8]>`: like the above inside a fixed buffer; a write that does
  not fit writes what fits and fails (`WriteZero` → `FailedToWrite`).
* `&mut [u8]`: writes at the front of the remaining slice; fails when full; no `Seek`.

The compressed path is written imperatively as in
`ResourceRecord::write_compressed_to`: two placeholder bytes, the RDATA, then
seek back, patch RDLENGTH, seek to the end of the record; positions handed to
the name compressor are relative to the writer's position when
`write_compressed_to` was called (`MessageWriter`).
-/
import SimpleDnsModel.Model.Compress
namespace Dns

inductive WKind where
  | vec | cursorVec | cursorFixed | slice
deriving DecidableEq, Repr

/-- writer state: the underlying storage and the position (for `slice`: bytes consumed so far) -/
structure W where
  kind : WKind
  buf : Bytes
  pos : Nat
deriving DecidableEq, Repr

/-- overwrite `buf` from `pos` with `bs`, zero-filling a gap and extending as needed -/
def overwrite (buf : Bytes) (pos : Nat) (bs : Bytes) : Bytes :=
  (buf ++ List.replicate (pos - buf.length) 0).take pos ++ (bs ++ buf.drop (pos + bs.length))

/-- `Write::write_all` -/
def W.write (w : W) (bs : Bytes) : Out W :=
  match w.kind with
  | .vec => .ok { w with buf := w.buf ++ bs }
  | .cursorVec =>
    if bs.isEmpty then .ok w
    else .ok { w with buf := overwrite w.buf w.pos bs, pos := w.pos + bs.length }
  | .cursorFixed | .slice =>
    if bs.isEmpty then .ok w
    else if w.pos + bs.length ≤ w.buf.length then
      .ok { w with buf := overwrite w.buf w.pos bs, pos := w.pos + bs.length }
    else .err

/-- `Seek::stream_position` (only the cursor kinds implement `Seek`) -/
def W.streamPos (w : W) : Nat := w.pos

/-- `Seek::seek(SeekFrom::Start(p))` -/
def W.seekStart (w : W) (p : Nat) : W := { w with pos := p }

def W.hasSeek (w : W) : Bool := w.kind == .cursorVec || w.kind == .cursorFixed

/-- `Packet::write_to`: a sequence of `write_all` calls whose concatenation is `Packet::build`;
`W.write` of a concatenation equals the sequence of writes (`W.write_append`, Props/C04) -/
def Packet.writeTo (p : Packet) (w : W) : Out W := do
  let bs ← p.build
  w.write bs

/-- `ResourceRecord::write_compressed_to` on a seekable writer; `start` is the stream position of
the first byte of the message -/
def RR.writeCompressedTo (r : RR) (w : W) (start : Nat) (t : Table) : Out (W × Table) := do
  let nb := compressName r.name (w.streamPos - start) t
  let w ← w.write nb.1
  let w ← w.write r.writeCommon
  let lenPosition := w.streamPos - start
  let w ← w.write [0, 0]
  let (rd, t2) ← r.rdata.writeG true (w.streamPos - start) nb.2
  let w ← w.write rd
  let endp := w.streamPos - start
  let w := w.seekStart (start + lenPosition)
  let w ← w.write (beN 2 (endp - lenPosition - 2))
  let w := w.seekStart (start + endp)
  pure (w, t2)

def Question.writeCompressedTo (q : Question) (w : W) (start : Nat) (t : Table) : Out (W × Table) := do
  let nb := compressName q.name (w.streamPos - start) t
  let w ← w.write nb.1
  let w ← w.write q.writeCommon
  pure (w, nb.2)

def writeQuestionsTo : List Question → W → Nat → Table → Out (W × Table)
  | [], w, _, t => .ok (w, t)
  | q :: qs, w, start, t => do
    let (w, t) ← q.writeCompressedTo w start t
    writeQuestionsTo qs w start t

def writeRRsTo : List RR → W → Nat → Table → Out (W × Table)
  | [], w, _, t => .ok (w, t)
  | r :: rs, w, start, t => do
    let (w, t) ← r.writeCompressedTo w start t
    writeRRsTo rs w start t

/-- `Packet::write_compressed_to` -/
def Packet.writeCompressedTo (p : Packet) (w : W) : Out W := do
  let start := w.streamPos
  let w ← w.write p.writeHeader
  let (w, t) ← writeQuestionsTo p.questions w start []
  let (w, t) ← writeRRsTo p.answers w start t
  let (w, t) ← writeRRsTo p.nameServers w start t
  let o ← writeRRs p.header.optRR.toList
  let w ← w.write o
  let (w, _) ← writeRRsTo p.additional w start t
  pure w

/-- what a correct writer leaves behind: `bytes` spliced into the storage at the initial position -/
def W.expect (w : W) (bytes : Bytes) : W :=
  match w.kind with
  | .vec => { w with buf := w.buf ++ bytes }
  | _ => if bytes.isEmpty then w else { w with buf := overwrite w.buf w.pos bytes, pos := w.pos + bytes.length }

/-- the message fits the writer -/
def W.fits (w : W) (n : Nat) : Prop :=
  match w.kind with
  | .vec | .cursorVec => True
  | .cursorFixed | .slice => n = 0 ∨ w.pos + n ≤ w.buf.length

instance (w : W) (n : Nat) : Decidable (w.fits n) := by
  unfold W.fits; split <;> infer_instance

end Dns
