/-
`ResourceRecord::match_qtype` / `match_qclass` (`dns/resource_record.rs:51-69`).
-/
import SimpleDnsModel.Model.Packet
namespace Dns

/-- `match_qtype` on the record's `type_code()` -/
def matchQType (t : TYPE) (q : QTYPE) : Bool :=
  match q with
  | .ANY => true
  | .IXFR => false
  | .AXFR => true
  | .MAILB => t == .MR || t == .MB || t == .MG
  | .MAILA => t == .MX
  | .TYPE ty => ty == t

/-- `match_qclass` -/
def matchQClass (c : CLASS) (q : QCLASS) : Bool :=
  match q with
  | .CLASS x => x == c
  | .ANY => true

def RR.matchQType (r : RR) (q : QTYPE) : Bool := Dns.matchQType r.rdata.typeOf q
def RR.matchQClass (r : RR) (q : QCLASS) : Bool := Dns.matchQClass r.cls q

end Dns
