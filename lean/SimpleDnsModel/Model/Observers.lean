/-
The read-only API applied to parsed data: `Display` / `Debug` of labels, names and
character-strings (`name.rs`, `character_string.rs`), `String::try_from(CharacterString)`, the TXT
accessors (`rdata/txt.rs`), `into_owned`, `Hash`, `PartialEq`, `match_qtype` / `match_qclass`.

Only the library's own branches are modelled. `std::fmt` (a `Formatter` that writes into a
`String` does not fail) and the text `String::from_utf8_lossy` substitutes for invalid bytes are
outside the model. Calls whose model is a total Lean function (`intoOwned`, `hashFeed`, `rrEq`,
`Txt.attributes`, `matchQType`, ...) have no panicking primitive in their body; they are sequenced
through `pure` so that the observer lists everything it applies.
-/
import SimpleDnsModel.Model.Owned
namespace Dns

/-- `String::from_utf8_lossy(b)`: the text itself when the bytes are valid UTF-8. Otherwise the
exact replacement text is NOT modelled (one U+FFFD stands for it): only the fact that a `String`
is returned, never an error or a panic, is. -/
def lossy (b : Bytes) : String :=
  match stringOfBytes? b with
  | some s => s
  | none => "�"

/-- an observer whose `Err(_)` is an acceptable outcome: only a panic propagates -/
def Out.tolerate : Out α → Out Unit
  | .panic => .panic
  | _ => .ok ()

/-- `for x in xs { f(x)? }` -/
def Out.each (f : α → Out Unit) : List α → Out Unit
  | [] => .ok ()
  | a :: as => do f a; Out.each f as

/-- `Display for Label`: `f.write_str(&String::from_utf8_lossy(&self.data))` -/
def Label.display (l : Label) : Out String := .ok (lossy l)

/-- `Display for CharacterString`: `f.write_str(&String::from_utf8_lossy(&self.data))` -/
def CharStr.display (b : Bytes) : Out String := .ok (lossy b)

/-- `String::try_from(CharacterString)`: `String::from_utf8`, its error wrapped -/
def CharStr.toString (b : Bytes) : Out String :=
  match stringOfBytes? b with
  | some s => .ok s
  | none => .err

/-- the loop of `Display for Name`: `for (i, label) in self.iter().enumerate()
{ if i != 0 { f.write_str(".")? } write!(f, "{}", label)? }`; `acc` is the text written so far -/
def Name.displayFrom (i : Nat) (acc : String) : Name → Out String
  | [] => .ok acc
  | l :: rest => do
    let s ← Label.display l
    Name.displayFrom (i + 1) ((if i != 0 then acc ++ "." else acc) ++ s) rest

/-- `Display for Name` (`to_string()`) -/
def Name.displayStr (n : Name) : Out String := Name.displayFrom 0 "" n

/-- `Debug for Name`: `debug_tuple("Name").field(&format!("{}", self)).field(&format!("{}",
self.len()))` (the escaping `Debug for String` applies is approximated by `String.quote`) -/
def Name.debug (n : Name) : Out String := do
  let s ← Name.displayStr n
  pure ("Name(" ++ s.quote ++ ", " ++ (toString (Name.wireLen n)).quote ++ ")")

def Name.observe (n : Name) : Out Unit := do
  let _ ← Name.displayStr n
  let _ ← Name.debug n
  pure ()

/-- a character-string: `Display`, `Debug` (which calls `to_string()`), `String::try_from` -/
def CharStr.observe (b : Bytes) : Out Unit := do
  let _ ← CharStr.display b
  (CharStr.toString b).tolerate

/-- every name and character-string inside a field value -/
def Val.observe : Val → Out Unit
  | .int _ => .ok ()
  | .bytes b => CharStr.observe b
  | .name n => Name.observe n
  | .strs ss => Out.each CharStr.observe ss
  | .tlvs _ => .ok ()

/-- the accessors of `TXT`; a failed conversion (`InvalidUtf8String`) is an acceptable outcome -/
def Txt.observe (ss : List Bytes) : Out Unit := do
  let _ ← (pure (Txt.attributes ss) : Out Attrs)
  (Txt.longAttributes ss).tolerate
  (Txt.toStr ss).tolerate

def RData.observe (rd : RData) : Out Unit := do
  let owned ← (pure rd.intoOwned : Out RData)
  let _ ← (pure (owned.hashFeed, rd.hashFeed, decide (owned = rd)) : Out _)
  match rd with
  | .flat 16 [.strs ss] => do Txt.observe ss; Out.each CharStr.observe ss
  | .flat _ vs => Out.each Val.observe vs
  | .ipseckey _ _ (.domain n) _ => Name.observe n
  | _ => pure ()

def RR.observe (r : RR) : Out Unit := do
  Name.observe r.name
  r.rdata.observe
  let owned ← (pure r.intoOwned : Out RR)
  let _ ← (pure (owned.hashFeed, r.hashFeed, Mdns.rrEq owned r) : Out _)
  pure ()

def Question.observe (q : Question) : Out Unit := do
  Name.observe q.name
  let owned ← (pure q.intoOwned : Out Question)
  let _ ← (pure (decide (owned = q)) : Out Bool)
  pure ()

/-- everything above on every part of a packet, and every record matched against every question -/
def Packet.observe (p : Packet) : Out Unit := do
  Out.each Question.observe p.questions
  let rrs := p.answers ++ (p.nameServers ++ p.additional)
  Out.each RR.observe rrs
  let _ ← (pure (p.header.opt.map OptData.intoOwned) : Out _)
  Out.each (fun r => Out.each (fun q => do
    let _ ← (pure (r.matchQType q.qtype && r.matchQClass q.qclass) : Out Bool)
    pure ()) p.questions) rrs

end Dns
