/-
Wire form of domain names: `Name::parse`, `plain_append`, `len`
(`simple-dns/src/dns/name.rs`). `compress_append` is in `Model/Compress.lean`.
-/
import SimpleDnsModel.Basic
namespace Dns

abbrev Label := Bytes
abbrev Name := List Label

/-- State of the `Name::parse` loop. -/
structure NS where
  /-- caller-visible cursor `*position` -/
  pos : Nat
  /-- read cursor `pointer_position` -/
  pp : Nat
  /-- `following_compression_pointer` -/
  follow : Bool
  /-- `name_size` -/
  size : Nat
  /-- labels collected so far, most recent first -/
  labels : List Label

/-- The loop of `Name::parse` (name.rs:175-233), statement by statement. The
termination measure is the code's own argument: a label strictly grows
`name_size` (bounded by 255), a pointer strictly decreases `pointer_position`. -/
def nameLoop (d : Bytes) (s : NS) : Out (Name × Nat) :=
    if s.pos ≥ d.length ∨ s.pp ≥ d.length then .err else
    if s.size ≥ 255 then .err else
    match d[s.pp]? with
    | none => .panic
    | some b =>
      if b = 0 then .ok (s.labels.reverse, s.pos + 1)
      else if b.toNat &&& 0xC0 = 0xC0 then
        let pos := if s.follow then s.pos else s.pos + 1
        if s.pp + 2 > d.length then .err else
        match d[s.pp+1]? with
        | none => .panic
        | some b2 =>
          let ptr := (b.toNat &&& 0x3F) * 256 + b2.toNat
          if _h : ptr ≥ s.pp then .err else
          nameLoop d { s with pos := pos, pp := ptr, follow := true }
      else
        let len := b.toNat
        if s.pp + 1 + len > d.length then .err else
        if len > 63 then .err else
        let lab := (d.drop (s.pp+1)).take len
        nameLoop d { pos := if s.follow then s.pos else s.pos + len + 1,
                     pp := s.pp + len + 1, follow := s.follow,
                     size := s.size + 1 + len, labels := lab :: s.labels }
termination_by (255 - s.size, s.pp)
decreasing_by
  · simp_wf; right; omega
  · simp_wf; left; omega

/-- `Name::parse(data, &mut position)`: the name and the new caller cursor. -/
def Name.parse (d : Bytes) (pos : Nat) : Out (Name × Nat) :=
  nameLoop d { pos := pos, pp := pos, follow := false, size := 0, labels := [] }

/-- `Name::plain_append`: `label.len() as u8` truncates. -/
def Name.write : Name → Bytes
  | [] => [0]
  | l :: rest => UInt8.ofNat l.length :: (l ++ Name.write rest)

/-- `Name::len` -/
def Name.wireLen : Name → Nat
  | [] => 1
  | l :: rest => l.length + 1 + Name.wireLen rest

/-- A name that fits the wire format: labels of 1..63 bytes, at most 255 bytes encoded. -/
def Name.WF (n : Name) : Prop := (∀ l ∈ n, 1 ≤ l.length ∧ l.length ≤ 63) ∧ Name.wireLen n ≤ 255

instance (n : Name) : Decidable (Name.WF n) := by unfold Name.WF; infer_instance

end Dns
