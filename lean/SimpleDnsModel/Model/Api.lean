/-
The small constructors of the public API: `Header::new_query` / `new_reply`
(`dns/header.rs`), `Packet::new_query` / `new_reply` / `into_reply` / `set_id`
(`dns/packet.rs`), `ResourceRecord::to_cache_flush_record` (`dns/resource_record.rs`).
-/
import SimpleDnsModel.Model.Packet
namespace Dns

/-- `Header::new_query` -/
def Header.newQuery (id : Nat) : Header :=
  { id := id, opcode := .StandardQuery, rcode := .NoError, flags := 0, opt := none }

/-- `Header::new_reply` -/
def Header.newReply (id : Nat) (op : OPCODE) : Header :=
  { id := id, opcode := op, rcode := .NoError, flags := 0x8000, opt := none }

/-- `Packet::new_query` -/
def Packet.newQuery (id : Nat) : Packet := ⟨Header.newQuery id, [], [], [], []⟩
/-- `Packet::new_reply` -/
def Packet.newReply (id : Nat) : Packet := ⟨Header.newReply id .StandardQuery, [], [], [], []⟩
/-- `Packet::into_reply`: a fresh reply header with the id and opcode of the query, sections kept -/
def Packet.intoReply (p : Packet) : Packet :=
  { p with header := Header.newReply p.header.id p.header.opcode }
/-- `Packet::set_id` -/
def Packet.setId (p : Packet) (id : Nat) : Packet := { p with header := { p.header with id := id } }

/-- `ResourceRecord::to_cache_flush_record` -/
def RR.toCacheFlush (r : RR) : RR := { r with flush := true }

end Dns
