/-
Well-formedness: the explicit, decidable side conditions under which values
fit the wire format ("within DNS size limits" in the properties). Each clause
is a limit of the format itself (a field width, a length prefix, RDLENGTH) or
restates which values the public constructors / the parser can produce.
-/
import SimpleDnsModel.Model.Packet
namespace Dns

/-- strictly increasing keys -/
def KeysIncreasing : List (Nat × Bytes) → Prop
  | [] => True
  | [_] => True
  | x :: y :: rest => x.1 < y.1 ∧ KeysIncreasing (y :: rest)

instance : (xs : List (Nat × Bytes)) → Decidable (KeysIncreasing xs)
  | [] => isTrue trivial
  | [_] => isTrue trivial
  | x :: y :: rest =>
    have : Decidable (KeysIncreasing (y :: rest)) := instDecidableKeysIncreasing (y :: rest)
    by unfold KeysIncreasing; infer_instance

/-- a value fits its field -/
def FieldOK : FKind → Val → Prop
  | .int w, .int n => n < 256 ^ w
  | .charstr, .bytes b => b.length ≤ 255
  | .name _, .name n => Name.WF n
  | .rest, .bytes _ => True
  /- RFC 1035: TXT-DATA is one or more character-strings -/
  | .strs, .strs ss => ss ≠ [] ∧ ∀ s ∈ ss, s.length ≤ 255
  | .tlvs kw lw strict, .tlvs xs =>
    (∀ x ∈ xs, x.1 < 256 ^ kw ∧ x.2.length < 256 ^ lw) ∧ (strict = true → KeysIncreasing xs)
  | _, _ => False

instance (k : FKind) (v : Val) : Decidable (FieldOK k v) := by
  cases k <;> cases v <;> unfold FieldOK <;> infer_instance

def AllOK : List FKind → List Val → Prop
  | [], [] => True
  | k :: ks, v :: vs => FieldOK k v ∧ AllOK ks vs
  | _, _ => False

instance : (ks : List FKind) → (vs : List Val) → Decidable (AllOK ks vs)
  | [], [] => isTrue trivial
  | k :: ks, v :: vs =>
    have : Decidable (AllOK ks vs) := instDecidableAllOK ks vs
    by unfold AllOK; infer_instance
  | [], _ :: _ => isFalse (by simp [AllOK])
  | _ :: _, [] => isFalse (by simp [AllOK])

/-- the values match the type's schema field by field -/
def SchemaOK (code : Nat) (vs : List Val) : Prop :=
  match schemaOf code with
  | some ks => AllOK ks vs
  | none => False

instance (code : Nat) (vs : List Val) : Decidable (SchemaOK code vs) := by
  unfold SchemaOK; split <;> infer_instance

def Gateway.WF : Gateway → Prop
  | .none => True
  | .v4 a => a < 2 ^ 32
  | .v6 a => a < 2 ^ 128
  | .domain n => Name.WF n

instance (g : Gateway) : Decidable g.WF := by cases g <;> unfold Gateway.WF <;> infer_instance

def OptData.WF (o : OptData) : Prop :=
  o.udp < 65536 ∧ o.version < 256 ∧ ∀ x ∈ o.codes, x.1 < 65536 ∧ x.2.length < 65536

instance (o : OptData) : Decidable o.WF := by unfold OptData.WF; infer_instance

def RData.writtenLen (rd : RData) : Nat :=
  match rd.write with
  | .ok b => b.length
  | _ => 0

/-- an RDATA value the wire format can carry -/
def RData.WF : RData → Prop
  | .flat code vs =>
    SchemaOK code vs ∧ flatCheck code vs = true ∧ (RData.flat code vs).writtenLen ≤ 65535
  | .ipseckey prec alg gw key =>
    prec < 256 ∧ alg < 256 ∧ gw.WF ∧ (RData.ipseckey prec alg gw key).writtenLen ≤ 65535
  | .opt o => o.WF ∧ (RData.opt o).writtenLen ≤ 65535
  /- opaque content: non-empty (zero-length RDATA is `empty`), of type NULL or of a type the
  library does not know -/
  | .null code data =>
    data ≠ [] ∧ data.length ≤ 65535 ∧ code < 65536 ∧
      (code = 10 ∨ (TYPE.ofCode code).isUnknown = true)
  /- empty RDATA of any type but OPT (an OPT record always parses as `opt`) -/
  | .empty t => t ≠ .OPT ∧ TYPE.ofCode t.toCode = t ∧ t.toCode < 65536

instance (rd : RData) : Decidable rd.WF := by
  cases rd <;> unfold RData.WF <;> infer_instance

/-- a record the wire format can carry. For an OPT-typed record CLASS and the cache-flush bit
are not on the wire (the slot holds the UDP size) and the version lives in the TTL. -/
def RR.WF (r : RR) : Prop :=
  Name.WF r.name ∧ r.ttl < 2 ^ 32 ∧ r.rdata.WF ∧
  (match r.rdata with
   | .opt o => r.cls = .IN ∧ r.flush = false ∧ o.version = (r.ttl >>> 8) % 256
   | _ => True)

instance (r : RR) : Decidable r.WF := by
  unfold RR.WF
  have : Decidable (match r.rdata with
   | .opt o => r.cls = .IN ∧ r.flush = false ∧ o.version = (r.ttl >>> 8) % 256
   | _ => True) := by split <;> infer_instance
  infer_instance

/-- a question type the library can name: `TYPE(Unknown(_))` and a `TYPE` whose code is one of the
QTYPE specials have no wire form that reads back -/
def Question.WF (q : Question) : Prop :=
  Name.WF q.name ∧ QTYPE.ofCode q.qtype.toCode = .ok q.qtype

instance (q : Question) : Decidable q.WF := by unfold Question.WF; infer_instance

def Header.WF (h : Header) : Prop :=
  h.id < 65536 ∧ h.flags &&& Mask.ALLFLAGS = h.flags ∧
  (match h.opt with
   /- the OPT pseudo-record must itself fit a record: RDATA of at most 65 535 bytes -/
   | some o => (RData.opt o).WF
   /- a response code above 15 needs the OPT record to carry its upper bits -/
   | none => h.rcode ≠ .BADVERS)

instance (h : Header) : Decidable h.WF := by
  unfold Header.WF
  have : Decidable (match h.opt with
   | some o => (RData.opt o).WF
   | none => h.rcode ≠ .BADVERS) := by split <;> infer_instance
  infer_instance

/-- a packet within DNS size limits as the public API can assemble it -/
def Packet.WF (p : Packet) : Prop :=
  p.header.WF ∧
  p.questions.length ≤ 65535 ∧ p.answers.length ≤ 65535 ∧ p.nameServers.length ≤ 65535 ∧
  p.additional.length + (if p.header.opt.isSome then 1 else 0) ≤ 65535 ∧
  (∀ q ∈ p.questions, q.WF) ∧ (∀ r ∈ p.answers, r.WF) ∧ (∀ r ∈ p.nameServers, r.WF) ∧
  (∀ r ∈ p.additional, r.WF) ∧
  /- "DO NOT use this field to add OPT record, use `Packet::opt_mut` instead" -/
  (p.header.opt = none → ∀ r ∈ p.additional, r.rdata.typeOf ≠ .OPT)

instance (p : Packet) : Decidable p.WF := by unfold Packet.WF; infer_instance

end Dns
