/-
`into_owned`, `Clone`, `PartialEq` and `Hash` of the value types
(`name.rs`, `character_string.rs`, `question.rs`, `resource_record.rs`, the
`into_owned` of every `rdata/*.rs`, `instance_information.rs`).

`into_owned` rebuilds a value field by field (each Rust body converts every
`Cow` field and copies every scalar field); `hashFeed` is the sequence of
values a `Hash` impl feeds to the hasher, in order.
-/
import SimpleDnsModel.Model.Mdns
namespace Dns

def Label.intoOwned (l : Label) : Label := l.map id
def Name.intoOwned (n : Name) : Name := n.map Label.intoOwned

def Val.intoOwned : Val → Val
  | .int n => .int n
  | .bytes b => .bytes (b.map id)
  | .name n => .name n.intoOwned
  | .strs ss => .strs (ss.map (·.map id))
  | .tlvs xs => .tlvs (xs.map fun x => (x.1, x.2.map id))

def Gateway.intoOwned : Gateway → Gateway
  | .none => .none
  | .v4 a => .v4 a
  | .v6 a => .v6 a
  | .domain n => .domain n.intoOwned

def OptData.intoOwned (o : OptData) : OptData :=
  { udp := o.udp, version := o.version, codes := o.codes.map fun x => (x.1, x.2.map id) }

def RData.intoOwned : RData → RData
  | .flat code vs => .flat code (vs.map Val.intoOwned)
  | .ipseckey p a g k => .ipseckey p a g.intoOwned (k.map id)
  | .opt o => .opt o.intoOwned
  | .null c d => .null c (d.map id)
  | .empty t => .empty t

def RR.intoOwned (r : RR) : RR :=
  { name := r.name.intoOwned, cls := r.cls, ttl := r.ttl, rdata := r.rdata.intoOwned, flush := r.flush }

def Question.intoOwned (q : Question) : Question :=
  { name := q.name.intoOwned, qtype := q.qtype, qclass := q.qclass, unicast := q.unicast }

/-- tokens fed to a hasher -/
inductive HTok where
  | len (n : Nat)
  | bytes (b : Bytes)
  | num (n : Nat)
  | tag (s : String)
deriving DecidableEq, Repr

/-- `Hash for Name`: `self.labels.hash(state)` — the vector's length, then each label's bytes
(a slice hashes its length and its content) -/
def Name.hashFeed (n : Name) : List HTok :=
  .len n.length :: n.flatMap fun l => [.len l.length, .bytes l]

def Val.hashFeed : Val → List HTok
  | .int n => [.num n]
  | .bytes b => [.len b.length, .bytes b]
  | .name n => Name.hashFeed n
  | .strs ss => .len ss.length :: ss.flatMap fun s => [.len s.length, .bytes s]
  | .tlvs xs => .len xs.length :: xs.flatMap fun x => [.num x.1, .len x.2.length, .bytes x.2]

/-- derived `Hash for RData`: the variant, then the fields in declaration order -/
def RData.hashFeed : RData → List HTok
  | .flat code vs => .tag "flat" :: .num code :: vs.flatMap Val.hashFeed
  | .ipseckey p a g k =>
    [.tag "ipseckey", .num p, .num a, .num g.tag] ++
      ((match g with
        | .none => []
        | .v4 x => [.num x]
        | .v6 x => [.num x]
        | .domain n => Name.hashFeed n) ++ [.len k.length, .bytes k])
  | .opt o => .tag "opt" :: .num o.udp :: .num o.version :: .len o.codes.length ::
      o.codes.flatMap fun x => [.num x.1, .len x.2.length, .bytes x.2]
  | .null c d => [.tag "null", .num c, .len d.length, .bytes d]
  | .empty t => [.tag "empty", .num t.toCode]

/-- `Hash for ResourceRecord`: name, class, rdata — the fields `PartialEq` compares -/
def RR.hashFeed (r : RR) : List HTok :=
  Name.hashFeed r.name ++ (.num r.cls.toCode :: r.rdata.hashFeed)

namespace Mdns

def insertSortedNat (x : Nat) : List Nat → List Nat
  | [] => [x]
  | y :: ys => if x ≤ y then x :: y :: ys else y :: insertSortedNat x ys

def sortNat (xs : List Nat) : List Nat := xs.foldr insertSortedNat []

/-- an address as one number: IPv4 below 2^32, IPv6 offset beyond every IPv4 (`IpAddr`'s `Ord`:
all V4 before all V6, then by octets) -/
def ipKey (ip : Bool × Nat) : Nat := if ip.1 then 2 ^ 32 + ip.2 else ip.2

/-- derived `PartialEq for InstanceInformation`: name, the two sets and the map as such -/
def Instance.eqv (a b : Instance) : Prop :=
  a.name = b.name ∧ (∀ x, x ∈ a.ips ↔ x ∈ b.ips) ∧ (∀ x, x ∈ a.ports ↔ x ∈ b.ports) ∧
  (∀ k v, (k, v) ∈ a.attrs ↔ (k, v) ∈ b.attrs)

/-- `Hash for InstanceInformation` (after the fix): the name, the addresses sorted, the ports
sorted; sets hold each member once -/
def Instance.hashFeed (i : Instance) : List HTok :=
  [.len i.name.length, .bytes i.name] ++
    ((sortNat (i.ips.map ipKey)).map HTok.num ++ (sortNat i.ports).map HTok.num)

/-- the representation invariant of the two sets: no member twice -/
def Instance.SetsOK (i : Instance) : Prop := i.ips.Nodup ∧ i.ports.Nodup

end Mdns
end Dns
