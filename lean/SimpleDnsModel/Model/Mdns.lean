/-
simple-mdns: the record store (`resource_record_manager.rs`), reply
construction (`lib.rs::build_reply`), response ingestion
(`service_discovery.rs::add_response_to_resources`), instance ↔ records
(`instance_information.rs`, `conversion_utils.rs`).

Time is an explicit parameter `now` (milliseconds on a monotone clock): every
`Instant::now()` of the Rust code is the `now` of the call it occurs in.
The radix trie is modelled by the list of keys inserted since the last
`clear` with their buckets (a `HashMap<ResourceRecord, Kind>` as an association
list under the record's own `Eq`: name, class, RDATA), plus the node-existence
rule of `radix_trie 0.2.1` for `subtrie`.
-/
import SimpleDnsModel.Model.Match
import SimpleDnsModel.Model.NameText
import SimpleDnsModel.Model.Txt
namespace Dns.Mdns

abbrev Key := Bytes

/-- `get_key`: labels from the root down, each prefixed with its length byte -/
def getKey (n : Name) : Key := (n.reverse.map (fun l => UInt8.ofNat l.length :: l)).flatten

inductive Kind where
  | auth
  | cached (expireAt refreshAt : Nat)
deriving DecidableEq, Repr

/-- `ExpirationInfo::new`: seconds after insertion at which a refresh becomes due — at expiry for
TTL 0, at half the TTL below one minute, else at `ttl / 10 * 8` (80 %, on whole tens of seconds) -/
def refreshOffsetSecs (ttl : Nat) : Nat :=
  if ttl = 0 then 0 else if ttl < 60 then ttl / 2 else ttl / 10 * 8

/-- `ResourceRecordType::should_refresh` at time `now` -/
def Kind.shouldRefresh : Kind → Nat → Bool
  | .auth, _ => false
  | .cached _ r, now => r < now

/-- `PartialEq for ResourceRecord`: TTL and cache-flush bit are ignored -/
def rrEq (a b : RR) : Bool := a.name == b.name && a.cls == b.cls && a.rdata == b.rdata

abbrev Bucket := List (RR × Kind)

def Bucket.get (b : Bucket) (r : RR) : Option Kind := (b.find? (fun e => rrEq e.1 r)).map (·.2)

/-- `HashMap::insert`: an equal key keeps the stored key and replaces the value -/
def Bucket.insert (b : Bucket) (r : RR) (k : Kind) : Bucket :=
  if b.any (fun e => rrEq e.1 r) then b.map (fun e => if rrEq e.1 r then (e.1, k) else e)
  else b ++ [(r, k)]

def Bucket.remove (b : Bucket) (r : RR) : Bucket := b.filter (fun e => !rrEq e.1 r)

/-- every key inserted since the last `clear`, with its bucket (possibly emptied by removals) -/
structure Store where
  entries : List (Key × Bucket)
deriving Repr

def Store.empty : Store := ⟨[]⟩

def Store.bucket (s : Store) (k : Key) : Option Bucket := (s.entries.find? (·.1 == k)).map (·.2)

def Store.setBucket (s : Store) (k : Key) (b : Bucket) : Store :=
  if s.entries.any (·.1 == k) then ⟨s.entries.map (fun e => if e.1 == k then (k, b) else e)⟩
  else ⟨s.entries ++ [(k, b)]⟩

/-- `add_authoritative_resource` -/
def Store.addAuth (s : Store) (r : RR) : Store :=
  let k := getKey r.name
  s.setBucket k (((s.bucket k).getD []).insert r .auth)

/-- `add_cached_resource` at time `now`: a cache-flush record lives one second; what was
registered locally is never replaced by what the network says -/
def Store.addCached (s : Store) (r : RR) (now : Nat) : Store :=
  let k := getKey r.name
  let ttl := if r.flush then 1 else r.ttl
  let b := (s.bucket k).getD []
  match b.get r with
  | some .auth => s
  | _ => s.setBucket k (b.insert r (.cached (now + 1000 * ttl) (now + 1000 * refreshOffsetSecs ttl)))

/-- `remove_resource_record` -/
def Store.remove (s : Store) (r : RR) : Store :=
  let k := getKey r.name
  match s.bucket k with
  | some b => s.setBucket k (b.remove r)
  | none => s

/-- `clear` -/
def Store.clear (_ : Store) : Store := Store.empty

/-- the refresh time of an entry for which a refresh is due at `now` -/
def dueRefresh (now : Nat) (e : RR × Kind) : Option Nat :=
  match e.2 with
  | .auth => none
  | .cached _ r => if Kind.shouldRefresh e.2 now then some r else none

/-- the refresh times of all entries (of all keys) for which a refresh is due at `now` -/
def Store.dueRefreshes (s : Store) (now : Nat) : List Nat :=
  s.entries.flatMap (fun e => e.2.filterMap (dueRefresh now))

/-- `Iterator::min_by(|a, b| a.cmp(b))` -/
def minOpt (l : List Nat) : Option Nat :=
  l.foldl (fun acc x => match acc with
    | none => some x
    | some m => some (if x < m then x else m)) none

/-- `get_next_refresh` at time `now`: the earliest refresh time among the cached entries, of all
names, whose refresh time has passed; expired entries are not excluded -/
def Store.nextRefresh (s : Store) (now : Nat) : Option Nat := minOpt (s.dueRefreshes now)

/-- `DomainResourceFilter` -/
structure Filter where
  subdomain : Bool
  authoritative : Bool
  cached : Bool
deriving DecidableEq, Repr

def Filter.auth (sub : Bool) : Filter := ⟨sub, true, false⟩
def Filter.cachedOnly : Filter := ⟨true, false, true⟩
def Filter.all : Filter := ⟨true, true, true⟩

/-- `match_filter` -/
def Filter.matches (f : Filter) (k : Kind) (now : Nat) : Bool :=
  match k with
  | .auth => f.authoritative
  | .cached e _ => f.cached && e > now

def nibbles (k : Key) : List Nat := k.flatMap (fun b => [b.toNat / 16, b.toNat % 16])

def lcp : List Nat → List Nat → List Nat
  | a :: as, b :: bs => if a = b then a :: lcp as bs else []
  | _, _ => []

/-- `Trie::subtrie(key)` is `Some` iff a trie node sits exactly at the key's nibble path: the root,
an inserted key, or the branching point of two inserted keys -/
def Store.nodeExists (s : Store) (k : Key) : Bool :=
  k.isEmpty || s.entries.any (·.1 == k) ||
  s.entries.any (fun a => s.entries.any (fun b => lcp (nibbles a.1) (nibbles b.1) == nibbles k))

def isPrefixOf (a b : Key) : Bool := a == b.take a.length

/-- `get_domain_resources`: one group of records per key (groups and records in arbitrary order in
the implementation), empty groups dropped -/
def Store.getDomain (s : Store) (name : Name) (f : Filter) (now : Nat) : List (List RR) :=
  let k := getKey name
  let pick (b : Bucket) : List RR := (b.filter (fun e => f.matches e.2 now)).map (·.1)
  let found : List (List RR) :=
    if f.subdomain then
      (if s.nodeExists k then (s.entries.filter (fun e => isPrefixOf k e.1)).map (fun e => pick e.2) else [])
    else match s.bucket k with
      | some b => [pick b]
      | none => []
  found.filter (fun g => !g.isEmpty)

/-- the target of an SRV record -/
def srvTarget (rd : RData) : Option Name :=
  match rd with
  | .flat 33 [_, _, _, .name t] => some t
  | _ => none

def dedupRR : List RR → List RR
  | [] => []
  | r :: rs => r :: (dedupRR rs).filter (fun x => !rrEq x r)

/-- answers and additional records `build_reply` collects for one question -/
def answersFor (s : Store) (q : Question) (now : Nat) : List RR × List RR :=
  let answers := ((s.getDomain q.name (Filter.auth true) now).flatten).filter
    (fun r => r.matchQClass q.qclass && r.matchQType q.qtype)
  let extra := answers.flatMap (fun a =>
    match srvTarget a.rdata with
    | some t => ((s.getDomain t (Filter.auth false) now).flatten).filter (fun r =>
        (r.matchQType (.TYPE .A) || r.matchQType (.TYPE .AAAA)) && r.matchQClass q.qclass)
    | none => [])
  (answers, extra)

/-- `build_reply`: the reply packet and whether a unicast response was asked for -/
def buildReply (query : Packet) (s : Store) (now : Nat) : Option (Packet × Bool) :=
  let per := query.questions.map (fun q => answersFor s q now)
  let answers := per.flatMap (·.1)
  let additional := dedupRR (per.flatMap (·.2))
  let unicast := query.questions.any (·.unicast)
  if answers.isEmpty then none else
  some ({ header := { id := query.header.id, opcode := .StandardQuery, rcode := .NoError,
                      flags := 0x8000, opt := none },
          questions := [], answers := answers, nameServers := [], additional := additional }, unicast)

/-- `add_response_to_resources`: answers and additional records that are not the discoverer's own
and are strict subdomains of the watched service are cached -/
def ingest (p : Packet) (service full : Name) (s : Store) (now : Nat) : Store :=
  ((p.answers ++ p.additional).filter (fun r => r.name != full && r.name.isSubdomainOf service)).foldl
    (fun st r => st.addCached r now) s

/-- `InstanceInformation` (sets and the map as lists; compared as sets) -/
structure Instance where
  name : Bytes
  /-- (is IPv6, address) -/
  ips : List (Bool × Nat)
  ports : List Nat
  attrs : Attrs
deriving Repr

def insertNew [BEq α] (xs : List α) (x : α) : List α := if xs.contains x then xs else xs ++ [x]

/-- `HashMap::extend`: later entries overwrite earlier ones -/
def attrsExtend (m : Attrs) (new : Attrs) : Attrs :=
  new.foldl (fun acc e =>
    if acc.has e.1 then acc.map (fun x => if x.1 == e.1 then e else x) else acc ++ [e]) m

/-- `InstanceInformation::from_records` -/
def fromRecords (service : Name) (records : List RR) : Option Instance :=
  let name := records.findSome? (fun r => r.name.without service)
  let inst : Instance := records.foldl (fun i r =>
    match r.rdata with
    | .flat 1 [.int a] => { i with ips := insertNew i.ips (false, a) }
    | .flat 28 [.int a] => { i with ips := insertNew i.ips (true, a) }
    | .flat 16 [.strs ss] =>
      { i with attrs := attrsExtend i.attrs ((Txt.attributes ss).filter (fun e => !e.1.isEmpty)) }
    | .flat 33 [_, _, .int port, _] => { i with ports := insertNew i.ports port }
    | _ => i) { name := [], ips := [], ports := [], attrs := [] }
  name.map (fun n => { inst with name := Name.display n })

/-- the records of a response that `add_response_to_resources` keeps -/
def ingestRecords (p : Packet) (service full : Name) : List RR :=
  (p.answers ++ p.additional).filter (fun r => r.name != full && r.name.isSubdomainOf service)

/-- the distinct owner names of a record list, in the order of first appearance -/
def owners (rs : List RR) : List Name :=
  rs.foldl (fun acc r => if acc.contains r.name then acc else acc ++ [r.name]) []

/-- what `add_response_to_resources` sends on the `on_discovery` channel (while it is open): one
`InstanceInformation` per owner name among the kept records (since fix 3098c07; before, one for the
whole packet: `reportsMerged`) -/
def reports (p : Packet) (service full : Name) : List Instance :=
  let rs := ingestRecords p service full
  (owners rs).filterMap (fun o => fromRecords service (rs.filter (fun r => r.name == o)))

/-- the channel report of the code before fix 3098c07 -/
def reportsMerged (p : Packet) (service full : Name) : List Instance :=
  let rs := ingestRecords p service full
  if rs.isEmpty then [] else (fromRecords service rs).toList

/-- `get_known_services` -/
def known (s : Store) (service : Name) (now : Nat) : List Instance :=
  (s.getDomain service Filter.cachedOnly now).filterMap (fromRecords service)

/-- `InstanceInformation::into_records` with the addresses, ports and attribute entries in the
given (iteration) order; `none` when an attribute entry exceeds 255 bytes -/
def intoRecords (full : Name) (ips : List (Bool × Nat)) (ports : List Nat) (attrs : Attrs)
    (ttl : Nat) : Out (List RR) := do
  let ss ← Txt.ofMap attrs
  let mk (rd : RData) : RR := { name := full, cls := .IN, ttl := ttl, rdata := rd, flush := false }
  pure (ips.map (fun ip => mk (if ip.1 then .flat 28 [.int ip.2] else .flat 1 [.int ip.2])) ++
        (ports.map (fun p => mk (.flat 33 [.int 0, .int 0, .int p, .name full])) ++
         [mk (.flat 16 [.strs ss])]))

/-- `escaped_instance_name` on characters -/
def escapeName : List Char → List Char
  | [] => []
  | '.' :: cs => '\\' :: '.' :: escapeName cs
  | '\\' :: cs => '\\' :: '\\' :: escapeName cs
  | c :: cs => c :: escapeName cs

/-- `unescaped_instance_name` on characters -/
def unescapeName : List Char → List Char
  | [] => []
  | ['\\'] => []
  | '\\' :: c :: cs => c :: unescapeName cs
  | c :: cs => c :: unescapeName cs

end Dns.Mdns
