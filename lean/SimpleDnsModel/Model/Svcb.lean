/-
The builder side of SVCB / HTTPS (`dns/rdata/svcb.rs`): the parameter map is a
`BTreeMap<u16, Cow<[u8]>>`, modelled as an association list with strictly
increasing keys; `set_param` and the typed helpers `set_mandatory`, `set_alpn`,
`set_no_default_alpn`, `set_port`, `set_ipv4hint`, `set_ipv6hint` which compute the
SvcParamValue of RFC 9460 section 7 and store it under the registered key.
-/
import SimpleDnsModel.Model.RData
namespace Dns

abbrev SvcParams := List (Nat × Bytes)

/-- `BTreeMap::insert`: ordered by key, an existing key is replaced -/
def SvcParams.insert : SvcParams → Nat → Bytes → SvcParams
  | [], k, v => [(k, v)]
  | (k', v') :: t, k, v =>
    if k < k' then (k, v) :: (k', v') :: t
    else if k = k' then (k, v) :: t
    else (k', v') :: SvcParams.insert t k v

/-- `get_param` -/
def SvcParams.get (ps : SvcParams) (k : Nat) : Option Bytes := (ps.find? (·.1 == k)).map (·.2)

/-- `MAX_SVC_PARAM_VALUE_LENGTH` -/
def maxSvcParam : Nat := 65535

/-- `set_param` -/
def Svcb.setParam (ps : SvcParams) (k : Nat) (v : Bytes) : Out SvcParams :=
  if v.length > maxSvcParam then .err else .ok (ps.insert k v)

/-- the value computed by `set_mandatory` -/
def Svcb.mandatoryValue (keys : List Nat) : Bytes := keys.flatMap (beN 2)
/-- the value computed by `set_alpn` (each id is a `CharacterString`, at most 255 bytes by
construction) -/
def Svcb.alpnValue (ids : List Bytes) : Bytes := ids.flatMap CharStr.write
/-- the value computed by `set_port` -/
def Svcb.portValue (port : Nat) : Bytes := beN 2 port
/-- the value computed by `set_ipv4hint` -/
def Svcb.ipv4Value (ips : List Nat) : Bytes := ips.flatMap (beN 4)
/-- the value computed by `set_ipv6hint` -/
def Svcb.ipv6Value (ips : List Nat) : Bytes := ips.flatMap (beN 16)

/-- one call of the builder API -/
inductive SvcOp where
  | param (k : Nat) (v : Bytes)
  | mandatory (keys : List Nat)
  | alpn (ids : List Bytes)
  | noDefaultAlpn
  | port (p : Nat)
  | ipv4 (ips : List Nat)
  | ipv6 (ips : List Nat)
deriving Repr

def SvcOp.key : SvcOp → Nat
  | .param k _ => k
  | .mandatory _ => 0
  | .alpn _ => 1
  | .noDefaultAlpn => 2
  | .port _ => 3
  | .ipv4 _ => 4
  | .ipv6 _ => 6

def SvcOp.value : SvcOp → Bytes
  | .param _ v => v
  | .mandatory ks => Svcb.mandatoryValue ks
  | .alpn ids => Svcb.alpnValue ids
  | .noDefaultAlpn => []
  | .port p => Svcb.portValue p
  | .ipv4 ips => Svcb.ipv4Value ips
  | .ipv6 ips => Svcb.ipv6Value ips

/-- apply one call; a call that returns `Err` leaves the map as it was (the value is computed
before `set_param` is reached) -/
def Svcb.apply (ps : SvcParams) (op : SvcOp) : SvcParams × Bool :=
  match Svcb.setParam ps op.key op.value with
  | .ok ps' => (ps', true)
  | _ => (ps, false)

/-- a sequence of calls from `SVCB::new`; the outcome of each call and the final map -/
def Svcb.run (ops : List SvcOp) : SvcParams × List Bool :=
  ops.foldl (fun (acc : SvcParams × List Bool) op =>
    let (ps', ok) := Svcb.apply acc.1 op
    (ps', acc.2 ++ [ok])) ([], [])

end Dns
