/-
TXT text and attribute API of `dns/rdata/txt.rs` and the character-string
constructor of `dns/character_string.rs`.
Rust `String`/`&str` are Lean `String`s; their UTF-8 bytes are `toUTF8`;
`String::from_utf8` / `str::from_utf8` are `String.fromUTF8?`.
`HashMap<String, Option<String>>` results are association lists in order of
first insertion (compared as sets by the harness).
-/
import SimpleDnsModel.Basic
namespace Dns

def bytesOfString (s : String) : Bytes := s.toUTF8.toList

/-- `String::from_utf8(bytes)` -/
def stringOfBytes? (b : Bytes) : Option String := String.fromUTF8? (ByteArray.mk b.toArray)

/-- `CharacterString::new` / `try_from`: at most 255 bytes -/
def CharStr.new (b : Bytes) : Out Bytes := if b.length > 255 then .err else .ok b

/-- `slice.chunks(n)` -/
def chunks (n : Nat) (b : Bytes) : List Bytes :=
  if h : n = 0 ∨ b = [] then [] else b.take n :: chunks n (b.drop n)
termination_by b.length
decreasing_by
  have : b ≠ [] := fun e => h (Or.inr e)
  have : 0 < b.length := List.length_pos_iff.mpr this
  simp; omega

def charStrsNew : List Bytes → Out (List Bytes)
  | [] => .ok []
  | c :: cs => do
    let a ← CharStr.new c
    let b ← charStrsNew cs
    pure (a :: b)

/-- `TXT::try_from(&str)`: chunks of `MAX_CHARACTER_STRING_LENGTH - 1 = 254` bytes -/
def Txt.ofStr (s : String) : Out (List Bytes) := charStrsNew (chunks 254 (bytesOfString s))

/-- `String::try_from(TXT)`: concatenate, then `String::from_utf8` -/
def Txt.toStr (ss : List Bytes) : Out String :=
  match stringOfBytes? ss.flatten with
  | some s => .ok s
  | none => .err

abbrev Attrs := List (String × Option String)

def Attrs.has (m : Attrs) (k : String) : Bool := m.any (·.1 == k)

/-- `attributes.entry(key).or_insert(value)`: the first occurrence of a key wins -/
def Attrs.insertIfAbsent (m : Attrs) (k : String) (v : Option String) : Attrs :=
  if m.has k then m else m ++ [(k, v)]

/-- one character-string of `TXT::attributes`: `splitn(2, '=')` on the bytes -/
def attrOfCharStr (cs : Bytes) : Option (String × Option String) :=
  let keyB := cs.takeWhile (· != 61)
  let rest := cs.dropWhile (· != 61)
  match stringOfBytes? keyB with
  | none => none                                   -- `Err(_) => continue`
  | some key =>
    match rest with
    | [] => some (key, none)                       -- no '=' at all
    | _ :: valB =>
      if valB.isEmpty then some (key, some "")
      else match stringOfBytes? valB with
        | some v => some (key, some v)
        | none => some (key, some "")

/-- `TXT::attributes` -/
def Txt.attributes (ss : List Bytes) : Attrs :=
  ss.foldl (fun m cs => match attrOfCharStr cs with
    | some (k, v) => m.insertIfAbsent k v
    | none => m) []

/-- `str::split(sep)` on characters -/
def splitChars (sep : Char) : List Char → List (List Char)
  | [] => [[]]
  | c :: rest =>
    if c = sep then [] :: splitChars sep rest
    else match splitChars sep rest with
      | [] => [[c]]
      | p :: ps => (c :: p) :: ps

/-- one `;`-separated part of `TXT::long_attributes`: `splitn(2, '=')` on the characters -/
def attrOfPart (part : List Char) : String × Option String :=
  let key := part.takeWhile (· != '=')
  match part.dropWhile (· != '=') with
  | [] => (String.ofList key, none)
  | _ :: v => (String.ofList key, some (String.ofList v))

/-- `TXT::long_attributes` -/
def Txt.longAttributes (ss : List Bytes) : Out Attrs := do
  let full ← Txt.toStr ss
  pure ((splitChars ';' full.toList).foldl (fun m part =>
    let kv := attrOfPart part
    if kv.1.isEmpty then m else m.insertIfAbsent kv.1 kv.2) [])

/-- one entry of `TXT::try_from(HashMap)`: `format!("{}={}", key, value)` or the key alone -/
def attrEntryBytes (e : String × Option String) : Bytes :=
  match e.2 with
  | some v => bytesOfString e.1 ++ (61 :: bytesOfString v)
  | none => bytesOfString e.1

/-- `TXT::try_from(HashMap<String, Option<String>>)`, entries in the map's iteration order -/
def Txt.ofMap (entries : Attrs) : Out (List Bytes) := charStrsNew (entries.map attrEntryBytes)

end Dns
