import SimpleDnsModel.Text
