import SimpleDnsModel.Text
import SimpleDnsModel.Model.Match
import SimpleDnsModel.Model.Compress
import SimpleDnsModel.Model.NameText
import SimpleDnsModel.Model.Txt
import SimpleDnsModel.Model.Mdns
import SimpleDnsModel.Spec.RdataSchemas
import SimpleDnsModel.Model.Writer
import SimpleDnsModel.Model.Owned
import SimpleDnsModel.Model.Pipeline
import SimpleDnsModel.Model.Observers
import SimpleDnsModel.Spec.NameDecode
import SimpleDnsModel.Spec.Rfc1035Header
import SimpleDnsModel.Model.Svcb
import SimpleDnsModel.Model.Api
open Dns Dns.Text

/-- one SVCB builder call: `p <key> <hex>` | `m <n> <key>*` | `a <n> <hex>*` | `d` | `o <port>` |
`4 <n> <ip>*` | `6 <n> <ip>*` -/
def pSvcOp : P SvcOp
  | "p" :: ts => do
    let (k, ts) ← pNat ts
    let (v, ts) ← pBytes ts
    pure (.param k v, ts)
  | "m" :: ts => do let (ks, ts) ← pCounted pNat ts; pure (.mandatory ks, ts)
  | "a" :: ts => do let (ids, ts) ← pCounted pBytes ts; pure (.alpn ids, ts)
  | "d" :: ts => some (.noDefaultAlpn, ts)
  | "o" :: ts => do let (p, ts) ← pNat ts; pure (.port p, ts)
  | "4" :: ts => do let (ips, ts) ← pCounted pNat ts; pure (.ipv4 ips, ts)
  | "6" :: ts => do let (ips, ts) ← pCounted pNat ts; pure (.ipv6 ips, ts)
  | _ => none

def words (line : String) : List String :=
  (line.trimAscii.toString.splitOn " ").filter (· ≠ "")

def insertSorted (x : String × String) : List (String × String) → List (String × String)
  | [] => [x]
  | y :: ys => if x.1 < y.1 then x :: y :: ys else y :: insertSorted x ys

/-- attribute maps are printed sorted by the hex of the key (the implementation's is a HashMap) -/
def showAttrs (m : Attrs) : String :=
  let items := m.map fun e => (hexOfBytes (bytesOfString e.1),
    match e.2 with | none => "-" | some v => hexOfBytes (bytesOfString v))
  let sorted := items.foldl (fun acc x => insertSorted x acc) []
  showList (fun x => x.1 ++ " " ++ x.2) sorted

def pStr : P String := fun ts => do
  let (b, ts) ← pBytes ts
  let s ← stringOfBytes? b
  pure (s, ts)

def pOptStr : P (Option String)
  | "-" :: ts => some (none, ts)
  | ts => (pStr ts).map fun (s, ts) => (some s, ts)

open Dns.Mdns in
/-- store operations: `A rr` | `C now rr` | `R rr` | `X` | `I now service full packet` -/
partial def runOps (s : Store) : List String → Option (Store × List String)
  | "A" :: ts => do
    let (r, ts) ← pRR ts
    runOps (s.addAuth r) ts
  | "C" :: ts => do
    let (now, ts) ← pNat ts
    let (r, ts) ← pRR ts
    runOps (s.addCached r now) ts
  | "R" :: ts => do
    let (r, ts) ← pRR ts
    runOps (s.remove r) ts
  | "X" :: ts => runOps s.clear ts
  | "I" :: ts => do
    let (now, ts) ← pNat ts
    let (service, ts) ← pName ts
    let (full, ts) ← pName ts
    let (p, ts) ← pPacket ts
    runOps (ingest p service full s now) ts
  | ts => some (s, ts)

def sortStrings (xs : List String) : List String :=
  xs.foldl (fun acc x =>
    let rec ins : List String → List String
      | [] => [x]
      | y :: ys => if x < y then x :: y :: ys else y :: ins ys
    ins acc) []

def showSorted (xs : List String) : String :=
  (sortStrings xs).foldl (fun acc x => acc ++ " ; " ++ x) (toString xs.length)

def showInstance (i : Mdns.Instance) : String :=
  hexOfBytes i.name ++ " ips " ++ showSorted (i.ips.map fun ip => (if ip.1 then "6:" else "4:") ++ toString ip.2) ++
    " ports " ++ showSorted (i.ports.map toString) ++ " attrs " ++ showAttrs i.attrs

def valToSpec : Val → Spec.SVal
  | .int n => .num n
  | .bytes b => .octets b
  | .name n => .labels n
  | .strs ss => .strings ss
  | .tlvs xs => .triples xs

def gwToSpec : Gateway → Spec.GatewaySpec
  | .none => .none
  | .v4 a => .ipv4 a
  | .v6 a => .ipv6 a
  | .domain n => .name n

def showReply (r : Option (Packet × Bool)) : String :=
  match r with
  | none => "none"
  | some (r, u) => "some " ++ toString r.header.id ++ " " ++ toString r.header.flags ++ " " ++
      showBool u ++ " answers " ++ showSorted (r.answers.map showRR) ++ " additional " ++
      showSorted (r.additional.map showRR)

/-- a reply as it comes off the wire: parsed again, unicast flag unknown -/
def showReplyBytes (b : Option Bytes) : String :=
  match b with
  | none => "none"
  | some bytes =>
    match Packet.parse bytes with
    | .ok r => "some " ++ toString r.header.id ++ " " ++ toString r.header.flags ++ " answers " ++
        showSorted (r.answers.map showRR) ++ " additional " ++ showSorted (r.additional.map showRR)
    | _ => "unparseable"

def pIp : P (Bool × Nat) := fun ts => do
  let (v6, ts) ← pBool ts
  let (a, ts) ← pNat ts
  pure ((v6, a), ts)

def pInst : P Mdns.Instance := fun ts => do
  let (name, ts) ← pBytes ts
  let (ips, ts) ← pCounted pIp ts
  let (ports, ts) ← pCounted pNat ts
  pure ({ name := name, ips := ips, ports := ports, attrs := [] }, ts)

def sameSet [BEq α] (a b : List α) : Bool := a.all b.contains && b.all a.contains

def showNamePos (x : Name × Nat) : String := showName x.1 ++ " " ++ toString x.2

/-- one request line → one answer line -/
def answer (ts : List String) : String :=
  match ts with
  | ["name.parse", hex, pos] =>
    match bytesOfHex hex, pos.toNat? with
    | some d, some p => showOut showNamePos (Name.parse d p)
    | _, _ => "bad-op"
  | ["spec.name", hex, pos] =>
    match bytesOfHex hex, pos.toNat? with
    | some d, some p =>
      match Spec.nameAt d p with
      | .ok n e => "ok " ++ showName n ++ " " ++ toString e
      | .bad r => "bad " ++ r
    | _, _ => "bad-op"
  | ["match.qtype", t, q] =>
    match t.toNat?, q.toNat? with
    | some t, some q =>
      -- a code `QTYPE::try_from` refuses can still be asked for: `QTYPE::TYPE(TYPE::from(code))` is constructible
      match QTYPE.ofCode q with
      | .ok q => showBool (matchQType (TYPE.ofCode t) q)
      | _ => if q < 65536 then showBool (matchQType (TYPE.ofCode t) (.TYPE (TYPE.ofCode q))) else "bad-op"
    | _, _ => "bad-op"
  | ["mdns.exp", t] =>
    -- `ExpirationInfo::new(ttl)`: whole seconds after insertion of the refresh point and of the expiry
    match t.toNat? with
    | some t => if t < 4294967296 then toString (Mdns.refreshOffsetSecs t) ++ " " ++ toString t else "bad-op"
    | none => "bad-op"
  | ["match.qclass", c, q] =>
    match c.toNat?, q.toNat? with
    | some c, some q =>
      match CLASS.ofCode c, QCLASS.ofCode q with
      | .ok c, .ok q => showBool (matchQClass c q)
      | _, _ => "bad-op"
    | _, _ => "bad-op"
  | ["flags", f, a, b] =>
    match a.toNat?, b.toNat? with
    | some a, some b =>
      let h : Header := { id := 0, opcode := .StandardQuery, rcode := .NoError, flags := a, opt := none }
      match f with
      | "set" => toString (h.setFlags b).flags
      | "remove" => toString (h.removeFlags b).flags
      | "has" => showBool (h.hasFlags b)
      | _ => "bad-op"
    | _, _ => "bad-op"
  | ["spec.hdr", w] =>
    match w.toNat? with
    | some w => String.intercalate " " ([Spec.QR w, Spec.OPCODE w, Spec.AA w, Spec.TC w, Spec.RD w,
        Spec.RA w, Spec.Z w, Spec.AD w, Spec.CD w, Spec.RCODE w].map toString)
    | none => "bad-op"
  | ["hdr.parse", hex] =>
    match bytesOfHex hex with
    | some d => showOut showHeader (Header.parse d)
    | _ => "bad-op"
  | ["peek", f, hex, arg] =>
    match bytesOfHex hex, arg.toNat? with
    | some d, some a =>
      match f with
      | "id" => showOut toString (Peek.id d)
      | "questions" => showOut toString (Peek.questions d)
      | "answers" => showOut toString (Peek.answers d)
      | "name_servers" => showOut toString (Peek.nameServers d)
      | "additional_records" => showOut toString (Peek.additional d)
      | "has_flags" => showOut showBool (Peek.hasFlags d a)
      | "rcode" => showOut (fun r => toString r.toCode) (Peek.rcode d)
      | "opcode" => showOut (fun r => toString r.toCode) (Peek.opcode d)
      | _ => "bad-op"
    | _, _ => "bad-op"
  | ["parse", hex] =>
    match bytesOfHex hex with
    | some d => showOut showPacket (Packet.parse d)
    | _ => "bad-op"
  | "build" :: rest =>
    match pPacket rest with
    | some (p, []) => showOut hexOfBytes (Packet.build p)
    | _ => "bad-op"
  | "build.comp" :: rest =>
    match pPacket rest with
    | some (p, []) => showOut hexOfBytes (Packet.buildCompressed p)
    | _ => "bad-op"
  | ["name.new", hex] =>
    match bytesOfHex hex with
    | some s => showOut (fun n => showName n ++ " " ++ hexOfBytes (Name.display n)) (Name.new s)
    | none => "bad-op"
  | ["label.new", hex] =>
    match bytesOfHex hex with
    | some s => showOut hexOfBytes (Label.new s)
    | none => "bad-op"
  | "name.rel" :: rest =>
    match (pPair pName pName) rest with
    | some ((a, b), []) =>
      showBool (a.isSubdomainOf b) ++ " " ++
        (match a.without b with | some n => showName n | none => "none") ++ " " ++
        showBool a.isLinkLocal
    | _ => "bad-op"
  | ["txt.ofstr", hex] =>
    match pStr [hex] with
    | some (s, []) => showOut (showList hexOfBytes) (Txt.ofStr s)
    | _ => "bad-op"
  | "txt.tostr" :: rest =>
    match pCounted pBytes rest with
    | some (ss, []) => showOut (fun s => hexOfBytes (bytesOfString s)) (Txt.toStr ss)
    | _ => "bad-op"
  | "txt.attrs" :: rest =>
    match pCounted pBytes rest with
    | some (ss, []) => "ok " ++ showAttrs (Txt.attributes ss)
    | _ => "bad-op"
  | "txt.long" :: rest =>
    match pCounted pBytes rest with
    | some (ss, []) => showOut showAttrs (Txt.longAttributes ss)
    | _ => "bad-op"
  | "txt.ofmap" :: rest =>
    match pCounted (pPair pStr pOptStr) rest with
    | some (m, []) => showOut (showList hexOfBytes) (Txt.ofMap m)
    | _ => "bad-op"
  | ["cs.new", hex] =>
    match bytesOfHex hex with
    | some b => showOut hexOfBytes (CharStr.new b)
    | none => "bad-op"
  | "mdns" :: rest =>
    match runOps Mdns.Store.empty rest with
    | some (s, "Q" :: ts) =>
      match pPacket ts with
      | some (q, [now]) =>
        match now.toNat? with
        | some now =>
          match Mdns.buildReply q s now with
          | none => "none"
          | some (r, u) => "some " ++ toString r.header.id ++ " " ++ toString r.header.flags ++ " " ++
              showBool u ++ " answers " ++ showSorted (r.answers.map showRR) ++ " additional " ++
              showSorted (r.additional.map showRR)
        | none => "bad-op"
      | _ => "bad-op"
    | some (s, "G" :: ts) =>
      match pName ts with
      | some (n, [sub, auth, cached, now]) =>
        match now.toNat? with
        | some now =>
          let f : Mdns.Filter := ⟨sub == "1", auth == "1", cached == "1"⟩
          showSorted ((s.getDomain n f now).flatten.map showRR)
        | none => "bad-op"
      | _ => "bad-op"
    | some (s, "K" :: ts) =>
      match pName ts with
      | some (service, [now]) =>
        match now.toNat? with
        | some now => showSorted ((Mdns.known s service now).map showInstance)
        | none => "bad-op"
      | _ => "bad-op"
    | some (_, "P" :: ts) =>
      -- the reports on the on_discovery channel for one response
      match pName ts with
      | some (service, ts) =>
        match pName ts with
        | some (full, ts) =>
          match pPacket ts with
          | some (p, []) => showSorted ((Mdns.reports p service full).map showInstance)
          | _ => "bad-op"
        | none => "bad-op"
      | none => "bad-op"
    | some (s, ["N", now]) =>
      match now.toNat? with
      | some now =>
        match s.nextRefresh now with
        | none => "none"
        | some r => "some " ++ toString r
      | none => "bad-op"
    | some (s, ["NC", now]) =>
      match now.toNat? with
      | some now => if (s.nextRefresh now).isSome then "some" else "none"
      | none => "bad-op"
    | _ => "bad-op"
  | "svcb" :: code :: prio :: rest =>
    match code.toNat?, prio.toNat?, pName rest with
    | some code, some prio, some (target, ts) =>
      match pCounted pSvcOp ts with
      | some (ops, []) =>
        let (ps, oks) := Svcb.run ops
        let rd : RData := .flat code [.int prio, .name target, .tlvs ps]
        "ok " ++ String.ofList (oks.map (fun b => if b then '1' else '0')) ++ " " ++ showRData rd ++ " " ++
          showOut hexOfBytes (RData.write rd)
      | _ => "bad-op"
    | _, _, _ => "bad-op"
  | ["api", "newq", id] =>
    match id.toNat? with
    | some id => showPacket (Packet.newQuery id) ++ " " ++ showOut hexOfBytes (Packet.newQuery id).build
    | none => "bad-op"
  | ["api", "newr", id] =>
    match id.toNat? with
    | some id => showPacket (Packet.newReply id) ++ " " ++ showOut hexOfBytes (Packet.newReply id).build
    | none => "bad-op"
  | "api" :: "reply" :: rest =>
    match pPacket rest with
    | some (p, []) => showPacket p.intoReply
    | _ => "bad-op"
  | "api" :: "setid" :: id :: rest =>
    match id.toNat?, pPacket rest with
    | some id, some (p, []) => showPacket (p.setId id)
    | _, _ => "bad-op"
  | "api" :: "flush" :: rest =>
    match pRR rest with
    | some (r, []) => showRR r.toCacheFlush
    | _ => "bad-op"
  | "spec.rdata" :: rest =>
    match pRData rest with
    | some (.flat code vs, []) =>
      match Spec.encode code (vs.map valToSpec) with
      | some b => "ok " ++ hexOfBytes b
      | none => "none"
    | some (.ipseckey p a g k, []) => "ok " ++ hexOfBytes (Spec.encodeIpseckey p a (gwToSpec g) k)
    | _ => "bad-op"
  | "write" :: kind :: pos :: prefill :: mode :: rest =>
    match pos.toNat?, bytesOfHex prefill, pPacket rest with
    | some pos, some buf, some (p, []) =>
      let k : Option WKind := match kind with
        | "vec" => some .vec | "cv" => some .cursorVec | "cf" => some .cursorFixed | "sl" => some .slice
        | _ => none
      match k with
      | none => "bad-op"
      | some k =>
        let w : W := { kind := k, buf := buf, pos := pos }
        let r := if mode == "comp" then p.writeCompressedTo w else p.writeTo w
        showOut (fun w => hexOfBytes w.buf ++ " " ++ toString w.pos) r
    | _, _, _ => "bad-op"
  | "owned.rr" :: rest =>
    match pRR rest with
    | some (r, []) => showRR r.intoOwned
    | _ => "bad-op"
  | "owned.q" :: rest =>
    match pQuestion rest with
    | some (q, []) => showQuestion q.intoOwned
    | _ => "bad-op"
  | "hash.rr" :: rest =>
    match (pPair pRR pRR) rest with
    | some ((a, b), []) => showBool (Mdns.rrEq a b) ++ " " ++ showBool (a.hashFeed == b.hashFeed)
    | _ => "bad-op"
  | "hash.name" :: rest =>
    match (pPair pName pName) rest with
    | some ((a, b), []) => showBool (a == b) ++ " " ++ showBool (Name.hashFeed a == Name.hashFeed b)
    | _ => "bad-op"
  | "hash.inst" :: rest =>
    match (pPair pInst pInst) rest with
    | some ((a, b), []) =>
      showBool (a.name == b.name && sameSet a.ips b.ips && sameSet a.ports b.ports) ++ " " ++
        showBool (a.hashFeed == b.hashFeed)
    | _ => "bad-op"
  | ["escape", hex] =>
    match pStr [hex] with
    | some (s, []) => hexOfBytes (bytesOfString (String.ofList (Mdns.escapeName s.toList)))
    | _ => "bad-op"
  | ["unescape", hex] =>
    match pStr [hex] with
    | some (s, []) => hexOfBytes (bytesOfString (String.ofList (Mdns.unescapeName s.toList)))
    | _ => "bad-op"
  | "pipe" :: rest =>
    match runOps Mdns.Store.empty rest with
    | some (s, ["PR", hex, now]) =>
      match bytesOfHex hex, now.toNat? with
      | some d, some now => showOut showReplyBytes (Mdns.handleResponder s d now)
      | _, _ => "bad-op"
    | some (s, "PD" :: ts) =>
      match (pPair pName pName) ts with
      | some ((service, full), [hex, now]) =>
        match bytesOfHex hex, now.toNat? with
        | some d, some now =>
          showOut (fun r => showReplyBytes r.2 ++ " cached " ++
            showSorted ((r.1.getDomain service Mdns.Filter.cachedOnly now).flatten.map showRR))
            (Mdns.handleDiscovery s service full d now)
        | _, _ => "bad-op"
      | _ => "bad-op"
    | _ => "bad-op"
  | ["observe", hex] =>
    match bytesOfHex hex with
    | some d =>
      match Packet.parse d with
      | .ok p => showOut (fun _ => "") (Packet.observe p)
      | _ => "bad-op"
    | none => "bad-op"
  | ["type", c] =>
    match c.toNat? with
    | some c => (TYPE.ofCode c).mnemonic ++ " " ++ toString (TYPE.ofCode c).toCode
    | none => "bad-op"
  | ["class", c] =>
    match c.toNat? with
    | some c => showOut (fun x => x.mnemonic ++ " " ++ toString x.toCode) (CLASS.ofCode c)
    | none => "bad-op"
  | ["qtype", c] =>
    match c.toNat? with
    | some c => showOut (fun x => toString x.toCode) (QTYPE.ofCode c)
    | none => "bad-op"
  | ["qclass", c] =>
    match c.toNat? with
    | some c => showOut (fun x => toString x.toCode) (QCLASS.ofCode c)
    | none => "bad-op"
  | _ => "bad-op"

partial def loop (hin hout : IO.FS.Stream) : IO Unit := do
  let line ← hin.getLine
  if line.isEmpty then return ()
  hout.putStrLn (answer (words line))
  loop hin hout

def main : IO Unit := do
  let hin ← IO.getStdin
  let hout ← IO.getStdout
  loop hin hout
  hout.flush
