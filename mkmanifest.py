#!/usr/bin/env python3
"""Regenerates MANIFEST.json from the table below (run after claiming a property)."""
import json, subprocess, os
ROOT = os.path.dirname(os.path.abspath(__file__))
hooks = subprocess.run(["git", "-C", "/repo", "log", "--format=%H %s"], capture_output=True, text=True).stdout.splitlines()
hook_commits = [l.split()[0] for l in hooks if "verif hooks" in l]

NOTE = ("Trusted base: Lean 4.33.0 kernel (leanchecker re-check in the thorough tier); axioms propext, Classical.choice, Quot.sound only "
        "(audited by #print axioms on every run); hand-written Lean model tied to /repo's current tree by the correspondence run of this check "
        "(Rust harness linked against the real crates <-> compiled Lean driver), exhaustive where the domain is finite, sampled elsewhere; "
        "std/bitflags/radix_trie behaviour modelled as stated in DESIGN.md section 5. Where the property's proof modules include Tie / TieEnv / TieEnvName / TieEnvMdns / TieEnvTxt, the model's tables "
        "(type codes, RDATA field layouts, masks, limits, enum tables) and the numbers and orders of the envelope functions (peek / parse byte ranges, guards, advances, write orders, "
        "match arms, refresh arithmetic; the loop of Name::parse turn by turn, the name writers and Display, the mDNS store, build_reply, ingestion, from_records / into_records, the TXT text API, the receive buffers of the service loops) are regenerated from /repo's Rust sources on every run by tools/translate.py and tools/translate_env.py (regex-based extractors, trusted) and "
        "proved equal to the hand-written model's; a source construct they cannot read is listed as untied and is then tied by the correspondence alone.")

CLAIMED = {
 "C01": ("parseSteps_linear (C01Time: a cost-counting twin of the whole parser - every name-loop iteration, field, record and question, for accepted and rejected inputs alike - is bounded by 3146 * len + 12572 whatever the header counts and pointer chains say; 170 * len + 668 up to 512 bytes) and parseAlloc_linear (allocation units of the prefix parsed before an error <= 35 * len), both without a success hypothesis; parse_no_panic / peek_no_panic proved for every byte string on the model (panicking Rust operations are explicit panic outcomes; every model loop passes Lean's termination checker); "
         "partial for the runtime part: real time and heap are metered on the generated inputs, not proved.",
         "Lean 4 theorem (no-panic, termination) + differential correspondence + metered execution", "9/C01"),
 "C06": ("name_parse_sound/bounds/cursor/complete and the error corollaries proved for all buffers and offsets against the inductive RFC 1035 4.1.4 relation; "
         "the error clauses one by one (C06Errors: forward / outside / cut pointers, truncation, label overrun, cursor after the first pointer); correspondence bounded-exhaustive plus random, each case also checked against the executable reference decoder, and names inside the RDATA of every name-bearing type reference-encoded with pointers.",
         "Lean 4 theorem (refinement to an inductive RFC relation) + differential correspondence", "9/C06"),
 "C08": ("header_layout, z_rejected, peek_agrees, flags_algebra, header_roundtrip proved for all 65536 flag words / all flag-set pairs / all opcode-rcode-flag triples (kernel-evaluated tables lifted to all inputs); constructors new_query / new_reply / into_reply / set_id / to_cache_flush_record (C08Api); correspondence exhaustive over the same finite domains, every parsed word written back.",
         "Lean 4 theorem (decide +kernel over the full table) + exhaustive correspondence", "9/C08"),
 "C18": ("type/class/qtype/qclass round trips, IANA mnemonics, no aliasing, exact matching and faithful type codes proved for every code; correspondence exhaustive over all 65536 codes and the full matching matrices.",
         "Lean 4 theorem (case analysis over the conversion tables) + exhaustive correspondence", "9/C18"),
 "C05": ("parse_respects_framing, cursor_after_record/question, overrun_rejected/overrun_err, rdata_local proved for every byte string against an independent envelope walker (Spec.walk): entries one-to-one and in order, owner decoded by the RFC relation at the entry's offset, fixed fields equal, cursor after every record = end of its RDLENGTH, RDATA independent of later bytes; parse_ignores_trailing (C05Trailing): a parsed message is unaffected by appended bytes, at every level.",
         "Lean 4 theorem (refinement to an independent envelope walker) + differential correspondence", "9/C05"),
 "C17": ("name_new_iff, label_new_iff, display_new, subdomain_iff, without_iff, link_local_iff proved for all texts/names against the label grammar written from the property; correspondence bounded-exhaustive.",
         "Lean 4 theorem (equivalence with a declarative grammar) + bounded-exhaustive correspondence", "9/C17"),
 "C19": ("txt_split_join (for every String), chunks_fit, attrs_roundtrip (keys without '=', entries within 255 bytes, absent vs empty preserved, via a proved UTF-8 lemma: byte 0x3D occurs in the encoding only as the character '='), first_occurrence_wins, long_attrs_split, overlong_refused proved on the model; correspondence sampled with boundary-directed generators.",
         "Lean 4 theorem (round trips over core's UTF-8 theory) + differential correspondence", "9/C19"),
 "C02": ("build_parse: for every well-formed packet (explicit decidable WF = DNS field widths and size limits; a non-trivial sample packet is shown to satisfy it) Packet.parse (Packet.build p) = ok p, with name/question/record/RDATA round trips embedded in arbitrary context; unbounded in sizes. The excluded point TXT-without-strings is executed on every run and is the recorded known finding txt-no-strings.",
         "Lean 4 theorem (round trip by induction over the schema table and sections) + differential correspondence", "9/C02"),
 "C03": ("compressed_transparent and compressed_same_as_plain: for every well-formed packet of any size the compressed serialisation parses to the same packet and is never longer; proved by the table invariant 'every entry is a valid backward-pointer encoding at an offset <= 0x3FFF, or pending' (compress_append_spec); compressed_not_longer without any well-formedness hypothesis (C03Length).",
         "Lean 4 theorem (invariant over the append-only compressing writer) + differential correspondence", "9/C03"),
 "C13": ("reply_sound, reply_complete_exact, additional_sound, reply_header, no_empty_reply proved for every store satisfying the invariant maintained by all operation sequences (hence every reachable store), every query and every clock value; key_prefix_iff shows the store key is label-wise prefix-decodable.",
         "Lean 4 theorem (invariant by induction over operations + refinement to an abstract map) + differential correspondence", "9/C13"),
 "C20": ("cache_expiry, cached_lifetime_history, expired_never_returned, auth_never_expires, auth_not_in_cache_only, auth_until_removed proved over every operation history with the clock as a parameter (refinement abs_run to an abstract record -> kind map); partial in that the runtime clock is observed through real sleeps with measured intervals; the refresh clock (C20Refresh: refresh never after expiry on every history, get_next_refresh = earliest refresh time already past, expired entries stay due).",
         "Lean 4 theorem (refinement over histories, explicit clock) + real-time differential correspondence", "9/C20"),
 "C09": ("opt_record_layout_partial (position, owner, TYPE, CLASS = UDP size, option triples, ARCOUNT, header low nibble of every well-formed packet with EDNS data), rcode_split / rcode_recombine for all 13 codes, opt_lift (parse side over walked entries) proved; the TTL octet order is the library's, which optTtl_is_byteswapped / optTtl_ne_rfc prove to be the byte-swap of RFC 6891's and different from it: that deviation is the recorded known finding opt-ttl-byte-order, hence partial.",
         "Lean 4 theorem (layout against the RFC 6891 spec, deviation proved explicitly) + differential correspondence", "9/C09"),
 "C10": ("schema_matches_rfc (the model's 38-row layout table equals the table written from the RFCs with IANA codes), rfc_encoding (serialising any in-range field tuple yields the RFC reference encoding byte for byte), rfc_parse / rfc_parse_record (parsing that encoding yields the values), rfc_ipseckey, reject rules (LOC version, unordered SVCB/NSEC keys, inner length overruns are .err, never panic) proved; the SVCB / HTTPS builder API (C10Svcb: every call sequence yields the RFC 9460 encoding and parses back; SvcParamValues of section 7); the per-type Rust code is tied to the table by the correspondence and by the regenerated tables of Props/Tie.lean.",
         "Lean 4 theorem (equality with a declarative RFC schema + reference encoder) + differential correspondence", "9/C10"),
 "C11": ("parse_image_wf_core (everything the parser returns satisfies the well-formedness C02/C03 need, clause by clause), reserialise_stable and reparse_idempotent proved under the explicit hypothesis PlainFits (the re-encoded RDATA fits 16 bits), which is proved for every input of at most 65304 bytes or with every RDLENGTH at most 65281; for the remaining inputs the proof attempt produced a genuine counterexample (known finding rdata-expands-past-65535), hence partial.",
         "Lean 4 theorem (parser image satisfies the round-trip precondition) + differential correspondence", "9/C11"),
 "C04": ("framed (the independent walker consumes the plain and the compressed output of every well-formed packet exactly: counts = entries, OPT once, no other bytes), len_eq_written, W.write_append, writers_agree_plain/compressed (the imperative back-patching writer at any position over any pre-existing content leaves exactly the functional bytes spliced in; record_refinement), small_writer_* (an error, never a panic or a short success) proved; std::io writer behaviour is modelled (trusted) and validated by the correspondence.",
         "Lean 4 theorem (refinement of the imperative seek/patch writer to the functional encoder) + differential correspondence", "9/C04"),
 "C07": ("pointers_valid (every name site of the compressed output of a well-formed packet is a valid strictly-backward encoding of the intended name; 14-bit targets), nocompress_in_full / nocompress_types / nocompress_complete, compress_types, repeat_is_pointer, compressName_records, table_monotone, repeated_name_is_pointer (packet level) proved.",
         "Lean 4 theorem (table invariant threaded through all name sites) + differential correspondence", "9/C07"),
 "C12": ("observers_total_partial / parsed_then_observed (no modelled observer can panic on any packet), display_never_errs, try_from_iff (String::try_from fails exactly on invalid UTF-8), display_valid_utf8, long_attributes_err_iff proved; partial: std::fmt internals and the lossy text are not modelled, the harness observes them on sampled inputs.",
         "Lean 4 theorem (totality of the modelled observers) + differential correspondence under catch_unwind", "9/C12"),
 "C16": ("into_owned_fieldwise (TieEnv: every field of each of the 34 hand-written into_owned bodies is copied from the field of the same name, read from the sources on every run - this is what gives the identity functions of the model a meaning); name_hash_iff / rr_hash_iff_of_WF (the hash feed separates exactly what == separates); fromRecords_eq_hash (discovered instances need no side condition); into_owned_eq for names, values, RDATA, records, questions, packets (hence identical bytes from both serialisers), rr_eq_hash (records equal under the library's == feed the hasher identically), instance_eq_hash (equal instance information hashes equally for every insertion order: sort of permutation-equal duplicate-free lists), hash_ignores_what_eq_ignores proved; the 40 per-type into_owned bodies are tied to the model by the correspondence.",
         "Lean 4 theorem (field-wise identity, permutation-invariant hash feed) + differential correspondence", "9/C16"),
 "C14": ("responder_loop_survives (with the send policy read from both responder loops - a failed send_to is logged - no datagram, store, clock value or behaviour of the network ends or panics the loop; responder_loop_propagate_ends: with `?` every unsendable reply ends it, the defect repaired by fix 4185208 and replayed by the live runs); pipeline_no_panic / pipeline_total (responder, discovery listener and one-shot resolver steps return a value for every datagram, store and clock; buildG_ne_panic for every packet), store_usable (the store invariant survives every datagram), reply_parseable (every reply produced from a store of well-formed records parses back to the packet build_reply assembled) proved; partial: threads, sockets and RwLock poisoning are consequences of a panic and are only exercised (hook pipelines for all generated datagrams, loopback multicast for a sample).",
         "Lean 4 theorem (totality of the handling pipeline + invariant preservation) + differential correspondence + live socket run", "9/C14"),
 "C15": ("reports per owner (C15Reports: what each response puts on the on_discovery channel is one instance per owner name, built from that owner's records only - mem_reports_iff, reportOf_local, report_faithful_to_owner, two_instances_discovered_faithfully; reportsMerged_merges is the defect repaired by fix 3098c07); discovery_faithful (end to end: announce -> compressed wire -> parse -> ingest -> known returns exactly the advertised instance until the TTL elapses and nothing afterwards), from_records_of_into_records, ingest_filter / ingest_ignores (own, service-name and non-subdomain records are never cached), escape_unescape, empty_key_indistinguishable proved; maps containing the empty key are the recorded known finding empty-attribute-key.",
         "Lean 4 theorem (composition of the wire, store and TXT round trips) + differential correspondence", "9/C15"),
}
PENDING = {f"C{n:02d}": "check not built yet (implementation of DESIGN.md in progress); will be claimed at level proof" for n in range(1, 21)}
try:
    from manifest_extra import CLAIMED_EXTRA, NOT_APPLICABLE
    CLAIMED.update(CLAIMED_EXTRA)
except ImportError:
    NOT_APPLICABLE = {}

import sys
sys.path.insert(0, ROOT)
from checkmeta import META
checks = []
for pid, (text, technique, ref) in sorted(CLAIMED.items()):
    mods = [pid] + META.get(pid, {}).get("extra_modules", [])
    text = text.rstrip() + " Proof modules whose every theorem is re-checked and audited on each run: " + ", ".join("Props/" + m + ".lean" for m in mods) + " (the ...More / C01Time / C06Spec / C07Sites / C14Fits / C15Reports / C15Multi modules are described in DESIGN.md 14.20 and 14.25)."
    checks.append({
        "property_id": pid,
        "quick_cmd": f"./check {pid} quick",
        "thorough_cmd": f"./check {pid} thorough",
        "evidence_file": f"/verif/evidence/{pid}.json",
        "replay_cmd_template": f"./check {pid} --replay {{path}}",
        "engine": "lean4-proof+correspondence",
        "level_claimed": {"category": "proof", "text": text, "design_ref": f"DESIGN.md section {ref}"},
        "level_note": NOTE,
        "technique": technique,
    })
na = []
for pid in sorted(PENDING):
    if pid in CLAIMED: continue
    na.append({"property_id": pid, "reason": NOT_APPLICABLE.get(pid, PENDING[pid])})

manifest = {
 "version": 1,
 "setup_cmd": "./check --setup",
 "hooks": {
   "guard": "simple_dns_verif",
   "enable": "rustc --cfg simple_dns_verif, set in /verif/harness/.cargo/config.toml (build.rustflags); the harness depends on /repo/simple-dns and /repo/simple-mdns by path",
   "baseline_off_cmd": "cd /repo && cargo test --workspace --no-fail-fast --offline",
   "source_commits": hook_commits,
   "add_only": True,
 },
 "engines": [{"name": "lean4-proof+correspondence", "path": "/verif/check",
              "serves_properties": sorted(CLAIMED),
              "kind_free_text": "Lean 4 theorems about a hand-written executable model (/verif/lean), tied to the code on every run by a differential correspondence harness (/verif/harness) and by tables and envelope numbers regenerated from the Rust sources (tools/translate.py, tools/translate_env.py, Props/Tie.lean, Props/TieEnv.lean, Props/TieEnvName.lean, Props/TieEnvMdns.lean), driven by ./check"}],
 "checks": checks,
 "not_applicable": na,
 "notes": "See DESIGN.md. known_findings.txt lists recorded findings and fixed defects.",
}
json.dump(manifest, open(os.path.join(ROOT, "MANIFEST.json"), "w"), indent=1)
print("claimed", sorted(CLAIMED), "pending", [x["property_id"] for x in na])
