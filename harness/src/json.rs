//! Minimal JSON writer (no external crates are needed offline).
use std::collections::BTreeMap;

#[derive(Clone, Debug)]
pub enum J {
    Null,
    Bool(bool),
    Int(i64),
    Num(f64),
    Str(String),
    Arr(Vec<J>),
    Obj(BTreeMap<String, J>),
}

impl J {
    pub fn obj() -> J {
        J::Obj(BTreeMap::new())
    }
    pub fn set(&mut self, k: &str, v: J) -> &mut Self {
        if let J::Obj(m) = self {
            m.insert(k.to_string(), v);
        }
        self
    }
    pub fn s(x: &str) -> J {
        J::Str(x.to_string())
    }
    pub fn render(&self, out: &mut String) {
        match self {
            J::Null => out.push_str("null"),
            J::Bool(b) => out.push_str(if *b { "true" } else { "false" }),
            J::Int(i) => out.push_str(&i.to_string()),
            J::Num(f) => out.push_str(&format!("{}", f)),
            J::Str(s) => {
                out.push('"');
                for c in s.chars() {
                    match c {
                        '"' => out.push_str("\\\""),
                        '\\' => out.push_str("\\\\"),
                        '\n' => out.push_str("\\n"),
                        '\r' => out.push_str("\\r"),
                        '\t' => out.push_str("\\t"),
                        c if (c as u32) < 0x20 => out.push_str(&format!("\\u{:04x}", c as u32)),
                        c => out.push(c),
                    }
                }
                out.push('"');
            }
            J::Arr(a) => {
                out.push('[');
                for (i, x) in a.iter().enumerate() {
                    if i > 0 {
                        out.push(',');
                    }
                    x.render(out);
                }
                out.push(']');
            }
            J::Obj(m) => {
                out.push('{');
                for (i, (k, v)) in m.iter().enumerate() {
                    if i > 0 {
                        out.push(',');
                    }
                    J::Str(k.clone()).render(out);
                    out.push(':');
                    v.render(out);
                }
                out.push('}');
            }
        }
    }
    pub fn to_string(&self) -> String {
        let mut s = String::new();
        self.render(&mut s);
        s
    }
}
