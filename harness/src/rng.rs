//! xorshift64*: every random choice of a run derives from one state.
#[derive(Clone)]
pub struct Rng(pub u64);

impl Rng {
    pub fn new(seed: u64) -> Self {
        let mut r = Rng(seed ^ 0x9E37_79B9_7F4A_7C15);
        if r.0 == 0 {
            r.0 = 0x1234_5678_9ABC_DEF1;
        }
        for _ in 0..4 {
            r.next();
        }
        r
    }
    pub fn next(&mut self) -> u64 {
        let mut x = self.0;
        x ^= x >> 12;
        x ^= x << 25;
        x ^= x >> 27;
        self.0 = x;
        x.wrapping_mul(0x2545_F491_4F6C_DD1D)
    }
    /// uniform in 0..n (n > 0)
    pub fn below(&mut self, n: u64) -> u64 {
        self.next() % n
    }
    pub fn range(&mut self, lo: u64, hi_incl: u64) -> u64 {
        lo + self.below(hi_incl - lo + 1)
    }
    pub fn chance(&mut self, num: u64, den: u64) -> bool {
        self.below(den) < num
    }
    pub fn pick<'a, T>(&mut self, xs: &'a [T]) -> &'a T {
        &xs[self.below(xs.len() as u64) as usize]
    }
    pub fn bytes(&mut self, n: usize) -> Vec<u8> {
        (0..n).map(|_| self.next() as u8).collect()
    }
    /// boundary-biased integer below 2^bits
    pub fn int(&mut self, bits: u32) -> u128 {
        let max: u128 = if bits >= 128 { u128::MAX } else { (1u128 << bits) - 1 };
        match self.below(8) {
            0 => 0,
            1 => 1,
            2 => max,
            3 => max - (self.below(2) as u128).min(max),
            4 => {
                let k = self.below(bits as u64 + 1) as u32;
                let v = if k >= 128 { u128::MAX } else { (1u128 << k).wrapping_sub(self.below(2) as u128) };
                v & max
            }
            _ => (((self.next() as u128) << 64) | self.next() as u128) & max,
        }
    }
}
