//! Structured generators built on the library's own public constructors.
use crate::rng::Rng;
use simple_dns::rdata::*;
use simple_dns::*;
use std::net::{Ipv4Addr, Ipv6Addr};

pub const N_KINDS: usize = 43; // 40 typed variants + NULL + unknown type + empty RDATA

pub const KIND_NAMES: [&str; N_KINDS] = [
    "A", "AAAA", "NS", "MD", "CNAME", "MB", "MG", "MR", "PTR", "MF", "HINFO", "MINFO", "MX", "TXT", "SOA", "WKS",
    "SRV", "RP", "AFSDB", "ISDN", "RouteThrough", "NAPTR", "NSAP", "NSAP_PTR", "LOC", "OPT", "CAA", "SVCB", "HTTPS",
    "EUI48", "EUI64", "CERT", "ZONEMD", "KX", "IPSECKEY", "DNSKEY", "RRSIG", "DS", "NSEC", "DHCID", "NULL",
    "Unknown", "Empty",
];

pub const TYPE_CODES: [u16; 41] = [
    1, 28, 2, 3, 5, 7, 8, 9, 12, 4, 13, 14, 15, 16, 6, 11, 33, 17, 18, 20, 21, 35, 22, 23, 29, 41, 257, 64, 65, 108,
    109, 37, 63, 36, 45, 48, 46, 43, 47, 49, 10,
];

pub const CLASSES: [CLASS; 5] = [CLASS::IN, CLASS::CS, CLASS::CH, CLASS::HS, CLASS::NONE];

pub struct Gen {
    pub rng: Rng,
    /// small label pool so that names share suffixes
    pub pool: Vec<Vec<u8>>,
    /// probability (out of 8) that a label comes from the pool
    pub share: u64,
    /// every generated name is the root name (the one name whose in-place form has no label at all)
    pub root_only: bool,
}

pub fn mk_name(labels: &[Vec<u8>]) -> Name<'static> {
    let ls: Vec<Label<'static>> = labels.iter().map(|l| Label::new_unchecked(l.clone())).collect();
    Name::new_with_labels(&ls)
}

pub fn mk_cs(b: &[u8]) -> CharacterString<'static> {
    CharacterString::new(b).expect("character-string within 255 bytes").into_owned()
}

impl Gen {
    pub fn new(seed: u64) -> Self {
        let pool = vec![
            b"a".to_vec(),
            b"b".to_vec(),
            b"c".to_vec(),
            b"example".to_vec(),
            b"com".to_vec(),
            b"local".to_vec(),
            b"_tcp".to_vec(),
            b"_srv".to_vec(),
            // the same labels in another letter case: names are compared byte-wise on the wire
            b"Example".to_vec(),
            b"COM".to_vec(),
            b"A".to_vec(),
            b"Local".to_vec(),
        ];
        Gen { rng: Rng::new(seed), pool, share: 6, root_only: false }
    }

    pub fn label(&mut self) -> Vec<u8> {
        if self.rng.chance(self.share, 8) {
            return self.rng.pick(&self.pool).clone();
        }
        let len = match self.rng.below(10) {
            0 => 1,
            1 => 63,
            2 => 62,
            _ => self.rng.range(1, 12) as usize,
        };
        match self.rng.below(4) {
            0 => self.rng.bytes(len),
            1 => (0..len).map(|_| *self.rng.pick(b"\x00.\\\xff\xc0\x80 =;")).collect(),
            _ => (0..len).map(|_| *self.rng.pick(b"abcxyz019-_")).collect(),
        }
    }

    /// labels of a name whose wire form is at most 255 bytes
    pub fn labels(&mut self) -> Vec<Vec<u8>> {
        if self.root_only { return vec![]; }
        let want = match self.rng.below(12) {
            0 => 0,
            1 => 20, // pushes against the 255 limit
            _ => self.rng.range(1, 5) as usize,
        };
        // now and then as many labels as a name can hold: 127 one-octet labels are 255 octets, and a few short of that
        if want == 20 && self.rng.chance(1, 5) {
            let n = *self.rng.pick(&[64usize, 100, 126, 127, 127, 7, 13, 33, 90, 119]);
            let pool = self.share.max(2) as u64;
            return (0..n).map(|_| vec![b'a' + self.rng.below(pool.min(26)) as u8]).collect();
        }
        let mut out: Vec<Vec<u8>> = Vec::new();
        let mut size = 1usize;
        for _ in 0..want {
            let l = self.label();
            if size + l.len() + 1 > 255 {
                // fill exactly to 255 when possible
                let room = 255 - size;
                if room >= 2 {
                    let l2 = self.rng.bytes(room - 1);
                    out.insert(0, l2);
                }
                break;
            }
            size += l.len() + 1;
            out.insert(0, l);
        }
        out
    }

    pub fn name(&mut self) -> Name<'static> {
        mk_name(&self.labels())
    }

    pub fn blob(&mut self) -> Vec<u8> {
        let n = match self.rng.below(16) {
            0 => 0,
            1 => 1,
            2 => 255,
            3 => 256,
            4 => self.rng.range(300, 1200) as usize,
            // now and then several kilobytes (keys, certificates, signatures), past 4096 and 16384
            5 if self.rng.chance(1, 4) => *self.rng.pick(&[4095usize, 4096, 4097, 9000, 16384, 20000]),
            6 => self.rng.range(41, 254) as usize,
            _ => self.rng.range(0, 40) as usize,
        };
        let mut b = self.rng.bytes(n);
        // opaque data that ends in zero octets, or is all zero (bit maps, keys, digests): a writer that
        // "canonicalises" by trimming them changes the value
        match self.rng.below(8) {
            0 => { let k = b.len().min(1 + self.rng.below(3) as usize); let l = b.len(); for x in &mut b[l - k..] { *x = 0; } }
            1 => { for x in &mut b { *x = 0; } }
            _ => {}
        }
        b
    }

    pub fn cs_bytes(&mut self) -> Vec<u8> {
        let n = match self.rng.below(12) {
            0 => 0,
            1 => 255,
            2 => 254,
            // the middle of the range too (21 .. 253), not only its ends
            3 => self.rng.range(21, 253) as usize,
            _ => self.rng.range(0, 20) as usize,
        };
        match self.rng.below(12) {
            0..=3 => self.rng.bytes(n),
            // zero octets only (padding of embedded responders), text ending in zero octets, text whose last octets are
            // not UTF-8 (Latin-1 `caf\xe9`, a code point cut short)
            4 => vec![0u8; n.min(1 + self.rng.below(4) as usize).max(1).min(255)],
            5 => { let mut b: Vec<u8> = (0..n.max(2) - 2).map(|_| *self.rng.pick(b"abcxyz")).collect(); b.extend_from_slice(&[0, 0]); b.truncate(255); b }
            6 => { let mut b: Vec<u8> = (0..n.saturating_sub(3)).map(|_| *self.rng.pick(b"cafe ")).collect(); b.extend_from_slice(*self.rng.pick(&[&b"\xe9"[..], b"\xe9x", b"\xe2\x82", b"\xf0\x9f\x98", b"\xc3"])); b.truncate(255); b }
            _ => (0..n).map(|_| *self.rng.pick(b"abc=;xyz \xc3\xa9\xff")).collect(),
        }
    }

    pub fn cs(&mut self) -> CharacterString<'static> {
        mk_cs(&self.cs_bytes())
    }

    fn u8(&mut self) -> u8 {
        self.rng.int(8) as u8
    }
    pub fn u16(&mut self) -> u16 {
        self.rng.int(16) as u16
    }
    fn u32(&mut self) -> u32 {
        self.rng.int(32) as u32
    }

    /// strictly increasing keys below `max`
    fn inc_keys(&mut self, max: u64, n: usize) -> Vec<u64> {
        if n as u64 >= max { return (0..max).collect(); }
        let mut ks: Vec<u64> = (0..n).map(|_| match self.rng.below(5) {
            // the low keys are the assigned ones (SVCB: mandatory, alpn, ...; NSEC: window 0), where code is apt to look inside the value
            0 | 1 => self.rng.below(8),
            2 => max - 1 - self.rng.below(3),
            _ => self.rng.below(max),
        }).collect();
        ks.sort();
        ks.dedup();
        ks
    }

    pub fn svcb(&mut self) -> SVCB<'static> {
        // priority 0 is AliasMode; parameters are then unusual but legal on the wire
        let prio = if self.rng.chance(1, 5) { 0 } else { self.u16() };
        let mut s = SVCB::new(prio, self.name());
        let n = if self.rng.chance(1, 15) { self.rng.range(5, 300) as usize } else { self.rng.below(5) as usize };
        for k in self.inc_keys(65536, n) {
            let v = if self.rng.chance(1, 10) { self.blob() } else { let n = self.rng.below(12) as usize; self.rng.bytes(n) };
            s.set_param(k as u16, v).unwrap();
        }
        // a value with a history: a parameter set again with another value (of another length), as an application that
        // updates a port or an address list does - what is written is the last value, and its length
        if self.rng.chance(1, 4) {
            let existing: Vec<(u16, usize)> = s.iter_params().map(|(k, v)| (k, v.len())).collect();
            if let Some((k, l)) = existing.first().cloned() {
                let n = if self.rng.chance(1, 2) { l + 1 + self.rng.below(9) as usize } else { l / 2 };
                let v2 = self.rng.bytes(n);
                s.set_param(k, v2).unwrap();
            }
        }
        s
    }

    pub fn opt(&mut self) -> OPT<'static> {
        // mostly a few options, now and then many (the list is bounded by RDLENGTH only)
        let n = if self.rng.chance(1, 12) { *self.rng.pick(&[31usize, 32, 33, 64, 200, 254, 255, 256, 300, 1000]) } else { self.rng.below(4) as usize };
        OPT {
            opt_codes: (0..n)
                .map(|_| OPTCode { code: if self.rng.chance(1, 2) { *self.rng.pick(&[0u16, 1, 2, 3, 5, 6, 7, 8, 9, 10, 11, 12, 13, 14, 15, 16, 17, 65001]) } else { self.u16() }, data: if n > 8 { let l = self.rng.below(3) as usize; self.rng.bytes(l) } else { self.blob() }.into() })
                .collect(),
            udp_packet_size: *self.rng.pick(&[0u16, 512, 1232, 4096, 65535]),
            version: *self.rng.pick(&[0u8, 0, 0, 1, 127, 255]),
        }
    }

    /// a well-formed RDATA value of the given kind (index into `KIND_NAMES`)
    pub fn rdata(&mut self, kind: usize) -> RData<'static> {
        match kind {
            // field by field, or through the typed constructors (`From<Ipv4Addr>`, `From<Ipv6Addr>`): the address is the
            // big-endian number of its octets either way
            0 => { let x = self.u32(); if self.rng.chance(1, 3) { RData::A(A::from(std::net::Ipv4Addr::from(x))) } else { RData::A(A { address: x }) } }
            1 => { let x: u128 = self.rng.int(128); if self.rng.chance(1, 3) { RData::AAAA(AAAA::from(std::net::Ipv6Addr::from(x))) } else { RData::AAAA(AAAA { address: x }) } }
            2 => RData::NS(NS(self.name())),
            3 => RData::MD(MD(self.name())),
            4 => RData::CNAME(CNAME(self.name())),
            5 => RData::MB(MB(self.name())),
            6 => RData::MG(MG(self.name())),
            7 => RData::MR(MR(self.name())),
            8 => RData::PTR(PTR(self.name())),
            9 => RData::MF(MF(self.name())),
            10 => RData::HINFO(HINFO { cpu: self.cs(), os: self.cs() }),
            11 => RData::MINFO(MINFO { rmailbox: self.name(), emailbox: self.name() }),
            12 => RData::MX(MX { preference: self.u16(), exchange: self.name() }),
            13 => {
                if self.rng.chance(1, 7) {
                    // built from an attribute map (what simple-mdns does for every advertised service)
                    use std::convert::TryFrom;
                    let mut m = std::collections::HashMap::new();
                    for k in 0..self.rng.range(1, 5) { m.insert(format!("key{}", k), match self.rng.below(3) { 0 => None, 1 => Some(String::new()), _ => Some("v".repeat(self.rng.below(40) as usize)) }); }
                    RData::TXT(TXT::try_from(m).unwrap())
                } else if self.rng.chance(1, 6) {
                    // built from text: split into character-strings by the library
                    use std::convert::TryFrom;
                    let len = *self.rng.pick(&[1usize, 7, 254, 255, 256, 509, 600, 1100]);
                    let s: String = (0..len).map(|i| (b'a' + ((i + len) % 26) as u8) as char).collect();
                    let leaked: &'static str = Box::leak(s.into_boxed_str());
                    RData::TXT(TXT::try_from(leaked).unwrap())
                } else {
                    let n = if self.rng.chance(1, 15) { *self.rng.pick(&[5u64, 9, 64, 255, 256, 257, 300]) } else { self.rng.range(1, 4) };
                    let mut t = TXT::new();
                    for _ in 0..n {
                        // every builder entry point: add_char_string, add_string, with_char_string, with_string
                        let bytes = self.cs_bytes();
                        let text = std::str::from_utf8(&bytes).ok().map(|x| -> &'static str { Box::leak(x.to_string().into_boxed_str()) });
                        t = match (self.rng.below(4), text) {
                            (1, Some(x)) => { t.add_string(x).unwrap(); t }
                            (2, _) => t.with_char_string(mk_cs(&bytes)),
                            (3, Some(x)) => t.with_string(x).unwrap(),
                            _ => { t.add_char_string(mk_cs(&bytes)); t }
                        };
                    }
                    RData::TXT(t)
                }
            }
            14 => RData::SOA(SOA {
                mname: self.name(),
                rname: self.name(),
                serial: self.u32(),
                refresh: self.u32() as i32,
                retry: self.u32() as i32,
                expire: self.u32() as i32,
                minimum: self.u32(),
            }),
            15 => RData::WKS(WKS { address: self.u32(), protocol: self.u8(), bit_map: self.blob().into() }),
            16 => RData::SRV(SRV { priority: self.u16(), weight: self.u16(), port: self.u16(), target: self.name() }),
            17 => RData::RP(RP { mbox: self.name(), txt: self.name() }),
            18 => RData::AFSDB(AFSDB { subtype: self.u16(), hostname: self.name() }),
            19 => RData::ISDN(ISDN { address: self.cs(), sa: self.cs() }),
            20 => RData::RouteThrough(RouteThrough { preference: self.u16(), intermediate_host: self.name() }),
            21 => RData::NAPTR(NAPTR {
                order: self.u16(),
                preference: self.u16(),
                flags: self.cs(),
                services: self.cs(),
                regexp: self.cs(),
                replacement: self.name(),
            }),
            22 => RData::NSAP(NSAP {
                afi: self.u8(),
                idi: self.u16(),
                dfi: self.u8(),
                aa: self.rng.int(24) as u32,
                rsvd: self.u16(),
                rd: self.u16(),
                area: self.u16(),
                id: self.rng.int(48) as u64,
                sel: self.u8(),
            }),
            23 => RData::NSAP_PTR(NSAP_PTR(self.name())),
            24 => RData::LOC(LOC {
                version: 0,
                size: self.u8(),
                horizontal_precision: self.u8(),
                vertical_precision: self.u8(),
                latitude: self.u32() as i32,
                longitude: self.u32() as i32,
                altitude: self.u32() as i32,
            }),
            25 => RData::OPT(self.opt()),
            26 => RData::CAA(CAA { flag: self.u8(), tag: self.cs(), value: self.blob().into() }),
            27 => RData::SVCB(self.svcb()),
            28 => RData::HTTPS(HTTPS(self.svcb())),
            29 => {
                let mut a = [0u8; 6];
                a.copy_from_slice(&self.rng.bytes(6));
                RData::EUI48(EUI48 { address: a })
            }
            30 => {
                let mut a = [0u8; 8];
                a.copy_from_slice(&self.rng.bytes(8));
                RData::EUI64(EUI64 { address: a })
            }
            31 => RData::CERT(CERT {
                type_code: self.u16(),
                key_tag: self.u16(),
                algorithm: self.u8(),
                certificate: self.blob().into(),
            }),
            32 => RData::ZONEMD(ZONEMD {
                serial: self.u32(),
                scheme: self.u8(),
                algorithm: self.u8(),
                digest: self.blob().into(),
            }),
            33 => RData::KX(KX { preference: self.u16(), exchanger: self.name() }),
            34 => {
                let gateway = match self.rng.below(4) {
                    0 => Gateway::None,
                    1 => Gateway::IPv4(Ipv4Addr::from(self.u32())),
                    2 => Gateway::IPv6(Ipv6Addr::from(self.rng.int(128))),
                    _ => Gateway::Domain(self.name()),
                };
                RData::IPSECKEY(IPSECKEY {
                    precedence: self.u8(),
                    algorithm: self.u8(),
                    gateway,
                    public_key: self.blob().into(),
                })
            }
            35 => RData::DNSKEY(DNSKEY {
                flags: self.u16(),
                protocol: self.u8(),
                algorithm: self.u8(),
                public_key: self.blob().into(),
            }),
            36 => RData::RRSIG(RRSIG {
                // mostly the type of an RRset that exists (a signature "covers" a type; code must not confuse the two)
                type_covered: if self.rng.chance(2, 3) { *self.rng.pick(&TYPE_CODES) } else { self.u16() },
                algorithm: self.u8(),
                labels: self.u8(),
                original_ttl: self.u32(),
                signature_expiration: self.u32(),
                signature_inception: self.u32(),
                key_tag: self.u16(),
                signer_name: self.name(),
                signature: self.blob().into(),
            }),
            37 => RData::DS(DS {
                key_tag: self.u16(),
                algorithm: self.u8(),
                digest_type: self.u8(),
                digest: self.blob().into(),
            }),
            38 => {
                // up to three windows mostly; now and then dozens, or all 256 of them
                let n = if self.rng.chance(1, 15) { *self.rng.pick(&[4usize, 17, 100, 255, 256]) } else { self.rng.below(4) as usize };
                let maps = self
                    .inc_keys(256, n)
                    .into_iter()
                    .map(|w| {
                        let len = match self.rng.below(6) {
                            0 => 0,
                            1 => 255,
                            2 => 32,
                            // longer than the 32 octets RFC 4034 allows a window: the length octet can say up to 255
                            3 => self.rng.range(33, 255) as usize,
                            _ => self.rng.range(1, 8) as usize,
                        };
                        let mut bm = self.rng.bytes(len);
                        if self.rng.chance(1, 4) { let z = (self.rng.below(3) as usize + 1).min(bm.len()); let l = bm.len(); for x in &mut bm[l - z..] { *x = 0; } }
                        TypeBitMap { window_block: w as u8, bitmap: bm.into() }
                    })
                    .collect();
                RData::NSEC(NSEC { next_name: self.name(), type_bit_maps: maps })
            }
            39 => RData::DHCID(DHCID { identifier: self.u16(), digest_type: self.u8(), digest: self.blob().into() }),
            40 => {
                let mut b = self.blob();
                if b.is_empty() {
                    b.push(7);
                }
                RData::NULL(10, NULL::new(&b).unwrap().into_owned())
            }
            41 => {
                let mut b = self.blob();
                if b.is_empty() {
                    b.push(7);
                }
                // a type code that is not one of the 41 supported ones
                let code = loop {
                    let c = match self.rng.below(4) {
                        0 => 65535,
                        1 => self.rng.range(258, 300) as u16,
                        // around the codes that are question types only (251..255): legal, if odd, on a record
                        2 => *self.rng.pick(&[0u16, 248, 249, 250, 251, 252, 253, 254, 255, 256]),
                        _ => self.u16(),
                    };
                    if !TYPE_CODES.contains(&c) {
                        break c;
                    }
                };
                RData::NULL(code, NULL::new(&b).unwrap().into_owned())
            }
            _ => {
                // empty RDATA of any type except OPT (an OPT record is never `Empty`)
                let t = loop {
                    let c = if self.rng.chance(3, 4) { *self.rng.pick(&TYPE_CODES) } else { self.u16() };
                    if c != 41 {
                        break TYPE::from(c);
                    }
                };
                RData::Empty(t)
            }
        }
    }

    pub fn ttl(&mut self) -> u32 {
        self.u32()
    }

    /// a record of the given RDATA kind; OPT-typed records keep the shape the parser gives them
    pub fn rr_of(&mut self, kind: usize) -> ResourceRecord<'static> {
        let rdata = self.rdata(kind);
        if let RData::OPT(o) = &rdata {
            // class is not on the wire for OPT (UDP size is); version lives in the TTL
            let ttl = ((o.version as u32) << 8) | (self.u32() & 0xFFFF_00FF);
            return ResourceRecord::new(self.name(), CLASS::IN, ttl, rdata);
        }
        let class = *self.rng.pick(&CLASSES);
        let flush = self.rng.chance(1, 3);
        ResourceRecord::new(self.name(), class, self.ttl(), rdata).with_cache_flush(flush)
    }

    pub fn rr(&mut self) -> ResourceRecord<'static> {
        let kind = self.rng.below(N_KINDS as u64) as usize;
        self.rr_of(kind)
    }

    pub fn qtype(&mut self) -> QTYPE {
        match self.rng.below(8) {
            0 => QTYPE::ANY,
            1 => *self.rng.pick(&[QTYPE::IXFR, QTYPE::AXFR, QTYPE::MAILB, QTYPE::MAILA]),
            _ => QTYPE::TYPE(TYPE::from(*self.rng.pick(&TYPE_CODES))),
        }
    }

    pub fn qclass(&mut self) -> QCLASS {
        if self.rng.chance(1, 6) {
            QCLASS::ANY
        } else {
            QCLASS::CLASS(*self.rng.pick(&CLASSES))
        }
    }

    pub fn question(&mut self) -> Question<'static> {
        let unicast = self.rng.chance(1, 3);
        Question::new(self.name(), self.qtype(), self.qclass(), unicast)
    }

    pub const OPCODES: [OPCODE; 6] = [
        OPCODE::StandardQuery,
        OPCODE::InverseQuery,
        OPCODE::ServerStatusRequest,
        OPCODE::Notify,
        OPCODE::Update,
        OPCODE::Reserved,
    ];
    pub const RCODES: [RCODE; 13] = [
        RCODE::NoError,
        RCODE::FormatError,
        RCODE::ServerFailure,
        RCODE::NameError,
        RCODE::NotImplemented,
        RCODE::Refused,
        RCODE::YXDOMAIN,
        RCODE::YXRRSET,
        RCODE::NXRRSET,
        RCODE::NOTAUTH,
        RCODE::NOTZONE,
        RCODE::BADVERS,
        RCODE::Reserved,
    ];

    /// a packet built through the public API. `max_per_section` bounds the section sizes.
    pub fn packet(&mut self, max_per_section: u64) -> Packet<'static> {
        let id = self.u16();
        let mut p = if self.rng.chance(1, 2) { Packet::new_query(id) } else { Packet::new_reply(id) };
        for f in crate::text::ALL_FLAGS.iter() {
            if self.rng.chance(1, 3) {
                p.set_flags(*f);
            }
            if self.rng.chance(1, 8) {
                p.remove_flags(*f);
            }
        }
        *p.opcode_mut() = *self.rng.pick(&Self::OPCODES);
        let with_opt = self.rng.chance(1, 3);
        // response codes above 15 need the OPT record to carry their upper bits
        *p.rcode_mut() = loop {
            let r = *self.rng.pick(&Self::RCODES);
            if with_opt || (r as u16) < 16 {
                break r;
            }
        };
        if with_opt {
            *p.opt_mut() = Some(self.opt());
        }
        for _ in 0..self.rng.below(max_per_section + 1) {
            p.questions.push(self.question());
        }
        for _ in 0..self.rng.below(max_per_section + 1) {
            p.answers.push(self.rr());
        }
        for _ in 0..self.rng.below(max_per_section + 1) {
            p.name_servers.push(self.rr());
        }
        for _ in 0..self.rng.below(max_per_section + 1) {
            let r = self.rr();
            // an OPT-typed record in the additional section is only meaningful behind the header's own
            if matches!(r.rdata, RData::OPT(_)) && !with_opt {
                continue;
            }
            p.additional_records.push(r);
        }
        // now and then the same record twice (next to each other or apart), the second time with another
        // TTL or cache-flush bit: entries are kept one by one, however alike
        if self.rng.chance(1, 6) {
            let which = self.rng.below(3);
            let sec = match which { 0 => &mut p.answers, 1 => &mut p.name_servers, _ => &mut p.additional_records };
            if let Some(first) = sec.iter().find(|x| !matches!(x.rdata, RData::OPT(_))).cloned() {
                let mut twin = first.clone();
                if self.rng.chance(1, 2) { twin.ttl = twin.ttl.wrapping_add(1); }
                twin.cache_flush = self.rng.chance(1, 2);
                let at = if self.rng.chance(1, 2) { sec.iter().position(|x| x == &first).unwrap() + 1 } else { sec.len() };
                sec.insert(at, twin);
            }
        }
        p
    }
}
