//! Reference encoder written from the RFCs: encodes a packet given in the harness's text form
//! (the generic field values of `text.rs`), with field layouts from an independent schema table
//! and with name compression chosen by the *caller* (any earlier occurrence of a suffix may be
//! pointed to, anywhere — receivers must accept that).
use crate::rng::Rng;
use crate::text::unhex;
use std::collections::HashMap;

#[derive(Clone, Copy, PartialEq, Debug)]
pub enum F {
    /// big-endian integer of n bytes
    Int(usize),
    /// <character-string>
    Str,
    /// <domain-name>
    Name,
    /// opaque remainder
    Rest,
    /// one or more <character-string>s
    Strs,
    /// (key, length, value)* with key/length widths
    Tlvs(usize, usize),
}

/// RDATA layouts by IANA type number, from RFC 1035, 1183, 1706, 1876, 2230, 2782, 3403, 3596,
/// 4025, 4034, 4398, 4701, 7043, 8659, 8976, 9460.
pub fn schema(code: u16) -> Option<Vec<F>> {
    use F::*;
    Some(match code {
        1 => vec![Int(4)],                                   // A: ADDRESS
        2 | 3 | 4 | 5 | 7 | 8 | 9 | 12 => vec![Name],        // NS MD MF CNAME MB MG MR PTR
        6 => vec![Name, Name, Int(4), Int(4), Int(4), Int(4), Int(4)], // SOA
        11 => vec![Int(4), Int(1), Rest],                    // WKS: ADDRESS PROTOCOL BITMAP
        13 => vec![Str, Str],                                // HINFO: CPU OS
        14 => vec![Name, Name],                              // MINFO: RMAILBX EMAILBX
        15 => vec![Int(2), Name],                            // MX: PREFERENCE EXCHANGE
        16 => vec![Strs],                                    // TXT
        17 => vec![Name, Name],                              // RP: mbox-dname txt-dname
        18 => vec![Int(2), Name],                            // AFSDB: subtype hostname
        20 => vec![Str, Str],                                // ISDN: address sa
        21 => vec![Int(2), Name],                            // RT: preference intermediate-host
        22 => vec![Int(1), Int(2), Int(1), Int(3), Int(2), Int(2), Int(2), Int(6), Int(1)], // NSAP (RFC 1706 example layout)
        23 => vec![Name],                                    // NSAP-PTR
        28 => vec![Int(16)],                                 // AAAA
        29 => vec![Int(1), Int(1), Int(1), Int(1), Int(4), Int(4), Int(4)], // LOC
        33 => vec![Int(2), Int(2), Int(2), Name],            // SRV: priority weight port target
        35 => vec![Int(2), Int(2), Str, Str, Str, Name],     // NAPTR
        36 => vec![Int(2), Name],                            // KX
        37 => vec![Int(2), Int(2), Int(1), Rest],            // CERT: type key-tag algorithm certificate
        43 => vec![Int(2), Int(1), Int(1), Rest],            // DS
        46 => vec![Int(2), Int(1), Int(1), Int(4), Int(4), Int(4), Int(2), Name, Rest], // RRSIG
        47 => vec![Name, Tlvs(1, 1)],                        // NSEC: next name, (window, length, bitmap)*
        48 => vec![Int(2), Int(1), Int(1), Rest],            // DNSKEY
        49 => vec![Int(2), Int(1), Rest],                    // DHCID: identifier type, digest type, digest
        63 => vec![Int(4), Int(1), Int(1), Rest],            // ZONEMD
        64 | 65 => vec![Int(2), Name, Tlvs(2, 2)],           // SVCB HTTPS
        108 => vec![Int(6)],                                 // EUI48
        109 => vec![Int(8)],                                 // EUI64
        257 => vec![Int(1), Str, Rest],                      // CAA: flags, tag, value
        _ => return None,
    })
}

/// how names are written
/// when set, the IPSECKEY gateway name is encoded like any other name (pointers allowed)
pub static COMPRESS_GATEWAY: std::sync::atomic::AtomicBool = std::sync::atomic::AtomicBool::new(false);

pub enum Compress<'a> {
    Never,
    /// point to an earlier occurrence of a suffix with this probability (out of 8), anywhere
    Random(&'a mut Rng, u64),
}

pub struct Enc<'a> {
    pub out: Vec<u8>,
    /// every (suffix labels) → offsets where that suffix starts as labels (not as a pointer)
    pub seen: HashMap<Vec<Vec<u8>>, Vec<usize>>,
    pub mode: Compress<'a>,
    /// (offset, labels) of every name written, for the oracles
    pub sites: Vec<(usize, Vec<Vec<u8>>)>,
}

impl<'a> Enc<'a> {
    pub fn new(mode: Compress<'a>) -> Self {
        Enc { out: vec![], seen: HashMap::new(), mode, sites: vec![] }
    }
    fn int(&mut self, w: usize, v: u128) {
        for i in (0..w).rev() {
            self.out.push((v >> (8 * i)) as u8);
        }
    }
    pub fn name(&mut self, labels: &[Vec<u8>]) {
        self.sites.push((self.out.len(), labels.to_vec()));
        for i in 0..labels.len() {
            let suffix = labels[i..].to_vec();
            let target = match &mut self.mode {
                Compress::Never => None,
                Compress::Random(r, p) => match self.seen.get(&suffix) {
                    Some(offs) if r.chance(*p, 8) => {
                        let cands: Vec<usize> = offs.iter().copied().filter(|o| *o <= 0x3FFF).collect();
                        if cands.is_empty() { None } else { Some(*r.pick(&cands)) }
                    }
                    _ => None,
                },
            };
            if let Some(t) = target {
                self.out.push(0xC0 | (t >> 8) as u8);
                self.out.push(t as u8);
                return;
            }
            self.seen.entry(suffix).or_default().push(self.out.len());
            self.out.push(labels[i].len() as u8);
            self.out.extend_from_slice(&labels[i]);
        }
        self.out.push(0);
    }
}

/// token cursor over the harness text form
pub struct Toks<'t> {
    pub t: Vec<&'t str>,
    pub i: usize,
}
impl<'t> Toks<'t> {
    pub fn new(s: &'t str) -> Self {
        Toks { t: s.split(' ').collect(), i: 0 }
    }
    pub fn next(&mut self) -> &'t str {
        let x = self.t[self.i];
        self.i += 1;
        x
    }
    pub fn num(&mut self) -> u128 {
        self.next().parse().unwrap()
    }
    pub fn bytes(&mut self) -> Vec<u8> {
        unhex(self.next()).unwrap()
    }
    pub fn name(&mut self) -> Vec<Vec<u8>> {
        assert_eq!(self.next(), "n");
        let k = self.num() as usize;
        (0..k).map(|_| self.bytes()).collect()
    }
    pub fn kvs(&mut self) -> Vec<(u128, Vec<u8>)> {
        let k = self.num() as usize;
        (0..k).map(|_| (self.num(), self.bytes())).collect()
    }
}

/// RDATA of a record in text form → (type code, class-slot override for OPT) and appends the bytes
fn rdata(e: &mut Enc, t: &mut Toks) -> (u16, Option<u16>) {
    match t.next() {
        "F" => {
            let code = t.num() as u16;
            let n = t.num() as usize;
            let sch = schema(code).expect("schema");
            assert_eq!(sch.len(), n);
            for f in sch {
                let tag = t.next();
                match (f, tag) {
                    (F::Int(w), "i") => { let v = t.num(); e.int(w, v) }
                    (F::Str, "b") => { let b = t.bytes(); e.out.push(b.len() as u8); e.out.extend(b) }
                    (F::Rest, "b") => { let b = t.bytes(); e.out.extend(b) }
                    (F::Name, "n") => { t.i -= 1; let n = t.name(); e.name(&n) }
                    (F::Strs, "s") => {
                        let k = t.num() as usize;
                        for _ in 0..k { let b = t.bytes(); e.out.push(b.len() as u8); e.out.extend(b) }
                    }
                    (F::Tlvs(kw, lw), "t") => {
                        for (k, v) in t.kvs() { e.int(kw, k); e.int(lw, v.len() as u128); e.out.extend(v) }
                    }
                    (f, tag) => panic!("schema/value mismatch {:?} {}", f, tag),
                }
            }
            (code, None)
        }
        "K" => {
            // IPSECKEY (RFC 4025): precedence, gateway type, algorithm, gateway, public key
            let prec = t.num();
            let alg = t.num();
            let gw = t.next();
            match gw {
                "g0" => { e.int(1, prec); e.int(1, 0); e.int(1, alg) }
                "g4" => { e.int(1, prec); e.int(1, 1); e.int(1, alg); let a = t.num(); e.int(4, a) }
                "g6" => { e.int(1, prec); e.int(1, 2); e.int(1, alg); let a = t.num(); e.int(16, a) }
                "gn" => { e.int(1, prec); e.int(1, 3); e.int(1, alg); let n = t.name();
                    // RFC 4025: the gateway name MUST NOT be compressed
                    // (senders must not; a receiver's name decoder still follows a pointer there, and the
                    // hostile-input generators ask for one through COMPRESS_GATEWAY)
                    if COMPRESS_GATEWAY.load(std::sync::atomic::Ordering::Relaxed) { e.name(&n); }
                    else { let saved = std::mem::replace(&mut e.mode, Compress::Never); e.name(&n); e.mode = saved; } }
                _ => panic!("gateway"),
            }
            let key = t.bytes();
            e.out.extend(key);
            (45, None)
        }
        "O" => {
            // OPT (RFC 6891): RDATA is (code, length, data)*; CLASS slot = UDP payload size
            let udp = t.num() as u16;
            let _version = t.num();
            for (k, v) in t.kvs() { e.int(2, k); e.int(2, v.len() as u128); e.out.extend(v) }
            (41, Some(udp))
        }
        "U" => { let code = t.num() as u16; let b = t.bytes(); e.out.extend(b); (code, None) }
        "E" => { let code = t.num() as u16; (code, None) }
        x => panic!("rdata tag {}", x),
    }
}

fn record(e: &mut Enc, t: &mut Toks) {
    let name = t.name();
    let class = t.num() as u16;
    let ttl = t.num() as u32;
    let flush = t.num() == 1;
    e.name(&name);
    let fixed = e.out.len();
    e.out.extend_from_slice(&[0; 10]);
    let start = e.out.len();
    let (code, class_slot) = rdata(e, t);
    let rdlen = e.out.len() - start;
    let cls = class_slot.unwrap_or(class | if flush { 0x8000 } else { 0 });
    e.out[fixed..fixed + 2].copy_from_slice(&code.to_be_bytes());
    e.out[fixed + 2..fixed + 4].copy_from_slice(&cls.to_be_bytes());
    e.out[fixed + 4..fixed + 8].copy_from_slice(&ttl.to_be_bytes());
    e.out[fixed + 8..fixed + 10].copy_from_slice(&(rdlen as u16).to_be_bytes());
}

/// encode a packet given as `text::packet` text. `opt_ttl` says how the OPT TTL is laid out:
/// the RFC 6891 way (extended RCODE in the top byte) when `rfc_opt_ttl`, else the library's way.
pub fn encode_packet(text: &str, mode: Compress, rfc_opt_ttl: bool, opt_position: Option<usize>) -> (Vec<u8>, Vec<(usize, Vec<Vec<u8>>)>) {
    let mut t = Toks::new(text);
    assert_eq!(t.next(), "P");
    let id = t.num() as u16;
    let flags = t.num() as u16;
    let opcode = t.num() as u16;
    let rcode = t.num() as u16;
    let opt = match t.next() {
        "o0" => None,
        _ => { let udp = t.num() as u16; let ver = t.num() as u8; let codes = t.kvs(); Some((udp, ver, codes)) }
    };
    let mut e = Enc::new(mode);
    e.out.extend_from_slice(&id.to_be_bytes());
    let op4 = if opcode == 6 { 15 } else { opcode }; // `Reserved`: any unassigned opcode
    e.out.extend_from_slice(&(flags | (op4 << 11) | (rcode & 0xF)).to_be_bytes());
    e.out.extend_from_slice(&[0; 8]);
    let nq = t.num() as usize;
    for _ in 0..nq {
        let name = t.name();
        let qt = t.num() as u16;
        let qc = t.num() as u16;
        let uni = t.num() == 1;
        e.name(&name);
        e.out.extend_from_slice(&qt.to_be_bytes());
        e.out.extend_from_slice(&(qc | if uni { 0x8000 } else { 0 }).to_be_bytes());
    }
    let mut counts = [nq as u16, 0, 0, 0];
    for s in 1..4 {
        let n = t.num() as usize;
        counts[s] = n as u16;
        let opt_at = if s == 3 { opt.as_ref().map(|_| opt_position.unwrap_or(0).min(n)) } else { None };
        for i in 0..=n {
            if Some(i) == opt_at {
                let (udp, ver, codes) = opt.as_ref().unwrap();
                e.out.push(0);
                e.out.extend_from_slice(&41u16.to_be_bytes());
                e.out.extend_from_slice(&udp.to_be_bytes());
                let ext = (rcode >> 4) as u8;
                if rfc_opt_ttl { e.out.extend_from_slice(&[ext, *ver, 0, 0]) } else { e.out.extend_from_slice(&[0, 0, *ver, ext]) }
                let l: usize = codes.iter().map(|(_, v)| v.len() + 4).sum();
                e.out.extend_from_slice(&(l as u16).to_be_bytes());
                for (k, v) in codes { e.int(2, *k); e.int(2, v.len() as u128); e.out.extend(v) }
                counts[3] += 1;
            }
            if i < n { record(&mut e, &mut t); }
        }
    }
    for (k, c) in counts.iter().enumerate() {
        e.out[4 + 2 * k..6 + 2 * k].copy_from_slice(&c.to_be_bytes());
    }
    (e.out, e.sites)
}
