//! Canonical text form of library values for the line protocol (mirror of
//! `SimpleDnsModel/Text.lean`). Everything is read through public accessors or
//! the `simple_dns::verif` hooks.
use simple_dns::rdata::*;
use simple_dns::*;
use std::fmt::Write;

pub fn hex(b: &[u8]) -> String {
    let mut s = String::with_capacity(1 + 2 * b.len());
    s.push('x');
    for x in b {
        let _ = write!(s, "{:02x}", x);
    }
    s
}

pub fn unhex(s: &str) -> Option<Vec<u8>> {
    let s = s.strip_prefix('x')?;
    if s.len() % 2 != 0 {
        return None;
    }
    (0..s.len() / 2).map(|i| u8::from_str_radix(&s[2 * i..2 * i + 2], 16).ok()).collect()
}

pub fn name(n: &Name) -> String {
    let labels = n.get_labels();
    let mut s = format!("n {}", labels.len());
    for l in labels {
        s.push(' ');
        s.push_str(&hex(l.as_bytes()));
    }
    s
}

fn cs(c: &CharacterString) -> String {
    format!("b {}", hex(verif::character_string_bytes(c)))
}

fn kvs<'a>(items: impl Iterator<Item = (u64, &'a [u8])>) -> String {
    let v: Vec<String> = items.map(|(k, b)| format!("{} {}", k, hex(b))).collect();
    if v.is_empty() {
        "0".to_string()
    } else {
        format!("{} {}", v.len(), v.join(" "))
    }
}

fn be_int(b: &[u8]) -> u128 {
    b.iter().fold(0u128, |a, x| (a << 8) | *x as u128)
}

pub fn opt_data(o: &OPT) -> String {
    format!(
        "{} {} {}",
        o.udp_packet_size,
        o.version,
        kvs(o.opt_codes.iter().map(|c| (c.code as u64, &c.data[..])))
    )
}

fn svcb(code: u16, s: &SVCB) -> String {
    format!("F {} 3 i {} {} t {}", code, s.priority, name(&s.target), kvs(s.iter_params().map(|(k, v)| (k as u64, v))))
}

pub fn rdata(r: &RData) -> String {
    match r {
        RData::A(a) => format!("F 1 1 i {}", a.address),
        RData::AAAA(a) => format!("F 28 1 i {}", a.address),
        RData::NS(n) => format!("F 2 1 {}", name(&n.0)),
        RData::MD(n) => format!("F 3 1 {}", name(&n.0)),
        RData::MF(n) => format!("F 4 1 {}", name(&n.0)),
        RData::CNAME(n) => format!("F 5 1 {}", name(&n.0)),
        RData::MB(n) => format!("F 7 1 {}", name(&n.0)),
        RData::MG(n) => format!("F 8 1 {}", name(&n.0)),
        RData::MR(n) => format!("F 9 1 {}", name(&n.0)),
        RData::PTR(n) => format!("F 12 1 {}", name(&n.0)),
        RData::NSAP_PTR(n) => format!("F 23 1 {}", name(&n.0)),
        RData::HINFO(h) => format!("F 13 2 {} {}", cs(&h.cpu), cs(&h.os)),
        RData::MINFO(m) => format!("F 14 2 {} {}", name(&m.rmailbox), name(&m.emailbox)),
        RData::MX(m) => format!("F 15 2 i {} {}", m.preference, name(&m.exchange)),
        RData::TXT(t) => {
            let ss = t.verif_strings();
            let mut s = format!("F 16 1 s {}", ss.len());
            for x in ss {
                s.push(' ');
                s.push_str(&hex(x));
            }
            s
        }
        RData::SOA(s) => format!(
            "F 6 7 {} {} i {} i {} i {} i {} i {}",
            name(&s.mname),
            name(&s.rname),
            s.serial,
            s.refresh as u32,
            s.retry as u32,
            s.expire as u32,
            s.minimum
        ),
        RData::WKS(w) => format!("F 11 3 i {} i {} b {}", w.address, w.protocol, hex(&w.bit_map)),
        RData::SRV(s) => format!("F 33 4 i {} i {} i {} {}", s.priority, s.weight, s.port, name(&s.target)),
        RData::RP(r) => format!("F 17 2 {} {}", name(&r.mbox), name(&r.txt)),
        RData::AFSDB(a) => format!("F 18 2 i {} {}", a.subtype, name(&a.hostname)),
        RData::ISDN(i) => format!("F 20 2 {} {}", cs(&i.address), cs(&i.sa)),
        RData::RouteThrough(r) => format!("F 21 2 i {} {}", r.preference, name(&r.intermediate_host)),
        RData::NAPTR(n) => format!(
            "F 35 6 i {} i {} {} {} {} {}",
            n.order,
            n.preference,
            cs(&n.flags),
            cs(&n.services),
            cs(&n.regexp),
            name(&n.replacement)
        ),
        RData::NSAP(n) => format!(
            "F 22 9 i {} i {} i {} i {} i {} i {} i {} i {} i {}",
            n.afi, n.idi, n.dfi, n.aa, n.rsvd, n.rd, n.area, n.id, n.sel
        ),
        RData::LOC(l) => format!(
            "F 29 7 i {} i {} i {} i {} i {} i {} i {}",
            l.version,
            l.size,
            l.horizontal_precision,
            l.vertical_precision,
            l.latitude as u32,
            l.longitude as u32,
            l.altitude as u32
        ),
        RData::OPT(o) => format!("O {}", opt_data(o)),
        RData::CAA(c) => format!("F 257 3 i {} {} b {}", c.flag, cs(&c.tag), hex(&c.value)),
        RData::SVCB(s) => svcb(64, s),
        RData::HTTPS(s) => svcb(65, &s.0),
        RData::EUI48(e) => format!("F 108 1 i {}", be_int(&e.address)),
        RData::EUI64(e) => format!("F 109 1 i {}", be_int(&e.address)),
        RData::CERT(c) => format!("F 37 4 i {} i {} i {} b {}", c.type_code, c.key_tag, c.algorithm, hex(&c.certificate)),
        RData::ZONEMD(z) => format!("F 63 4 i {} i {} i {} b {}", z.serial, z.scheme, z.algorithm, hex(&z.digest)),
        RData::KX(k) => format!("F 36 2 i {} {}", k.preference, name(&k.exchanger)),
        RData::IPSECKEY(k) => {
            let gw = match &k.gateway {
                Gateway::None => "g0".to_string(),
                Gateway::IPv4(a) => format!("g4 {}", u32::from(*a)),
                Gateway::IPv6(a) => format!("g6 {}", u128::from(*a)),
                Gateway::Domain(n) => format!("gn {}", name(n)),
            };
            format!("K {} {} {} {}", k.precedence, k.algorithm, gw, hex(&k.public_key))
        }
        RData::DNSKEY(d) => format!("F 48 4 i {} i {} i {} b {}", d.flags, d.protocol, d.algorithm, hex(&d.public_key)),
        RData::RRSIG(r) => format!(
            "F 46 9 i {} i {} i {} i {} i {} i {} i {} {} b {}",
            r.type_covered,
            r.algorithm,
            r.labels,
            r.original_ttl,
            r.signature_expiration,
            r.signature_inception,
            r.key_tag,
            name(&r.signer_name),
            hex(&r.signature)
        ),
        RData::DS(d) => format!("F 43 4 i {} i {} i {} b {}", d.key_tag, d.algorithm, d.digest_type, hex(&d.digest)),
        RData::NSEC(n) => format!(
            "F 47 2 {} t {}",
            name(&n.next_name),
            kvs(n.type_bit_maps.iter().map(|m| (m.window_block as u64, &m.bitmap[..])))
        ),
        RData::DHCID(d) => format!("F 49 3 i {} i {} b {}", d.identifier, d.digest_type, hex(&d.digest)),
        RData::NULL(code, n) => format!("U {} {}", code, hex(n.get_data())),
        RData::Empty(t) => format!("E {}", type_code(*t)),
    }
}

/// The code a question type / class stands for, read off the VARIANT (not through the library's own `u16::from`, which is
/// what the writers use: a conversion that collapses two variants into one code would otherwise look the same on both
/// sides of every comparison). Types go through their mnemonic and the IANA table of props/c18.rs.
pub fn qtype_code(q: QTYPE) -> u16 {
    match q {
        QTYPE::IXFR => 251,
        QTYPE::AXFR => 252,
        QTYPE::MAILB => 253,
        QTYPE::MAILA => 254,
        QTYPE::ANY => 255,
        QTYPE::TYPE(t) => type_code(t),
    }
}

pub fn type_code(t: TYPE) -> u16 {
    if let TYPE::Unknown(n) = t { return n; }
    let m = format!("{:?}", t);
    let m = m.split('(').next().unwrap_or("").to_string();
    crate::props::c18::iana_code(&m).unwrap_or_else(|| u16::from(t))
}

pub fn qclass_code(q: QCLASS) -> u16 {
    match q { QCLASS::ANY => 255, QCLASS::CLASS(c) => c as u16 }
}

pub fn question(q: &Question) -> String {
    format!(
        "{} {} {} {}",
        name(&q.qname),
        qtype_code(q.qtype),
        qclass_code(q.qclass),
        q.unicast_response as u8
    )
}

pub fn rr(r: &ResourceRecord) -> String {
    format!("{} {} {} {} {}", name(&r.name), r.class as u16, r.ttl, r.cache_flush as u8, rdata(&r.rdata))
}

pub const ALL_FLAGS: [PacketFlag; 7] = [
    PacketFlag::RESPONSE,
    PacketFlag::AUTHORITATIVE_ANSWER,
    PacketFlag::TRUNCATION,
    PacketFlag::RECURSION_DESIRED,
    PacketFlag::RECURSION_AVAILABLE,
    PacketFlag::AUTHENTIC_DATA,
    PacketFlag::CHECKING_DISABLED,
];

pub fn flag_bits(p: &Packet) -> u16 {
    ALL_FLAGS.iter().filter(|f| p.has_flags(**f)).fold(0u16, |a, f| a | f.bits())
}

pub fn header(p: &Packet) -> String {
    let opt = match p.opt() {
        None => "o0".to_string(),
        Some(o) => format!("o1 {}", opt_data(o)),
    };
    format!("{} {} {} {} {}", p.id(), flag_bits(p), p.opcode() as u16, p.rcode() as u16, opt)
}

fn list<T>(xs: &[T], f: impl Fn(&T) -> String) -> String {
    let mut s = xs.len().to_string();
    for x in xs {
        s.push(' ');
        s.push_str(&f(x));
    }
    s
}

pub fn packet(p: &Packet) -> String {
    format!(
        "P {} {} {} {} {}",
        header(p),
        list(&p.questions, question),
        list(&p.answers, rr),
        list(&p.name_servers, rr),
        list(&p.additional_records, rr)
    )
}
