//! An RFC 1035 envelope walker and name decoder written from the RFC, independent of the
//! library's parser and of the Lean model. Used as the oracle of C04/C05/C07/C09.

#[derive(Debug, Clone)]
pub struct Entry {
    pub off: usize,
    pub name_end: usize,
    pub typ: u16,
    pub class: u16,
    pub ttl: u32,
    pub rd_start: usize,
    pub rd_len: usize,
}
impl Entry {
    pub fn next(&self) -> usize {
        self.rd_start + self.rd_len
    }
}
#[derive(Debug, Clone)]
pub struct QEntry {
    pub off: usize,
    pub name_end: usize,
    pub qtype: u16,
    pub qclass: u16,
}
#[derive(Debug, Clone)]
pub struct Walk {
    pub id: u16,
    pub flags: u16,
    pub counts: [u16; 4],
    pub questions: Vec<QEntry>,
    pub sections: [Vec<Entry>; 3],
    pub end: usize,
}

fn u16_at(d: &[u8], p: usize) -> Option<u16> {
    if p + 2 <= d.len() { Some(u16::from_be_bytes([d[p], d[p + 1]])) } else { None }
}

/// end of the in-place form of a name: labels up to a zero byte or a two-byte pointer
pub fn skip_name(d: &[u8], mut p: usize) -> Option<usize> {
    loop {
        let b = *d.get(p)?;
        if b == 0 {
            return Some(p + 1);
        } else if b >= 0xC0 {
            return if p + 2 <= d.len() { Some(p + 2) } else { None };
        } else if b >= 0x40 {
            return None;
        } else {
            p += 1 + b as usize;
        }
    }
}

/// full decoding of the name at `p`, following pointers; `None` for cycles, out-of-range, reserved
/// label types; also returns every pointer met as (position of the pointer, target)
pub fn decode_name(d: &[u8], mut p: usize) -> Option<(Vec<Vec<u8>>, Vec<(usize, usize)>)> {
    let mut labels = vec![];
    let mut ptrs = vec![];
    let mut steps = 0;
    loop {
        steps += 1;
        if steps > d.len() + 2 {
            return None;
        }
        let b = *d.get(p)?;
        if b == 0 {
            return Some((labels, ptrs));
        } else if b >= 0xC0 {
            let t = ((b as usize & 0x3F) << 8) | *d.get(p + 1)? as usize;
            ptrs.push((p, t));
            p = t;
        } else if b >= 0x40 {
            return None;
        } else {
            let l = b as usize;
            if p + 1 + l > d.len() {
                return None;
            }
            labels.push(d[p + 1..p + 1 + l].to_vec());
            p += 1 + l;
        }
    }
}

pub fn walk(d: &[u8]) -> Option<Walk> {
    if d.len() < 12 {
        return None;
    }
    let id = u16_at(d, 0)?;
    let flags = u16_at(d, 2)?;
    let counts = [u16_at(d, 4)?, u16_at(d, 6)?, u16_at(d, 8)?, u16_at(d, 10)?];
    let mut p = 12;
    let mut questions = vec![];
    for _ in 0..counts[0] {
        let ne = skip_name(d, p)?;
        let qtype = u16_at(d, ne)?;
        let qclass = u16_at(d, ne + 2)?;
        questions.push(QEntry { off: p, name_end: ne, qtype, qclass });
        p = ne + 4;
    }
    let mut sections: [Vec<Entry>; 3] = [vec![], vec![], vec![]];
    for s in 0..3 {
        for _ in 0..counts[s + 1] {
            let ne = skip_name(d, p)?;
            let typ = u16_at(d, ne)?;
            let class = u16_at(d, ne + 2)?;
            let ttl = ((u16_at(d, ne + 4)? as u32) << 16) | u16_at(d, ne + 6)? as u32;
            let rd_len = u16_at(d, ne + 8)? as usize;
            if ne + 10 + rd_len > d.len() {
                return None;
            }
            sections[s].push(Entry { off: p, name_end: ne, typ, class, ttl, rd_start: ne + 10, rd_len });
            p = ne + 10 + rd_len;
        }
    }
    Some(Walk { id, flags, counts, questions, sections, end: p })
}
