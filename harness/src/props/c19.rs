//! C19 — TXT text and attribute conversions.
use crate::core::*;
use crate::gen::mk_cs;
use crate::rng::Rng;
use crate::text::hex;
use simple_dns::rdata::TXT;
use simple_dns::*;
use std::collections::HashMap;
use std::convert::{TryFrom, TryInto};

fn rand_char(r: &mut Rng) -> char {
    match r.below(12) {
        0 => ';',
        1 => '=',
        2 => *r.pick(&['\u{13B}', '\u{13D}', '\u{23B}', '\u{23D}', '\u{103B}', '\u{1F03D}']), // ≡ ';' or '=' mod 256
        3 => *r.pick(&['é', 'ß', '\u{7FF}', '\u{800}', '€', '\u{FFFF}', '\u{10000}', '😀', '\u{10FFFF}']),
        4 => *r.pick(&['\0', ' ', '"', '\\', '.', '\u{7F}', '\u{80}']),
        _ => (b'a' + r.below(26) as u8) as char,
    }
}

fn rand_string(r: &mut Rng, len_bytes: usize) -> String {
    let mut s = String::new();
    while s.len() < len_bytes {
        let c = rand_char(r);
        if s.len() + c.len_utf8() > len_bytes {
            s.push('a');
        } else {
            s.push(c);
        }
    }
    s
}

fn show_strings(t: &TXT) -> String {
    let ss = t.verif_strings();
    let mut s = format!("{}", ss.len());
    for x in ss { s.push(' '); s.push_str(&hex(x)); }
    s
}

fn show_attrs(m: &HashMap<String, Option<String>>) -> String {
    let mut items: Vec<(String, String)> = m.iter().map(|(k, v)| (hex(k.as_bytes()), match v { None => "-".to_string(), Some(v) => hex(v.as_bytes()) })).collect();
    items.sort();
    let mut s = format!("{}", items.len());
    for (k, v) in items { s.push_str(&format!(" {} {}", k, v)); }
    s
}


/// every text up to 3 bytes over a hostile alphabet, whole and split across two character-strings
pub fn tiny_txt_contents() -> Vec<Vec<Vec<u8>>> {
    let alpha: [u8; 10] = [b'"', b';', b'=', b'\\', b'.', b'a', 0, 0xFF, b'`', b','];
    let mut out: Vec<Vec<Vec<u8>>> = vec![vec![vec![]], vec![vec![], vec![]]];
    for len in 1..=3usize {
        for mut code in 0..alpha.len().pow(len as u32) {
            let mut t = vec![];
            for _ in 0..len { t.push(alpha[code % alpha.len()]); code /= alpha.len(); }
            out.push(vec![t.clone()]);
            for cut in 0..=len { out.push(vec![t[..cut].to_vec(), t[cut..].to_vec()]); }
        }
    }
    // lengths 4 and 5 over the characters that delimit or quote (`a=""` is the shortest text with a key and a quoted
    // empty value): whole only
    let alpha2: [u8; 6] = [b'"', b';', b'=', b'\'', b'a', b'\\'];
    for len in 4..=5usize {
        for mut code in 0..alpha2.len().pow(len as u32) {
            let mut t = vec![];
            for _ in 0..len { t.push(alpha2[code % alpha2.len()]); code /= alpha2.len(); }
            out.push(vec![t]);
        }
    }
    out
}

fn txt_of(strings: &[Vec<u8>]) -> TXT<'static> {
    let mut t = TXT::new();
    for s in strings { t.add_char_string(mk_cs(s)); }
    t
}

pub fn cases(tier: &str, seed: u64) -> Vec<Case> {
    let thorough = tier == "thorough";
    let mut r = Rng::new(seed);
    let mut v = vec![];
    // split / join
    let mut lens: Vec<usize> = (0..=12).collect();
    for l in [13usize, 40, 100, 127, 128, 200, 250, 1500, 2047, 2048, 5000, 65000] { lens.push(l); } // (a text beyond ~65 270 bytes makes a TXT whose RDATA no RDLENGTH can describe: outside every DNS size limit, and not this property's subject)
    for base in [254usize, 255, 508, 510, 762, 765, 1016, 1020] { for d in 0..7 { lens.push(base + d - 3); } }
    let reps = if thorough { 40 } else { 4 };
    for _ in 0..reps {
        for &len in &lens {
            let s = rand_string(&mut r, len);
            let out = match TXT::try_from(s.as_str()) { Ok(t) => format!("ok {}", show_strings(&t)), Err(_) => "err".to_string() };
            let mut c = Case::new(format!("txt.ofstr {}", hex(s.as_bytes())), out).tag("split");
            match TXT::try_from(s.as_str()) {
                Ok(t) => {
                    if t.verif_strings().iter().any(|x| x.len() > 255) { c = c.fail("chunk-too-long", format!("len {}", len)); }
                    // every piece must survive the wire
                    let mut p = Packet::new_reply(0);
                    p.answers.push(ResourceRecord::new(Name::new_unchecked("t"), CLASS::IN, 0, rdata::RData::TXT(t.clone())));
                    let ok_wire = p.build_bytes_vec().ok().and_then(|b| Packet::parse(&b).ok().map(|q| match &q.answers.get(0).map(|a| &a.rdata) {
                        Some(rdata::RData::TXT(t2)) => t2.verif_strings() == t.verif_strings() || s.is_empty(),
                        _ => s.is_empty() })).unwrap_or(false);
                    if !ok_wire { c = c.fail("chunk-wire", format!("len {}", len)); }
                    let strings: Vec<Vec<u8>> = t.verif_strings().iter().map(|x| x.to_vec()).collect();
                    let back: std::result::Result<String, _> = t.try_into();
                    let bout = match &back { Ok(x) => format!("ok {}", hex(x.as_bytes())), Err(_) => "err".to_string() };
                    let mut op = format!("txt.tostr {}", strings.len());
                    for x in &strings { op.push(' '); op.push_str(&hex(x)); }
                    v.push(Case::new(op, bout).tag("join"));
                    if back.ok().as_deref() != Some(s.as_str()) { c = c.fail("split-join", format!("string of {} bytes does not come back", len)); }
                }
                Err(_) => { c = c.fail("split-refused", format!("len {}", len)); }
            }
            v.push(c);
        }
    }
    // the text entry points with texts around the 255-byte limit: within it the text is kept whole, beyond it the
    // call is refused - never shortened (multi-byte characters put the limit inside a character)
    for len in (200..=300usize).chain([301, 400, 511, 512, 1000, 70000]) {
        for fill in ["v", "é", "€", "\u{1F600}"] {
            let mut text = String::from("path=");
            while text.len() + fill.len() <= len { text.push_str(fill); }
            while text.len() < len { text.push('x'); }
            let mut t2 = TXT::new();
            let added = t2.add_string(&text).is_ok();
            let with = TXT::new().with_string(&text);
            let mut c = Case::oracle_only().tag("txt-text-limit");
            let fits = text.len() <= 255;
            if added != fits || with.is_ok() != fits { c = c.fail(if fits { "map-refused" } else { "overlong-accepted" }, format!("add_string / with_string of a {}-byte text: {} / {}", text.len(), added, with.is_ok())); }
            else if fits {
                let w = with.unwrap();
                if t2.verif_strings() != vec![text.as_bytes()] || w.verif_strings() != vec![text.as_bytes()] { c = c.fail("txt-entry-points", format!("add_string / with_string of a {}-byte text stores another string", text.len())); }
                let key_val = w.attributes();
                if key_val.get("path").cloned().flatten().as_deref() != Some(&text[5..]) { c = c.fail("attrs-roundtrip", format!("a {}-byte attribute added as text does not read back", text.len())); }
            } else if !t2.verif_strings().is_empty() { c = c.fail("overlong-accepted", format!("a refused add_string of {} bytes left a string behind", text.len())); }
            v.push(c);
        }
    }
    // attribute maps within limits, and with over-long entries
    let n = if thorough { 20000 } else { 1500 };
    for i in 0..n {
        let mut m: HashMap<String, Option<String>> = HashMap::new();
        let overlong = i % 25 == 0;
        // mostly a handful of entries; now and then a map as large as a service with many long attributes (the record
        // is bounded by RDLENGTH only: 6 x 245 bytes, 60 x 255 bytes ... all fit)
        let many = i % 30 == 7;
        let count = if many { r.range(6, if thorough { 200 } else { 60 }) } else { r.below(5) };
        for _ in 0..count {
            // keys of a dozen bytes mostly; now and then a key that fills most of an entry, or all of it (a bare flag of 255 bytes)
            let klen = if r.chance(1, 20) && !many { 0 } else if r.chance(1, 25) { *r.pick(&[100usize, 200, 250, 254, 255, 256]) } else { r.range(1, 12) as usize };
            let key: String = rand_string(&mut r, klen).chars().filter(|c| *c != '=').collect();
            let val = match r.below(4) {
                0 => None,
                1 => Some(String::new()),
                _ => { let room = 254usize.saturating_sub(key.len()); let l = if overlong && r.chance(1, 2) { room + 1 + r.below(3) as usize } else if r.chance(1, 8) || (many && r.chance(2, 3)) { room - (r.below(12) as usize).min(room) } else { r.below(14) as usize };
                       Some(rand_string(&mut r, l)) }
            };
            m.insert(key, val);
        }
        // keys that differ only in letter case are different keys
        if i % 6 == 2 { for k in ["id", "ID", "Id", "größe", "GRÖSSE"] { if r.chance(1, 2) { m.insert(k.to_string(), if r.chance(1, 3) { None } else { Some(rand_string(&mut r, 3)) }); } } }
        let res = TXT::try_from(m.clone());
        // the model is given the entries in the order the implementation's map iteration produced them
        let mut entries: Vec<(String, Option<String>)> = vec![];
        if let Ok(t) = &res {
            for s in t.verif_strings() {
                for (k, val) in &m {
                    let e = match val { Some(x) => format!("{}={}", k, x), None => k.clone() };
                    if e.as_bytes() == s && !entries.iter().any(|(k2, _)| k2 == k) { entries.push((k.clone(), val.clone())); break; }
                }
            }
        }
        if entries.len() != m.len() { entries = m.iter().map(|(k, x)| (k.clone(), x.clone())).collect(); }
        let mut op = format!("txt.ofmap {}", entries.len());
        for (k, val) in &entries { op.push_str(&format!(" {} {}", hex(k.as_bytes()), match val { None => "-".to_string(), Some(x) => hex(x.as_bytes()) })); }
        let out = match &res { Ok(t) => format!("ok {}", show_strings(t)), Err(_) => "err".to_string() };
        let mut c = Case::new(op, out).tag("map").tag(if res.is_ok() { "map-ok" } else { "map-refused" });
        let fits = m.iter().all(|(k, x)| k.len() + x.as_ref().map(|x| x.len() + 1).unwrap_or(0) <= 255);
        match &res {
            Ok(t) => {
                if !fits { c = c.fail("overlong-accepted", "an attribute entry longer than 255 bytes was accepted".into()); }
                let back = t.attributes();
                // the empty key is the recorded `empty-attribute-key` situation of C15, not of this property's quantifier
                if back != m { c = c.fail(if m.contains_key("") { "attrs-empty-key" } else { "attrs-roundtrip" }, format!("{:?} came back as {:?}", m, back)); }
                // ... and through the wire, with both writers (RDLENGTH of the plain one comes from the cached size)
                if !m.is_empty() && !m.contains_key("") {
                    let mut p = Packet::new_reply(3);
                    p.answers.push(ResourceRecord::new(Name::new_unchecked("m"), CLASS::IN, 1, rdata::RData::TXT(t.clone())));
                    p.answers.push(ResourceRecord::new(Name::new_unchecked("m"), CLASS::IN, 1, rdata::RData::A(rdata::A { address: 5 })));
                    for (how, bytes) in [("plain", p.build_bytes_vec()), ("compressed", p.build_bytes_vec_compressed())] {
                        let ok = bytes.ok().and_then(|b| Packet::parse(&b).ok().map(|q| q.answers.len() == 2 && match &q.answers[0].rdata { rdata::RData::TXT(t2) => t2.attributes() == m, _ => false })).unwrap_or(false);
                        if !ok { c = c.fail("attrs-wire", format!("{} writer: the attribute map {:?} does not come back through the wire", how, m)); }
                    }
                }
            }
            Err(_) => if fits { c = c.fail("map-refused", format!("{:?}", m)); },
        }
        v.push(c);
    }
    // attributes() and long_attributes() on arbitrary character-strings
    let n = if thorough { 30000 } else { 2500 };
    let tiny = tiny_txt_contents();
    for it in 0..(n + tiny.len()) {
        let k = r.below(5) as usize;
        // one record in sixteen holds dozens of short strings whose keys repeat (with another value each time, in no
        // order): "the first occurrence of a key wins" on records past what a short-slice sort keeps in order; the first
        // four of them deterministically
        let many = it < 4 || r.chance(1, 16);
        let strings: Vec<Vec<u8>> = if it >= n { tiny[it - n].clone() } else if many {
            let count = if it < 4 { [21usize, 48, 120, 255][it] } else { r.range(21, 160) as usize };
            let keys = ["mode", "Mode", "k", "id", "path", "v", "é", "x y", "flag"];
            (0..count).map(|j| { let key = keys[(r.below(keys.len() as u64) as usize + if it < 4 { j * 5 } else { 0 }) % keys.len()]; match (j + r.below(3) as usize) % 4 { 0 => key.as_bytes().to_vec(), 1 => format!("{}=", key).into_bytes(), _ => format!("{}={}", key, j).into_bytes() } }).collect()
        } else { (0..k).map(|_| {
            let l = r.below(14) as usize;
            match r.below(5) {
                0 => r.bytes(l),
                1 => { let mut b = rand_string(&mut r, l).into_bytes(); if !b.is_empty() && r.chance(1, 3) { let i = r.below(b.len() as u64) as usize; b[i] = 0xFF; } b }
                _ => { let pool = ["a=\"\"", "k=\"v\"", "k='v'", "\"k\"=v", "note=\"a;b\"", "a=%20b", "a=b&c=d", "a=1\r\nb=2", "a=#x;b", "k=[1,2]", "a", "b", "a=", "a=1", "b=2", "=x", "a=b=c", "k", ";", "a;b=1", "é=ü", "A", "A=2", "K=v", "key=first", "KEY=other", "Key", "flag`", "`", "a`=b", " a=1", "a =2", "a= 3", "\ta=4", "a\u{a0}=5", " ", " =6", "b=1; a=2;a =3", "x;; y=1", "k=1;k=2", "flag;flag=1", "e=;e=full", "v=0.1;p=1;v=dup"]; let mut s = r.pick(&pool).to_string(); if r.chance(1, 3) { s.push_str(&rand_string(&mut r, 3)); } s.into_bytes() }
            }
        }).collect() };
        let t = txt_of(&strings);
        let mut args = format!("{}", strings.len());
        for x in &strings { args.push(' '); args.push_str(&hex(x)); }
        let attrs = t.attributes();
        let mut c = Case::new(format!("txt.attrs {}", args), format!("ok {}", show_attrs(&attrs))).tag("attributes");
        // the same record assembled through the text entry points (`default`, `add_string`, `with_string`)
        if strings.iter().all(|x| std::str::from_utf8(x).is_ok()) {
            let texts: Vec<String> = strings.iter().map(|x| String::from_utf8(x.clone()).unwrap()).collect();
            let mut t2 = TXT::default();
            let mut t3 = TXT::new();
            let mut ok = true;
            for x in &texts { ok &= t2.add_string(x).is_ok(); t3 = match t3.with_string(x) { Ok(y) => y, Err(_) => { ok = false; TXT::new() } }; }
            let (mut b1, mut b2, mut b3) = (vec![], vec![], vec![]);
            let _ = simple_dns::verif::rdata_write(&rdata::RData::TXT(t.clone()), &mut b1);
            let _ = simple_dns::verif::rdata_write(&rdata::RData::TXT(t2.clone()), &mut b2);
            let _ = simple_dns::verif::rdata_write(&rdata::RData::TXT(t3.clone()), &mut b3);
            if !ok || t2.verif_strings() != t.verif_strings() || t3.verif_strings() != t.verif_strings() || b1 != b2 || b1 != b3
                || simple_dns::verif::rdata_len(&rdata::RData::TXT(t2.clone())) != b2.len() || simple_dns::verif::rdata_len(&rdata::RData::TXT(t3.clone())) != b3.len() || t2.attributes() != attrs || t3.attributes() != attrs {
                c = c.fail("txt-entry-points", format!("add_string / with_string build another record than add_char_string for {:?}", texts));
            }
        }
        // the same character-strings as another implementation would send them: through the wire, every piece
        // (empty ones included, wherever they stand) arrives and the conversions give the same answers
        if !strings.is_empty() && strings.iter().map(|x| x.len() + 1).sum::<usize>() < 60000 {
            let mut msg = vec![0u8, 9, 0x80, 0, 0, 0, 0, 1, 0, 0, 0, 0, 0, 0, 16, 0, 1, 0, 0, 0, 5];
            let rdlen: usize = strings.iter().map(|x| x.len() + 1).sum();
            msg.extend_from_slice(&(rdlen as u16).to_be_bytes());
            for x in &strings { msg.push(x.len() as u8); msg.extend_from_slice(x); }
            match Packet::parse(&msg) {
                Ok(p) => match p.answers.get(0).map(|a| &a.rdata) {
                    Some(rdata::RData::TXT(tw)) => {
                        let got: Vec<Vec<u8>> = tw.verif_strings().iter().map(|x| x.to_vec()).collect();
                        if got != strings { c = c.fail("txt-wire-strings", format!("{} character-strings sent, {} received", strings.len(), got.len())); }
                        else if tw.attributes() != attrs { c = c.fail("txt-wire-attributes", format!("{:?}", strings)); }
                        else {
                            let a: std::result::Result<String, _> = tw.clone().try_into();
                            let b: std::result::Result<String, _> = t.clone().try_into();
                            if a.ok() != b.ok() { c = c.fail("txt-wire-text", format!("{:?}", strings)); }
                        }
                    }
                    _ => { c = c.fail("txt-wire-strings", "the record did not arrive as TXT".into()); }
                },
                Err(_) => { c = c.fail("txt-wire-strings", "a TXT record of valid character-strings is rejected".into()); }
            }
        }
        // first occurrence wins, absent vs empty
        let mut want: HashMap<String, Option<String>> = HashMap::new();
        for s in &strings {
            let (kb, vb) = match s.iter().position(|c| *c == b'=') { Some(i) => (&s[..i], Some(&s[i + 1..])), None => (&s[..], None) };
            if let Ok(key) = std::str::from_utf8(kb) {
                let val = vb.map(|x| std::str::from_utf8(x).unwrap_or("").to_string());
                want.entry(key.to_string()).or_insert(val);
            }
        }
        if want != attrs { c = c.fail("attributes", format!("{:?}", strings)); }
        v.push(c);
        let long = match std::panic::catch_unwind(std::panic::AssertUnwindSafe(|| t.clone().long_attributes())) { Ok(x) => x, Err(_) => { v.push(Case::oracle_only().fail("long-attributes-panic", format!("long_attributes panicked on {:?}", strings))); continue; } };
        let lout = match &long { Ok(m) => format!("ok {}", show_attrs(m)), Err(_) => "err".to_string() };
        let mut c = Case::new(format!("txt.long {}", args), lout).tag("long_attributes");
        let flat: Vec<u8> = strings.concat();
        match (std::str::from_utf8(&flat), &long) {
            (Ok(full), Ok(m)) => {
                let mut want: HashMap<String, Option<String>> = HashMap::new();
                let chars: Vec<char> = full.chars().collect();
                for part in chars.split(|c| *c == ';') {
                    let (k, val) = match part.iter().position(|c| *c == '=') { Some(i) => (&part[..i], Some(part[i + 1..].iter().collect::<String>())), None => (part, None) };
                    let k: String = k.iter().collect();
                    if !k.is_empty() { want.entry(k).or_insert(val); }
                }
                if want != *m { c = c.fail("long-attributes", format!("{:?}", full)); }
            }
            (Err(_), Err(_)) => {}
            _ => { c = c.fail("long-attributes-utf8", "error iff the joined text is not UTF-8".into()); }
        }
        v.push(c);
    }
    // long attribute texts: what `long_attributes` is for - a semicolon-separated text longer than one character-string,
    // split by `TXT::try_from(&str)` wherever the 255-byte limit falls (inside a multi-byte character, inside a key, right
    // after a ';' or '='), read back as one text
    for total in (230..=300usize).step_by(if thorough { 1 } else { 3 }).chain((480..=540).step_by(if thorough { 1 } else { 5 })).chain([760, 1020, 1500, 4000]) {
        for fill in ["v", "é", "€", "\u{1F600}", "a=b", ";;", "\"", "\"q\";"] {
            for lead in ["name=xx", "k", "flag;name=", "é=", "", "q=\""] {
                let mut text = String::from(lead);
                while text.len() + fill.len() + 9 <= total { text.push_str(fill); }
                text.push_str(";flag;n=1");
                let mut c = Case::oracle_only().tag("long-attribute-text");
                match TXT::try_from(text.as_str()) {
                    Err(_) => { c = c.fail("split-refused", format!("a {}-byte attribute text is refused", text.len())); }
                    Ok(t) => {
                        let mut want: HashMap<String, Option<String>> = HashMap::new();
                        let chars: Vec<char> = text.chars().collect();
                        for part in chars.split(|ch| *ch == ';') {
                            let (k, val) = match part.iter().position(|ch| *ch == '=') { Some(i) => (&part[..i], Some(part[i + 1..].iter().collect::<String>())), None => (part, None) };
                            let k: String = k.iter().collect();
                            if !k.is_empty() { want.entry(k).or_insert(val); }
                        }
                        match t.long_attributes() {
                            Ok(m) => { if m != want { c = c.fail("long-attributes", format!("a {}-byte text ({} strings) reads back as another map", text.len(), (text.len() + 253) / 254)); } }
                            Err(_) => { c = c.fail("long-attributes-utf8", format!("long_attributes fails on the TXT made from a valid {}-byte text", text.len())); }
                        }
                    }
                }
                v.push(c);
            }
        }
    }
    // character-string construction, every length 0..300
    for len in 0..=300usize {
        let b = r.bytes(len);
        let res = CharacterString::new(&b);
        let out = match &res { Ok(c) => format!("ok {}", hex(verif::character_string_bytes(c))), Err(_) => "err".to_string() };
        let mut c = Case::new(format!("cs.new {}", hex(&b)), out).tag("cs.new");
        if res.is_ok() != (len <= 255) { c = c.fail("charstr-limit", format!("length {}", len)); }
        if let Ok(cs) = res { if verif::character_string_bytes(&cs) != &b[..] { c = c.fail("charstr-truncated", format!("length {}", len)); } }
        v.push(c);
        let s = "x".repeat(len);
        let r2: std::result::Result<CharacterString, _> = s.as_str().try_into();
        if r2.is_ok() != (len <= 255) { v.push(Case::oracle_only().fail("charstr-limit", format!("try_from(&str) length {}", len))); }
    }
    v
}
