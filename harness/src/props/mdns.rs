//! C13 (replies) and C20 (cache expiry) on the real `ResourceRecordManager` / `build_reply`
//! through the `simple_mdns::verif` hooks.
use crate::core::*;
use crate::gen::mk_name;
use crate::rng::Rng;
use crate::text;
use simple_dns::rdata::*;
use simple_dns::*;
use simple_mdns::verif::{build_reply, DomainResourceFilter, ResourceRecordManager};
use std::time::{Duration, Instant};

const LABELS: [&[u8]; 13] = [b"foo", b"bar", b"foobar", b"_my", b"_mysrv", b"local", b"a", b"b", b"aaaaaaaaaaaaaaaaaaaa", b"office", b"Foo", b"BAR", b"A"];

fn rand_name(r: &mut Rng) -> Vec<Vec<u8>> {
    let k = r.range(0, 4) as usize;
    let mut n: Vec<Vec<u8>> = (0..k).map(|_| r.pick(&LABELS).to_vec()).collect();
    if r.chance(2, 3) { n.push(b"local".to_vec()); }
    n
}

fn rand_rr(r: &mut Rng, names: &[Vec<Vec<u8>>]) -> ResourceRecord<'static> {
    let name = mk_name(&r.pick(names)[..]);
    // every class a record can have (IN mostly; CS, CH, HS and NONE are registrable and askable like it)
    let class = if r.chance(1, 5) { *r.pick(&[CLASS::CH, CLASS::CS, CLASS::HS, CLASS::NONE]) } else { CLASS::IN };
    let rdata = match r.below(10) {
        // (records of one owner that differ only INSIDE their RDATA are different records of the store: opaque data, the
        // text of a TXT - a repeated key with another value, a value that is not UTF-8, the order of the strings -, the
        // priority and weight of an SRV, one letter of an HINFO)
        9 => RData::NULL(10, NULL::new(&[7, 7, r.below(3) as u8][..2 + r.below(2) as usize]).unwrap().into_owned()),
        // shared records: a service type pointing at an instance
        5 => RData::PTR(PTR(mk_name(&r.pick(names)[..]))),
        6 => RData::CNAME(CNAME(mk_name(&r.pick(names)[..]))),
        7 => RData::NS(NS(mk_name(&r.pick(names)[..]))),
        8 => RData::HINFO(HINFO { cpu: crate::gen::mk_cs(if r.chance(1, 2) { b"c" } else { b"C" }), os: crate::gen::mk_cs(if r.chance(1, 2) { b"o" } else { b"o2" }) }),
        0 | 1 => RData::A(A { address: r.below(3) as u32 }),
        2 => RData::AAAA(AAAA { address: r.below(2) as u128 }),
        3 => RData::SRV(SRV { priority: r.below(2) as u16, weight: if r.chance(1, 4) { 5 } else { 0 }, port: 80 + r.below(2) as u16, target: mk_name(&r.pick(names)[..]) }),
        4 => { let variants: [&[&[u8]]; 10] = [&[b"k=v"], &[b"k=v"], &[b"k=w"], &[b"k=1", b"k=2"], &[b"k=1", b"k=3"], &[b"name=caf\xe9"], &[b"name=caf\xe8"], &[b"a=1", b"b=2"], &[b"b=2", b"a=1"], &[b"k=v", b""]];
               let mut t = TXT::new(); for x in *r.pick(&variants) { t.add_char_string(crate::gen::mk_cs(x)); } RData::TXT(t) }
        _ => RData::PTR(PTR(mk_name(&r.pick(names)[..]))),
    };
    ResourceRecord::new(name, class, *r.pick(&[0u32, 1, 120, 4500]), rdata).with_cache_flush(r.chance(1, 4))
}

fn sorted(mut v: Vec<String>) -> String {
    v.sort();
    let mut s = v.len().to_string();
    for x in v { s.push_str(" ; "); s.push_str(&x); }
    s
}

/// record identity as the store must see it (owner, class, RDATA; TTL and cache-flush bit are not part of
/// it), decided on the field values, not by the library's `==`
fn same(a: &ResourceRecord, b: &ResourceRecord) -> bool {
    text::name(&a.name) == text::name(&b.name) && a.class as u16 == b.class as u16 && text::rdata(&a.rdata) == text::rdata(&b.rdata)
}

#[derive(Clone)]
enum Op { Auth(ResourceRecord<'static>), Cached(ResourceRecord<'static>), Remove(ResourceRecord<'static>), Clear }

pub fn c13(tier: &str, seed: u64) -> Vec<Case> {
    let thorough = tier == "thorough";
    let mut r = Rng::new(seed);
    let mut v = vec![];
    // what the running responders put on the wire (beside everything below, which judges `build_reply` itself)
    let live = std::thread::spawn(|| crate::props::svc::live_vec_with_baseline("responders answering", &crate::props::svc::live_responder_answers));
    // large answers: dozens of long records under one name - every one of them is in the reply, however large that makes it
    // (what can be sent is the sender's business, C14; what is *included* is this property's)
    for (count, len) in [(60usize, 200usize), (45, 250), (200, 40), (12, 255)] {
        let mut mgr = ResourceRecordManager::new();
        let owner = mk_name(&[b"bulk".to_vec(), b"local".to_vec()]);
        let mut line = String::from("mdns");
        for k in 0..count {
            let mut text = format!("k{}=", k).into_bytes();
            while text.len() < len { text.push(b'a' + (k % 26) as u8); }
            let rr = ResourceRecord::new(owner.clone(), CLASS::IN, 120, RData::TXT(TXT::new().with_char_string(crate::gen::mk_cs(&text))));
            mgr.add_authoritative_resource(rr.clone());
            line.push_str(&format!(" A {}", text::rr(&rr)));
        }
        let mut q = Packet::new_query(9);
        q.questions.push(Question::new(owner.clone(), QTYPE::TYPE(TYPE::TXT), CLASS::IN.into(), false));
        line.push_str(&format!(" Q {} 5", text::packet(&q)));
        let mref: &ResourceRecordManager = &mgr;
        let reply = std::panic::catch_unwind(std::panic::AssertUnwindSafe(|| build_reply(q, mref)));
        let (out, n) = match &reply {
            Err(_) => ("panic".to_string(), 0),
            Ok(None) => ("none".to_string(), 0),
            Ok(Some((p, u))) => (format!("some {} {} {} answers {} additional {}", p.id(), text::flag_bits(p), *u as u8, sorted(p.answers.iter().map(text::rr).collect()), sorted(p.additional_records.iter().map(text::rr).collect())), p.answers.len()),
        };
        let mut c = Case::new(line, out).tag("large-answer");
        if n != count { c = c.fail("answer-missing", format!("{} registered TXT records of {} bytes under the asked name, {} in the reply", count, len, n)); }
        v.push(c);
    }
    // records of one owner that differ only inside their RDATA are different records: each of them is registered and each
    // is in the reply (the store keeps records under their own equality: two that "mean the same" to some reading of their
    // content - the same attributes, the same target - are still two)
    {
        let owner = mk_name(&[b"twins".to_vec(), b"local".to_vec()]);
        let txt = |ss: &[&[u8]]| { let mut t = TXT::new(); for x in ss { t.add_char_string(crate::gen::mk_cs(x)); } RData::TXT(t) };
        let groups: Vec<(QTYPE, Vec<RData<'static>>)> = vec![
            (QTYPE::TYPE(TYPE::TXT), vec![txt(&[b"k=1", b"k=2"]), txt(&[b"k=1", b"k=3"]), txt(&[b"k=1"]), txt(&[b"name=caf\xe9"]), txt(&[b"name=caf\xe8"]), txt(&[b"a=1", b"b=2"]), txt(&[b"b=2", b"a=1"]), txt(&[b"K=1"]), txt(&[b"k=1", b""]), txt(&[b"\xff=1"]), txt(&[b"\xfe=1"])]),
            (QTYPE::TYPE(TYPE::SRV), vec![RData::SRV(SRV { priority: 0, weight: 0, port: 80, target: owner.clone() }), RData::SRV(SRV { priority: 1, weight: 0, port: 80, target: owner.clone() }), RData::SRV(SRV { priority: 0, weight: 1, port: 80, target: owner.clone() }), RData::SRV(SRV { priority: 0, weight: 0, port: 80, target: mk_name(&[b"Twins".to_vec(), b"local".to_vec()]) })]),
            (QTYPE::TYPE(TYPE::HINFO), vec![RData::HINFO(HINFO { cpu: crate::gen::mk_cs(b"c"), os: crate::gen::mk_cs(b"o") }), RData::HINFO(HINFO { cpu: crate::gen::mk_cs(b"C"), os: crate::gen::mk_cs(b"o") }), RData::HINFO(HINFO { cpu: crate::gen::mk_cs(b"c"), os: crate::gen::mk_cs(b"o ") })]),
            (QTYPE::ANY, vec![RData::NULL(10, NULL::new(&[7, 7]).unwrap()), RData::NULL(10, NULL::new(&[7, 7, 0]).unwrap()), RData::NULL(65280, NULL::new(&[7, 7]).unwrap())]),
        ];
        for (qt, rds) in groups {
            let mut mgr = ResourceRecordManager::new();
            let mut line = String::from("mdns");
            for rd in &rds { let rr = ResourceRecord::new(owner.clone(), CLASS::IN, 120, rd.clone()); mgr.add_authoritative_resource(rr.clone()); line.push_str(&format!(" A {}", text::rr(&rr))); }
            let mut q = Packet::new_query(11);
            q.questions.push(Question::new(owner.clone(), qt, CLASS::IN.into(), false));
            line.push_str(&format!(" Q {} 5", text::packet(&q)));
            let mref: &ResourceRecordManager = &mgr;
            let reply = std::panic::catch_unwind(std::panic::AssertUnwindSafe(|| build_reply(q, mref)));
            let (out, n) = match &reply {
                Err(_) => ("panic".to_string(), 0),
                Ok(None) => ("none".to_string(), 0),
                Ok(Some((p, u))) => (format!("some {} {} {} answers {} additional {}", p.id(), text::flag_bits(p), *u as u8, sorted(p.answers.iter().map(text::rr).collect()), sorted(p.additional_records.iter().map(text::rr).collect())), p.answers.len()),
            };
            let mut c = Case::new(line, out).tag("rdata-twins");
            if n != rds.len() { c = c.fail("answer-missing", format!("{} registered records of one owner that differ only inside their RDATA, {} in the reply", rds.len(), n)); }
            v.push(c);
        }
    }
    let n = if thorough { 60_000 } else { 5_000 };
    for it in 0..n {
        // a small universe of names per history so that exact, parent and colliding names all occur
        let mut names: Vec<Vec<Vec<u8>>> = (0..r.range(2, 5)).map(|_| rand_name(&mut r)).collect();
        if it % 4 == 1 {
            // names equal up to letter case are different names
            names.push(vec![b"Foo".to_vec(), b"local".to_vec()]);
            names.push(vec![b"foo".to_vec(), b"local".to_vec()]);
            names.push(vec![b"FOO".to_vec(), b"LOCAL".to_vec()]);
        }
        if it % 3 == 0 {
            names.push(vec![b"foo".to_vec(), b"bar".to_vec(), b"local".to_vec()]);
            names.push(vec![b"foobar".to_vec(), b"local".to_vec()]);
            names.push(vec![b"bar".to_vec(), b"local".to_vec()]);
        }
        if it % 7 == 3 {
            // names that protocols built on mDNS give a meaning to (DNS-SD service enumeration, RFC 6763 9; reverse zones;
            // browse domains): to the store they are names like any other - nothing is answered that was not registered
            for text in ["_services._dns-sd._udp.local", "_http._tcp.local", "_printer._tcp.local", "b._dns-sd._udp.local", "lb._dns-sd._udp.local", "_dns-sd._udp.local", "_udp.local", "_tcp.local",
                         "254.169.in-addr.arpa", "1.0.254.169.in-addr.arpa", "_sub._http._tcp.local", "printer._http._tcp.local"] {
                names.push(text.split('.').map(|l| l.as_bytes().to_vec()).collect());
            }
        }
        if it % 5 == 2 {
            // names that differ only in octets that are not UTF-8 (Latin-1 on the wire): different names, whatever their text looks like
            names.push(vec![b"caf\xE9".to_vec(), b"local".to_vec()]);
            names.push(vec![b"caf\xE8".to_vec(), b"local".to_vec()]);
            names.push(vec![b"caf\xFF\xFE".to_vec(), b"local".to_vec()]);
            names.push(vec!["caf\u{e9}".as_bytes().to_vec(), b"local".to_vec()]);
            names.push(vec!["caf\u{fffd}".as_bytes().to_vec(), b"local".to_vec()]);
        }
        let mut ops: Vec<Op> = vec![];
        let mut pool: Vec<ResourceRecord<'static>> = vec![];
        for _ in 0..r.range(0, if it % 10 == 0 { 9 } else { 4 }) {
            // an earlier record again, half of the time with another TTL / cache-flush bit (the same record)
            let rr = if !pool.is_empty() && r.chance(1, 4) { let mut x = r.pick(&pool).clone(); if r.chance(1, 2) { x.ttl = *r.pick(&[0u32, 1, 60, 120, 4500]); x.cache_flush = r.chance(1, 2); } x } else { rand_rr(&mut r, &names) };
            pool.push(rr.clone());
            ops.push(match r.below(10) { 0 | 1 => Op::Cached(rr), 2 => Op::Remove(rr), 3 if r.chance(1, 4) => Op::Clear, _ => Op::Auth(rr) });
        }
        // the query
        let mut q = Packet::new_query(r.next() as u16);
        // mostly none, one or two questions; now and then a handful, or dozens (a browser asking for every type it knows)
        let nq = match r.below(14) { 0 => r.range(3, 12), 1 if it % 3 == 0 => r.range(13, 40), _ => r.range(0, 2) };
        for _ in 0..nq {
            let qt = match r.below(13) { 12 => QTYPE::TYPE(TYPE::NULL), 10 => *r.pick(&[QTYPE::AXFR, QTYPE::IXFR, QTYPE::MAILA]), 11 => QTYPE::TYPE(TYPE::MX), 0 | 7 => QTYPE::ANY, 8 => QTYPE::TYPE(TYPE::CNAME), 9 => QTYPE::TYPE(TYPE::NS), 1 => QTYPE::MAILB, 2 => QTYPE::TYPE(TYPE::SRV), 3 => QTYPE::TYPE(TYPE::AAAA), 4 => QTYPE::TYPE(TYPE::PTR), 5 => QTYPE::TYPE(TYPE::TXT), _ => QTYPE::TYPE(TYPE::A) };
            let qc = match r.below(8) { 0 => QCLASS::ANY, 1 => QCLASS::CLASS(CLASS::CH), 2 => QCLASS::CLASS(*r.pick(&[CLASS::CS, CLASS::HS, CLASS::NONE, CLASS::NONE])), _ => QCLASS::CLASS(CLASS::IN) };
            let qn = if !pool.is_empty() && r.chance(2, 3) { r.pick(&pool).name.clone() } else { mk_name(&r.pick(&names)[..]) };
            q.questions.push(Question::new(qn, qt, qc, r.chance(1, 4)));
        }
        // service enumeration asked outright while service types are registered: the answer holds what is registered under
        // the asked name (usually nothing), never records made up from other names
        if it % 7 == 3 {
            let ty = mk_name(&[b"_http".to_vec(), b"_tcp".to_vec(), b"local".to_vec()]);
            let inst = mk_name(&[b"printer".to_vec(), b"_http".to_vec(), b"_tcp".to_vec(), b"local".to_vec()]);
            ops.push(Op::Auth(ResourceRecord::new(ty, CLASS::IN, 120, RData::PTR(PTR(inst)))));
            let meta = mk_name(&[b"_services".to_vec(), b"_dns-sd".to_vec(), b"_udp".to_vec(), b"local".to_vec()]);
            q.questions.insert(0, Question::new(meta, if it % 2 == 0 { QTYPE::TYPE(TYPE::PTR) } else { QTYPE::ANY }, CLASS::IN.into(), false));
        }
        // whatever else the header of the query says (opcode, response code, TC / RD / AA ...): the reply holds every matching
        // registered record; the property has no exception for them
        if r.chance(1, 4) {
            *q.opcode_mut() = *r.pick(&crate::gen::Gen::OPCODES);
            if r.chance(1, 2) { *q.rcode_mut() = *r.pick(&crate::gen::Gen::RCODES); }
            let mut fl = PacketFlag::empty();
            for f in [PacketFlag::AUTHORITATIVE_ANSWER, PacketFlag::TRUNCATION, PacketFlag::RECURSION_DESIRED, PacketFlag::RECURSION_AVAILABLE, PacketFlag::AUTHENTIC_DATA, PacketFlag::CHECKING_DISABLED] { if r.chance(1, 3) { fl |= f; } }
            q.set_flags(fl);
        }
        // queries carry more than questions: known answers (RFC 6762 7.1), probe records in the authority section, an
        // OPT or the querier's own records in the additional section. Whatever the sender lists, the reply holds every
        // matching registered record
        if !pool.is_empty() && r.chance(1, 3) {
            for _ in 0..r.range(1, 3) {
                let mut x = r.pick(&pool).clone();
                if r.chance(1, 2) { x.ttl = *r.pick(&[0u32, 1, 60, 4500]); }
                match r.below(4) { 0 => q.name_servers.push(x), 1 => q.additional_records.push(x), _ => q.answers.push(x) }
            }
        }
        // run the real store; the abstract registry for the oracle is a plain vector
        let mut mgr = ResourceRecordManager::new();
        let mut reg: Vec<(ResourceRecord<'static>, bool)> = vec![]; // (record, authoritative)
        let mut line = String::from("mdns");
        for op in &ops {
            match op {
                Op::Auth(rr) => { mgr.add_authoritative_resource(rr.clone()); line.push_str(&format!(" A {}", text::rr(rr)));
                    match reg.iter_mut().find(|e| same(&e.0, rr)) { Some(e) => e.1 = true, None => reg.push((rr.clone(), true)) } }
                Op::Cached(rr) => { mgr.add_cached_resource(rr.clone()); line.push_str(&format!(" C 0 {}", text::rr(rr)));
                    if !reg.iter().any(|e| same(&e.0, rr)) { reg.push((rr.clone(), false)) } }
                Op::Remove(rr) => { mgr.remove_resource_record(rr); line.push_str(&format!(" R {}", text::rr(rr))); reg.retain(|e| !same(&e.0, rr)); }
                Op::Clear => { mgr.clear(); line.push_str(" X"); reg.clear(); }
            }
        }
        // a service whose SRV record points at the name that also owns the address records, asked for
        // both: the address records are answers to one question and additional records of the other
        if it % 9 == 4 {
            let host = mk_name(&r.pick(&names)[..]);
            let recs = [
                ResourceRecord::new(host.clone(), CLASS::IN, 120, RData::SRV(SRV { priority: 0, weight: 0, port: 80, target: host.clone() })),
                ResourceRecord::new(host.clone(), CLASS::IN, 120, RData::A(A { address: 7 })),
                ResourceRecord::new(host.clone(), CLASS::IN, 120, RData::AAAA(AAAA { address: 7 })),
            ];
            for rr in recs { mgr.add_authoritative_resource(rr.clone()); line.push_str(&format!(" A {}", text::rr(&rr)));
                match reg.iter_mut().find(|e| same(&e.0, &rr)) { Some(e) => e.1 = true, None => reg.push((rr.clone(), true)) } }
            q.questions.clear();
            let order: &[QTYPE] = match r.below(4) { 0 => &[QTYPE::TYPE(TYPE::SRV), QTYPE::TYPE(TYPE::A)], 1 => &[QTYPE::TYPE(TYPE::A), QTYPE::TYPE(TYPE::SRV)], 2 => &[QTYPE::TYPE(TYPE::SRV), QTYPE::TYPE(TYPE::AAAA)], _ => &[QTYPE::ANY] };
            for qt in order { q.questions.push(Question::new(host.clone(), *qt, CLASS::IN.into(), false)); }
        }
        line.push_str(&format!(" Q {} 5", text::packet(&q)));
        let qid = q.id();
        let questions = q.questions.clone();
        let mgr_ref: &ResourceRecordManager = &mgr;
        let reply = std::panic::catch_unwind(std::panic::AssertUnwindSafe(|| build_reply(q, mgr_ref)));
        let (out, reply) = match reply {
            Err(_) => ("panic".to_string(), None),
            Ok(None) => ("none".to_string(), None),
            Ok(Some((p, u))) => (format!("some {} {} {} answers {} additional {}", p.id(), text::flag_bits(&p), u as u8,
                sorted(p.answers.iter().map(text::rr).collect()), sorted(p.additional_records.iter().map(text::rr).collect())), Some((p, u))),
        };
        let mut c = Case::new(line, out.clone()).tag(if reply.is_some() { "reply" } else { "no-reply" }).tag(&format!("ops:{}", ops.len()));
        c.nontrivial = !ops.is_empty() && !questions.is_empty();
        if out == "panic" { c = c.fail("reply-panic", "build_reply panicked".into()); }
        // the property, directly over the registry
        let matches = |a: &ResourceRecord, qu: &Question| {
            let t = a.rdata.type_code();
            let type_ok = match qu.qtype { QTYPE::ANY => true, QTYPE::TYPE(x) => x == t, QTYPE::MAILB => t == TYPE::MB || t == TYPE::MG || t == TYPE::MR, other => a.match_qtype(other) };
            let class_ok = match qu.qclass { QCLASS::ANY => true, QCLASS::CLASS(c) => c as u16 == a.class as u16 };
            type_ok && class_ok
        };
        let auth: Vec<&ResourceRecord> = reg.iter().filter(|e| e.1).map(|e| &e.0).collect();
        let must: Vec<&ResourceRecord> = auth.iter().copied().filter(|a| questions.iter().any(|qu| a.name == qu.qname && matches(a, qu))).collect();
        match &reply {
            None => if !must.is_empty() { c = c.fail("reply-missing", format!("{} matching authoritative record(s) but no reply", must.len())); },
            Some((p, u)) => {
                if p.id() != qid || !p.has_flags(PacketFlag::RESPONSE) { c = c.fail("reply-header", "id / response flag".into()); }
                if *u != questions.iter().any(|qu| qu.unicast_response) { c = c.fail("reply-unicast", "unicast flag".into()); }
                if p.answers.is_empty() { c = c.fail("reply-empty", "reply without answers".into()); }
                for a in &p.answers {
                    let registered = auth.iter().any(|x| same(x, a));
                    let asked = questions.iter().any(|qu| (a.name == qu.qname || a.name.is_subdomain_of(&qu.qname)) && matches(a, qu));
                    if !registered { c = c.fail("answer-not-authoritative", format!("{}", text::rr(a))); }
                    else if !asked { c = c.fail("answer-not-asked", format!("answer {} matches no question label-wise", text::rr(a))); }
                }
                for m in &must { if !p.answers.iter().any(|a| same(a, m)) { c = c.fail("answer-missing", format!("{}", text::rr(m))); } }
                for x in &p.additional_records {
                    let is_addr = matches!(x.rdata, RData::A(_) | RData::AAAA(_));
                    let registered = auth.iter().any(|y| same(y, x));
                    let targeted = p.answers.iter().any(|a| match &a.rdata { RData::SRV(s) => s.target == x.name, _ => false });
                    if !(is_addr && registered && targeted) { c = c.fail("additional-unsound", format!("{}", text::rr(x))); }
                }
            }
        }
        v.push(c);
    }
    if let Ok(cases) = live.join() { v.extend(cases); }
    v
}

// ---------------------------------------------------------------------------------------------
// C20: real time

struct Ev { line: String, lo: u128, hi: u128 }

fn history(seed: u64, steps: usize) -> Vec<Case> {
    let mut r = Rng::new(seed);
    let names = [vec![b"x".to_vec(), b"local".to_vec()], vec![b"y".to_vec(), b"x".to_vec(), b"local".to_vec()], vec![b"z".to_vec(), b"local".to_vec()]];
    // three records on three names and a fourth that shares its owner with the first
    let rec_names = [names[0].clone(), names[1].clone(), names[2].clone(), names[0].clone()];
    // every second history holds address records only; the others a PTR, an SRV and two address records (shared and unique
    // record types alike live for their TTL, or for one second when the cache-flush bit is set)
    let mixed = seed % 2 == 1;
    let recs: Vec<ResourceRecord<'static>> = rec_names.iter().enumerate().map(|(i, n)| ResourceRecord::new(mk_name(n), CLASS::IN, 0, match (mixed, i) {
        (true, 1) => RData::PTR(PTR(mk_name(&[b"inst".to_vec(), b"y".to_vec(), b"x".to_vec(), b"local".to_vec()]))),
        (true, 2) => RData::SRV(SRV { priority: 0, weight: 0, port: 80, target: mk_name(&[b"z".to_vec(), b"local".to_vec()]) }),
        _ => RData::A(A { address: i as u32 }),
    })).collect();
    let rt = tokio::runtime::Builder::new_current_thread().build().unwrap();
    let svc_local = mk_name(&[b"local".to_vec()]);
    let own_local = mk_name(&[b"own".to_vec(), b"local".to_vec()]);
    let mut mgr: ResourceRecordManager<'static> = ResourceRecordManager::new();
    let start = Instant::now();
    let ms = |t: Instant| t.duration_since(start).as_micros();
    let mut evs: Vec<Ev> = vec![];
    // abstract state for the oracle: per record None / auth / cached(expiry interval in µs)
    #[derive(Clone, Copy, PartialEq)]
    enum St { No, Auth, Cached(u128, u128, u128, u128) }
    let mut st = [St::No; 4];
    let mut out = vec![];
    for step in 0..steps {
        // operations on the half-second grid
        let due = start + Duration::from_millis(500 * step as u64);
        if let Some(d) = due.checked_duration_since(Instant::now()) { std::thread::sleep(d); }
        for _ in 0..r.range(0, 2) {
            let i = r.below(4) as usize;
            match r.below(10) {
                0..=5 => {
                    let ttl = *r.pick(&[0u32, 1, 1, 2, 2, 1000, 0x7FFF_FFFF, 0x8000_0000, u32::MAX]);
                    let flush = r.chance(1, 4);
                    let mut rr = recs[i].clone().with_cache_flush(flush);
                    rr.ttl = ttl;
                    // directly, or the way the discovery listener receives it: a response on the wire, parsed,
                    // filtered, made owned, stored
                    let via_network = r.chance(1, 2);
                    let (t0, t1);
                    if via_network {
                        let mut p = Packet::new_reply(0);
                        // one response in three carries the record twice, with another lifetime or flush bit the first time
                        // (an answer repeated in the additional section, a goodbye followed by a fresh announcement): what
                        // comes last in the response counts, as it does across responses
                        if r.chance(1, 3) {
                            let mut first = recs[i].clone().with_cache_flush(r.chance(1, 3));
                            first.ttl = *r.pick(&[0u32, 1, 2, 4500, 120, u32::MAX]);
                            p.answers.push(first);
                            if r.chance(1, 2) { p.answers.push(rr.clone()); } else { p.additional_records.push(rr.clone()); }
                        } else {
                            p.answers.push(rr.clone());
                        }
                        let wire = p.build_bytes_vec_compressed().unwrap();
                        let parsed = Packet::parse(&wire).unwrap();
                        let ptxt = text::packet(&parsed);
                        // with and without an on_discovery channel (its receiver kept alive): what is cached is the same
                        // ... through the sync listener's ingestion or the tokio listener's
                        if r.chance(2, 3) {
                            let (dtx, _drx) = std::sync::mpsc::channel();
                            let mut ch = if r.chance(1, 2) { Some(dtx) } else { None };
                            t0 = Instant::now();
                            simple_mdns::verif::sync_add_response_to_resources(parsed, &svc_local, &own_local, &mut mgr, &mut ch);
                            t1 = Instant::now();
                        } else {
                            let (dtx, _drx) = tokio::sync::mpsc::channel::<simple_mdns::InstanceInformation>(16);
                            let mut ch = if r.chance(1, 2) { Some(dtx) } else { None };
                            t0 = Instant::now();
                            rt.block_on(simple_mdns::verif::async_add_response_to_resources(parsed, &svc_local, &own_local, &mut mgr, &mut ch));
                            t1 = Instant::now();
                        }
                        evs.push(Ev { line: format!("I {{}} {} {} {}", text::name(&svc_local), text::name(&own_local), ptxt), lo: ms(t0), hi: ms(t1) });
                    } else {
                        t0 = Instant::now();
                        mgr.add_cached_resource(rr.clone());
                        t1 = Instant::now();
                        evs.push(Ev { line: format!("C {{}} {}", text::rr(&rr)), lo: ms(t0), hi: ms(t1) });
                    }
                    let eff = if flush { 1 } else { ttl } as u128 * 1_000_000;
                    let effs = if flush { 1 } else { ttl } as u128;
                    // ExpirationInfo::new: refresh at half the lifetime below a minute, else at 80 %
                    let off = (if effs < 60 { effs / 2 } else { effs / 10 * 8 }) * 1_000_000;
                    if st[i] != St::Auth { st[i] = St::Cached(ms(t0) + eff, ms(t1) + eff, ms(t0) + off, ms(t1) + off); }
                }
                6 => { mgr.add_authoritative_resource(recs[i].clone()); evs.push(Ev { line: format!("A {}", text::rr(&recs[i])), lo: 0, hi: 0 }); st[i] = St::Auth; }
                7 | 8 => { mgr.remove_resource_record(&recs[i]); evs.push(Ev { line: format!("R {}", text::rr(&recs[i])), lo: 0, hi: 0 }); st[i] = St::No; }
                _ => { if r.chance(1, 3) { mgr.clear(); evs.push(Ev { line: "X".to_string(), lo: 0, hi: 0 }); st = [St::No; 4]; } }
            }
        }
        // queries at the quarter offsets
        for quarter in [125u64, 375] {
            let due = start + Duration::from_millis(500 * step as u64 + quarter);
            if let Some(d) = due.checked_duration_since(Instant::now()) { std::thread::sleep(d); }
            let qn = r.below(4) as usize;
            let qname: Vec<Vec<u8>> = match qn { 3 => vec![b"local".to_vec()], k => names[k].clone() };
            let (fname, filter, sub, auth, cached) = match r.below(4) {
                0 => ("auth-exact", DomainResourceFilter::authoritative(false), false, true, false),
                1 => ("auth-sub", DomainResourceFilter::authoritative(true), true, true, false),
                2 => ("cached", DomainResourceFilter::cached(), true, false, true),
                _ => ("all", DomainResourceFilter::all(), true, true, true),
            };
            let n = mk_name(&qname);
            let t0 = Instant::now();
            let got: Vec<String> = mgr.get_domain_resources(&n, filter).flatten().map(|r| text::rr(r)).collect();
            let t1 = Instant::now();
            let (q_lo, q_hi) = (ms(t0), ms(t1));
            // model request under the two extreme readings of the measured intervals (ms)
            let mk = |add_hi: bool, q: u128| {
                let mut s = String::from("mdns");
                for e in &evs {
                    if e.line.contains("{}") {
                        let t = if add_hi { (e.hi + 999) / 1000 } else { e.lo / 1000 };
                        s.push(' '); s.push_str(&e.line.replacen("{}", &t.to_string(), 1));
                    } else { s.push(' '); s.push_str(&e.line); }
                }
                s.push_str(&format!(" G {} {} {} {} {}", text::name(&n), sub as u8, auth as u8, cached as u8, q));
                s
            };
            let op_a = mk(false, (q_hi + 999) / 1000); // earliest expiry, latest query
            let op_b = mk(true, q_lo / 1000); // latest expiry, earliest query
            let mut c = Case::new(op_a, sorted(got.clone())).tag(fname).tag("query");
            c.alt = Some(op_b);
            // the property, directly over the recorded history
            for i in 0..4 {
                let rname = &rec_names[i];
                let in_scope = if sub { rname.len() >= qname.len() && rname[rname.len() - qname.len()..] == qname[..] } else { *rname == qname };
                let rd_text = text::rdata(&recs[i].rdata);
                let present = got.iter().any(|g| g.ends_with(&rd_text) && g.starts_with(&text::name(&recs[i].name)));
                let verdict: Option<bool> = match st[i] {
                    St::No => Some(false),
                    St::Auth => Some(auth && in_scope),
                    St::Cached(lo, hi, _, _) => if !cached || !in_scope { Some(false) } else if lo > q_hi { Some(true) } else if hi <= q_lo { Some(false) } else { None },
                };
                match verdict {
                    Some(w) if w != present => {
                        // `subtrie` needs a trie node exactly at the queried key, so a record below a name that
                        // is not itself a key may be legitimately missing from a subdomain query: presence is
                        // demanded only for the record's own name, absence everywhere
                        if w && !present && *rname != qname { c = c.tag("trie-node-absent"); }
                        else { c = c.fail(match st[i] { St::Auth => "auth-visibility", St::No => "removed-still-returned", _ => "cache-expiry" },
                            format!("record {} expected {} got {} (filter {}, state at query time)", i, w, present, fname)); }
                    }
                    None => { c = c.tag("oracle-inconclusive"); }
                    _ => {}
                }
            }
            out.push(c);
        }
        // the refresh clock: `get_next_refresh` is the earliest refresh time already in the past among
        // the cached entries of all names (expired ones included), and nothing for authoritative ones
        {
            let t0 = Instant::now();
            let nr = mgr.get_next_refresh();
            let t1 = Instant::now();
            let (q_lo, q_hi) = (ms(t0), ms(t1));
            let mk = |add_hi: bool, q: u128| {
                let mut s = String::from("mdns");
                for e in &evs {
                    if e.line.contains("{}") {
                        let t = if add_hi { (e.hi + 999) / 1000 } else { e.lo / 1000 };
                        s.push(' '); s.push_str(&e.line.replacen("{}", &t.to_string(), 1));
                    } else { s.push(' '); s.push_str(&e.line); }
                }
                s.push_str(&format!(" NC {}", q));
                s
            };
            let mut c = Case::new(mk(false, (q_hi + 999) / 1000), if nr.is_some() { "some" } else { "none" }.to_string()).tag("next-refresh").tag("query");
            c.alt = Some(mk(true, q_lo / 1000));
            let due_sure: Vec<(u128, u128)> = st.iter().filter_map(|x| match x { St::Cached(_, _, rl, rh) if *rh < q_lo => Some((*rl, *rh)), _ => None }).collect();
            let due_maybe = st.iter().any(|x| matches!(x, St::Cached(_, _, rl, rh) if *rl < q_hi && *rh >= q_lo));
            match nr {
                None => { if !due_sure.is_empty() { c = c.fail("refresh-missed", "a cached record is past its refresh time but get_next_refresh returns None".into()); } }
                Some(x) => {
                    let xm = ms(x);
                    if xm > q_hi { c = c.fail("refresh-in-future", "get_next_refresh returned an instant that is not in the past".into()); }
                    let from_entry = st.iter().any(|s| matches!(s, St::Cached(_, _, rl, rh) if *rl <= xm && xm <= *rh));
                    if !from_entry { c = c.fail("refresh-time", format!("get_next_refresh returned {} us, which is not the refresh time of any cached record", xm)); }
                    if due_sure.iter().any(|(_, rh)| *rh < xm) && !due_maybe { c = c.fail("refresh-not-earliest", "an earlier due refresh time exists".into()); }
                    if due_sure.is_empty() && !due_maybe { c = c.fail("refresh-unexpected", "no cached record is due".into()); }
                }
            }
            if due_maybe { c = c.tag("oracle-inconclusive"); }
            out.push(c);
        }
    }
    out
}

pub fn c20(tier: &str, seed: u64) -> Vec<Case> {
    let (threads, steps, rounds) = if tier == "thorough" { (64usize, 9usize, 8usize) } else { (64, 8, 1) };
    let mut v = vec![];
    // the store is also written by the services' background refresh: the live case runs beside everything below
    let live = std::thread::spawn(|| crate::props::svc::live_vec_with_baseline("listeners with a short-lived record", &crate::props::svc::live_short_ttl));
    // the lifetime computed for every TTL (the histories below can only watch the first seconds of a life): a record
    // received with TTL t expires t seconds after it was received - every t up to two hours, then samples up to 2^32 - 1;
    // the refresh point is compared with the model
    {
        let mut ttls: Vec<u32> = (0..=7300).collect();
        for k in 0..400u32 { ttls.push(7300 + k * k * 37 + k); }
        for base in [65535u32, 86_400, 604_800, 1 << 24, (1 << 31) - 1, 1 << 31, u32::MAX - 9] { for d in 0..10 { ttls.push(base.saturating_add(d)); } }
        // ... and the same read back from the store after the record went in through `add_cached_resource` and through the
        // listener's ingestion (whatever happens to the TTL on the way in is part of the lifetime)
        let host = mk_name(&[b"life".to_vec(), b"local".to_vec()]);
        let svc_local = mk_name(&[b"local".to_vec()]);
        let own_local = mk_name(&[b"own".to_vec(), b"local".to_vec()]);
        for (k, t) in ttls.iter().enumerate() {
            if k % 7 != 0 && *t > 130 && *t < 7000 { continue; }
            let rr = ResourceRecord::new(host.clone(), CLASS::IN, *t, RData::A(A { address: 1 }));
            let mut mgr: ResourceRecordManager<'static> = ResourceRecordManager::new();
            let via = if k % 2 == 0 { mgr.add_cached_resource(rr.clone()); "add_cached_resource" } else {
                let mut p = Packet::new_reply(0);
                p.answers.push(rr.clone());
                let wire = p.build_bytes_vec_compressed().unwrap();
                let mut ch = None;
                simple_mdns::verif::sync_add_response_to_resources(Packet::parse(&wire).unwrap(), &svc_local, &own_local, &mut mgr, &mut ch);
                "the listener's ingestion"
            };
            let mut c = Case::oracle_only().tag("lifetime-in-store");
            match simple_mdns::verif::cached_offsets(&mgr, &rr) {
                None => { c = c.fail("cache-expiry", format!("a record with TTL {} stored through {} is not held as a cached record", t, via)); }
                Some((refresh, expire)) => {
                    if expire != *t as u64 { c = c.fail("cache-expiry", format!("a record received with TTL {} through {} is held for {} seconds", t, via, expire)); }
                    else if refresh > expire { c = c.fail("refresh-time", format!("TTL {}: refresh due after {} s, later than the expiry", t, refresh)); }
                }
            }
            v.push(c);
        }
        for t in ttls {
            let (refresh, expire) = simple_mdns::verif::expiration_offsets(t);
            let mut c = Case::new(format!("mdns.exp {}", t), format!("{} {}", refresh, expire)).tag("lifetime");
            if expire != t as u64 { c = c.fail("cache-expiry", format!("a record received with TTL {} is given a life of {} seconds", t, expire)); }
            else if refresh > expire { c = c.fail("refresh-time", format!("TTL {}: refresh due after {} s, later than the expiry", t, refresh)); }
            v.push(c);
        }
    }
    // a record that arrives with the cache-flush bit lives one second itself; what it means for the *other* cached records
    // of its name is not this library's business (it keeps them for their own TTL): two address records of one host, the
    // second arriving with the bit - 1.3 s later the first is still returned and the second is gone
    {
        let mut mgr: ResourceRecordManager<'static> = ResourceRecordManager::new();
        let host = mk_name(&[b"twin".to_vec(), b"local".to_vec()]);
        let first = ResourceRecord::new(host.clone(), CLASS::IN, 1000, RData::A(A { address: 1 }));
        let second = ResourceRecord::new(host.clone(), CLASS::IN, 1000, RData::A(A { address: 2 })).with_cache_flush(true);
        mgr.add_cached_resource(first.clone());
        mgr.add_cached_resource(second.clone());
        std::thread::sleep(Duration::from_millis(1300));
        let got: Vec<String> = mgr.get_domain_resources(&host, DomainResourceFilter::cached()).flatten().map(|r| text::rr(r)).collect();
        let mut c = Case::oracle_only().tag("flush-sibling");
        let has = |r: &ResourceRecord| got.iter().any(|g| g.ends_with(&text::rdata(&r.rdata)));
        if !has(&first) { c = c.fail("cache-expiry", "a cached record with TTL 1000 is gone 1.3 s after another record of its name and type arrived with the cache-flush bit".into()); }
        if has(&second) { c = c.fail("cache-expiry", "a record received with the cache-flush bit is still returned 1.3 s later".into()); }
        v.push(c);
    }
    // a busy name: eight records received with TTL 2, a ninth arriving 1.2 s later (past their refresh point, before their
    // expiry) - all nine are returned; and two TXT records of one name (TTL 4500, no cache-flush bit): the second arriving
    // does not take the first away (what RFC 6762 does with the cache-flush bit is not done without it)
    {
        let mut mgr: ResourceRecordManager<'static> = ResourceRecordManager::new();
        let host = mk_name(&[b"busy".to_vec(), b"local".to_vec()]);
        for k in 0..8u32 { mgr.add_cached_resource(ResourceRecord::new(host.clone(), CLASS::IN, 2, RData::A(A { address: k }))); }
        std::thread::sleep(Duration::from_millis(1200));
        mgr.add_cached_resource(ResourceRecord::new(host.clone(), CLASS::IN, 2, RData::A(A { address: 8 })));
        let got = mgr.get_domain_resources(&host, DomainResourceFilter::cached()).flatten().count();
        let mut c = Case::oracle_only().tag("busy-name");
        if got != 9 { c = c.fail("cache-expiry", format!("eight records of one name received with TTL 2 and a ninth 1.2 s later: {} of 9 returned by the cached filter at once", got)); }
        v.push(c);
        let mut mgr: ResourceRecordManager<'static> = ResourceRecordManager::new();
        let inst = mk_name(&[b"printer".to_vec(), b"_ipp".to_vec(), b"_tcp".to_vec(), b"local".to_vec()]);
        let svc = mk_name(&[b"_ipp".to_vec(), b"_tcp".to_vec(), b"local".to_vec()]);
        let own = mk_name(&[b"me".to_vec(), b"_ipp".to_vec(), b"_tcp".to_vec(), b"local".to_vec()]);
        let txt = |s: &str| -> ResourceRecord<'static> { ResourceRecord::new(inst.clone(), CLASS::IN, 4500, RData::TXT(simple_dns::rdata::TXT::new().with_string(s).unwrap())).into_owned() };
        let mut c = Case::oracle_only().tag("txt-siblings");
        for (k, via_network) in [false, true].iter().enumerate() {
            for (j, t) in ["paper=a4", "duplex=yes", "paper=a4"].iter().enumerate() {
                if *via_network {
                    let mut p = Packet::new_reply(0);
                    p.answers.push(txt(t));
                    let wire = p.build_bytes_vec_compressed().unwrap();
                    let mut ch = None;
                    simple_mdns::verif::sync_add_response_to_resources(Packet::parse(&wire).unwrap(), &svc, &own, &mut mgr, &mut ch);
                } else { mgr.add_cached_resource(txt(t)); }
                let got: Vec<String> = mgr.get_domain_resources(&inst, DomainResourceFilter::cached()).flatten().map(|r| text::rdata(&r.rdata)).collect();
                let want = if j == 0 && k == 0 { 1 } else { 2 };
                if got.len() != want { c = c.fail("cache-expiry", format!("TXT records of one name, TTL 4500, no cache-flush bit: after {} arrived ({}) {} TXT record(s) are returned instead of {}", t, if *via_network { "through the listener's ingestion" } else { "add_cached_resource" }, got.len(), want)); }
            }
        }
        v.push(c);
    }
    // a filter is a description of what is wanted, not a moment in time: built first and used later, it still judges
    // expiry by the clock at the time of the query
    {
        let mut mgr: ResourceRecordManager<'static> = ResourceRecordManager::new();
        let host = mk_name(&[b"early".to_vec(), b"local".to_vec()]);
        let (cached_filter, all_filter) = (DomainResourceFilter::cached(), DomainResourceFilter::all());
        let short = ResourceRecord::new(host.clone(), CLASS::IN, 1, RData::A(A { address: 1 }));
        let gone = ResourceRecord::new(host.clone(), CLASS::IN, 0, RData::A(A { address: 2 }));
        let long = ResourceRecord::new(host.clone(), CLASS::IN, 1000, RData::A(A { address: 3 }));
        std::thread::sleep(Duration::from_millis(20));
        mgr.add_cached_resource(short.clone());
        mgr.add_cached_resource(gone.clone());
        mgr.add_cached_resource(long.clone());
        std::thread::sleep(Duration::from_millis(1250));
        let mut c = Case::oracle_only().tag("filter-built-early");
        for (what, filter) in [("cached", cached_filter), ("all", all_filter)] {
            let got: Vec<String> = mgr.get_domain_resources(&host, filter).flatten().map(|r| text::rdata(&r.rdata)).collect();
            let want = vec![text::rdata(&long.rdata)];
            if got != want { c = c.fail("cache-expiry", format!("a {} filter built before the records were received returns {} record(s) 1.25 s after a TTL-0, a TTL-1 and a TTL-1000 record arrived (expected the last one only)", what, got.len())); }
        }
        v.push(c);
    }
    // many records under one name: all of them are kept (a host with dozens of addresses, a service type with dozens of
    // instances), cached and authoritative alike
    for n in [33usize, 40, 64, 300] {
        let mut mgr: ResourceRecordManager<'static> = ResourceRecordManager::new();
        let owner = mk_name(&[b"rack".to_vec(), b"local".to_vec()]);
        let mut line = String::from("mdns");
        for k in 0..n {
            let rr = ResourceRecord::new(owner.clone(), CLASS::IN, 3600, if k % 2 == 0 { RData::A(A { address: k as u32 }) } else { RData::AAAA(AAAA { address: k as u128 }) });
            if k % 3 == 2 { mgr.add_authoritative_resource(rr.clone()); line.push_str(&format!(" A {}", text::rr(&rr))); }
            else { mgr.add_cached_resource(rr.clone()); line.push_str(&format!(" C 0 {}", text::rr(&rr))); }
        }
        for (fname, filter, auth, cached) in [("cached", DomainResourceFilter::cached(), false, true), ("auth-exact", DomainResourceFilter::authoritative(false), true, false), ("all", DomainResourceFilter::all(), true, true)] {
            let got: Vec<String> = mgr.get_domain_resources(&owner, filter).flatten().map(|r| text::rr(r)).collect();
            let want = (0..n).filter(|k| if k % 3 == 2 { auth } else { cached }).count();
            let mut c = Case::new(format!("{} G {} {} {} {} 1", line, text::name(&owner), (fname != "auth-exact") as u8, auth as u8, cached as u8), sorted(got.clone())).tag("many-per-name").tag(fname);
            if got.len() != want { c = c.fail(if cached { "cache-expiry" } else { "auth-visibility" }, format!("{} records under one name, {} of them visible to the {} filter: {} returned", n, want, fname, got.len())); }
            v.push(c);
        }
    }
    // a record disappears only when IT is removed: taking one record away changes what no query says about the others -
    // also when it was the last one under its name and other records live below that name. Every subset of six records
    // (two authoritative and one cached at a parent name, an authoritative and a cached one below it, one elsewhere), every
    // removal of one or two of them in either order, every filter on every name (long TTLs: nothing expires meanwhile)
    {
        let nm = |ls: &[&[u8]]| mk_name(&ls.iter().map(|l| l.to_vec()).collect::<Vec<_>>());
        let (parent, child, other, root) = (nm(&[b"x", b"local"]), nm(&[b"y", b"x", b"local"]), nm(&[b"z", b"local"]), nm(&[b"local"]));
        let recs: Vec<(ResourceRecord<'static>, bool)> = vec![
            (ResourceRecord::new(parent.clone(), CLASS::IN, 4500, RData::A(A { address: 0 })), false),
            (ResourceRecord::new(parent.clone(), CLASS::IN, 4500, RData::A(A { address: 1 })), false),
            (ResourceRecord::new(child.clone(), CLASS::IN, 4500, RData::A(A { address: 2 })), false),
            (ResourceRecord::new(child.clone(), CLASS::IN, 4500, RData::A(A { address: 3 })), true),
            (ResourceRecord::new(other.clone(), CLASS::IN, 4500, RData::A(A { address: 4 })), false),
            (ResourceRecord::new(parent.clone(), CLASS::IN, 4500, RData::A(A { address: 5 })), true)];
        let queries = |mgr: &ResourceRecordManager<'static>| -> Vec<Vec<String>> {
            let mut out = vec![];
            for n in [&parent, &child, &other, &root] {
                for f in [DomainResourceFilter::authoritative(false), DomainResourceFilter::authoritative(true), DomainResourceFilter::cached(), DomainResourceFilter::all()] {
                    let mut got: Vec<String> = mgr.get_domain_resources(n, f).flatten().map(|r| text::rdata(&r.rdata)).collect();
                    got.sort();
                    out.push(got);
                }
            }
            out
        };
        let mut k = 0usize;
        for mask in 1u32..64 {
            let present: Vec<usize> = (0..6).filter(|i| mask >> i & 1 == 1).collect();
            let mut seqs: Vec<Vec<usize>> = present.iter().map(|i| vec![*i]).collect();
            for a in &present { for b in &present { if a != b { seqs.push(vec![*a, *b]); } } }
            for seq in seqs {
                k += 1;
                let mut mgr: ResourceRecordManager<'static> = ResourceRecordManager::new();
                let mut line = String::from("mdns");
                for i in &present {
                    if recs[*i].1 { mgr.add_cached_resource(recs[*i].0.clone()); line.push_str(&format!(" C 0 {}", text::rr(&recs[*i].0))); }
                    else { mgr.add_authoritative_resource(recs[*i].0.clone()); line.push_str(&format!(" A {}", text::rr(&recs[*i].0))); }
                }
                let mut bad: Option<String> = None;
                for gone in &seq {
                    let before = queries(&mgr);
                    mgr.remove_resource_record(&recs[*gone].0);
                    line.push_str(&format!(" R {}", text::rr(&recs[*gone].0)));
                    let after = queries(&mgr);
                    let gone_text = text::rdata(&recs[*gone].0.rdata);
                    for (b, a) in before.iter().zip(after.iter()) {
                        let want: Vec<&String> = b.iter().filter(|x| **x != gone_text).collect();
                        if want != a.iter().collect::<Vec<_>>() && bad.is_none() {
                            bad = Some(format!("records {:?} in the store; after record {} was removed a query that returned {} record(s) returns {} (expected {})", present, gone, b.len(), a.len(), want.len()));
                        }
                    }
                }
                // the final state against the model, one query per sequence
                let (qn, sub, auth, cached) = [(&parent, 1u8, 1u8, 0u8), (&parent, 1, 0, 1), (&root, 1, 1, 1), (&child, 0, 1, 0), (&parent, 1, 1, 1), (&other, 1, 1, 0)][k % 6];
                let filter = match (sub, auth, cached) { (0, _, _) => DomainResourceFilter::authoritative(false), (_, 1, 0) => DomainResourceFilter::authoritative(true), (_, 0, _) => DomainResourceFilter::cached(), _ => DomainResourceFilter::all() };
                let got: Vec<String> = mgr.get_domain_resources(qn, filter).flatten().map(|r| text::rr(r)).collect();
                let mut c = Case::new(format!("{} G {} {} {} {} 1", line, text::name(qn), sub, auth, cached), sorted(got)).tag("remove-leaves-the-others");
                if let Some(m) = bad { c = c.fail("removed-another-record", m); }
                v.push(c);
            }
        }
    }
    for round in 0..rounds {
        let handles: Vec<_> = (0..threads).map(|i| { let s = seed.wrapping_mul(1000).wrapping_add((round * threads + i) as u64); std::thread::spawn(move || history(s, steps)) }).collect();
        for h in handles { v.extend(h.join().unwrap()); }
    }
    if let Ok(cases) = live.join() { v.extend(cases); }
    v
}
