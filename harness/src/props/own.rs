//! C16 (owned copies, equality and hashing) and C12 (observers never panic).
use crate::core::*;
use crate::gen::{mk_name, Gen, KIND_NAMES, N_KINDS};
use crate::props::pk::hostile_messages;
use crate::rng::Rng;
use crate::text;
use simple_dns::rdata::RData;
use simple_dns::*;
use simple_mdns::InstanceInformation;
use std::collections::hash_map::DefaultHasher;
use std::collections::HashSet;
use std::hash::{Hash, Hasher};
use std::net::{IpAddr, Ipv4Addr, Ipv6Addr};

fn h<T: Hash>(x: &T) -> u64 {
    let mut s = DefaultHasher::new();
    x.hash(&mut s);
    s.finish()
}

fn plain_bytes(r: &ResourceRecord) -> Option<(Vec<u8>, Vec<u8>)> {
    let mut p = Packet::new_reply(1);
    p.answers.push(r.clone());
    Some((p.build_bytes_vec().ok()?, p.build_bytes_vec_compressed().ok()?))
}

/// `packet.into_owned()` if the library has such a method, whatever tree this is built against: an inherent method is
/// preferred to a trait method of the same name, so the fallback below is only reached when there is none
mod maybe_owned {
    use simple_dns::Packet;
    pub struct NoSuchMethod;
    pub trait Fallback { fn into_owned(self) -> NoSuchMethod; }
    impl<'a> Fallback for Packet<'a> { fn into_owned(self) -> NoSuchMethod { NoSuchMethod } }
    pub trait AsPacket { fn as_packet(self) -> Option<Packet<'static>>; }
    impl AsPacket for NoSuchMethod { fn as_packet(self) -> Option<Packet<'static>> { None } }
    impl AsPacket for Packet<'static> { fn as_packet(self) -> Option<Packet<'static>> { Some(self) } }
}

pub fn c16(tier: &str, seed: u64) -> Vec<Case> {
    let thorough = tier == "thorough";
    let mut g = Gen::new(seed);
    let mut v = vec![];
    // whole packets: a clone (and the owned copy, where the library offers one for packets) is the same message - header,
    // EDNS data, every section - judged on the bytes both serialisers emit for it
    {
        #[allow(unused_imports)]
        use maybe_owned::{AsPacket, Fallback};
        let mut gp = Gen::new(seed ^ 0x9AC);
        for k in 0..(if thorough { 2000 } else { 150 }) {
            let p = gp.packet(if k % 3 == 0 { 1 } else { 3 });
            let want = (p.build_bytes_vec().ok(), p.build_bytes_vec_compressed().ok());
            let mut c = Case::oracle_only().tag("packet-copy");
            let cl = p.clone();
            if (cl.build_bytes_vec().ok(), cl.build_bytes_vec_compressed().ok()) != want || text::packet(&cl) != text::packet(&p) { c = c.fail("into-owned-eq", "the clone of a packet serialises to other bytes".into()); }
            if let Some(o) = p.clone().into_owned().as_packet() {
                c = c.tag("packet-into-owned");
                if (o.build_bytes_vec().ok(), o.build_bytes_vec_compressed().ok()) != want || text::packet(&o) != text::packet(&p) { c = c.fail("into-owned-eq", format!("the owned copy of a packet is another message: {} / {}", text::packet(&p), text::packet(&o))); }
            }
            v.push(c);
        }
    }
    let reps = if thorough { 400 } else { 25 };
    for kind in 0..N_KINDS {
        for rep in 0..reps {
            let built = g.rr_of(kind);
            // the same record borrowed from a receive buffer
            let mut p = Packet::new_reply(1);
            p.answers.push(built.clone());
            let wire = p.build_bytes_vec_compressed().unwrap();
            let parsed_packet = Packet::parse(&wire).unwrap();
            let borrowed = parsed_packet.answers[0].clone();
            for (how, r) in [("built", &built), ("borrowed", &borrowed)] {
                let owned = r.clone().into_owned();
                let cloned = r.clone();
                let mut c = Case::new(format!("owned.rr {}", text::rr(r)), text::rr(&owned)).tag(&format!("type:{}", KIND_NAMES[kind])).tag(how);
                if text::rr(&owned) != text::rr(r) || text::rr(&cloned) != text::rr(r) { c = c.fail("into-owned-field", format!("{} {}: a field changed in into_owned/clone", how, KIND_NAMES[kind])); }
                if !(owned == *r) || !(cloned == *r) { c = c.fail("into-owned-eq", format!("{} {}: owned copy does not compare equal", how, KIND_NAMES[kind])); }
                if plain_bytes(&owned) != plain_bytes(r) { c = c.fail("into-owned-bytes", format!("{} {}: owned copy serialises differently", how, KIND_NAMES[kind])); }
                if owned.rdata.clone().into_owned() != r.rdata || owned.name.clone().into_owned() != r.name { c = c.fail("into-owned-part", format!("{}", KIND_NAMES[kind])); }
                if h(&owned) != h(r) || h(&owned.rdata) != h(&r.rdata) || h(&owned.name) != h(&r.name) { c = c.fail("owned-hash", format!("{} {}: equal values hash differently", how, KIND_NAMES[kind])); }
                v.push(c);
            }
            // equality ignores TTL and cache-flush, and so must hashing; different RDATA differs
            let mut other = built.clone();
            other.ttl = other.ttl.wrapping_add(1 + rep as u32);
            other.cache_flush = !other.cache_flush;
            let third = g.rr_of(kind);
            // the same record in another class is another record, for every kind (OPT included)
            let mut other_class = built.clone();
            other_class.class = if built.class == CLASS::IN { CLASS::CH } else { CLASS::IN };
            // near misses: the same record with one letter of its RDATA in the other case, or one bit of it flipped, as
            // read from the wire (names compare case-insensitively, nothing else does)
            let mut near: Vec<ResourceRecord<'static>> = vec![];
            if let Ok(plain) = p.build_bytes_vec() {
                if let Some(w) = crate::walker::walk(&plain) {
                    let e = &w.sections[0][0];
                    // (the owner name's octets too: a letter in another case is the same name, any other change another one)
                    let owner_end = 12 + simple_dns::verif::name_len(&built.name);
                    let letters: Vec<usize> = (12..owner_end.saturating_sub(1)).chain(e.rd_start..e.next()).filter(|i| plain[*i].is_ascii_alphabetic()).collect();
                    let mut tries: Vec<(usize, u8)> = vec![];
                    if !letters.is_empty() { for _ in 0..2 { tries.push((*g.rng.pick(&letters), 0x20)); } }
                    if e.next() > e.rd_start { tries.push((e.rd_start + g.rng.below((e.next() - e.rd_start) as u64) as usize, 1 << g.rng.below(8))); }
                    if owner_end > 14 { tries.push((13 + g.rng.below((owner_end - 14) as u64) as usize, 1 << g.rng.below(8))); }
                    for (at, bit) in tries {
                        let mut m = plain.clone();
                        m[at] ^= bit;
                        if let Ok(q) = Packet::parse(&m) { if q.answers.len() == 1 { near.push(q.answers[0].clone().into_owned()); } }
                    }
                }
            }
            let mut pairs: Vec<(&ResourceRecord, &ResourceRecord)> = vec![(&built, &other), (&built, &borrowed), (&built, &third), (&built, &other_class)];
            for n in &near { pairs.push((&borrowed, n)); }
            for (a, b) in pairs {
                let (eq, heq) = (a == b, h(a) == h(b));
                let mut set = HashSet::new();
                set.insert(a.clone());
                let mut c = Case::new(format!("hash.rr {} {}", text::rr(a), text::rr(b)), format!("{} {}", eq as u8, heq as u8)).tag("hash.rr");
                if eq && !heq { c = c.fail("eq-hash", format!("{}: equal records hash differently", KIND_NAMES[kind])); }
                if eq != set.contains(b) { c = c.fail("hashset-lookup", format!("{}", KIND_NAMES[kind])); }
                v.push(c);
            }
        }
    }
    // a TXT built from parts without any string, and names / records differing only in letter case
    {
        let t0 = ResourceRecord::new(Name::new_unchecked("t"), CLASS::IN, 0, RData::TXT(rdata::TXT::new()));
        let o = t0.clone().into_owned();
        let mut c = Case::new(format!("owned.rr {}", text::rr(&t0)), text::rr(&o)).tag("empty-txt");
        if !(o == t0) || h(&o) != h(&t0) || plain_bytes(&o) != plain_bytes(&t0) || o.rdata.clone().into_owned() != t0.rdata { c = c.fail("into-owned-eq", "TXT without strings: the owned copy differs".into()); }
        // the copy must stay usable: extend it and serialise
        if let (RData::TXT(mut a), RData::TXT(mut b)) = (o.rdata.clone(), t0.rdata.clone()) {
            a.add_char_string(crate::gen::mk_cs(b"x")); b.add_char_string(crate::gen::mk_cs(b"x"));
            let (ra, rb) = (ResourceRecord::new(Name::new_unchecked("t"), CLASS::IN, 0, RData::TXT(a)), ResourceRecord::new(Name::new_unchecked("t"), CLASS::IN, 0, RData::TXT(b)));
            if plain_bytes(&ra) != plain_bytes(&rb) { c = c.fail("into-owned-bytes", "TXT without strings: the extended owned copy serialises differently".into()); }
        }
        v.push(c);
    }
    // structure-level twins: the same character-strings in another order, or with one repeated, are other TXT values (the
    // order of the strings is on the wire) - they must not compare equal, and if they ever do they must hash alike
    for k in 0..(if thorough { 200 } else { 30 }) {
        let strings: Vec<Vec<u8>> = match k % 3 { 0 => vec![b"version=1".to_vec(), b"path=/".to_vec()], 1 => vec![b"a".to_vec(), b"b".to_vec(), b"c".to_vec()], _ => (0..g.rng.range(2, 4)).map(|_| g.cs_bytes()).collect() };
        let mut permuted = strings.clone();
        permuted.rotate_left(1);
        let mut repeated = strings.clone();
        repeated.push(strings[0].clone());
        let mk = |ss: &Vec<Vec<u8>>| { let mut t = rdata::TXT::new(); for x in ss { t.add_char_string(crate::gen::mk_cs(x)); } ResourceRecord::new(Name::new_unchecked("t.local"), CLASS::IN, 5, RData::TXT(t)) };
        let a = mk(&strings);
        for (what, other) in [("permuted", mk(&permuted)), ("repeated", mk(&repeated))] {
            let (eq, heq) = (a == other, h(&a) == h(&other));
            let mut set = HashSet::new();
            set.insert(a.clone());
            let mut c = Case::new(format!("hash.rr {} {}", text::rr(&a), text::rr(&other)), format!("{} {}", eq as u8, heq as u8)).tag("hash.rr").tag("txt-twins");
            if eq && !heq { c = c.fail("eq-hash", format!("TXT records with the same strings {} compare equal and hash differently", what)); }
            if eq != set.contains(&other) { c = c.fail("hashset-lookup", format!("TXT {}", what)); }
            if eq && permuted != strings && what == "permuted" && plain_bytes(&a) != plain_bytes(&other) { c = c.fail("eq-hash", "TXT records that serialise differently compare equal".into()); }
            v.push(c);
        }
    }
    // values in states the public fields allow but no parser produces: NSEC windows out of order or
    // repeated, OPT option codes repeated (the copy must be the same value: equal, same hash, same bytes)
    for k in 0..(if thorough { 400 } else { 40 }) {
        let rd = if k % 4 == 3 {
            let n = g.rng.range(2, 4);
            RData::OPT(rdata::OPT { opt_codes: (0..n).map(|_| rdata::OPTCode { code: g.rng.below(3) as u16, data: g.rng.bytes(2).into() }).collect(), udp_packet_size: 512, version: 0 })
        } else {
            let n = g.rng.range(2, 4);
            let mut maps: Vec<rdata::TypeBitMap> = (0..n).map(|_| { let l = g.rng.range(1, 4) as usize; rdata::TypeBitMap { window_block: g.rng.below(6) as u8, bitmap: g.rng.bytes(l).into() } }).collect();
            if k % 2 == 0 { maps.sort_by_key(|m| std::cmp::Reverse(m.window_block)); }
            RData::NSEC(rdata::NSEC { next_name: g.name(), type_bit_maps: maps })
        };
        let r = ResourceRecord::new(g.name(), CLASS::IN, 5, rd);
        let owned = r.clone().into_owned();
        let mut c = Case::new(format!("owned.rr {}", text::rr(&r)), text::rr(&owned)).tag("unnormalised-value");
        if text::rr(&owned) != text::rr(&r) { c = c.fail("into-owned-field", "a value with unordered / repeated entries is changed by into_owned".into()); }
        if !(owned == r) || owned.rdata.clone().into_owned() != r.rdata { c = c.fail("into-owned-eq", "a value with unordered / repeated entries: the owned copy does not compare equal".into()); }
        if h(&owned) != h(&r) || h(&owned.rdata) != h(&r.rdata) { c = c.fail("owned-hash", "a value with unordered / repeated entries: the owned copy hashes differently".into()); }
        let mut set = HashSet::new();
        set.insert(r.clone());
        if !set.contains(&owned) { c = c.fail("hashset-lookup", "the owned copy is not found in a set holding the original".into()); }
        v.push(c);
        // the same entries in another order: whatever equality says, hashing must agree with it
        let mut other = r.clone();
        match &mut other.rdata { RData::NSEC(n) => n.type_bit_maps.reverse(), RData::OPT(o) => o.opt_codes.reverse(), _ => {} }
        let (eq, heq) = (r == other, h(&r) == h(&other));
        let mut c = Case::new(format!("hash.rr {} {}", text::rr(&r), text::rr(&other)), format!("{} {}", eq as u8, heq as u8)).tag("hash.rr").tag("unnormalised-value");
        if eq && !heq { c = c.fail("eq-hash", "records whose entries are the same in another order compare equal but hash differently".into()); }
        if eq != set.contains(&other) { c = c.fail("hashset-lookup", "set membership disagrees with equality".into()); }
        v.push(c);
    }
    // values only the wire can produce (independent of the library's builders): reference encodings of
    // AliasMode SVCB / HTTPS records with parameters, NSEC with empty and zero-padded bitmaps, TXT with
    // empty strings, an OPT-typed record outside the additional section
    for rd_text in ["F 64 3 i 0 n 1 x61 t 2 1 x026832 3 x01bb", "F 65 3 i 0 n 2 x61 x62 t 1 3 x01bb", "F 64 3 i 0 n 0 t 0",
                    "F 47 2 n 1 x61 t 2 0 x 1 x00", "F 47 2 n 1 x61 t 2 0 x4000 3 x010000", "F 16 1 s 3 x61 x x62", "F 16 1 s 1 x", "O 512 0 1 10 x0102"] {
        let ptxt = format!("P 7 32768 0 0 o0 0 2 n 1 x74 1 5 0 F 1 1 i 9 n 1 x74 1 5 0 {} 0 0", rd_text);
        let (wire, _) = crate::refenc::encode_packet(&ptxt, crate::refenc::Compress::Never, false, None);
        let parsed = match std::panic::catch_unwind(|| Packet::parse(&wire).ok().map(|p| p.answers.into_iter().map(|r| (r.clone(), r.into_owned())).collect::<Vec<_>>())) {
            Ok(Some(x)) => x, _ => continue };
        for (orig, owned) in parsed {
            let mut c = Case::new(format!("owned.rr {}", text::rr(&orig)), text::rr(&owned)).tag("wire-only-value");
            if !(owned == orig) || text::rr(&owned) != text::rr(&orig) || h(&owned) != h(&orig) || h(&owned.rdata) != h(&orig.rdata) || plain_bytes(&owned) != plain_bytes(&orig) {
                c = c.fail("into-owned-eq", format!("the owned copy of a received record ({}) is another value", rd_text));
            }
            v.push(c);
        }
    }
    // values that say the same thing in two ways (one wire form for two values; trailing zero octets in a bitmap that name
    // no further type; an empty string against no string): whatever `==` says about a pair, hashing and set membership say
    // the same, in both directions
    {
        let rec = |typ: u16, rd: &[u8]| -> Vec<u8> { let mut b = vec![1u8, b't', 0]; b.extend_from_slice(&typ.to_be_bytes()); b.extend_from_slice(&[0, 1, 0, 0, 0, 5]); b.extend_from_slice(&(rd.len() as u16).to_be_bytes()); b.extend_from_slice(rd); b };
        let parsed = |typ: u16, rd: &[u8]| -> Option<ResourceRecord<'static>> { let b = rec(typ, rd); simple_dns::verif::parse_record_at(&b, 0).ok().map(|(r, _)| r.into_owned()) };
        let mut groups: Vec<(&str, Vec<ResourceRecord<'static>>)> = vec![];
        let mk = |rd: RData<'static>| ResourceRecord::new(Name::new_unchecked("t"), CLASS::IN, 5, rd);
        let mut txts = vec![mk(RData::TXT(rdata::TXT::new())), mk(RData::TXT({ let mut t = rdata::TXT::new(); t.add_char_string(crate::gen::mk_cs(b"")); t }))];
        txts.extend(parsed(16, &[0]));
        txts.extend(parsed(16, &[0, 0]));
        groups.push(("TXT without text", txts));
        let mut nsecs = vec![];
        for bm in [&[0u8, 2, 0x40, 0x01][..], &[0, 4, 0x40, 0x01, 0, 0], &[0, 3, 0x40, 0x01, 0], &[0, 2, 0x40, 0x01, 1, 1, 0], &[0, 2, 0x40, 0x01, 1, 0]] { let mut rd = vec![1u8, b'n', 0]; rd.extend_from_slice(bm); nsecs.extend(parsed(47, &rd)); }
        nsecs.push(mk(RData::NSEC(rdata::NSEC { next_name: Name::new_unchecked("n"), type_bit_maps: vec![rdata::TypeBitMap { window_block: 0, bitmap: vec![0x40u8, 0x01].into() }] })));
        nsecs.push(mk(RData::NSEC(rdata::NSEC { next_name: Name::new_unchecked("n"), type_bit_maps: vec![rdata::TypeBitMap { window_block: 0, bitmap: vec![0x40u8, 0x01, 0, 0, 0].into() }] })));
        groups.push(("NSEC bitmaps with and without trailing zero octets", nsecs));
        let mut wks = vec![];
        for bm in [&[0x80u8][..], &[0x80, 0], &[0x80, 0, 0, 0], &[]] { let mut rd = vec![10u8, 0, 0, 1, 6]; rd.extend_from_slice(bm); wks.extend(parsed(11, &rd)); }
        groups.push(("WKS bitmaps with and without trailing zero octets", wks));
        let mut nulls = vec![];
        nulls.extend(parsed(10, &[]));
        nulls.extend(parsed(10, &[0]));
        nulls.push(mk(RData::NULL(10, rdata::NULL::new(&[]).unwrap().into_owned())));
        nulls.push(mk(RData::Empty(TYPE::NULL)));
        groups.push(("NULL without data", nulls));
        for (what, recs) in &groups {
            let mut c = Case::oracle_only().tag("same-content-twins");
            if recs.len() < 3 { c = c.fail("eq-hash", format!("{}: the encodings are not all accepted", what)); }
            for a in recs { for b in recs {
                let (eq, heq) = (a == b, h(a) == h(b));
                let mut set = HashSet::new();
                set.insert(a.clone());
                if eq && !heq { c = c.fail("eq-hash", format!("{}: {:?} and {:?} compare equal but hash differently", what, a.rdata, b.rdata)); }
                if eq != set.contains(b) { c = c.fail("hashset-lookup", format!("{}: {:?} looked up by {:?}", what, a.rdata, b.rdata)); }
                if eq != (b == a) { c = c.fail("eq-hash", format!("{}: == is not symmetric", what)); }
                if (a.rdata == b.rdata) != eq || (a.rdata == b.rdata && h(&a.rdata) != h(&b.rdata)) { c = c.fail("eq-hash", format!("{}: the RDATA alone compares or hashes otherwise than the records", what)); }
            } }
            v.push(c);
        }
    }
    // values only construction from parts can produce: a supported type spelled as `Unknown(code)`, and
    // opaque data of length zero; equality, hashing, set membership and the owned copy must agree
    for code in [1u16, 2, 5, 12, 16, 28, 33, 41, 47, 64, 257, 9999] {
        let spelled = [TYPE::from(code), TYPE::Unknown(code)];
        let mut vals: Vec<RData<'static>> = spelled.iter().map(|t| RData::Empty(*t)).collect();
        vals.push(RData::NULL(code, rdata::NULL::new(&[]).unwrap().into_owned()));
        vals.push(RData::NULL(code, rdata::NULL::new(b"x").unwrap().into_owned()));
        let recs: Vec<ResourceRecord<'static>> = vals.into_iter().map(|rd| ResourceRecord::new(Name::new_unchecked("t"), CLASS::IN, 1, rd)).collect();
        for a in &recs {
            let owned = a.clone().into_owned();
            let mut c = Case::oracle_only().tag("aliased-values");
            if !(owned == *a) || h(&owned) != h(a) || format!("{:?}", owned.rdata) != format!("{:?}", a.rdata) { c = c.fail("into-owned-eq", format!("type code {}: the owned copy of a value built from parts is another value", code)); }
            for b in &recs {
                let (eq, heq) = (a == b, h(a) == h(b));
                let mut set = HashSet::new();
                set.insert(a.clone());
                if eq && !heq { c = c.fail("eq-hash", format!("type code {}: {:?} and {:?} compare equal but hash differently", code, a.rdata, b.rdata)); }
                if eq != set.contains(b) { c = c.fail("hashset-lookup", format!("type code {}: set membership disagrees with equality", code)); }
            }
            v.push(c);
        }
    }
    for (x, y) in [("Example.com", "example.com"), ("a.B.c", "a.b.c"), ("LOCAL", "local"), ("x.y", "x.y")] {
        let (na, nb) = (Name::new_unchecked(x).into_owned(), Name::new_unchecked(y).into_owned());
        let (eq, heq) = (na == nb, h(&na) == h(&nb));
        let mut c = Case::new(format!("hash.name {} {}", text::name(&na), text::name(&nb)), format!("{} {}", eq as u8, heq as u8)).tag("hash.name-case");
        if eq && !heq { c = c.fail("eq-hash", format!("names {:?} and {:?} compare equal but hash differently", x, y)); }
        v.push(c);
        let (ra, rb) = (ResourceRecord::new(na.clone(), CLASS::IN, 1, RData::PTR(rdata::PTR(nb.clone()))), ResourceRecord::new(nb.clone(), CLASS::IN, 2, RData::PTR(rdata::PTR(na.clone()))));
        let (eq, heq) = (ra == rb, h(&ra) == h(&rb));
        let mut set = HashSet::new(); set.insert(ra.clone());
        let mut c = Case::new(format!("hash.rr {} {}", text::rr(&ra), text::rr(&rb)), format!("{} {}", eq as u8, heq as u8)).tag("hash.rr-case");
        if eq && !heq { c = c.fail("eq-hash", "records whose names differ in case compare equal but hash differently".into()); }
        if eq != set.contains(&rb) { c = c.fail("hashset-lookup", "".into()); }
        v.push(c);
    }
    // questions
    for _ in 0..(if thorough { 2000 } else { 200 }) {
        let q = g.question();
        let o = q.clone().into_owned();
        let mut c = Case::new(format!("owned.q {}", text::question(&q)), text::question(&o)).tag("question");
        if text::question(&o) != text::question(&q) { c = c.fail("into-owned-field", "question".into()); }
        v.push(c);
    }
    // names: equal label vectors built differently
    let mut r = Rng::new(seed ^ 5);
    for _ in 0..(if thorough { 5000 } else { 500 }) {
        let a = g.labels();
        let b = if r.chance(1, 2) { a.clone() } else { g.labels() };
        let (na, nb) = (mk_name(&a), mk_name(&b));
        // the second one goes through the wire
        let nb2 = { let mut p = Packet::new_query(0); p.questions.push(Question::new(nb.clone(), TYPE::A.into(), CLASS::IN.into(), false)); let w = p.build_bytes_vec().unwrap(); Packet::parse(&w).unwrap().questions[0].qname.clone().into_owned() };
        let (eq, heq) = (na == nb2, h(&na) == h(&nb2));
        let mut c = Case::new(format!("hash.name {} {}", text::name(&na), text::name(&nb2)), format!("{} {}", eq as u8, heq as u8)).tag("hash.name");
        if eq && !heq { c = c.fail("eq-hash", "names".into()); }
        if eq != (a == b) { c = c.fail("name-eq", "".into()); }
        v.push(c);
    }
    // values that differ only in bits no wire field carries (NSAP: `aa` is a u32 of which 24 bits are written, `id` a
    // u64 of which 48 are): whatever `==` says about them, equal values must hash equally and be one key of a set
    for k in 0..(if thorough { 400 } else { 40 }) {
        use simple_dns::rdata::NSAP;
        let base = NSAP { afi: 0x47, idi: r.next() as u16, dfi: 1, aa: (r.next() as u32) & 0x00FF_FFFF, rsvd: 0, rd: r.next() as u16, area: r.next() as u16, id: r.next() & 0x0000_FFFF_FFFF_FFFF, sel: k as u8 };
        let mut other = base.clone();
        match k % 3 { 0 => other.aa |= 0x0100_0000 << (k % 8), 1 => other.id |= 1u64 << (48 + k % 16), _ => { other.aa |= 0x8000_0000; other.id |= 1u64 << 63; } }
        let ra = ResourceRecord::new(mk_name(&[b"n".to_vec()]), CLASS::IN, 1, RData::NSAP(base));
        let rb = ResourceRecord::new(mk_name(&[b"n".to_vec()]), CLASS::IN, 1, RData::NSAP(other));
        let eq = ra == rb;
        let heq = h(&ra) == h(&rb);
        let mut set = HashSet::new();
        set.insert(ra.clone());
        let mut c = Case::oracle_only().tag("beyond-wire-width");
        if eq && !heq { c = c.fail("eq-hash", "two NSAP records that differ only in bits beyond the 24 / 48 written ones compare equal but hash differently".into()); }
        if eq != set.contains(&rb) { c = c.fail("eq-hash", "NSAP: set membership disagrees with ==".into()); }
        if eq != (ra.rdata == rb.rdata) { c = c.fail("eq-hash", "NSAP: record and RDATA equality disagree".into()); }
        v.push(c);
    }
    // instance information built by inserting the same members in different orders
    for _ in 0..(if thorough { 4000 } else { 400 }) {
        let nips = r.below(5) as usize;
        let ips: Vec<IpAddr> = (0..nips).map(|_| match r.below(5) { 0 | 1 => IpAddr::V4(Ipv4Addr::from(r.below(6) as u32 + 0x0A000000)),
            // the IPv4-mapped and IPv4-compatible forms of the same addresses: distinct members that some orderings identify
            2 => IpAddr::V6(Ipv6Addr::from(r.below(6) as u128 + 0x0A000000u128 + (0xFFFFu128 << 32))),
            3 if r.chance(1, 3) => IpAddr::V6(Ipv6Addr::from(r.below(6) as u128 + 0x0A000000u128)),
            _ => IpAddr::V6(Ipv6Addr::from(r.below(6) as u128 + (0xFE80u128 << 112))) }).collect();
        let ports: Vec<u16> = (0..r.below(5)).map(|_| 8000 + r.below(6) as u16).collect();
        // names that need no escaping, and names that differ only by it (`a.b`, `a\.b`, `a\\.b`): equality and
        // hashing look at the stored name in the same way
        let name = match r.below(10) { 0 => "a.b".to_string(), 1 => "a\\.b".to_string(), 2 => "a\\\\.b".to_string(), 3 => "a\\b".to_string(), 8 => "Inst0".to_string(), 9 => "Büro Drucker".to_string(), _ => format!("inst{}", r.below(3)) };
        // the same attribute map inserted in ascending and in descending key order
        let nattr = *r.pick(&[0usize, 1, 2, 5, 16]);
        let attrs: Vec<(String, Option<String>)> = (0..nattr).map(|k| (format!("key{}", k), if k % 3 == 0 { None } else { Some(format!("v{}", k)) })).collect();
        let mk0 = |ips: &[IpAddr], ports: &[u16], nm: &str| { let mut i = InstanceInformation::new(nm.to_string()); for x in ips { i = i.with_ip_address(*x); } for p in ports { i = i.with_port(*p); } i };
        let mk = |ips: &[IpAddr], ports: &[u16], nm: &str| { let mut i = mk0(ips, ports, nm); for (k, val) in attrs.iter() { i = i.with_attribute(k.clone(), val.clone()); } i };
        let mk_rev = |ips: &[IpAddr], ports: &[u16], nm: &str| { let mut i = mk0(ips, ports, nm); for (k, val) in attrs.iter().rev() { i = i.with_attribute(k.clone(), val.clone()); } i };
        let a = mk(&ips, &ports, &name);
        let (mut ips2, mut ports2) = (ips.clone(), ports.clone());
        ips2.reverse(); ports2.rotate_left(ports.len().min(1));
        if r.chance(1, 4) { ports2.push(9); }
        // ... or only in the case of a letter, or by a trailing space: other names (instance names are compared as they are)
        let name2 = if r.chance(1, 8) { "other".to_string() } else if name.starts_with('a') && r.chance(1, 2) { r.pick(&["a.b", "a\\.b", "a\\\\.b", "a\\b"]).to_string() }
            else if r.chance(1, 5) { match r.below(4) { 0 => name.to_uppercase(), 1 => name.to_lowercase(), 2 => format!("{} ", name), _ => { let mut cs: Vec<char> = name.chars().collect(); if let Some(c0) = cs.first_mut() { *c0 = if c0.is_uppercase() { c0.to_ascii_lowercase() } else { c0.to_ascii_uppercase() }; } cs.into_iter().collect() } } }
            else { name.clone() };
        let b = mk_rev(&ips2, &ports2, &name2);
        // a third instance: the same name and members, one attribute key or value in another case (another map)
        if nattr > 0 && r.chance(1, 3) {
            let which = r.below(nattr as u64) as usize;
            let mut i3 = mk0(&ips, &ports, &name);
            let mut changed = false;
            for (k, (key, val)) in attrs.iter().enumerate() {
                if k == which { if val.is_some() && r.chance(1, 2) { i3 = i3.with_attribute(key.clone(), val.as_ref().map(|x| x.to_uppercase())); } else { i3 = i3.with_attribute(key.to_uppercase(), val.clone()); } changed = true; }
                else { i3 = i3.with_attribute(key.clone(), val.clone()); }
            }
            let (eq3, heq3) = (a == i3, h(&a) == h(&i3));
            let mut c3 = Case::oracle_only().tag("hash.inst-attr-case");
            if changed && eq3 { c3 = c3.fail("eq-hash-instance", "instances whose attribute maps differ in the case of a key or value compare equal".into()); }
            if eq3 && !heq3 { c3 = c3.fail("eq-hash-instance", "equal instance information hashes differently".into()); }
            let mut set3 = HashSet::new();
            set3.insert(a.clone());
            if eq3 != set3.contains(&i3) { c3 = c3.fail("hashset-lookup-instance", "".into()); }
            v.push(c3);
        }
        // the value discovery hands out: built from the records of the instance (`from_records`), it equals the one built
        // through the constructors, hashes like it and is found in a set holding it
        if !name.contains('.') && !name.contains('\\') && name.is_ascii() {
            let service = Name::new_unchecked("_own._tcp.local");
            if let Ok(full) = Name::new(&format!("{}._own._tcp.local", name)) {
                if let Ok(recs) = a.clone().into_records(&full.clone().into_owned(), 120) {
                    let recs: Vec<ResourceRecord<'static>> = recs.into_iter().map(|r| r.into_owned()).collect();
                    let mut c5 = Case::oracle_only().tag("hash.inst-from-records");
                    match simple_mdns::verif::instance_from_records(&service, recs.iter()) {
                        None => { c5 = c5.fail("eq-hash-instance", "from_records gives nothing for the records of an instance".into()); }
                        Some(d) => {
                            let same = d == a;
                            let mut set5 = HashSet::new();
                            set5.insert(a.clone());
                            if same && h(&d) != h(&a) { c5 = c5.fail("eq-hash-instance", "the instance built from records equals the constructed one and hashes differently".into()); }
                            if same != set5.contains(&d) { c5 = c5.fail("hashset-lookup-instance", "from_records".into()); }
                            if !same && !a.attributes.contains_key("") { c5 = c5.fail("eq-hash-instance", "the instance built from the records of an instance does not equal it".into()); }
                        }
                    }
                    v.push(c5);
                }
            }
        }
        let (eq, heq) = (a == b, h(&a) == h(&b));
        let show = |i: &InstanceInformation, nm: &str| {
            let mut s = text::hex(nm.as_bytes());
            s.push_str(&format!(" {}", i.ip_addresses.len()));
            for ip in &i.ip_addresses { match ip { IpAddr::V4(x) => s.push_str(&format!(" 0 {}", u32::from(*x))), IpAddr::V6(x) => s.push_str(&format!(" 1 {}", u128::from(*x))) } }
            s.push_str(&format!(" {}", i.ports.len()));
            for p in &i.ports { s.push_str(&format!(" {}", p)); }
            s
        };
        let mut c = Case::new(format!("hash.inst {} {}", show(&a, &name), show(&b, &name2)), format!("{} {}", eq as u8, heq as u8)).tag("hash.inst");
        if eq && !heq { c = c.fail("eq-hash-instance", "equal instance information hashes differently".into()); }
        let mut set = HashSet::new();
        set.insert(a.clone());
        if eq != set.contains(&b) { c = c.fail("hashset-lookup-instance", "".into()); }
        v.push(c);
    }
    v
}

/// every public observer applied to every part of a parsed packet; "ok", or what failed
/// a formatter sink that refuses after a few bytes: the error path of `Display` / `Debug` implementations
struct Tiny(usize);
impl std::fmt::Write for Tiny {
    fn write_str(&mut self, s: &str) -> std::fmt::Result { if s.len() > self.0 { self.0 = 0; Err(std::fmt::Error) } else { self.0 -= s.len(); Ok(()) } }
}

/// every way a caller may ask for a value's text: plain, with precision / width / alignment / sign / alternate flags,
/// and into sinks that give up after 0, 3 or 16 bytes (a fixed log line): an `Err` is fine, a panic is not
fn format_every_way<T: std::fmt::Display + std::fmt::Debug>(x: &T) {
    use std::fmt::Write;
    let _ = (format!("{}", x), format!("{:?}", x), format!("{:#?}", x), format!("{:.0}", x), format!("{:.1}", x), format!("{:.4}", x), format!("{:.300}", x));
    let _ = (format!("{:>8}", x), format!("{:<3}", x), format!("{:^40.3}", x), format!("{:*>12.5}", x), format!("{:#}", x), format!("{:08}", x), format!("{:+}", x));
    let _ = (format!("{:.2?}", x), format!("{:30?}", x), format!("{:<#12.3?}", x));
    for room in [0usize, 3, 16] { let mut t = Tiny(room); let _ = write!(t, "{}", x); let mut t = Tiny(room); let _ = write!(t, "{:?}", x); let mut t = Tiny(room); let _ = write!(t, "{:.3}", x); }
}

fn observe(p: &Packet) -> std::result::Result<(), String> {
    let try_it = |what: &str, f: &dyn Fn()| -> std::result::Result<(), String> {
        std::panic::catch_unwind(std::panic::AssertUnwindSafe(f)).map_err(|_| what.to_string())
    };
    try_it("debug-packet-sink", &|| { use std::fmt::Write; for room in [0usize, 10, 100] { let mut t = Tiny(room); let _ = write!(t, "{:?}", p); let mut t = Tiny(room); let _ = write!(t, "{:#?}", p); } })?;
    try_it("debug-packet", &|| { let _ = format!("{:?}", p); })?;
    try_it("clone-packet", &|| { let _ = p.clone(); })?;
    for q in &p.questions {
        try_it("display-name", &|| { let _ = format!("{} {:?}", q.qname, q.qname); })?;
        try_it("format-name", &|| { format_every_way(&q.qname); })?;
        try_it("question-owned", &|| { let o = q.clone().into_owned(); let _ = format!("{:?}", o); let _ = h(&o.qname) == h(&q.qname); })?;
    }
    try_it("opt-owned", &|| { if let Some(o) = p.opt() { let c = o.clone().into_owned(); let _ = format!("{:?} {:?}", o, c); } })?;
    // equality and hashing between DIFFERENT parts of the packet (not only a value and its own copy)
    try_it("compare-different", &|| {
        let all: Vec<&ResourceRecord> = p.answers.iter().chain(p.name_servers.iter()).chain(p.additional_records.iter()).collect();
        for (i, a) in all.iter().enumerate().take(6) { for b in all.iter().skip(i).take(6) { let _ = (a == b, a.rdata == b.rdata, a.name == b.name, h(*a) == h(*b)); } }
        for a in &p.questions { for r in all.iter().take(4) { let _ = a.qname == r.name; } }
    })?;
    for r in p.answers.iter().chain(p.name_servers.iter()).chain(p.additional_records.iter()) {
        try_it("display-name", &|| { let _ = format!("{} {:?} {}", r.name, r.name, r.name.to_string()); for l in r.name.get_labels() { let _ = format!("{} {:?}", l, l); } })?;
        try_it("format-name", &|| { format_every_way(&r.name); for l in r.name.get_labels() { format_every_way(l); } })?;
        try_it("debug-record", &|| { let _ = format!("{:?} {:?}", r, r.rdata); })?;
        // the text of the first label is what service discovery shows as the instance name, with and without escapes
        try_it("instance-name", &|| { if let Some(l) = r.name.get_labels().first() { for text in [l.to_string(), r.name.to_string()] { let i = simple_mdns::InstanceInformation::new(text); let _ = (i.escaped_instance_name(), i.unescaped_instance_name(), format!("{:?}", i)); } } })?;
        try_it("into-owned", &|| { let o = r.clone().into_owned(); let _ = o == *r; let _ = h(&o); let _ = h(&o.rdata); })?;
        // ... against questions the caller builds itself (any type the constructors admit, the special ones, every class)
        try_it("match-built-question", &|| { for code in [1u16, 12, 16, 33, 41, 47, 52, 99, 249, 250, 65280, 65535] { let _ = r.match_qtype(QTYPE::TYPE(TYPE::from(code))); } for q in [QTYPE::ANY, QTYPE::AXFR, QTYPE::IXFR, QTYPE::MAILA, QTYPE::MAILB] { let _ = r.match_qtype(q); } for c in [QCLASS::ANY, QCLASS::CLASS(CLASS::IN), QCLASS::CLASS(CLASS::CH), QCLASS::CLASS(CLASS::NONE)] { let _ = r.match_qclass(c); } let root = Name::new_unchecked(""); let _ = (r.name.is_subdomain_of(&root), r.name.without(&root), root.is_subdomain_of(&r.name), root.without(&r.name)); })?;
        try_it("name-relations", &|| { let _ = r.name.is_link_local(); for q in &p.questions { let _ = r.name.is_subdomain_of(&q.qname); let _ = r.name.without(&q.qname); let _ = r.match_qtype(q.qtype); let _ = r.match_qclass(q.qclass); } })?;
        match &r.rdata {
            RData::TXT(t) => {
                try_it("txt-attributes", &|| { let _ = t.attributes(); })?;
                // a conversion that cannot succeed reports an error: the report itself can be shown to a user or logged
                try_it("txt-long-attributes", &|| { if let Err(e) = t.clone().long_attributes() { let _ = (format!("{}", e), format!("{:?}", e), e.to_string()); } })?;
                try_it("txt-to-string", &|| { if let Err(e) = String::try_from(t.clone()) { let _ = (format!("{}", e), format!("{:?}", e)); } })?;
            }
            RData::HINFO(x) => { try_it("charstr", &|| { let _ = format!("{} {:?}", x.cpu, x.os); for cs in [&x.cpu, &x.os] { if let Err(e) = String::try_from(cs.clone()) { let _ = (format!("{}", e), format!("{:?}", e), e.to_string()); } } })?; try_it("format-charstr", &|| { format_every_way(&x.cpu); format_every_way(&x.os); })?; }
            RData::NAPTR(x) => { try_it("charstr", &|| { let _ = format!("{} {} {}", x.flags, x.services, x.regexp); for cs in [&x.flags, &x.services, &x.regexp] { if let Err(e) = String::try_from(cs.clone()) { let _ = (format!("{}", e), format!("{:?}", e)); } } })?; }
            RData::CAA(x) => { try_it("charstr", &|| { let _ = format!("{}", x.tag); if let Err(e) = String::try_from(x.tag.clone()) { let _ = format!("{} {:?}", e, e); } })?; }
            RData::ISDN(x) => { try_it("charstr", &|| { let _ = format!("{} {}", x.address, x.sa); for cs in [&x.address, &x.sa] { if let Err(e) = String::try_from(cs.clone()) { let _ = format!("{} {:?}", e, e); } } })?; }
            RData::SVCB(x) => { try_it("svcb-params", &|| { for (k, val) in x.iter_params() { let _ = (k, val.len()); } let _ = x.get_param(1); })?; }
            RData::HTTPS(x) => { try_it("svcb-params", &|| { for (k, val) in x.0.iter_params() { let _ = (k, val.len()); } let _ = x.0.get_param(1); let _ = x.0.get_param(65535); })?; }
            _ => {}
        }
    }
    Ok(())
}

pub fn c12(tier: &str, seed: u64) -> Vec<Case> {
    let thorough = tier == "thorough";
    let mut g = Gen::new(seed ^ 0x1212);
    let mut v = vec![];
    // parser-accepted inputs biased to arbitrary bytes in labels and strings
    let mut inputs: Vec<(Vec<u8>, String)> = hostile_messages(tier, seed ^ 0xC12).into_iter().filter(|(b, _)| b.len() < 3000).collect();
    let n = if thorough { 20000 } else { 1500 };
    for _ in 0..n {
        g.share = 2; // mostly hostile labels
        let p = g.packet(3);
        if let Ok(b) = p.build_bytes_vec_compressed() { if b.len() < 3000 { inputs.push((b, "hostile-labels".to_string())); } }
    }
    // tiny TXT contents (quotes, separators, NUL, invalid UTF-8), whole and split
    for strings in crate::props::c19::tiny_txt_contents() {
        let mut t = rdata::TXT::new();
        for s in &strings { t.add_char_string(crate::gen::mk_cs(s)); }
        let mut p = Packet::new_reply(3);
        p.answers.push(ResourceRecord::new(Name::new_unchecked("t"), CLASS::IN, 0, RData::TXT(t)));
        if let Ok(b) = p.build_bytes_vec() { inputs.push((b, "tiny-txt".to_string())); }
    }
    // labels that look like several labels once rendered (dots, escapes inside a label), against names
    // whose labels are those pieces: the relations between names are evaluated on every pair
    {
        let labels: [&[u8]; 13] = [b"a.b.c", b"b", b"c", b"a", b"b.c", b"office._tcp.local", b"_tcp", b"local", b"x.y\\z", b"Files on C:\\", b"Caf\\\xc3\xa9", b"x\\\xff", b"\\"];
        let mut names: Vec<Vec<Vec<u8>>> = vec![vec![]];
        for l in labels { names.push(vec![l.to_vec()]); }
        for l in labels { for m in labels { names.push(vec![l.to_vec(), m.to_vec()]); } }
        names.push(vec![b"a".to_vec(), b"b".to_vec(), b"c".to_vec()]);
        names.push(vec![b"office".to_vec(), b"_tcp".to_vec(), b"local".to_vec()]);
        // labels that hold what other tools print as escape sequences (`\032` for a space, `\.`), valid and not: to this
        // library they are characters like any other
        for l in [&b"My\\032Printer"[..], b"Printer\\999", b"a\\256b", b"\\25", b"\\1", b"\\000", b"x\\03", b"\\\\032", b"tail\\", b"\\x20", b"%20", b"\\u0041", b"a\\.b\\.c", b"\\255\\255"] {
            names.push(vec![l.to_vec()]);
            names.push(vec![l.to_vec(), b"_ipp".to_vec(), b"_tcp".to_vec(), b"local".to_vec()]);
        }
        // names ending in labels that code is apt to special-case, with few and many labels
        for tail in [&b"arpa"[..], b"ARPA", b"local", b"LOCAL", b"in-addr", b"ip6", b"_services", b"_dns-sd", b"_udp", b"localhost", b"invalid", b"test"] {
            names.push(vec![tail.to_vec()]);
            names.push(vec![b"home".to_vec(), tail.to_vec()]);
            names.push(vec![b"10".to_vec(), b"in-addr".to_vec(), tail.to_vec()]);
            names.push(vec![b"254".to_vec(), b"169".to_vec(), b"in-addr".to_vec(), tail.to_vec()]);
            names.push(vec![b"1".to_vec(), b"0".to_vec(), b"254".to_vec(), b"169".to_vec(), b"in-addr".to_vec(), tail.to_vec()]);
        }
        for n in names.iter() {
            for m in names.iter() {
                let mut p = Packet::new_reply(5);
                p.questions.push(Question::new(mk_name(m), TYPE::A.into(), CLASS::IN.into(), false));
                p.answers.push(ResourceRecord::new(mk_name(n), CLASS::IN, 1, RData::A(rdata::A { address: 1 })));
                if let Ok(b) = p.build_bytes_vec() { inputs.push((b, "dotted-labels".to_string())); }
            }
        }
    }
    // maximal lengths: TXT records of many full character-strings (up to the RDLENGTH limit), key/value text and
    // arbitrary bytes; opaque fields of tens of kilobytes; names of 127 labels and of four 63-octet labels
    {
        let mut r = crate::rng::Rng::new(seed ^ 0xB16);
        let counts: &[usize] = if thorough { &[6, 7, 8, 9, 10, 11, 12, 16, 17, 33, 64, 65, 128, 129, 200, 255] } else { &[7, 8, 9, 10, 17, 65, 255] };
        for &n in counts {
            for style in 0..4 {
                let mut t = rdata::TXT::new();
                for k in 0..n {
                    let len = if style == 3 { r.below(256) as usize } else { 255 };
                    let mut sbytes: Vec<u8> = match style { 0 => format!("key{}=", k).into_bytes(), 1 => vec![], _ => "é=".as_bytes().to_vec() };
                    while sbytes.len() < len { sbytes.push(match style { 0 => b'v', 1 => r.next() as u8, _ => [0xC3u8, 0xA9, b';', b'='][sbytes.len() % 4] }); }
                    sbytes.truncate(len);
                    t.add_char_string(crate::gen::mk_cs(&sbytes));
                }
                let mut p = Packet::new_reply(3);
                p.answers.push(ResourceRecord::new(Name::new_unchecked("t"), CLASS::IN, 0, RData::TXT(t)));
                if let Ok(b) = p.build_bytes_vec() { inputs.push((b, "large-txt".to_string())); }
            }
        }
        // many short strings whose keys differ only in letter case, between other keys, in no particular order (what
        // a comparison or a hash that looks at the attribute keys meets): two such records in one message
        for &n in &[21usize, 22, 24, 33, 40, 64, 100, 200] {
            for rep in 0..(if thorough { 6 } else { 2 }) {
                let pool: [&[u8]; 20] = [b"k=1", b"K=2", b"a=", b"B", b"b=x", b"A", b"kk=", b"Kk=1", b"kK", b"zz=9", b"m", b"M=", b"Zz", b"z", b"=x", b"", b"ab=1", b"aB=2", b"Ab", b"AB=3"];
                let mut p = Packet::new_reply(6);
                for which in 0..2 {
                    let mut t = rdata::TXT::new();
                    for k in 0..n { t.add_char_string(crate::gen::mk_cs(pool[if rep == 0 && which == 0 { (k * 7 + k / 3) % pool.len() } else { r.below(pool.len() as u64) as usize }])); }
                    p.answers.push(ResourceRecord::new(Name::new_unchecked("t"), CLASS::IN, which, RData::TXT(t)));
                }
                if let Ok(b) = p.build_bytes_vec() { inputs.push((b, "txt-case-keys".to_string())); }
            }
        }
        for size in [3000usize, 20000, 65000] {
            let blob = r.bytes(size);
            for rd in [RData::NULL(10, rdata::NULL::new(&blob).unwrap()).into_owned(), RData::NULL(65280, rdata::NULL::new(&blob).unwrap()).into_owned(),
                       RData::CAA(rdata::CAA { flag: 0, tag: crate::gen::mk_cs(b"issue"), value: blob.clone().into() }), RData::DNSKEY(rdata::DNSKEY { flags: 257, protocol: 3, algorithm: 8, public_key: blob.clone().into() })] {
                let mut p = Packet::new_reply(4);
                p.answers.push(ResourceRecord::new(Name::new_unchecked("big"), CLASS::IN, 0, rd));
                if let Ok(b) = p.build_bytes_vec() { inputs.push((b, "large-opaque".to_string())); }
            }
        }
        let deep: Vec<Vec<u8>> = (0..127).map(|k| vec![[b'a', 0xFF, b'.', b'\\'][k % 4]]).collect();
        let wide: Vec<Vec<u8>> = (0..3).map(|k| vec![[0xFEu8, b'.', b'x'][k]; 63]).chain([vec![b'\\'; 61]]).collect();
        for labels in [deep, wide] {
            let mut p = Packet::new_reply(5);
            p.questions.push(Question::new(mk_name(&labels), TYPE::A.into(), CLASS::IN.into(), false));
            p.answers.push(ResourceRecord::new(mk_name(&labels), CLASS::IN, 1, RData::PTR(rdata::PTR(mk_name(&labels)))));
            p.answers.push(ResourceRecord::new(mk_name(&labels[1..]), CLASS::IN, 1, RData::SRV(rdata::SRV { priority: 0, weight: 0, port: 1, target: mk_name(&labels) })));
            if let Ok(b) = p.build_bytes_vec() { inputs.push((b, "large-names".to_string())); }
        }
    }
    for (b, tag) in inputs {
        let parsed = std::panic::catch_unwind(|| Packet::parse(&b).ok()).unwrap_or(None);
        let p = match parsed { Some(p) => p, None => continue };
        watch(&format!("observe {}", text::hex(&b[..b.len().min(4000)])));
        let res = observe(&p);
        let out = match &res { Ok(()) => "ok".to_string(), Err(_) => "panic".to_string() };
        let mut c = Case::new(format!("observe {}", text::hex(&b)), out).proj(Proj::NoPanic).tag(&tag);
        if b.len() > 6000 { c.proj = Proj::None; c.op = String::new(); }
        if let Err(what) = res { c = c.fail(&format!("observer-panic-{}", what), format!("{} panicked on a parsed packet", what)); }
        // conversions that cannot succeed report an error or a lossy rendering; valid UTF-8 renders exactly
        for r in p.answers.iter() {
            for l in r.name.get_labels() {
                if let Ok(s) = std::str::from_utf8(l.as_bytes()) { if format!("{}", l) != s { c = c.fail("display-inexact", "label".into()); } }
            }
            if let RData::HINFO(x) = &r.rdata {
                let bytes = simple_dns::verif::character_string_bytes(&x.cpu).to_vec();
                let conv = String::try_from(x.cpu.clone());
                if conv.is_ok() != std::str::from_utf8(&bytes).is_ok() { c = c.fail("try-from-utf8", "String::try_from(CharacterString) must fail exactly on invalid UTF-8".into()); }
            }
        }
        v.push(c);
    }
    v
}
