//! C17 — textual name API: bounded-exhaustive strings, label and name length boundaries, all pairs
//! of small names for the suffix relations.
use crate::core::*;
use crate::text;
use simple_dns::*;

/// the label grammar of the property, written from its statement
fn label_ok(l: &[u8]) -> bool {
    let alnum = |c: u8| c.is_ascii_alphanumeric();
    !l.is_empty()
        && l.len() <= 63
        && (alnum(l[0]) || l[0] == b'_')
        && l[1..].iter().all(|c| alnum(*c) || *c == b'-' || *c == b'_')
        && alnum(l[l.len() - 1])
}
fn pieces(s: &[u8]) -> Vec<Vec<u8>> {
    s.split(|c| *c == b'.').filter(|p| !p.is_empty()).map(|p| p.to_vec()).collect()
}
fn text_ok(s: &[u8]) -> bool {
    let ps = pieces(s);
    ps.iter().all(|p| label_ok(p)) && ps.iter().map(|p| p.len() + 1).sum::<usize>() + 1 <= 255
}

fn new_case(s: &str, tag: &str) -> Case {
    let ss = s.to_string();
    let out = guard(move || match Name::new(&ss) {
        Ok(n) => format!("ok {} {}", text::name(&n), text::hex(n.to_string().as_bytes())),
        Err(_) => "err".to_string(),
    });
    let mut c = Case::new(format!("name.new {}", text::hex(s.as_bytes())), out.clone()).tag(tag).tag(&format!("outcome:{}", class_of(&out)));
    let want = text_ok(s.as_bytes());
    match Name::new(s) {
        Ok(n) => {
            let labels: Vec<Vec<u8>> = n.get_labels().iter().map(|l| l.as_bytes().to_vec()).collect();
            let norm = pieces(s.as_bytes()).join(&b'.');
            if !want { c = c.fail("name-accepted", format!("{:?} accepted although it breaks the label grammar", s)); }
            else if labels != pieces(s.as_bytes()) { c = c.fail("name-labels", format!("{:?}", s)); }
            else if n.to_string().as_bytes() != &norm[..] { c = c.fail("name-display", format!("{:?} displays as {:?}", s, n.to_string())); }
            else {
                let d = n.to_string();
                match Name::new(&d) { Ok(m) if m == n => {}, _ => { c = c.fail("name-recreate", format!("{:?}", s)); } }
            }
            // the other constructors of the same text / the same labels give the same name
            use std::convert::TryFrom;
            match Name::try_from(s) { Ok(m) if m == n => {}, _ => { c = c.fail("name-try-from", format!("Name::try_from({:?}) differs from Name::new", s)); } }
            let ls = n.get_labels().to_vec();
            let from_labels = Name::from(&ls[..]);
            if from_labels != n || from_labels.to_string() != n.to_string() || Name::new_with_labels(&ls) != n { c = c.fail("name-from-labels", format!("the name made of the labels of {:?} is another name", s)); }
            if n.get_labels().iter().any(|l| l.is_empty() || l.len() != l.as_bytes().len()) { c = c.fail("label-len", format!("{:?}", s)); }
        }
        Err(_) => {
            if want { c = c.fail("name-rejected", format!("{:?} rejected although it satisfies the label grammar", s)); }
            use std::convert::TryFrom;
            if Name::try_from(s).is_ok() { c = c.fail("name-try-from", format!("Name::try_from({:?}) accepts what Name::new rejects", s)); }
        }
    }
    c
}

pub fn cases(tier: &str, _seed: u64) -> Vec<Case> {
    let mut v = vec![];
    let alpha = ["a", "A", "1", "-", "_", ".", "\\", "é"];
    let max = if tier == "thorough" { 7 } else { 6 };
    for len in 0..=max {
        let total = alpha.len().pow(len as u32);
        for mut code in 0..total {
            let mut s = String::new();
            for _ in 0..len { s.push_str(alpha[code % alpha.len()]); code /= alpha.len(); }
            v.push(new_case(&s, "exhaustive"));
        }
    }
    // one non-ASCII character at a time among a few ASCII ones: every character of the Latin-1 supplement
    // (thorough: up to U+024F, Greek, the Euro sign, an emoji) in every position of every short string. The bytes
    // of some of them look like letters or digits when read one by one (c3 bc, c2 b5, c2 aa ...)
    let upper = if tier == "thorough" { 0x24F } else { 0xFF };
    let mut specials: Vec<String> = (0x80u32..=upper).filter_map(char::from_u32).map(|c| c.to_string()).collect();
    for c in ['λ', 'я', '€', '\u{1F600}', '\u{FF21}', '\u{0660}'] { specials.push(c.to_string()); }
    for x in &specials {
        let alpha2 = ["a", "1", "-", "_", ".", x.as_str()];
        for len in 1..=4usize {
            let total = alpha2.len().pow(len as u32);
            for mut code in 0..total {
                let mut st = String::new();
                let mut has = false;
                for _ in 0..len { let k = code % alpha2.len(); has |= k == 5; st.push_str(alpha2[k]); code /= alpha2.len(); }
                if has { v.push(new_case(&st, "non-ascii")); }
            }
        }
    }
    // label lengths 0..70, with and without neighbours
    for n in 0..=70usize {
        let l = "x".repeat(n);
        v.push(new_case(&l, "label-length"));
        v.push(new_case(&format!("{}.com", l), "label-length"));
        v.push(new_case(&format!("a.{}", l), "label-length"));
        // Label::new directly
        let lb = l.clone().into_bytes();
        let out = guard(move || match Label::new(lb) { Ok(x) => format!("ok {}", text::hex(x.as_bytes())), Err(_) => "err".to_string() });
        let mut c = Case::new(format!("label.new {}", text::hex(l.as_bytes())), out.clone()).tag("label.new");
        if (class_of(&out) == "ok") != label_ok(l.as_bytes()) { c = c.fail("label-grammar", format!("label of {} bytes", n)); }
        v.push(c);
    }
    for l in ["_", "_a", "a_", "a-", "-a", "a-b", "a_b", "_a-b_c9", "9", "a.b", "a b", "ä", "A-", "a--b"] {
        let lb = l.as_bytes().to_vec();
        let out = guard(move || match Label::new(lb) { Ok(x) => format!("ok {}", text::hex(x.as_bytes())), Err(_) => "err".to_string() });
        let mut c = Case::new(format!("label.new {}", text::hex(l.as_bytes())), out.clone()).tag("label.new");
        if (class_of(&out) == "ok") != label_ok(l.as_bytes()) { c = c.fail("label-grammar", format!("label {:?}", l)); }
        v.push(c);
    }
    // the class of the first, of the inner and of the last character crossed with every label length 1..=64: a rule that
    // looks at a label's length AND at how it begins or ends (service labels `_name`, digit labels) shows; as text, with a
    // neighbour, and through Label::new
    for n in 1..=64usize {
        for first in ["_", "a", "Z", "7", "-"] {
            for inner in ["x", "-", "_", "0"] {
                for last in ["z", "9", "_", "-"] {
                    let mut l = String::from(first);
                    while l.len() + 1 < n { l.push_str(inner); }
                    if n >= 2 { l.push_str(last); }
                    if l.len() != n { continue; }
                    v.push(new_case(&l, "label-shape"));
                    v.push(new_case(&format!("{}._udp.local", l), "label-shape"));
                    let lb = l.clone().into_bytes();
                    let out = guard(move || match Label::new(lb) { Ok(x) => format!("ok {}", text::hex(x.as_bytes())), Err(_) => "err".to_string() });
                    let mut c = Case::new(format!("label.new {}", text::hex(l.as_bytes())), out.clone()).tag("label.new").tag("label-shape");
                    if (class_of(&out) == "ok") != label_ok(l.as_bytes()) { c = c.fail("label-grammar", format!("label {:?}", l)); }
                    v.push(c);
                }
            }
        }
    }
    // names that look like something else: dotted quads and other all-digit names, reverse-lookup names, service names
    // as registered with IANA, punycode, a version string, with and without the final dot
    for s in ["1.1.1.1", "10.0.0.1", "192.168.1.20", "1.0.0.127", "127.0.0.1", "255.255.255.255", "256.1.1.1", "1.2.3", "1.2.3.4.5", "0.0.0.0", "8.8.8.8.in-addr.arpa", "1.0.0.127.in-addr.arpa",
              "b.a.9.8.ip6.arpa", "_matter-commissionable01._udp.local", "_googlecast._tcp.local", "_services._dns-sd._udp.local", "_a234567890123456._tcp.local", "_a23456789012345._tcp.local",
              "xn--bcher-kva.example", "xn--", "aa--a.example", "v1.2.3", "2001.db8", "localhost", "local", "0", "00", "0x10.1", "1e3.5"] {
        v.push(new_case(s, "looks-like"));
        v.push(new_case(&format!("{}.", s), "looks-like"));
    }
    // every ASCII character (controls, space, punctuation, `*`, `@`, `~`, DEL ...) alone and in the first, an inner and
    // the last place of a label, as text and through Label::new; all bytes 0x80..0xFF through Label::new
    for ch in 0u8..128 {
        let c = ch as char;
        for s in [format!("{}", c), format!("a{}", c), format!("{}a", c), format!("a{}a", c), format!("{}.a", c), format!("a.{}", c), format!("a{}.b{}b.{}c", c, c, c)] {
            v.push(new_case(&s, "ascii-sweep"));
        }
    }
    for ch in 0u16..256 {
        let ch = ch as u8;
        for lb in [vec![ch], vec![b'a', ch], vec![ch, b'a'], vec![b'a', ch, b'a']] {
            let l2 = lb.clone();
            let out = guard(move || match Label::new(l2) { Ok(x) => format!("ok {}", text::hex(x.as_bytes())), Err(_) => "err".to_string() });
            let mut c = Case::new(format!("label.new {}", text::hex(&lb)), out.clone()).tag("label.new").tag("byte-sweep");
            if (class_of(&out) == "ok") != label_ok(&lb) { c = c.fail("label-grammar", format!("label {:?}", lb)); }
            v.push(c);
        }
    }
    // many short labels: 120..140 one-character labels (127 of them are 255 octets, the most a name can hold), with the
    // last few labels longer, and with a trailing dot
    for n in 120..=140usize {
        let base = vec!["a"; n].join(".");
        v.push(new_case(&base, "many-labels"));
        v.push(new_case(&format!("{}.", base), "many-labels"));
        v.push(new_case(&format!("{}.bc", base), "many-labels"));
        v.push(new_case(&format!("xyz.{}", base), "many-labels"));
        v.push(new_case(&format!("{}.-", base), "many-labels"));
    }
    // long texts whose empty labels do not count: doubled and trailing dots make the text longer than 255 characters while
    // the encoded name fits (the limit is on the encoding, not on the text), and the other way round
    {
        let l60 = "a".repeat(60);
        let l61 = "b".repeat(61);
        let full = format!("{}.{}.{}.{}", "a".repeat(63), "b".repeat(63), "c".repeat(63), "d".repeat(61)); // 254 characters, 255 octets
        for text in [format!("{0}..{0}..{0}..{0}..", l60), format!("{0}.{0}.{0}.{0}", l60), ".".repeat(300), ".".repeat(255), ".".repeat(254), format!("{}{}", ".".repeat(200), l60),
                     format!("{}.", full), format!("{}..", full), full.replacen('.', "..", 1), format!(".{}", full), format!("{0}.{0}.{0}.{1}", l61, l60), format!("{0}.{0}.{0}.{0}.", l61), format!("{0}..{0}..{0}..{0}", l61),
                     format!("{}x", full), format!("x.{}", full)] {
            v.push(new_case(&text, "long-text-empty-labels"));
        }
    }
    // encoded name lengths 245..262 in several shapes
    for total in 245..=262usize {
        for first in [1usize, 30, 63] {
            // labels: `first`, then 63s, then a remainder so that the encoded length is `total`
            let mut rem = total as i64 - 1 - (first as i64 + 1);
            let mut labels = vec!["y".repeat(first)];
            while rem > 0 {
                let l = ((rem - 1) as usize).min(63);
                if l == 0 { break; }
                labels.push("z".repeat(l));
                rem -= l as i64 + 1;
            }
            let s = labels.join(".");
            v.push(new_case(&s, "name-length"));
            v.push(new_case(&format!("{}.", s), "name-length"));
        }
    }
    // suffix relations: all pairs of names with <= 4 labels over {a, b}, plus case variants
    let mut names: Vec<Vec<Vec<u8>>> = vec![vec![]];
    let mut layer: Vec<Vec<Vec<u8>>> = vec![vec![]];
    for _ in 0..4 {
        let mut next = vec![];
        for n in &layer { for l in [b"a".to_vec(), b"b".to_vec()] { let mut m = n.clone(); m.push(l); next.push(m); } }
        names.extend(next.clone());
        layer = next;
    }
    for extra in [vec![b"x".to_vec(), b"local".to_vec()], vec![b"LoCaL".to_vec()], vec![b"local".to_vec(), b"a".to_vec()], vec![b"A".to_vec()], vec![b"locaL".to_vec()], vec![b"loca\x8c".to_vec()], vec![b"a".to_vec(), b"LOCAL".to_vec()]] {
        names.push(extra);
    }
    // labels that are byte-suffixes / prefixes of one another, so that a text suffix need not fall on a label boundary
    // (`office.laserprinter.local` is not under `printer.local`; `nonlocal` is not `local`)
    {
        let pool: [&[u8]; 14] = [b"printer", b"laserprinter", b"local", b"nonlocal", b"mylocal", b"x-local", b"localx", b"ab", b"b", b"c", b"office", b"al", b"loc", b"l"];
        let mut r = crate::rng::Rng::new(0xC17);
        let mut extra: Vec<Vec<Vec<u8>>> = vec![];
        for l in pool { extra.push(vec![l.to_vec()]); extra.push(vec![b"www".to_vec(), l.to_vec()]); }
        for _ in 0..(if tier == "thorough" { 160 } else { 50 }) {
            let n = 1 + r.below(4) as usize;
            extra.push((0..n).map(|_| r.pick(&pool).to_vec()).collect());
        }
        names.extend(extra);
        // labels holding octets that look like length octets (a space is 32, a control byte 3 ...): the wire form of one
        // name can end with the wire form of another without the labels doing so
        {
            let tail32 = b"0123456789abcdef0123456789abcdef".to_vec();
            let mut kitchen = b"Kitchen ".to_vec(); kitchen.extend_from_slice(&tail32);
            names.push(vec![kitchen, b"local".to_vec()]);
            names.push(vec![tail32, b"local".to_vec()]);
            names.push(vec![b"x\x03com".to_vec()]);
            names.push(vec![b"com".to_vec()]);
            names.push(vec![b"a\x01b".to_vec(), b"c".to_vec()]);
            names.push(vec![b"b".to_vec(), b"c".to_vec()]);
            names.push(vec![b"a.b".to_vec(), b"c".to_vec()]);
            names.push(vec![b"\x05local".to_vec()]);
        }
        // deeper names and the special-use zones code is apt to special-case (RFC 6762 12 lists the link-local reverse
        // zones: they are not `local`)
        for text in ["7.1.254.169.in-addr.arpa", "254.169.in-addr.arpa", "1.0.0.127.in-addr.arpa", "x.8.e.f.ip6.arpa", "9.e.f.ip6.arpa", "a.e.f.ip6.arpa", "b.e.f.ip6.arpa", "home.arpa", "arpa",
                     "a.b.c.d.e.f.g.local", "a.b.c.d.e.f.g.h.i.j", "local.example", "local.local", "example.local.", "localhost", "a.localdomain", "_tcp.local", "_services._dns-sd._udp.local", "intranet", "lan", "internal"] {
            names.push(text.trim_end_matches('.').split('.').map(|l| l.as_bytes().to_vec()).collect());
        }
    }
    for a in &names {
        for b in &names {
            let (na, nb) = (crate::gen::mk_name(a), crate::gen::mk_name(b));
            let sub = na.is_subdomain_of(&nb);
            let wo = na.without(&nb);
            let ll = na.is_link_local();
            let out = format!("{} {} {}", sub as u8, match &wo { Some(n) => text::name(n), None => "none".to_string() }, ll as u8);
            let mut c = Case::new(format!("name.rel {} {}", text::name(&na), text::name(&nb)), out).tag("relations");
            // the property, directly
            let want_sub = a.len() > b.len() && a[a.len() - b.len()..] == b[..];
            let want_ll = a.last().map(|l| l.eq_ignore_ascii_case(b"local")).unwrap_or(false);
            if sub != want_sub { c = c.fail("subdomain", format!("{:?} vs {:?}", a, b)); }
            match (&wo, want_sub) {
                (Some(n), true) => { let got: Vec<Vec<u8>> = n.get_labels().iter().map(|l| l.as_bytes().to_vec()).collect(); if got != a[..a.len() - b.len()] { c = c.fail("without", format!("{:?} without {:?}", a, b)); } }
                (None, false) => {}
                _ => { c = c.fail("without", format!("{:?} without {:?}", a, b)); }
            }
            if ll != want_ll { c = c.fail("link-local", format!("{:?}", a)); }
            v.push(c);
        }
    }
    v
}
