//! C04 (framing, all writers agree) and C07 (compression pointers).
use crate::core::*;
use crate::props::pk::{boundary_packets, packets};
use crate::refenc::{schema, F};
use crate::rng::Rng;
use crate::text;
use crate::walker;
use simple_dns::*;
use std::io::Cursor;

fn show(r: std::thread::Result<std::result::Result<(Vec<u8>, usize), SimpleDnsError>>) -> String {
    match r {
        Err(_) => "panic".to_string(),
        Ok(Err(_)) => "err".to_string(),
        Ok(Ok((buf, pos))) => format!("ok {} {}", text::hex(&buf), pos),
    }
}

fn run_writer(p: &Packet, kind: &str, pos: usize, prefill: &[u8], comp: bool) -> String {
    let pre = prefill.to_vec();
    watch(&format!("write {} {} {} {} {}", kind, pos, text::hex(prefill), if comp { "comp" } else { "plain" }, text::packet(p)));
    let r = std::panic::catch_unwind(std::panic::AssertUnwindSafe(|| -> std::result::Result<(Vec<u8>, usize), SimpleDnsError> {
        match kind {
            "vec" => { let mut v = pre.clone(); p.write_to(&mut v)?; Ok((v, pos)) }
            "cv" => { let mut c = Cursor::new(pre.clone()); c.set_position(pos as u64); if comp { p.write_compressed_to(&mut c)? } else { p.write_to(&mut c)? }; let q = c.position() as usize; Ok((c.into_inner(), q)) }
            "cf" => { let mut store = pre.clone(); let q; { let mut c = Cursor::new(&mut store[..]); c.set_position(pos as u64); if comp { p.write_compressed_to(&mut c)? } else { p.write_to(&mut c)? }; q = c.position() as usize; } Ok((store, q)) }
            _ => { let mut store = pre.clone(); let total = store.len(); let left; { let mut s: &mut [u8] = &mut store[pos.min(total)..]; p.write_to(&mut s)?; left = s.len(); } Ok((store, total - left)) }
        }
    }));
    show(r)
}

/// what a correct writer leaves: `bytes` spliced in at `pos`
fn expect(kind: &str, pos: usize, prefill: &[u8], bytes: &[u8]) -> Option<(Vec<u8>, usize)> {
    match kind {
        "vec" => { let mut v = prefill.to_vec(); v.extend_from_slice(bytes); Some((v, pos)) }
        "cv" => {
            if bytes.is_empty() { return Some((prefill.to_vec(), pos)); }
            let mut v = prefill.to_vec();
            if v.len() < pos { v.resize(pos, 0); }
            let end = pos + bytes.len();
            if v.len() < end { v.resize(end, 0); }
            v[pos..end].copy_from_slice(bytes);
            Some((v, end))
        }
        _ => {
            if bytes.is_empty() { return Some((prefill.to_vec(), pos)); }
            let end = pos + bytes.len();
            if end > prefill.len() { return None; }
            let mut v = prefill.to_vec();
            v[pos..end].copy_from_slice(bytes);
            Some((v, end))
        }
    }
}

fn framing_failure(p: &Packet, b: &[u8]) -> Option<(String, String)> {
    match walker::walk(b) {
        None => Some(("not-framed".into(), "the output does not walk as an RFC 1035 message".into())),
        Some(w) => {
            let opt = p.opt().is_some() as usize;
            let want = [p.questions.len(), p.answers.len(), p.name_servers.len(), p.additional_records.len() + opt];
            let got = [w.questions.len(), w.sections[0].len(), w.sections[1].len(), w.sections[2].len()];
            if want != got { return Some(("counts".into(), format!("header counts {:?}, entries written {:?}", got, want))); }
            if w.end != b.len() { return Some(("trailing-bytes".into(), format!("{} bytes after the last entry", b.len() - w.end))); }
            if w.sections[2].iter().filter(|e| e.typ == 41).count() < opt { return Some(("opt-missing".into(), "".into())); }
            None
        }
    }
}

/// a `Write + Seek` sink that accepts at most `chunk` bytes per call and, when `interrupt` is set, fails
/// every other call with `ErrorKind::Interrupted` (which `write_all` retries)
pub struct SlowSink { pub inner: std::io::Cursor<Vec<u8>>, pub chunk: usize, pub interrupt: bool, pub tick: u64 }
impl std::io::Write for SlowSink {
    fn write(&mut self, buf: &[u8]) -> std::io::Result<usize> {
        self.tick += 1;
        if self.interrupt && self.tick % 2 == 0 { return Err(std::io::Error::new(std::io::ErrorKind::Interrupted, "interrupted")); }
        let n = buf.len().min(self.chunk);
        self.inner.write(&buf[..n])
    }
    fn flush(&mut self) -> std::io::Result<()> { Ok(()) }
}
impl std::io::Seek for SlowSink {
    fn seek(&mut self, pos: std::io::SeekFrom) -> std::io::Result<u64> { self.inner.seek(pos) }
}

pub fn c04(tier: &str, seed: u64) -> Vec<Case> {
    let thorough = tier == "thorough";
    let mut r = Rng::new(seed);
    let mut v = vec![];
    let mut all = packets(tier, seed ^ 0x44, false);
    all.truncate(if thorough { 6000 } else { 700 });
    // extended response codes set without EDNS data: a legal state of the public API (the upper bits
    // have nowhere to go); the message must still be framed, with nothing written that is not counted
    {
        let mut g = crate::gen::Gen::new(seed ^ 0xE0);
        for i in 0..(if thorough { 400 } else { 40 }) {
            let mut p = g.packet(3);
            *p.opt_mut() = None;
            p.additional_records.retain(|r| !matches!(r.rdata, rdata::RData::OPT(_)));
            *p.rcode_mut() = if i % 2 == 0 { RCODE::BADVERS } else { RCODE::Reserved };
            all.push((p, "ext-rcode-no-opt".to_string()));
        }
    }
    // values the public fields admit and no parser produces: NSEC type bit maps with windows out of order and repeated, OPT
    // option lists with a code twice, followed by another record - whatever the writer makes of them, RDLENGTH is the
    // number of octets it wrote and the next entry starts where the record ends
    {
        use rdata::{RData, NSEC, TypeBitMap, A, OPT, OPTCode};
        for k in 0..(if thorough { 64u16 } else { 16 }) {
            let wins: Vec<(u8, Vec<u8>)> = match k % 4 {
                0 => vec![(0, vec![0x40]), (0, vec![0x20, 0x01])],
                1 => vec![(2, vec![0x01]), (1, vec![0, 0x80]), (0, vec![0x40])],
                2 => vec![(1, vec![0x10]), (1, vec![0x10]), (1, vec![0x08, 0, 1])],
                _ => vec![(5 + (k / 4) as u8, vec![0x01]), (0, vec![0x40, 0x01]), (5 + (k / 4) as u8, vec![0x80; 1 + (k as usize / 4) % 30])],
            };
            let mut p = Packet::new_reply(k);
            let owner = crate::gen::mk_name(&[b"n".to_vec(), b"example".to_vec()]);
            p.answers.push(ResourceRecord::new(owner.clone(), CLASS::IN, 1, RData::NSEC(NSEC { next_name: crate::gen::mk_name(&[b"o".to_vec(), b"example".to_vec()]), type_bit_maps: wins.iter().map(|(w, b)| TypeBitMap { window_block: *w, bitmap: b.clone().into() }).collect() })));
            p.answers.push(ResourceRecord::new(owner.clone(), CLASS::IN, 1, RData::A(A { address: k as u32 })));
            if k % 2 == 0 { *p.opt_mut() = Some(OPT { opt_codes: vec![OPTCode { code: 10, data: vec![1u8, 2].into() }, OPTCode { code: 10, data: vec![3u8].into() }, OPTCode { code: 3, data: vec![].into() }], udp_packet_size: 1232, version: 0 }); }
            all.push((p, "unnormalised-values".to_string()));
        }
    }
    // packets that came out of the parser (reference-encoded messages with empty character-strings, OPT records at
    // any index, unknown types, empty RDATA): what a forwarder serialises; framed like any other packet
    {
        let mut k = 0;
        // hand-written messages first: TXT records with empty character-strings in every position followed by
        // another record; an EDNS message (OPT among other additional records)
        let mut handmade: Vec<(Vec<u8>, String)> = vec![];
        for strings in [vec![&b"a=b"[..], &b""[..], &b"c=d"[..]], vec![&b""[..], &b"x"[..]], vec![&b"x"[..], &b""[..]], vec![&b""[..], &b""[..], &b"k"[..], &b""[..]]] {
            let mut m = vec![0u8, 5, 0x80, 0, 0, 0, 0, 2, 0, 0, 0, 0, 1, b't', 0, 0, 16, 0, 1, 0, 0, 0, 9];
            let rdlen: usize = strings.iter().map(|x| x.len() + 1).sum();
            m.extend_from_slice(&(rdlen as u16).to_be_bytes());
            for x in &strings { m.push(x.len() as u8); m.extend_from_slice(x); }
            m.extend_from_slice(&[0xC0, 12, 0, 1, 0, 1, 0, 0, 0, 9, 0, 4, 10, 0, 0, 1]);
            handmade.push((m, "hand".into()));
        }
        for opt_first in [true, false] {
            let mut m = vec![0u8, 6, 0x80, 0, 0, 0, 0, 0, 0, 0, 0, 2];
            let opt = [0u8, 0, 41, 4, 0xD0, 0, 0, 0, 0, 0, 0];
            let a = [1u8, b'h', 0, 0, 1, 0, 1, 0, 0, 0, 9, 0, 4, 10, 0, 0, 2];
            if opt_first { m.extend_from_slice(&opt); m.extend_from_slice(&a); } else { m.extend_from_slice(&a); m.extend_from_slice(&opt); }
            handmade.push((m, "hand".into()));
        }
        for (b, _) in handmade.into_iter().chain(crate::props::pk::hostile_messages(tier, seed ^ 0x4F4)) {
            if b.len() > 3000 { continue; }
            let b: &'static [u8] = Box::leak(b.into_boxed_slice());
            if let Ok(p) = std::panic::catch_unwind(|| Packet::parse(b)).unwrap_or(Err(SimpleDnsError::InsufficientData)) {
                if p.answers.len() + p.name_servers.len() + p.additional_records.len() == 0 { continue; }
                // a forwarder's invariant: a message received with one OPT record is sent on with one OPT record
                let opts_in = walker::walk(b).map(|w| w.sections[2].iter().filter(|e| e.typ == 41).count()).unwrap_or(9);
                all.push((p, format!("parsed:{}", opts_in)));
                k += 1;
                if k >= (if thorough { 3000 } else { 300 }) { break; }
            }
        }
    }
    // messages beyond 16 KiB with names on both sides of offset 16383 (framing of the vector entry points only)
    for (k, (p, tag)) in boundary_packets(tier).into_iter().enumerate() { if thorough || k % 4 == 0 { all.push((p, tag)); } }
    for (i, (p, tag)) in all.into_iter().enumerate() {
        let plain = match p.build_bytes_vec() { Ok(b) => b, Err(_) => { v.push(Case::oracle_only().fail("build-failed", "plain".into())); continue; } };
        let comp = match p.build_bytes_vec_compressed() { Ok(b) => b, Err(_) => { v.push(Case::oracle_only().fail("build-failed", "compressed".into())); continue; } };
        let ptxt = text::packet(&p);
        // every call stands alone: a serialisation that was refused part-way (a LOC record of an unsupported version, after
        // the header and some entries were produced; a writer that ran out of room) leaves nothing behind that the next
        // call on this thread would emit
        if i % 5 == 2 {
            let mut bad = p.clone();
            bad.answers.push(ResourceRecord::new(Name::new_unchecked("refused"), CLASS::IN, 1, rdata::RData::LOC(rdata::LOC { version: 1, size: 0, horizontal_precision: 0, vertical_precision: 0, latitude: 0, longitude: 0, altitude: 0 })));
            let refused = (bad.build_bytes_vec().is_err(), bad.build_bytes_vec_compressed().is_err());
            let mut small = [0u8; 13];
            let _ = p.write_to(&mut &mut small[..]);
            let mut c = Case::oracle_only().tag("after-refused-build");
            if !refused.0 || !refused.1 { c = c.tag("not-refused"); }
            let (again_p, again_c) = (p.build_bytes_vec().ok(), p.build_bytes_vec_compressed().ok());
            let mut direct = Vec::new();
            let _ = p.write_to(&mut direct);
            if again_p.as_deref() != Some(&plain[..]) || direct != plain { c = c.fail("writer-differs", format!("build_bytes_vec after a refused serialisation on the same thread returns {} bytes, {} before", again_p.map(|b| b.len()).unwrap_or(0), plain.len())); }
            else if again_c.as_deref() != Some(&comp[..]) { c = c.fail("writer-differs", "build_bytes_vec_compressed after a refused serialisation on the same thread returns other bytes than before".into()); }
            v.push(c);
        }
        // framing of both vector-returning entry points
        for (b, how) in [(&plain, "plain"), (&comp, "comp")] {
            let mut c = Case::oracle_only().tag(&format!("framing-{}", how)).tag(&tag);
            if let Some((k, m)) = framing_failure(&p, b) { c = c.fail(&k, format!("{}: {}", how, m)); }
            if let Some(n) = tag.strip_prefix("parsed:") {
                let opts_out = walker::walk(b).map(|w| w.sections[2].iter().filter(|e| e.typ == 41).count()).unwrap_or(9);
                if n == "1" && opts_out != 1 { c = c.fail("opt-count", format!("{}: a message received with one OPT record is written with {}", how, opts_out)); }
                if n == "0" && opts_out != 0 { c = c.fail("opt-count", format!("{}: a message received without an OPT record is written with {}", how, opts_out)); }
            }
            // "exactly those entries": every owner and every name inside RDATA, read by the independent
            // decoder at the sites the walker finds, is the name of the packet's entry (the messages
            // beyond 16 KiB, where a pointer can be wrong without disturbing the framing)
            if tag.starts_with("boundary") {
                if let Some(w) = walker::walk(b) {
                    let entries: Vec<&walker::Entry> = w.sections.iter().flatten().collect();
                    let recs: Vec<&ResourceRecord> = p.answers.iter().chain(p.name_servers.iter()).chain(p.additional_records.iter()).collect();
                    if entries.len() == recs.len() {
                        for (e, r) in entries.iter().zip(recs.iter()) {
                            let want: Vec<Vec<u8>> = r.name.get_labels().iter().map(|l| l.as_bytes().to_vec()).collect();
                            match walker::decode_name(b, e.off) { Some((got, _)) if got == want => {}, _ => { c = c.fail("entry-owner-differs", format!("{}: the owner name written at offset {} does not decode to the record's name", how, e.off)); break; } }
                        }
                    }
                }
                let bb = b.clone();
                let reparsed = std::panic::catch_unwind(move || Packet::parse(&bb).ok().map(|q| text::packet(&q))).unwrap_or(None);
                if reparsed.as_deref() != Some(&ptxt[..]) { c = c.fail("entries-differ", format!("{}: the message does not read back as the packet that was written", how)); }
            }
            v.push(c);
        }
        // sinks that accept a few bytes per call or interrupt every other call (`write_all` retries): the
        // stream must end up holding the same message, at stream offsets 0 and 3
        if i % 4 == 0 {
            for (chunk, interrupt, start) in [(3usize, false, 0usize), (1, false, 3), (7, true, 0), (2, true, 3)] {
                for isc in [false, true] {
                    let mut sink = SlowSink { inner: std::io::Cursor::new(vec![0xEE; start]), chunk, interrupt, tick: 0 };
                    use std::io::{Seek, SeekFrom};
                    sink.seek(SeekFrom::Start(start as u64)).unwrap();
                    let pp = p.clone();
                    watch("slow sink");
                    let res = std::panic::catch_unwind(std::panic::AssertUnwindSafe(|| if isc { pp.write_compressed_to(&mut sink).is_ok() } else { pp.write_to(&mut sink).is_ok() }));
                    let want = if isc { &comp } else { &plain };
                    let mut c = Case::oracle_only().tag("writer:slow-sink");
                    match res {
                        Err(_) => { c = c.fail("writer-panic", "slow sink".into()); }
                        Ok(false) => { c = c.fail("writer-refused", format!("a sink accepting {} byte(s) per call{} makes the {} writer fail", chunk, if interrupt { " and interrupting every other call" } else { "" }, if isc { "compressing" } else { "plain" })); }
                        Ok(true) => { if sink.inner.get_ref()[start..] != want[..] { c = c.fail("writer-differs", format!("through a sink accepting {} byte(s) per call{} at stream offset {} the {} writer leaves other bytes than build_bytes_vec{}", chunk, if interrupt { " and interrupting every other call" } else { "" }, start, if isc { "compressing" } else { "plain" }, if isc { "_compressed" } else { "" })); } }
                    }
                    v.push(c);
                }
            }
        }
        // writers that defer their work (std::io::BufWriter over a Vec, over a growable cursor, over fixed storage): when
        // the call returns Ok the message is in the underlying storage, whole; when the storage is too small the call
        // reports it - a message sitting in a buffer that is later dropped or fails to drain is a silent truncation
        if i % 4 == 1 {
            use std::io::BufWriter;
            for cap in [0usize, 5, 8192, 100_000] {
                for isc in [false, true] {
                    let want = if isc { &comp } else { &plain };
                    let pp = p.clone();
                    let mut c = Case::oracle_only().tag("writer:buffered");
                    watch("buffered writer");
                    if isc {
                        let mut w = BufWriter::with_capacity(cap, std::io::Cursor::new(Vec::new()));
                        match std::panic::catch_unwind(std::panic::AssertUnwindSafe(|| pp.write_compressed_to(&mut w).is_ok())) {
                            Err(_) => { c = c.fail("writer-panic", "buffered writer".into()); }
                            Ok(false) => { c = c.fail("writer-refused", format!("a BufWriter of capacity {} over a growable cursor makes the compressing writer fail", cap)); }
                            Ok(true) => { if w.get_ref().get_ref()[..] != want[..] { c = c.fail("writer-truncated", format!("write_compressed_to returned Ok through a BufWriter of capacity {} and the underlying storage holds {} of {} bytes", cap, w.get_ref().get_ref().len(), want.len())); } }
                        }
                    } else {
                        let mut w = BufWriter::with_capacity(cap, Vec::new());
                        match std::panic::catch_unwind(std::panic::AssertUnwindSafe(|| pp.write_to(&mut w).is_ok())) {
                            Err(_) => { c = c.fail("writer-panic", "buffered writer".into()); }
                            Ok(false) => { c = c.fail("writer-refused", format!("a BufWriter of capacity {} over a Vec makes the plain writer fail", cap)); }
                            Ok(true) => { if w.get_ref()[..] != want[..] { c = c.fail("writer-truncated", format!("write_to returned Ok through a BufWriter of capacity {} and the underlying Vec holds {} of {} bytes", cap, w.get_ref().len(), want.len())); } }
                        }
                    }
                    v.push(c);
                    // fixed storage one byte short, and exactly fitting, behind the buffer
                    for short in [1usize, 0] {
                        if want.is_empty() { continue; }
                        let mut storage = vec![0u8; want.len() - short];
                        let pp = p.clone();
                        let mut c = Case::oracle_only().tag("writer:buffered-fixed");
                        let ok = {
                            let mut w = BufWriter::with_capacity(cap, std::io::Cursor::new(&mut storage[..]));
                            let r = std::panic::catch_unwind(std::panic::AssertUnwindSafe(|| if isc { pp.write_compressed_to(&mut w).is_ok() } else { pp.write_to(&mut w).is_ok() }));
                            // dropping the BufWriter tries a last flush and ignores its failure: what counts is what the call said
                            r
                        };
                        match (ok, short) {
                            (Err(_), _) => { c = c.fail("writer-panic", "buffered writer over fixed storage".into()); }
                            (Ok(true), 1) => { c = c.fail("writer-truncated", format!("the {} writer returned Ok through a BufWriter (capacity {}) over storage one byte too small", if isc { "compressing" } else { "plain" }, cap)); }
                            (Ok(false), 0) => { c = c.fail("writer-refused", format!("the {} writer fails through a BufWriter (capacity {}) over storage of exactly the message length", if isc { "compressing" } else { "plain" }, cap)); }
                            (Ok(true), _) => { if storage[..] != want[..] { c = c.fail("writer-differs", "buffered writer over exactly fitting storage leaves other bytes".into()); } }
                            _ => {}
                        }
                        v.push(c);
                    }
                }
            }
        }
        if plain.len() > 1500 { continue; }
        // writer configurations
        let mut cfgs: Vec<(&str, usize, Vec<u8>, bool)> = vec![];
        let junk = |r: &mut Rng, n: usize| -> Vec<u8> { (0..n).map(|_| 0xA0 | (r.next() as u8 & 0xF)).collect() };
        cfgs.push(("vec", 0, vec![], false));
        cfgs.push(("vec", 0, junk(&mut r, 5), false));
        for isc in [false, true] {
            let len = if isc { comp.len() } else { plain.len() };
            cfgs.push(("cv", 0, vec![], isc));
            cfgs.push(("cv", 2, vec![], isc));
            cfgs.push(("cv", 2, junk(&mut r, 1), isc));
            cfgs.push(("cv", 7, junk(&mut r, len + 20), isc));
            cfgs.push(("cv", 3, junk(&mut r, len / 2 + 1), isc));
            // fixed-size storage of every capacity around the fit (all capacities 0..len+2 every 16th packet)
            let caps: Vec<usize> = if i % 16 == 0 { (0..=len + 2).collect() } else { vec![0, 1, 11, 12, len.saturating_sub(1), len, len + 1, len + 2, len / 2] };
            for cap in caps {
                cfgs.push(("cf", 0, junk(&mut r, cap), isc));
                if !isc { cfgs.push(("sl", 0, junk(&mut r, cap), false)); }
            }
            cfgs.push(("cf", 2, junk(&mut r, len + 2), isc));
            cfgs.push(("cf", 2, junk(&mut r, len + 1), isc));
            cfgs.push(("cf", 5, junk(&mut r, len + 9), isc));
            if !isc { cfgs.push(("sl", 3, junk(&mut r, len + 3), false)); cfgs.push(("sl", 3, junk(&mut r, len + 2), false)); }
        }
        for (kind, pos, prefill, isc) in cfgs {
            let out = run_writer(&p, kind, pos, &prefill, isc);
            let bytes = if isc { &comp } else { &plain };
            let mut c = Case::new(format!("write {} {} {} {} {}", kind, pos, text::hex(&prefill), if isc { "comp" } else { "plain" }, ptxt), out.clone())
                .tag(&format!("writer:{}{}", kind, if isc { "-comp" } else { "" }));
            match (expect(kind, pos, &prefill, bytes), class_of(&out)) {
                (_, "panic") => { c = c.fail("writer-panic", format!("{} at {} over {} bytes", kind, pos, prefill.len())); }
                (Some((buf, q)), "ok") => { if out != format!("ok {} {}", text::hex(&buf), q) { c = c.fail("writer-differs", format!("{} writer at offset {} over {} bytes of storage does not leave the bytes of build_bytes_vec{}", kind, pos, prefill.len(), if isc { "_compressed" } else { "" })); } }
                (Some(_), _) => { c = c.fail("writer-refused", format!("{} writer with enough room ({} at {}) reports an error", kind, prefill.len(), pos)); }
                (None, "ok") => { c = c.fail("writer-truncated", format!("{} writer too small ({} at {}) reports success", kind, prefill.len(), pos)); }
                (None, _) => {}
            }
            v.push(c);
        }
    }
    v
}

/// name sites of a message located with the reference schema table: (offset, compressible)
fn name_sites(b: &[u8], w: &walker::Walk) -> Option<Vec<(usize, bool)>> {
    let mut sites = vec![];
    for q in &w.questions { sites.push((q.off, true)); }
    for sec in &w.sections {
        for e in sec {
            sites.push((e.off, true));
            if e.rd_len == 0 { continue; }
            let compressible = matches!(e.typ, 2 | 3 | 4 | 5 | 7 | 8 | 9 | 12 | 6 | 14 | 15 | 17 | 18 | 21 | 23);
            let mut p = e.rd_start;
            if e.typ == 45 {
                if b[p + 1] == 3 { sites.push((p + 3, false)); }
                continue;
            }
            if let Some(fields) = schema(e.typ) {
                for f in fields {
                    match f {
                        F::Int(n) => p += n,
                        F::Str => p += 1 + *b.get(p)? as usize,
                        F::Name => { sites.push((p, compressible)); p = walker::skip_name(b, p)?; }
                        _ => break,
                    }
                }
            }
        }
    }
    Some(sites)
}

/// `write_compressed_to` through a sink that takes a few bytes per call: the bytes must be those of
/// `build_bytes_vec_compressed` (positions are counted from what was accepted, not from what was offered)
fn slow_sink_same(p: &Packet, want: &[u8], chunk: usize, prefix: usize) -> bool {
    let mut sink = SlowSink { inner: std::io::Cursor::new(vec![0xEEu8; prefix]), chunk, interrupt: chunk % 2 == 1, tick: 0 };
    use std::io::Seek;
    let _ = sink.seek(std::io::SeekFrom::Start(prefix as u64));
    let ok = std::panic::catch_unwind(std::panic::AssertUnwindSafe(|| p.write_compressed_to(&mut sink).is_ok())).unwrap_or(false);
    ok && sink.inner.get_ref()[prefix..] == want[..]
}

pub fn c07(tier: &str, seed: u64) -> Vec<Case> {
    let thorough = tier == "thorough";
    let mut v = vec![];
    let mut all = packets(tier, seed ^ 0x77, true);
    all.extend(boundary_packets(tier));
    if !thorough {
        // the quick tier keeps the first 1800 small packets and every large one
        let mut k = 0;
        all.retain(|(_, tag)| { k += 1; k <= 1800 || tag == "big" || tag == "many-names" || tag == "many-suffixes" || tag == "max-size" || tag == "boundary-16383" });
    }
    for (p, tag) in all {
        if tag == "nsec-unordered" { continue; }
        // (every packet of this generator serialises with both writers: a compressing writer that starts refusing some of
        // them has stopped writing pointers altogether)
        let comp = match p.build_bytes_vec_compressed() { Ok(b) => b, Err(_) => { v.push(Case::oracle_only().tag(&tag).fail("not-framed", "build_bytes_vec_compressed refuses a packet the plain writer's generator built".into())); continue; } };
        let plain = match p.build_bytes_vec() { Ok(b) => b, Err(_) => { v.push(Case::oracle_only().tag(&tag).fail("not-framed", "build_bytes_vec refuses a generated packet".into())); continue; } };
        let ptxt = text::packet(&p);
        let mut c = Case::new(format!("build.comp {}", ptxt), format!("ok {}", text::hex(&comp))).tag(&tag);
        let (wc, wp) = match (walker::walk(&comp), walker::walk(&plain)) { (Some(a), Some(b)) => (a, b), _ => { v.push(c.fail("not-framed", "".into())); continue; } };
        let (sc, sp) = match (name_sites(&comp, &wc), name_sites(&plain, &wp)) { (Some(a), Some(b)) => (a, b), _ => { v.push(c.fail("sites", "".into())); continue; } };
        if sc.len() != sp.len() { v.push(c.fail("sites", "different number of names in the two outputs".into())); continue; }
        let mut first_seen: Vec<(Vec<Vec<u8>>, usize)> = vec![];
        let mut pointers = 0usize;
        for ((off, compressible), (poff, _)) in sc.iter().zip(sp.iter()) {
            let intended = walker::decode_name(&plain, *poff).map(|x| x.0);
            match walker::decode_name(&comp, *off) {
                None => { c = c.fail("pointer-undecodable", format!("name at {}", off)); }
                Some((labels, ptrs)) => {
                    pointers += ptrs.len();
                    if Some(&labels) != intended.as_ref() { c = c.fail("pointer-wrong-name", format!("name at {} expands to something else than intended", off)); }
                    for (at, target) in &ptrs {
                        if target >= at { c = c.fail("pointer-not-backward", format!("pointer at {} to {}", at, target)); }
                        if *target > 0x3FFF { c = c.fail("pointer-too-far", format!("{}", target)); }
                        if *target < 12 { c = c.fail("pointer-into-header", format!("pointer at {} to {}", at, target)); }
                    }
                    if !compressible && !ptrs.is_empty() { c = c.fail("compressed-forbidden", format!("a pointer inside RDATA whose specification forbids compression, at {}", off)); }
                    if *compressible && !labels.is_empty() {
                        let in_place = walker::skip_name(&comp, *off).unwrap() - off;
                        if let Some((_, o1)) = first_seen.iter().find(|(n, _)| *n == labels) {
                            if *o1 <= 0x3FFF && !(in_place == 2 && comp[*off] >= 0xC0) {
                                c = c.fail("repeat-not-pointer", format!("name at {} repeats the one at {} but is written in {} bytes", off, o1, in_place));
                            }
                        } else { first_seen.push((labels.clone(), *off)); }
                    }
                }
            }
        }
        c = c.tag(if pointers > 0 { "has-pointers" } else { "no-pointers" });
        if comp.len() > 16383 { c = c.tag("beyond-16383"); }
        v.push(c);
        // the writer-based entry point at a non-zero offset emits the same message
        let large = matches!(tag.as_str(), "big" | "boundary-16383" | "many-names" | "many-suffixes" | "max-size");
        if comp.len() < 3000 || large {
            // (a message appended to a log or a capture file starts far into the stream: at, just below and beyond the
            // 14-bit range the pointers count in - from the message's own first byte)
            let starts: &[usize] = if comp.len() < 3000 && v.len() % 5 == 0 { &[2, 13, 16383, 16384, 70000] } else { &[2, 13] };
            for &start in starts {
                let mut cur = Cursor::new(vec![0xEEu8; start]);
                cur.set_position(start as u64);
                let ok = p.write_compressed_to(&mut cur).is_ok();
                let inner = cur.into_inner();
                let mut c2 = Case::oracle_only().tag("offset-writer");
                if !ok || inner[start..] != comp[..] { c2 = c2.fail("offset-writer-differs", format!("write_compressed_to at stream offset {} does not emit the message of build_bytes_vec_compressed (pointers must count from the first byte of the message)", start)); }
                v.push(c2);
            }
            // ... and into storage that is longer than the message (a reused datagram buffer, a pre-sized frame): the bytes
            // from the start offset are the message, whatever lay beyond the write position
            for start in [0usize, 2] {
                let mut cur = Cursor::new(vec![0xEEu8; start + comp.len() + 37]);
                cur.set_position(start as u64);
                let ok = std::panic::catch_unwind(std::panic::AssertUnwindSafe(|| p.write_compressed_to(&mut cur).is_ok())).unwrap_or(false);
                let endp = cur.position() as usize;
                let inner = cur.into_inner();
                let mut c4 = Case::oracle_only().tag("presized-writer");
                if !ok || endp != start + comp.len() || inner[start..endp] != comp[..] { c4 = c4.fail("offset-writer-differs", format!("write_compressed_to into storage longer than the message (start offset {}) does not leave the message of build_bytes_vec_compressed there", start)); }
                v.push(c4);
            }
            // ... and so does a sink that accepts 1, 3 or 5 bytes per call (and interrupts every other call), at
            // offsets 0 and 2: the pointers count bytes accepted, not bytes offered
            if pointers > 0 && comp.len() < 3000 {
                for (chunk, prefix) in [(1usize, 0usize), (3, 2), (5, 0)] {
                    let mut c3 = Case::oracle_only().tag("slow-writer");
                    if !slow_sink_same(&p, &comp, chunk, prefix) { c3 = c3.fail("offset-writer-differs", format!("write_compressed_to through a writer that accepts {} byte(s) per call, at stream offset {}, does not emit the message of build_bytes_vec_compressed", chunk, prefix)); }
                    v.push(c3);
                }
            }
        }
    }
    v
}
