//! Packet-level properties C02, C03, C05, C11 (shared generators and oracles).
use crate::core::*;
use crate::gen::{Gen, KIND_NAMES, N_KINDS};
use crate::refenc::{self, Compress};
use crate::rng::Rng;
use crate::text;
use crate::walker;
use simple_dns::*;

fn parse_out(b: &[u8]) -> String {
    let bb = b.to_vec();
    watch(&format!("parse {}", text::hex(b)));
    guard(move || match Packet::parse(&bb) {
        Ok(p) => format!("ok {}", text::packet(&p)),
        Err(_) => "err".to_string(),
    })
}
fn build_out(p: &Packet, compressed: bool) -> (String, Option<Vec<u8>>) {
    watch(&format!("build{} {}", if compressed { ".comp" } else { "" }, text::packet(p)));
    let r = std::panic::catch_unwind(std::panic::AssertUnwindSafe(|| if compressed { p.build_bytes_vec_compressed() } else { p.build_bytes_vec() }));
    match r {
        Ok(Ok(b)) => (format!("ok {}", text::hex(&b)), Some(b)),
        Ok(Err(_)) => ("err".to_string(), None),
        Err(_) => ("panic".to_string(), None),
    }
}

/// IPSECKEY records with each gateway shape (none, IPv4, IPv6, a name, an unassigned type) and a 5-octet key, as the
/// single answer of a response, the RDATA cut at every length with a consistent RDLENGTH, followed by `tail` bytes that
/// are not part of the message's records (what a reader must not borrow from)
pub fn ipseckey_cut_messages(tail: &[u8]) -> Vec<Vec<u8>> {
    let mut out = vec![];
    for gateway in [vec![0u8], vec![1, 192, 0, 2, 1], { let mut x = vec![2u8]; x.extend_from_slice(&[0x20, 1, 0x0d, 0xb8, 0, 0, 0, 0, 0, 0, 0, 0, 0, 0, 0, 1]); x }, vec![3, 2, b'g', b'w', 3, b'o', b'r', b'g', 0], vec![3, 0xC0, 12], vec![9, 1, 2, 3]] {
        let mut rdata = vec![10u8, gateway[0], 2];
        rdata.extend_from_slice(&gateway[1..]);
        rdata.extend_from_slice(&[0xAA, 0xBB, 0xCC, 0xDD, 0xEE]);
        for k in 0..=rdata.len() {
            let mut m = vec![0u8, 3, 0x84, 0, 0, 0, 0, 1, 0, 0, 0, 0, 3, b'k', b'e', b'y', 0, 0, 45, 0, 1, 0, 0, 0, 120];
            m.extend_from_slice(&(k as u16).to_be_bytes());
            m.extend_from_slice(&rdata[..k]);
            m.extend_from_slice(tail);
            out.push(m);
        }
    }
    out
}

/// packets for the round-trip properties: every kind in every section, shared suffixes, sizes
pub fn build_out_pub(p: &Packet, compressed: bool) -> (String, Option<Vec<u8>>) { build_out(p, compressed) }

pub fn packets(tier: &str, seed: u64, big: bool) -> Vec<(Packet<'static>, String)> {
    let thorough = tier == "thorough";
    let mut g = Gen::new(seed);
    let mut v = vec![];
    // one record of each kind alone in each section
    for kind in 0..N_KINDS {
        for sec in 0..3 {
            let mut p = Packet::new_reply(g.rng.next() as u16);
            let r = g.rr_of(kind);
            match sec { 0 => p.answers.push(r), 1 => p.name_servers.push(r), _ => {
                if matches!(r.rdata, rdata::RData::OPT(_)) { *p.opt_mut() = Some(g.opt()); }
                p.additional_records.push(r) } }
            v.push((p, format!("type:{}", KIND_NAMES[kind])));
        }
    }
    // questions only: two to five questions whose names share suffixes (a browse for several service types), no records
    for k in 0..12usize {
        let mut p = Packet::new_query(k as u16);
        let base = g.name();
        let base_labels: Vec<Vec<u8>> = base.get_labels().iter().map(|l| l.as_bytes().to_vec()).collect();
        p.questions.push(Question::new(base.clone(), g.qtype(), g.qclass(), false));
        for j in 0..(1 + k % 4) {
            let mut l = vec![vec![b'q', b'0' + j as u8]];
            l.extend(base_labels.clone());
            if l.iter().map(|x| x.len() + 1).sum::<usize>() + 1 > 255 { continue; }
            p.questions.push(Question::new(if j % 2 == 0 { crate::gen::mk_name(&l) } else { base.clone() }, g.qtype(), g.qclass(), j == 1));
        }
        v.push((p, "questions-only".to_string()));
    }
    // one record of each kind whose RDATA names (SRV target, MX exchange, IPSECKEY gateway, SOA names ...) are all the
    // root name, owned by a non-root name
    for kind in 0..N_KINDS {
        let mut p = Packet::new_reply(kind as u16);
        g.root_only = true;
        let rd = g.rdata(kind);
        g.root_only = false;
        if matches!(rd, rdata::RData::OPT(_)) { continue; }
        p.answers.push(ResourceRecord::new(g.name(), CLASS::IN, 7, rd));
        p.answers.push(g.rr_of(0));
        v.push((p, format!("root-names:{}", KIND_NAMES[kind])));
    }
    let n = if thorough { 40_000 } else { 2_500 };
    for i in 0..n {
        g.share = if i % 3 == 0 { 8 } else { 5 };
        let p = g.packet(if i % 10 == 0 { 8 } else { 3 });
        v.push((p, "random".to_string()));
    }
    if big {
        // messages straddling 16 KiB: padding first, then names that repeat on both sides of 16383
        let nb = if thorough { 60 } else { 8 };
        for i in 0..nb {
            g.share = 8;
            let mut p = Packet::new_reply(i as u16);
            let pad_total = 16200 + g.rng.below(400) as usize - (i % 3) * 8000;
            let mut sz = 12;
            while sz < pad_total {
                let mut t = rdata::TXT::new();
                let k = (pad_total - sz).min(200 + g.rng.below(50) as usize);
                t.add_char_string(crate::gen::mk_cs(&g.rng.bytes(k.min(255))));
                let r = ResourceRecord::new(g.name(), CLASS::IN, 1, rdata::RData::TXT(t));
                sz += 11 + k.min(255) + 12;
                p.answers.push(r);
            }
            for _ in 0..(30 + g.rng.below(60)) {
                let kind = *g.rng.pick(&[2usize, 4, 8, 12, 14, 16, 11, 17, 36, 38]); // NS CNAME PTR MX SOA SRV MINFO RP RRSIG NSEC
                p.additional_records.push(g.rr_of(kind));
            }
            // and up to the 65535 limit now and then
            if i % 4 == 3 {
                while p.build_bytes_vec().map(|b| b.len()).unwrap_or(70000) < 60000 {
                    for _ in 0..40 { let k = *g.rng.pick(&[12usize, 14, 2, 0]); p.name_servers.push(g.rr_of(k)); }
                }
            }
            v.push((p, "big".to_string()));
        }
        // many distinct names (far more suffixes than any fixed-size table holds), each of them repeated later
        // as an owner and inside compressible RDATA: every repetition must still be a pointer
        for (n_names, labels) in [(60usize, 3usize), (150, 3), (400, 2), (700, 1)] {
            let mut p = Packet::new_reply(n_names as u16);
            let names: Vec<Name<'static>> = (0..n_names).map(|i| {
                let ls: Vec<Vec<u8>> = (0..labels).map(|l| format!("n{}x{}", i, l).into_bytes()).collect();
                crate::gen::mk_name(&ls)
            }).collect();
            for n in &names { p.answers.push(ResourceRecord::new(n.clone(), CLASS::IN, 1, rdata::RData::A(rdata::A { address: 1 }))); }
            for (i, n) in names.iter().enumerate().rev() {
                let other = names[(i * 7 + 3) % n_names].clone();
                p.additional_records.push(ResourceRecord::new(n.clone(), CLASS::IN, 2, rdata::RData::CNAME(rdata::CNAME(other))));
            }
            v.push((p, "many-names".to_string()));
        }
        // the longest legal name (255 octets: 63 + 63 + 63 + 61) as question, owner and RDATA name: repeated, it is a pointer
        // like any other
        for shape in [[63usize, 63, 63, 61], [1, 63, 63, 62 + 62]].iter().filter(|s| s.iter().all(|l| *l <= 63)) {
            let labels: Vec<Vec<u8>> = shape.iter().enumerate().map(|(i, l)| vec![b'a' + i as u8; *l]).collect();
            let long = crate::gen::mk_name(&labels);
            let parent = crate::gen::mk_name(&labels[1..]);
            let mut p = Packet::new_reply(255);
            p.questions.push(Question::new(long.clone(), TYPE::A.into(), CLASS::IN.into(), false));
            p.answers.push(ResourceRecord::new(long.clone(), CLASS::IN, 1, rdata::RData::A(rdata::A { address: 9 })));
            p.name_servers.push(ResourceRecord::new(parent, CLASS::IN, 1, rdata::RData::NS(rdata::NS(long.clone()))));
            v.push((p, "many-names".to_string()));
        }
        for labels in [127usize, 126] {
            // 127 one-octet labels: 255 octets again, the most labels a name can have
            let ls: Vec<Vec<u8>> = (0..labels).map(|i| vec![b'a' + (i % 26) as u8]).collect();
            let long = crate::gen::mk_name(&ls);
            let mut p = Packet::new_reply(127);
            p.questions.push(Question::new(long.clone(), TYPE::A.into(), CLASS::IN.into(), false));
            p.answers.push(ResourceRecord::new(long.clone(), CLASS::IN, 1, rdata::RData::CNAME(rdata::CNAME(long.clone()))));
            v.push((p, "many-names".to_string()));
        }
        // NSEC values whose (distinct) windows are held out of wire order, as construction from parts allows: the plain
        // writer sorts them; whatever the compressing writer does must parse to the same packet
        for k in 0..6u8 {
            let mut p = Packet::new_reply(900 + k as u16);
            let maps = vec![
                rdata::TypeBitMap { window_block: 3 + k, bitmap: vec![1u8, 2].into() },
                rdata::TypeBitMap { window_block: 1, bitmap: vec![0x40u8].into() },
                rdata::TypeBitMap { window_block: 2 + k % 2 * 5, bitmap: vec![0u8, 0, 8].into() },
            ];
            let owner = crate::gen::mk_name(&[b"host".to_vec(), b"example".to_vec()]);
            p.answers.push(ResourceRecord::new(owner.clone(), CLASS::IN, 1, rdata::RData::A(rdata::A { address: 1 })));
            p.answers.push(ResourceRecord::new(owner.clone(), CLASS::IN, 1, rdata::RData::NSEC(rdata::NSEC { next_name: owner.clone(), type_bit_maps: maps })));
            v.push((p, "nsec-unordered".to_string()));
        }
        // names that each extend the previous one by a leading label: the compressor writes the k-th as one label
        // and a pointer to the (k-1)-th, so that reading the last one back follows k-1 pointers (a name holds at most 127 labels,
        // so up to 126 pointers in a row are legal)
        for depth in [5usize, 17, 40, 126, 127] {
            let mut p = Packet::new_reply(depth as u16);
            let mut labels: Vec<Vec<u8>> = vec![];
            for k in 0..depth {
                labels.insert(0, vec![b'a' + (k % 26) as u8]);
                let n = crate::gen::mk_name(&labels);
                if k % 2 == 0 { p.answers.push(ResourceRecord::new(n, CLASS::IN, 1, rdata::RData::A(rdata::A { address: k as u32 }))); }
                else { p.answers.push(ResourceRecord::new(crate::gen::mk_name(&[b"x".to_vec()]), CLASS::IN, 1, rdata::RData::CNAME(rdata::CNAME(n)))); }
            }
            v.push((p, "many-names".to_string()));
        }
        // thousands of distinct name suffixes ahead of a repeated name, all below offset 16383: the table of earlier
        // names has no bound short of the message itself (20 / 36 / 55 names of 122 labels: 2440 / 4392 / 6710 suffixes)
        for count in [20usize, 36, 55] {
            let mut p = Packet::new_reply(count as u16);
            for k in 0..count {
                let mut labels: Vec<Vec<u8>> = (0..121).map(|i| vec![b'a' + ((i * 7 + k) % 26) as u8]).collect();
                labels.push(vec![b'0' + (k / 10) as u8, b'0' + (k % 10) as u8]);
                p.answers.push(ResourceRecord::new(crate::gen::mk_name(&labels), CLASS::IN, 1, rdata::RData::A(rdata::A { address: k as u32 })));
            }
            let late = crate::gen::mk_name(&[b"late".to_vec(), b"example".to_vec()]);
            p.additional_records.push(ResourceRecord::new(late.clone(), CLASS::IN, 1, rdata::RData::A(rdata::A { address: 1 })));
            p.additional_records.push(ResourceRecord::new(crate::gen::mk_name(&[b"x".to_vec()]), CLASS::IN, 1, rdata::RData::CNAME(rdata::CNAME(late.clone()))));
            p.additional_records.push(ResourceRecord::new(late, CLASS::IN, 1, rdata::RData::A(rdata::A { address: 2 })));
            v.push((p, "many-suffixes".to_string()));
        }
        // the largest messages there are: plain serialisation of exactly 65535, 65534 and 65533 bytes (names shared, so the
        // compressed form is shorter), padded with one opaque record
        for target in [65535usize, 65534, 65533] {
            let mut p = Packet::new_reply(target as u16);
            let host = crate::gen::mk_name(&[b"host".to_vec(), b"example".to_vec(), b"org".to_vec()]);
            p.questions.push(Question::new(host.clone(), TYPE::A.into(), CLASS::IN.into(), false));
            for k in 0..6u32 { p.answers.push(ResourceRecord::new(host.clone(), CLASS::IN, 60, rdata::RData::A(rdata::A { address: k }))); }
            p.name_servers.push(ResourceRecord::new(crate::gen::mk_name(&[b"example".to_vec(), b"org".to_vec()]), CLASS::IN, 60, rdata::RData::NS(rdata::NS(host.clone()))));
            let pad_owner = crate::gen::mk_name(&[b"pad".to_vec(), b"example".to_vec(), b"org".to_vec()]);
            let mut probe = p.clone();
            probe.additional_records.push(ResourceRecord::new(pad_owner.clone(), CLASS::IN, 0, rdata::RData::NULL(10, rdata::NULL::new(&[]).unwrap())));
            let base = probe.build_bytes_vec().map(|b| b.len()).unwrap_or(0);
            if base == 0 || base > target { continue; }
            let blob: Vec<u8> = (0..target - base).map(|i| (i * 31 % 251) as u8).collect();
            p.additional_records.push(ResourceRecord::new(pad_owner, CLASS::IN, 0, rdata::RData::NULL(10, rdata::NULL::new(&blob).unwrap()).into_owned()));
            v.push((p, "max-size".to_string()));
        }
    }
    v
}

pub fn c02(tier: &str, seed: u64) -> Vec<Case> {
    let mut v = vec![];
    // ... and the size limit itself: messages of exactly 65533..65535 bytes
    let at_the_limit: Vec<(Packet<'static>, String)> = packets(tier, seed, true).into_iter().filter(|(_, t)| t == "max-size").collect();
    for (p, tag) in packets(tier, seed, false).into_iter().chain(at_the_limit) {
        let ptxt = text::packet(&p);
        let (out, bytes) = build_out(&p, false);
        let mut c = Case::new(format!("build {}", ptxt), out.clone()).tag(&tag).tag("build");
        if let Some(b) = &bytes {
            let back = parse_out(b);
            if back != format!("ok {}", ptxt) {
                c = c.fail("build-parse-differs", format!("parse(build(p)) != p: got {}", &back[..back.len().min(300)]));
            } else if let Ok(parsed) = Packet::parse(b) {
                // "the same packet" also by the library's own `==` on every record (whatever a value keeps besides what
                // the text form above shows), and the packet read back writes the bytes it was read from
                let pairs = p.answers.iter().zip(parsed.answers.iter()).chain(p.name_servers.iter().zip(parsed.name_servers.iter())).chain(p.additional_records.iter().zip(parsed.additional_records.iter()));
                let mut unequal = None;
                for (x, y) in pairs { if !(x == y) || !(y == x) || x.rdata != y.rdata { unequal = Some(text::rr(x)); break; } }
                if let Some(u) = unequal { c = c.fail("build-parse-differs", format!("parse(build(p)) prints like p but a record compares unequal: {}", &u[..u.len().min(200)])); }
                else if parsed.build_bytes_vec().ok().as_ref() != Some(b) { c = c.fail("build-parse-differs", "parse(build(p)) prints like p but serialises to other bytes than p".into()); }
            }
            v.push(Case::new(format!("parse {}", text::hex(b)), back).tag("parse"));
        } else {
            c = c.fail("build-failed", format!("build_bytes_vec of a well-formed packet: {}", out));
        }
        v.push(c);
    }
    // the excluded point of the precondition (TXT without strings) is run on the real code
    {
        let mut p = Packet::new_reply(1);
        p.answers.push(ResourceRecord::new(Name::new_unchecked("a"), CLASS::IN, 0, rdata::RData::TXT(rdata::TXT::new())));
        let ptxt = text::packet(&p);
        let (out, bytes) = build_out(&p, false);
        let mut c = Case::new(format!("build {}", ptxt), out).tag("txt-no-strings");
        if let Some(b) = bytes {
            if parse_out(&b) != format!("ok {}", ptxt) {
                c = c.fail("txt-no-strings", "a TXT record with no strings is written as one empty string and parses back as [\"\"]".to_string());
            }
        }
        v.push(c);
    }
    // a third excluded point: a question for a type the library has no layout for, built through the public constructors
    // (`QTYPE::TYPE(TYPE::from(c))`: a client asking for TLSA, SSHFP, a private-use type): the writer emits the code, the
    // parser refuses an unsupported question type (C18 demands that it be an error, not an alias) - so the library cannot
    // read the query it wrote, nor a response that echoes the question (C02 and C18 cannot both be met here)
    for code in [52u16, 44, 99, 300, 65280, 0] {
        let mut p = Packet::new_query(code);
        p.questions.push(Question::new(crate::gen::mk_name(&[b"host".to_vec(), b"example".to_vec()]), QTYPE::TYPE(TYPE::from(code)), CLASS::IN.into(), false));
        let mut c = Case::oracle_only().tag("unknown-qtype-question");
        match p.build_bytes_vec() {
            Ok(b) => { if parse_out(&b) != format!("ok {}", text::packet(&p)) { c = c.fail("unknown-qtype-question", format!("a question for type {} is written and does not parse back", code)); } }
            Err(_) => { c = c.tag("refused-at-build"); }
        }
        v.push(c);
    }
    // a second excluded point: opaque data of length zero (RFC 1035 3.3.10 allows it, `NULL::new(&[])` accepts it):
    // RDLENGTH 0 is read back as `RData::Empty(type)`, another variant - `NULL(t, [])` and `Empty(t)` share one wire form
    for code in [10u16, 300] {
        let mut p = Packet::new_reply(2);
        p.answers.push(ResourceRecord::new(Name::new_unchecked("a"), CLASS::IN, 5, rdata::RData::NULL(code, rdata::NULL::new(&[]).unwrap())));
        let (out, bytes) = build_out(&p, false);
        let mut c = Case::oracle_only().tag("null-no-data");
        let same = bytes.as_ref().and_then(|b| Packet::parse(b).ok().map(|q| matches!(q.answers.get(0).map(|a| &a.rdata), Some(rdata::RData::NULL(c2, n)) if *c2 == code && n.get_data().is_empty()))).unwrap_or(false);
        if !same { c = c.fail("null-no-data", format!("a record of type {} with zero octets of opaque data is written with RDLENGTH 0 and parses back as empty RDATA, another variant ({})", code, class_of(&out))); }
        v.push(c);
    }
    v
}

/// root-owner TXT records occupying exactly `bytes` bytes (>= 24) of an uncompressed message
fn padding(bytes: usize, fill: u8) -> Vec<ResourceRecord<'static>> {
    let mut out = vec![];
    let mut left = bytes;
    let mk = |k: usize| {
        let mut t = rdata::TXT::new();
        t.add_char_string(crate::gen::mk_cs(&vec![fill; k]));
        ResourceRecord::new(Name::new_with_labels(&[]), CLASS::IN, 0, rdata::RData::TXT(t))
    };
    // a record with one string of k bytes costs 1 + 10 + 1 + k
    while left >= 2 * 267 { out.push(mk(255)); left -= 267; }
    let a = left / 2;
    let b = left - a;
    out.push(mk(a - 12));
    out.push(mk(b - 12));
    out
}

/// a sweep of a multi-label name across offset 16383/16384 followed by names sharing its suffixes
pub fn boundary_packets(tier: &str) -> Vec<(Packet<'static>, String)> {
    let mut v = vec![];
    let range: Vec<usize> = if tier == "thorough" { (16330..=16420).collect() } else { (16352..=16396).step_by(1).collect() };
    for (i, start) in range.into_iter().enumerate() {
        let mut p = Packet::new_reply(i as u16);
        p.answers = padding(start - 12, b'p');
        let lab = |s: &str| s.as_bytes().to_vec();
        let shapes: [Vec<Vec<u8>>; 2] = [vec![lab("aaaaaaaaaa"), lab("shared"), lab("example")], vec![lab("x"), lab("yy"), lab("zzz"), lab("w"), lab("example")]];
        let n = &shapes[i % 2];
        let a = |addr: u32| rdata::RData::A(rdata::A { address: addr });
        p.additional_records.push(ResourceRecord::new(crate::gen::mk_name(n), CLASS::IN, 1, a(1)));
        for k in 1..n.len() {
            let mut m = vec![lab("q")];
            m.extend_from_slice(&n[k..]);
            p.additional_records.push(ResourceRecord::new(crate::gen::mk_name(&m), CLASS::IN, 1, a(2)));
            p.additional_records.push(ResourceRecord::new(crate::gen::mk_name(&n[k..]), CLASS::IN, 1, rdata::RData::MX(rdata::MX { preference: 1, exchange: crate::gen::mk_name(n) })));
        }
        v.push((p, "boundary-16383".to_string()));
    }
    v
}

pub fn c03(tier: &str, seed: u64) -> Vec<Case> {
    let mut v = vec![];
    let mut all = packets(tier, seed ^ 0x33, true);
    all.extend(boundary_packets(tier));
    for (p, tag) in all {
        let ptxt = text::packet(&p);
        let (pout, plain) = build_out(&p, false);
        let (cout, comp) = build_out(&p, true);
        let mut c = Case::new(format!("build.comp {}", ptxt), cout.clone()).tag(&tag);
        // values outside the model's well-formedness (unordered NSEC windows): the property's own oracle only
        if tag == "nsec-unordered" { c.proj = Proj::None; c.op = String::new(); }
        match (&plain, &comp) {
            (Some(pb), Some(cb)) => {
                let a = parse_out(pb);
                let b = parse_out(cb);
                if a != b || class_of(&b) != "ok" {
                    c = c.fail("compressed-parse-differs", format!("parse(compressed) != parse(plain) ({} vs {} bytes)", cb.len(), pb.len()));
                }
                if cb.len() > pb.len() {
                    c = c.fail("compressed-longer", format!("{} > {}", cb.len(), pb.len()));
                }
                if cb.len() > 16383 { c = c.tag("beyond-16383"); }
                if cb.len() < pb.len() { c = c.tag("actually-compressed"); }
                if tag != "big" && tag != "boundary-16383" && tag != "nsec-unordered" { v.push(Case::new(format!("parse {}", text::hex(cb)), b).tag("parse")); }
            }
            _ => { c = c.fail("build-failed", format!("plain: {} compressed: {}", class_of(&pout), class_of(&cout))); }
        }
        v.push(c);
    }
    v
}

/// messages for the parser-side properties: reference-encoded with caller-chosen compression,
/// RDLENGTH larger/smaller than natural, counts ±1, OPT anywhere, followed by more records
pub fn hostile_messages(tier: &str, seed: u64) -> Vec<(Vec<u8>, String)> {
    hostile_messages_x(tier, seed).into_iter().map(|(b, t, _)| (b, t)).collect()
}

/// as `hostile_messages`, with the packet text a pristine reference encoding was made from
pub fn hostile_messages_x(tier: &str, seed: u64) -> Vec<(Vec<u8>, String, Option<String>)> {
    let thorough = tier == "thorough";
    let mut g = Gen::new(seed ^ 0x55);
    let mut r = Rng::new(seed ^ 0x77);
    let mut v = vec![];
    let n = if thorough { 30_000 } else { 2_500 };
    for i in 0..n {
        g.share = 7;
        let mut p = g.packet(3);
        if i % 7 == 0 { *p.opcode_mut() = OPCODE::StandardQuery; }
        // the same record twice in a row with another TTL or cache-flush bit (a goodbye followed by a
        // re-announcement): one record per entry, however alike two entries are
        if i % 4 == 1 {
            for sec in [&mut p.answers, &mut p.name_servers, &mut p.additional_records] {
                if let Some(first) = sec.iter().find(|x| !matches!(x.rdata, rdata::RData::OPT(_))).cloned() {
                    let at = sec.iter().position(|x| x == &first).unwrap();
                    let mut twin = first.clone();
                    twin.ttl = if r.chance(1, 2) { 0 } else { twin.ttl };
                    twin.cache_flush = r.chance(1, 2);
                    sec.insert(at + 1, twin);
                }
            }
        }
        let ptxt = text::packet(&p);
        let pos = if p.opt().is_some() { Some(r.below(5) as usize) } else { None };
        let (bytes, _) = refenc::encode_packet(&ptxt, Compress::Random(&mut r, 5), false, pos);
        if bytes.len() > 4000 { continue; }
        // with a second OPT-typed record in the additional section "the" OPT record is whichever comes
        // first on the wire: no expectation then
        let two_opts = p.opt().is_some() && p.additional_records.iter().any(|x| matches!(x.rdata, rdata::RData::OPT(_)));
        v.push((bytes.clone(), "refenc".to_string(), if two_opts { None } else { Some(ptxt.clone()) }));
        // RDLENGTH / count perturbations located with the independent walker
        if let Some(w) = walker::walk(&bytes) {
            let entries: Vec<&walker::Entry> = w.sections.iter().flatten().collect();
            if !entries.is_empty() {
                let e = *r.pick(&entries);
                for delta in [-1i64, 1, 2, 7, (bytes.len() - e.next()) as i64, (bytes.len() - e.next()) as i64 + 1, -(e.rd_len as i64)] {
                    let nl = e.rd_len as i64 + delta;
                    if nl < 0 || nl > 65535 { continue; }
                    let mut m = bytes.clone();
                    m[e.rd_start - 2..e.rd_start].copy_from_slice(&(nl as u16).to_be_bytes());
                    v.push((m, "rdlength-changed".to_string(), None));
                    // same, but with the bytes adjusted so that the envelope stays consistent
                    if delta > 0 && delta < 9 {
                        let mut m2 = bytes[..e.next()].to_vec();
                        m2.extend(r.bytes(delta as usize));
                        m2.extend_from_slice(&bytes[e.next()..]);
                        m2[e.rd_start - 2..e.rd_start].copy_from_slice(&(nl as u16).to_be_bytes());
                        v.push((m2, "rdata-surplus".to_string(), None));
                    }
                }
            }
            for k in 0..4 {
                for d in [1u16, 0xFFFF] {
                    let mut m = bytes.clone();
                    let c = u16::from_be_bytes([m[4 + 2 * k], m[5 + 2 * k]]).wrapping_add(d);
                    m[4 + 2 * k..6 + 2 * k].copy_from_slice(&c.to_be_bytes());
                    v.push((m, "count±1".to_string(), None));
                }
            }
        }
        if i % 5 == 0 {
            for cut in [bytes.len() - 1, bytes.len() / 2, 13] {
                if cut < bytes.len() { v.push((bytes[..cut].to_vec(), "truncated".to_string(), None)); }
            }
        }
    }
    // a name inside the RDATA that does not end within RDLENGTH, followed by an entry whose first bytes
    // would complete it: the RDATA is decoded from exactly RDLENGTH bytes, so this is an error
    for typ in [2u8, 5, 12, 23, 3, 4, 7, 8, 9, 15, 6, 33] {
        for (rd, tail_owner) in [(vec![1u8, b'a'], vec![1u8, b'b', 0]), (vec![3, b'w', b'w'], vec![b'w', 0]), (vec![1, b'a', 2, b'x'], vec![b'y', 0])] {
            let mut m = vec![0u8, 9, 0x84, 0, 0, 0, 0, 2, 0, 0, 0, 0];
            m.extend_from_slice(&[0, 0, typ, 0, 1, 0, 0, 0, 60]);
            let mut rdata_bytes = match typ { 15 => vec![0, 10], 33 => vec![0, 0, 0, 0, 0, 80], _ => vec![] };
            rdata_bytes.extend_from_slice(&rd);
            m.extend_from_slice(&(rdata_bytes.len() as u16).to_be_bytes());
            m.extend_from_slice(&rdata_bytes);
            m.extend_from_slice(&tail_owner);
            m.extend_from_slice(&[0, 1, 0, 1, 0, 0, 0, 60, 0, 4, 127, 0, 0, 1]);
            v.push((m, "rdata-name-runs-over".to_string(), None));
        }
    }
    // overlapping owner names: the owner of the second record is a pointer into the first record's
    // RDATA, to a label whose bytes run over the pointer itself and end on its first byte, its second
    // byte, or the byte after it (the record's TYPE, whose high byte 0 then terminates the name). The
    // cursor must still resume two bytes after the owner's start, and further records must be found.
    for p in 1..7usize {
        for t in 0..p {
            for end_at in [p, p + 1, p + 2] {
                if end_at < t + 1 { continue; }
                let l = end_at - (t + 1);
                if l == 0 || l > 63 { continue; }
                for (third, qd) in [(false, false), (true, false), (false, true)] {
                    let mut m = vec![0u8, 9, 0x80, 0, 0, qd as u8, 0, 2 + third as u8, 0, 0, 0, 0];
                    if qd { m.extend_from_slice(&[1, b'q', 0, 0, 1, 0, 1]); }
                    // record 1: root owner, NULL, RDATA = p filler bytes with a length byte at t
                    m.extend_from_slice(&[0, 0, 10, 0, 1, 0, 0, 1, 44, 0, p as u8]);
                    let base = m.len();
                    let mut rd = vec![0x61u8; p];
                    rd[t] = l as u8;
                    m.extend_from_slice(&rd);
                    // record 2: owner = pointer to base + t, then A / IN / TTL 60 / 4 bytes
                    m.extend_from_slice(&[0xC0, (base + t) as u8, 0, 1, 0, 1, 0, 0, 0, 60, 0, 4, 127, 0, 0, 1]);
                    let owner_at = m.len() - 16;
                    if third { m.extend_from_slice(&[0xC0, (base + t) as u8, 0, 16, 0, 1, 0, 0, 0, 7, 0, 2, 1, b'z']); }
                    // what an RFC 1035 reader sees: the owner is whatever the independent decoder obtains at
                    // the pointer; when it obtains a name, the three records are well-formed and must be read
                    let want = walker::decode_name(&m, owner_at).map(|(labels, _)| {
                        let n = format!("n {}{}", labels.len(), labels.iter().map(|l| format!(" {}", text::hex(l))).collect::<String>());
                        format!("P 9 32768 0 0 o0 {} {} n 0 1 300 0 U 10 {} {} 1 60 0 F 1 1 i 2130706433{} 0 0",
                            if qd { "1 n 1 x71 1 1 0" } else { "0" }, 2 + third as u8, text::hex(&rd), n,
                            if third { format!(" {} 1 7 0 F 16 1 s 1 x7a", n) } else { String::new() })
                    });
                    v.push((m, "overlapping-owner".to_string(), want));
                }
            }
        }
    }
    v
}

/// the library's result for each walked entry, compared field by field with the envelope
fn framing_oracle(b: &[u8]) -> Option<(String, String)> {
    let w = walker::walk(b);
    let parsed = std::panic::catch_unwind(|| Packet::parse(b).ok()).unwrap_or(None);
    match (w, parsed) {
        (None, Some(_)) => Some(("accepted-overrun".into(), "the message's counts or lengths run past its end but the parser accepted it".into())),
        (Some(w), Some(p)) => {
            if p.questions.len() != w.questions.len() { return Some(("question-count".into(), "number of questions".into())); }
            for (q, e) in p.questions.iter().zip(w.questions.iter()) {
                let (labels, _) = match walker::decode_name(b, e.off) { Some(x) => x, None => return Some(("question-name".into(), "undecodable name accepted".into())) };
                let got: Vec<Vec<u8>> = q.qname.get_labels().iter().map(|l| l.as_bytes().to_vec()).collect();
                if got != labels || u16::from(q.qtype) != e.qtype || u16::from(q.qclass) != (e.qclass & 0x7FFF) || q.unicast_response != (e.qclass & 0x8000 != 0) {
                    return Some(("question-fields".into(), format!("question at {}", e.off)));
                }
            }
            let secs: [&Vec<ResourceRecord>; 3] = [&p.answers, &p.name_servers, &p.additional_records];
            for s in 0..3 {
                // the additional section: the first OPT entry is lifted into the header
                let mut ents: Vec<&walker::Entry> = w.sections[s].iter().collect();
                if s == 2 {
                    if let Some(i) = ents.iter().position(|e| e.typ == 41) {
                        if p.opt().is_none() { return Some(("opt-not-lifted".into(), "OPT entry present but Packet::opt() is None".into())); }
                        ents.remove(i);
                    } else if p.opt().is_some() { return Some(("opt-invented".into(), "no OPT entry but Packet::opt() is Some".into())); }
                }
                if secs[s].len() != ents.len() { return Some(("record-count".into(), format!("section {}: {} records for {} entries", s, secs[s].len(), ents.len()))); }
                for (r, e) in secs[s].iter().zip(ents.iter()) {
                    let (labels, _) = match walker::decode_name(b, e.off) { Some(x) => x, None => return Some(("record-name".into(), "undecodable owner accepted".into())) };
                    let got: Vec<Vec<u8>> = r.name.get_labels().iter().map(|l| l.as_bytes().to_vec()).collect();
                    let is_opt = e.typ == 41;
                    let ok = got == labels && u16::from(r.rdata.type_code()) == e.typ && r.ttl == e.ttl
                        && (is_opt || (r.class as u16 == (e.class & 0x7FFF) && r.cache_flush == (e.class & 0x8000 != 0)));
                    if !ok { return Some(("record-fields".into(), format!("record at {}: owner/type/class/ttl differ from the entry", e.off))); }
                    // RDATA decoded from exactly its RDLENGTH bytes: with everything after the record cut off,
                    // or replaced by other bytes, the record must give the same RDATA and the same cursor.
                    // (The *owner* may legitimately depend on later bytes: a label reached through a pointer
                    // can extend past the record; such variants are skipped.)
                    let mut flipped = b[..e.next()].to_vec();
                    flipped.extend(b[e.next()..].iter().map(|x| !x));
                    for variant in [&b[..e.next()], &flipped[..]] {
                        let owner_same = std::panic::catch_unwind(|| match (simple_dns::verif::parse_name_at(variant, e.off), simple_dns::verif::parse_name_at(b, e.off)) {
                            (Ok((n1, p1)), Ok((n2, p2))) => p1 == p2 && text::name(&n1) == text::name(&n2),
                            _ => false,
                        }).unwrap_or(false);
                        if !owner_same { continue; }
                        match std::panic::catch_unwind(|| simple_dns::verif::parse_record_at(variant, e.off).ok()).unwrap_or(None) {
                            Some((r2, pos)) => {
                                if pos != e.next() || text::rdata(&r2.rdata) != text::rdata(&r.rdata) {
                                    return Some(("rdata-not-local".into(), format!("record at {}: RDATA depends on bytes after its RDLENGTH, or cursor {} != {}", e.off, pos, e.next())));
                                }
                            }
                            None => return Some(("rdata-not-local".into(), format!("record at {} does not parse when the bytes after its end change", e.off))),
                        }
                    }
                }
            }
            None
        }
        _ => None,
    }
}

pub fn c05(tier: &str, seed: u64) -> Vec<Case> {
    let mut v = vec![];
    for (b, tag, expected) in hostile_messages_x(tier, seed) {
        let out = parse_out(&b);
        let mut c = Case::new(format!("parse {}", text::hex(&b)), out.clone()).tag(&tag).tag(&format!("outcome:{}", class_of(&out)));
        if let Some((k, m)) = framing_oracle(&b) { c = c.fail(&k, m); }
        // a message encoded by the independent reference encoder (compression chosen by the encoder, in
        // any name) must decode to the values it was encoded from: every element resumes right after
        // the in-place bytes of the names inside it
        if let Some(want) = expected { if out != format!("ok {}", want) { c = c.fail("reference-encoding-misread", format!("the reference encoding of a packet does not parse to that packet: GOT {} WANT {}", &out[..out.len().min(700)], &want[..want.len().min(700)])); } }
        if out == "panic" { c = c.fail("parse-panic", "panic".into()); }
        if tag == "rdata-name-runs-over" && class_of(&out) != "err" { c = c.fail("rdata-overrun-accepted", "a name inside the RDATA runs past RDLENGTH into the next entry and the message is accepted".into()); }
        v.push(c);
    }
    // encodings whose inner lengths overrun the RDATA (an OPT option, a character-string, a (key, length, value)
    // triple claiming more than the RDLENGTH leaves) with another record after them: whatever is decided about the
    // record, the following entry is not read from inside it and nothing is taken from beyond the RDLENGTH
    for (mut b, rule) in crate::props::rfc::rule_breakers(tier == "thorough", seed ^ 0x5055) {
        // a following record, announced in the header
        b.extend_from_slice(&[1, b'z', 0, 0, 1, 0, 1, 0, 0, 0, 3, 0, 4, 10, 9, 8, 7]);
        b[7] = b[7].wrapping_add(1);
        let out = parse_out(&b);
        let mut c = Case::new(format!("parse {}", text::hex(&b)), out.clone()).tag(&format!("rule-breaker:{}", rule)).tag(&format!("outcome:{}", class_of(&out)));
        if let Some((k, m)) = framing_oracle(&b) { c = c.fail(&k, m); }
        if out == "panic" { c = c.fail("parse-panic", "panic".into()); }
        if rule.contains("overrun") && class_of(&out) == "ok" { c = c.fail("rdata-overrun-accepted", format!("{}: an inner length that overruns the RDATA is satisfied from the bytes of the next record", rule)); }
        v.push(c);
    }
    // pointers across the whole 14-bit range: a 16 KiB message whose first record carries opaque data with names laid down
    // at offsets in every region (0x00C0, 0x039F, 0x0FFF, 0x1000, 0x139F, 0x2001, 0x3F00 ...), then records whose owners
    // are pointers to them - every bit of the offset counts
    {
        let offsets: [usize; 12] = [0x00C0, 0x01FF, 0x039F, 0x0800, 0x0FFF - 8, 0x1000, 0x139F, 0x1FFF - 8, 0x2001, 0x2FFF, 0x339F, 0x3F00];
        let mut b = vec![0u8, 7, 0x80, 0, 0, 0, 0, (1 + offsets.len()) as u8, 0, 0, 0, 0];
        b.extend_from_slice(&[1, b'p', 0, 0, 10, 0, 1, 0, 0, 0, 0]);
        let rdlen = 0x3F40usize;
        b.extend_from_slice(&(rdlen as u16).to_be_bytes());
        let start = b.len();
        b.resize(start + rdlen, 0xEE);
        for (k, o) in offsets.iter().enumerate() { let n = [1u8, b'n', 2, b'0' + (k / 10) as u8, b'0' + (k % 10) as u8, 0]; b[*o..*o + n.len()].copy_from_slice(&n); }
        for o in offsets.iter() { b.extend_from_slice(&[0xC0 | (o >> 8) as u8, *o as u8, 0, 1, 0, 1, 0, 0, 0, 9, 0, 4, 10, 0, (o >> 8) as u8, *o as u8]); }
        let out = parse_out(&b);
        let mut c = Case::new(format!("parse {}", text::hex(&b)), out.clone()).tag("high-pointers").tag(&format!("outcome:{}", class_of(&out)));
        if let Some((k, m)) = framing_oracle(&b) { c = c.fail(&k, m); }
        match Packet::parse(&b) {
            Ok(p) => {
                for (k, _) in offsets.iter().enumerate() {
                    let want = vec![vec![b'n'], vec![b'0' + (k / 10) as u8, b'0' + (k % 10) as u8]];
                    let got: Option<Vec<Vec<u8>>> = p.answers.get(k + 1).map(|r| r.name.get_labels().iter().map(|l| l.as_bytes().to_vec()).collect());
                    if got.as_ref() != Some(&want) { c = c.fail("record-name", format!("the owner given as a pointer to offset {:#06x} is read as {:?}", offsets[k], got)); }
                }
            }
            Err(_) => { c = c.fail("reference-encoding-misread", "a well-formed 16 KiB message with pointers to offsets in every region is rejected".into()); }
        }
        v.push(c);
    }
    // crowded sections: tens to thousands of small entries in one section and a few in the others - every one of them
    // reported, at its own index, in its own section (a zone transfer chunk, a large RRset, an mDNS response for a rack)
    {
        let mut r = Rng::new(seed ^ 0xC05D);
        let sizes: &[usize] = if tier == "thorough" { &[11, 31, 32, 33, 63, 64, 65, 66, 127, 128, 129, 255, 256, 257, 300, 1000, 1023, 1024, 1025, 4096, 5000] } else { &[11, 33, 64, 65, 66, 128, 129, 256, 257, 300, 1025] };
        for &n in sizes {
            for crowded in 0..4usize {
                let counts: Vec<usize> = (0..4).map(|s| if s == crowded { n } else { r.below(3) as usize }).collect();
                let mut b = vec![0u8, 5, 0x80, 0];
                for c in &counts { b.extend_from_slice(&(*c as u16).to_be_bytes()); }
                for (s, c) in counts.iter().enumerate() {
                    for k in 0..*c {
                        b.extend_from_slice(&[1, b'a' + (k % 26) as u8, 0]);
                        if s == 0 { b.extend_from_slice(&[0, 1, 0, 1]); }
                        else { b.extend_from_slice(&[0, 1, 0, 1, 0, 0, (k >> 8) as u8, k as u8, 0, 4, 10, s as u8, (k >> 8) as u8, k as u8]); }
                    }
                }
                let out = parse_out(&b);
                let mut c = Case::new(format!("parse {}", text::hex(&b)), out.clone()).tag("crowded-section").tag(&format!("outcome:{}", class_of(&out)));
                if n > 300 { c.proj = Proj::None; c.op = String::new(); }
                if let Some((k, m)) = framing_oracle(&b) { c = c.fail(&k, m); }
                if class_of(&out) != "ok" { c = c.fail("reference-encoding-misread", format!("a well-formed message with section counts {:?} is rejected", counts)); }
                v.push(c);
            }
        }
    }
    // valid packets too (mostly accepted)
    for (p, tag) in packets(tier, seed ^ 0x99, false).into_iter().take(if tier == "thorough" { 10000 } else { 1200 }) {
        for comp in [false, true] {
            if let (_, Some(b)) = build_out(&p, comp) {
                let out = parse_out(&b);
                let mut c = Case::new(format!("parse {}", text::hex(&b)), out).tag(&tag).tag("valid");
                if let Some((k, m)) = framing_oracle(&b) { c = c.fail(&k, m); }
                v.push(c);
            }
        }
    }
    v
}

pub fn c11(tier: &str, seed: u64) -> Vec<Case> {
    let mut v = vec![];
    let mut inputs = hostile_messages(tier, seed ^ 0x1111);
    // encodings that break a structural rule of some record type: rejected today; should a parser ever
    // accept one, the accepted value must still survive re-serialisation
    for (b, rule) in crate::props::rfc::rule_breakers(tier == "thorough", seed ^ 0x2222) { inputs.push((b, format!("rule-breaker:{}", rule))); }
    // every header word on a message with one question
    let mut r = Rng::new(seed);
    for w in (0..=65535u32).step_by(if tier == "thorough" { 1 } else { 37 }) {
        let mut b = vec![(w >> 3) as u8, w as u8, (w >> 8) as u8, w as u8, 0, 1, 0, 0, 0, 0, 0, 0, 1, b'a', 0, 0, 1, 0, 1];
        if r.chance(1, 4) { b[11] = 1; b.extend_from_slice(&[0, 0, 41, 2, 0, r.next() as u8, r.next() as u8, 0, 0, 0, 0]); }
        inputs.push((b, "header-word".to_string()));
    }
    // every extended response code: the upper eight bits in the OPT TTL octet this library reads them from (and, the same
    // sweep again, in the octet RFC 6891 puts them), under a few header nibbles - codes the library has a name for, codes it
    // has none for, and whatever name a later version gives them: what was read survives being written out again
    for ext in 0..=255u32 {
        for (k, nib) in [0u8, 1, 7, 15].iter().enumerate() {
            for layout in 0..2 {
                let mut b = vec![0u8, 7, 0x80, *nib, 0, 1, 0, 0, 0, 0, 0, 1, 1, b'a', 0, 0, 1, 0, 1];
                let ttl = if layout == 0 { [0u8, 0, if k % 2 == 0 { 0 } else { 0x80 }, ext as u8] } else { [ext as u8, 0, 0, 0] };
                b.extend_from_slice(&[0, 0, 41, 4, 208]);
                b.extend_from_slice(&ttl);
                b.extend_from_slice(&[0, 0]);
                inputs.push((b, "extended-rcode".to_string()));
            }
        }
    }
    // received messages with names of up to 127 labels and owner names that each extend the previous one (read back
    // from the compressing writer the last one follows up to 126 pointers), given uncompressed and compressed
    for (p, tag) in packets(tier, seed ^ 0x3333, true) {
        if tag != "many-names" && tag != "many-suffixes" && tag != "max-size" { continue; }
        if let Ok(b) = p.build_bytes_vec() { if b.len() < 20000 || tag == "max-size" { inputs.push((b, format!("received:{}", tag))); } }
        if let Ok(b) = p.build_bytes_vec_compressed() { if b.len() < 20000 || tag == "max-size" { inputs.push((b, format!("received:{}", tag))); } }
    }
    // accepted messages beyond 16 KiB in which names first appear past offset 16383 and repeat
    for (k, (p, _)) in boundary_packets(tier).into_iter().enumerate() {
        if k % 3 != 0 { continue; }
        let mut q = p.clone();
        // a name that first occurs beyond 16383, twice
        let late = crate::gen::mk_name(&[b"late".to_vec(), b"name".to_vec(), vec![b'k'; 1 + k % 5]]);
        for _ in 0..2 { q.additional_records.push(ResourceRecord::new(late.clone(), CLASS::IN, 9, rdata::RData::A(rdata::A { address: 7 }))); }
        if let Ok(b) = q.build_bytes_vec() { inputs.push((b, "beyond-16383".to_string())); }
    }
    // corpus: a 65 535-byte message whose RRSIG signer name is a pointer into the record's own fixed
    // RDATA bytes, laid out so that the decoder reads them twice (overlapping labels): 2 bytes on the
    // wire expand to a 32-byte name and the re-encoded RDATA needs 65 542 bytes
    {
        let mut b = vec![0u8, 1, 0x80, 0, 0, 0, 0, 1, 0, 0, 0, 0, 0, 0, 46, 0, 1, 0, 0, 0, 0];
        b.extend_from_slice(&65512u16.to_be_bytes());
        b.extend_from_slice(&[14, 15, 1, 2, 3, 4, 5, 6, 7, 8, 9, 10, 11, 12, 13, 0xC0, 24, 0]);
        b.extend_from_slice(&[0xC0, 23]);
        b.resize(65535, 0x55);
        inputs.insert(0, (b, "corpus-overlapping-labels".to_string()));
    }
    for (b, tag) in inputs {
        let parsed = std::panic::catch_unwind(|| Packet::parse(&b).ok()).unwrap_or(None);
        let p = match parsed { Some(p) => p, None => { v.push(Case::new(format!("parse {}", text::hex(&b)), parse_out(&b)).tag("rejected").trivial(true)); continue; } };
        let ptxt = text::packet(&p);
        v.push(Case::new(format!("parse {}", text::hex(&b)), format!("ok {}", ptxt)).tag(&tag).tag("accepted"));
        for comp in [false, true] {
            let (out, bytes) = build_out(&p, comp);
            let mut c = Case::new(format!("{} {}", if comp { "build.comp" } else { "build" }, ptxt), out.clone()).tag(if comp { "rebuilt-compressed" } else { "rebuilt-plain" });
            match bytes {
                Some(nb) => {
                    let back = parse_out(&nb);
                    let expands = p.answers.iter().chain(p.name_servers.iter()).chain(p.additional_records.iter()).any(|r| simple_dns::verif::rdata_len(&r.rdata) > 65535);
                    if back != format!("ok {}", ptxt) && expands {
                        c = c.fail("rdata-expands-past-65535", "a name compressed on the wire expands so that the uncompressed RDATA exceeds 65535 bytes: RDLENGTH is written truncated to 16 bits and the output does not parse back".into());
                    } else if back != format!("ok {}", ptxt) {
                        c = c.fail("reserialise-differs", format!("parse(build{}(parse(b))) != parse(b); got {}", if comp { "_compressed" } else { "" }, &back[..back.len().min(300)]));
                    }
                }
                None => { c = c.fail("reserialise-failed", format!("serialising a parsed packet: {}", out)); }
            }
            v.push(c);
        }
        // a proxy re-emits behind a two-byte length prefix (DNS over TCP) or after an earlier message in
        // the same buffer: the same packet must come back from a writer that does not start at 0
        if b.len() % 8 == 3 && b.len() < 4000 {
            for comp in [false, true] {
                let mut cur = std::io::Cursor::new(vec![0xAAu8; 5]);
                cur.set_position(5);
                watch("re-emit at a stream offset");
                let pp = p.clone();
                let ok = std::panic::catch_unwind(std::panic::AssertUnwindSafe(|| if comp { pp.write_compressed_to(&mut cur).is_ok() } else { pp.write_to(&mut cur).is_ok() })).unwrap_or(false);
                let mut c = Case::oracle_only().tag("re-emitted-at-offset");
                let expands = p.answers.iter().chain(p.name_servers.iter()).chain(p.additional_records.iter()).any(|r| simple_dns::verif::rdata_len(&r.rdata) > 65535);
                if !expands {
                    if !ok { c = c.fail("reserialise-failed", "serialising a parsed packet behind a length prefix fails".into()); }
                    else { let back = parse_out(&cur.get_ref()[5..]); if back != format!("ok {}", ptxt) { c = c.fail("reserialise-differs", format!("re-emitted {} behind a 5-byte prefix, the message does not read back as the packet", if comp { "compressed" } else { "plain" })); } }
                }
                v.push(c);
                // ... or into a buffer that still holds an older, longer message (a reused datagram buffer): what
                // lies beyond the bytes written so far must not matter
                let want = if comp { p.build_bytes_vec_compressed() } else { p.build_bytes_vec() };
                if let (Ok(want), false) = (want, expands) {
                    let mut cur2 = std::io::Cursor::new(vec![0x5Au8; want.len() + 40]);
                    let pp = p.clone();
                    let ok2 = std::panic::catch_unwind(std::panic::AssertUnwindSafe(|| if comp { pp.write_compressed_to(&mut cur2).is_ok() } else { pp.write_to(&mut cur2).is_ok() })).unwrap_or(false);
                    let mut c2 = Case::oracle_only().tag("re-emitted-into-used-buffer");
                    if !ok2 { c2 = c2.fail("reserialise-failed", format!("serialising a parsed packet ({}) into a buffer that holds older bytes fails", if comp { "compressed" } else { "plain" })); }
                    else if cur2.get_ref()[..want.len()] != want[..] || cur2.position() as usize != want.len() { c2 = c2.fail("reserialise-differs", format!("re-emitted {} into a used buffer: other bytes than build_bytes_vec", if comp { "compressed" } else { "plain" })); }
                    v.push(c2);
                }
            }
        }
    }
    // the forwarder's path on a service thread: a sample of the accepted inputs is parsed and written again, by both
    // writers, in a child process on a thread with a 64 KiB stack (a serialiser that keeps a message-sized buffer on the
    // stack, or recurses per label, is a process abort there)
    {
        let mut sample: Vec<Vec<u8>> = vec![];
        for (k, (b, _)) in hostile_messages(tier, seed ^ 0x1111).into_iter().enumerate() { if k % 40 == 0 && b.len() <= 5000 { sample.push(b); } }
        for (p, tag) in packets(tier, seed ^ 0x3333, true) { if tag == "many-names" || tag == "max-size" { if let Ok(b) = p.build_bytes_vec() { sample.push(b); } } }
        v.extend(crate::props::c01::stack_probe_with(&sample, true));
    }
    v
}
