pub mod c01;
pub mod c06;
pub mod c08;
pub mod c17;
pub mod c18;
pub mod c19;
pub mod pk;
pub mod svc;
pub mod own;
pub mod wr;
pub mod rfc;
pub mod mdns;

use crate::core::Case;

pub fn cases(prop: &str, tier: &str, seed: u64) -> Option<Vec<Case>> {
    Some(match prop {
        "C01" => c01::cases(tier, seed),
        "C06" => c06::cases(tier, seed),
        "C08" => c08::cases(tier, seed),
        "C18" => c18::cases(tier, seed),
        "C19" => c19::cases(tier, seed),
        "C14" => svc::c14(tier, seed),
        "C15" => svc::c15(tier, seed),
        "C16" => own::c16(tier, seed),
        "C12" => own::c12(tier, seed),
        "C04" => wr::c04(tier, seed),
        "C07" => wr::c07(tier, seed),
        "C09" => rfc::c09(tier, seed),
        "C10" => rfc::c10(tier, seed),
        "C13" => mdns::c13(tier, seed),
        "C20" => mdns::c20(tier, seed),
        "C17" => c17::cases(tier, seed),
        "C02" => pk::c02(tier, seed),
        "C03" => pk::c03(tier, seed),
        "C05" => pk::c05(tier, seed),
        "C11" => pk::c11(tier, seed),
        _ => return None,
    })
}
