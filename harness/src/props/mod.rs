pub mod c01;
pub mod c06;
pub mod c08;
pub mod c18;

use crate::core::Case;

pub fn cases(prop: &str, tier: &str, seed: u64) -> Option<Vec<Case>> {
    Some(match prop {
        "C01" => c01::cases(tier, seed),
        "C06" => c06::cases(tier, seed),
        "C08" => c08::cases(tier, seed),
        "C18" => c18::cases(tier, seed),
        _ => return None,
    })
}
