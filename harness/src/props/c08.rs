//! C08 — header bits: exhaustive over all 65 536 flag words, all 128×128 flag pairs, all named
//! opcode × rcode × flag subsets on the build side.
use crate::core::*;
use crate::text;
use simple_dns::*;

fn hdr(id: u16, w: u16, c: [u16; 4]) -> Vec<u8> {
    let mut b = Vec::with_capacity(12);
    b.extend_from_slice(&id.to_be_bytes());
    b.extend_from_slice(&w.to_be_bytes());
    for x in c {
        b.extend_from_slice(&x.to_be_bytes());
    }
    b
}

fn res<T>(r: std::result::Result<T, SimpleDnsError>, f: impl Fn(T) -> String) -> String {
    match r {
        Ok(v) => format!("ok {}", f(v)),
        Err(_) => "err".to_string(),
    }
}

/// RFC 1035 §4.1.1 field extraction by positional arithmetic (independent of library and model)
struct Rfc {
    qr: u16, opcode: u16, aa: u16, tc: u16, rd: u16, ra: u16, z: u16, ad: u16, cd: u16, rcode: u16,
}
fn rfc(w: u16) -> Rfc {
    Rfc {
        qr: w / 32768 % 2, opcode: w / 2048 % 16, aa: w / 1024 % 2, tc: w / 512 % 2, rd: w / 256 % 2,
        ra: w / 128 % 2, z: w / 64 % 2, ad: w / 32 % 2, cd: w / 16 % 2, rcode: w % 16,
    }
}
fn opcode_of(n: u16) -> OPCODE {
    match n { 0 => OPCODE::StandardQuery, 1 => OPCODE::InverseQuery, 2 => OPCODE::ServerStatusRequest,
        4 => OPCODE::Notify, 5 => OPCODE::Update, _ => OPCODE::Reserved }
}
fn rcode_of(n: u16) -> RCODE {
    match n { 0 => RCODE::NoError, 1 => RCODE::FormatError, 2 => RCODE::ServerFailure, 3 => RCODE::NameError,
        4 => RCODE::NotImplemented, 5 => RCODE::Refused, 6 => RCODE::YXDOMAIN, 7 => RCODE::YXRRSET,
        8 => RCODE::NXRRSET, 9 => RCODE::NOTAUTH, 10 => RCODE::NOTZONE, 16 => RCODE::BADVERS, _ => RCODE::Reserved }
}

fn qtext(p: &Packet) -> Vec<String> { p.questions.iter().map(text::question).collect() }

pub fn cases(_tier: &str, _seed: u64) -> Vec<Case> {
    let mut v: Vec<Case> = Vec::new();
    let flags = text::ALL_FLAGS;
    for w in 0..=65535u16 {
        let spec = rfc(w);
        for (k, id) in [0u16, 0xABCD, 0xFFFF, 1].iter().enumerate() {
            // through Packet::parse (zero counts so that the header alone decides)
            let b = hdr(*id, w, [0; 4]);
            let bb = b.clone();
            let out = guard(move || res(Packet::parse(&bb), |p| text::header(&p)));
            let mut c = Case::new(format!("hdr.parse {}", text::hex(&b)), out.clone()).tag("hdr.parse");
            // oracle: RFC layout
            match Packet::parse(&b) {
                Ok(p) => {
                    let mut bad = vec![];
                    if spec.z != 0 { bad.push("accepted a header with Z set".to_string()); }
                    if p.id() != *id { bad.push("id".into()); }
                    let exp = [spec.qr, spec.aa, spec.tc, spec.rd, spec.ra, spec.ad, spec.cd];
                    for (f, e) in flags.iter().zip(exp.iter()) {
                        if p.has_flags(*f) != (*e == 1) { bad.push(format!("flag {:?}", f)); }
                    }
                    if p.opcode() != opcode_of(spec.opcode) { bad.push("opcode".into()); }
                    if p.rcode() != rcode_of(spec.rcode) { bad.push("rcode".into()); }
                    if !bad.is_empty() {
                        c = c.fail("header-layout", format!("word {:#06x}: {}", w, bad.join(", ")));
                    }
                }
                Err(_) => {
                    if spec.z == 0 {
                        c = c.fail("header-rejected", format!("word {:#06x} without Z rejected", w));
                    }
                }
            }
            v.push(c);
            if k > 0 { continue; }
            // re-serialise what was parsed: every field goes back to the position it was read from (an
            // unassigned opcode or response code is written back as one), also after the opcode and the
            // response code have been replaced
            if let Ok(p) = Packet::parse(&b) {
                let rb = p.build_bytes_vec().unwrap_or_default();
                let mut c = Case::new(format!("build {}", text::packet(&p)), format!("ok {}", text::hex(&rb))).tag("reserialise");
                if rb.len() == 12 {
                    let s2 = rfc(u16::from_be_bytes([rb[2], rb[3]]));
                    let named_op = matches!(spec.opcode, 0 | 1 | 2 | 4 | 5);
                    let named_rc = spec.rcode <= 10;
                    let same_flags = (s2.qr, s2.aa, s2.tc, s2.rd, s2.ra, s2.ad, s2.cd, s2.z) == (spec.qr, spec.aa, spec.tc, spec.rd, spec.ra, spec.ad, spec.cd, 0);
                    if !same_flags || (named_op && s2.opcode != spec.opcode) || (!named_op && matches!(s2.opcode, 0 | 1 | 2 | 4 | 5))
                        || (named_rc && s2.rcode != spec.rcode) || (!named_rc && s2.rcode <= 10) || rb[0..2] != b[0..2] {
                        c = c.fail("header-reserialised", format!("word {:#06x} parsed and written back as {:#06x}", w, u16::from_be_bytes([rb[2], rb[3]])));
                    }
                } else { c = c.fail("header-reserialised", format!("word {:#06x}: {} bytes written", w, rb.len())); }
                v.push(c);
                if w % 16 == 5 {
                    let mut q = p.clone();
                    *q.opcode_mut() = OPCODE::StandardQuery;
                    *q.rcode_mut() = RCODE::ServerFailure;
                    let qb = q.build_bytes_vec().unwrap_or_default();
                    let mut c = Case::new(format!("build {}", text::packet(&q)), format!("ok {}", text::hex(&qb))).tag("reserialise-modified");
                    if qb.len() == 12 { let s3 = rfc(u16::from_be_bytes([qb[2], qb[3]])); if s3.opcode != 0 || s3.rcode != 2 { c = c.fail("header-modified", format!("word {:#06x}: opcode / rcode replaced after parsing, written as opcode {} rcode {}", w, s3.opcode, s3.rcode)); } }
                    v.push(c);
                }
            }
            // peek functions, counts of three shapes
            for (ci, counts) in [[1u16, 2, 3, 4], [0xFFFF, 0, 0x8000, 0x00FF]].into_iter().enumerate() {
                // the id word differs from the flags word in every bit (first shape) or in most (second): a field read from
                // the wrong one of the two shows
                let idw = if ci == 0 { !w } else { w.rotate_left(3) ^ 0x1234 ^ *id };
                let b = hdr(idw, w, counts);
                let h = text::hex(&b);
                let peeks: [(&str, String); 7] = [
                    ("id", res(header_buffer::id(&b), |x| x.to_string())),
                    ("questions", res(header_buffer::questions(&b), |x| x.to_string())),
                    ("answers", res(header_buffer::answers(&b), |x| x.to_string())),
                    ("name_servers", res(header_buffer::name_servers(&b), |x| x.to_string())),
                    ("additional_records", res(header_buffer::additional_records(&b), |x| x.to_string())),
                    ("rcode", res(header_buffer::rcode(&b), |x| (x as u16).to_string())),
                    ("opcode", res(header_buffer::opcode(&b), |x| (x as u16).to_string())),
                ];
                // the peeks are meant for a received datagram: the same header followed by a body (a question, a few bytes,
                // a full 512-byte message) answers the same
                if w % 8 == 3 {
                    let mut long = b.clone();
                    let extra = [1usize, 5, 17, 500][(w as usize / 8) % 4];
                    long.extend((0..extra).map(|k| (k as u8).wrapping_mul(37) ^ w as u8));
                    let hl = text::hex(&long);
                    let again: [(&str, String); 7] = [
                        ("id", res(header_buffer::id(&long), |x| x.to_string())),
                        ("questions", res(header_buffer::questions(&long), |x| x.to_string())),
                        ("answers", res(header_buffer::answers(&long), |x| x.to_string())),
                        ("name_servers", res(header_buffer::name_servers(&long), |x| x.to_string())),
                        ("additional_records", res(header_buffer::additional_records(&long), |x| x.to_string())),
                        ("rcode", res(header_buffer::rcode(&long), |x| (x as u16).to_string())),
                        ("opcode", res(header_buffer::opcode(&long), |x| (x as u16).to_string())),
                    ];
                    for ((name, out), (_, short)) in again.iter().zip(peeks.iter()) {
                        let mut c = Case::new(format!("peek {} {} 0", name, hl), out.clone()).tag("peek-long");
                        if out != short { c = c.fail("peek-long-differs", format!("word {:#06x}: {} of the header followed by {} more bytes is {}, of the header alone {}", w, name, extra, out, short)); }
                        v.push(c);
                    }
                    let f0 = flags[(w as usize / 8) % flags.len()];
                    let (a, bb) = (res(header_buffer::has_flags(&long, f0), |x| (x as u8).to_string()), res(header_buffer::has_flags(&b, f0), |x| (x as u8).to_string()));
                    let mut c = Case::new(format!("peek has_flags {} {}", hl, f0.bits()), a.clone()).tag("peek-long");
                    if a != bb { c = c.fail("peek-long-differs", format!("word {:#06x}: has_flags differs between the header alone and the header with a body", w)); }
                    v.push(c);
                }
                for (name, out) in peeks {
                    v.push(Case::new(format!("peek {} {} 0", name, h), out).tag("peek"));
                }
                let exp = [spec.qr, spec.aa, spec.tc, spec.rd, spec.ra, spec.ad, spec.cd];
                for (f, e) in flags.iter().zip(exp.iter()) {
                    let out = res(header_buffer::has_flags(&b, *f), |x| (x as u8).to_string());
                    let mut c = Case::new(format!("peek has_flags {} {}", h, f.bits()), out.clone()).tag("peek");
                    if out != format!("ok {}", e) {
                        c = c.fail("peek-has-flags", format!("word {:#06x} flag {:?}: {}", w, f, out));
                    }
                    v.push(c);
                }
                // sets of several flags, and the empty set: "has" means every listed flag is up (RFC 1035 4.1.1 bits)
                let wf = [spec.qr, spec.aa, spec.tc, spec.rd, spec.ra, spec.ad, spec.cd];
                let picks = [0u32, (w as u32).wrapping_mul(2654435761) >> 7, (w as u32).wrapping_mul(40503) >> 3, 127];
                for pick in picks {
                    let mut set = PacketFlag::empty();
                    let mut all = true;
                    for (i, f) in flags.iter().enumerate() { if pick >> i & 1 == 1 { set |= *f; if wf[i] != 1 { all = false; } } }
                    let out = res(header_buffer::has_flags(&b, set), |x| (x as u8).to_string());
                    let mut c = Case::new(format!("peek has_flags {} {}", h, set.bits()), out.clone()).tag("peek-set");
                    if out != format!("ok {}", all as u8) { c = c.fail("peek-has-flags", format!("word {:#06x} flag set {:#06x}: {}", w, set.bits(), out)); }
                    v.push(c);
                }
                // oracle for the numeric peeks
                let mut c = Case::oracle_only().tag("peek-oracle");
                let ok = header_buffer::id(&b).ok() == Some(idw)
                    && header_buffer::questions(&b).ok() == Some(counts[0])
                    && header_buffer::answers(&b).ok() == Some(counts[1])
                    && header_buffer::name_servers(&b).ok() == Some(counts[2])
                    && header_buffer::additional_records(&b).ok() == Some(counts[3])
                    && header_buffer::rcode(&b).ok() == Some(rcode_of(spec.rcode))
                    && header_buffer::opcode(&b).ok() == Some(opcode_of(spec.opcode));
                if !ok { c = c.fail("peek-layout", format!("word {:#06x}: a peek function disagrees with RFC 1035 4.1.1", w)); }
                v.push(c);
            }
        }
    }
    // flag algebra: all 128 × 128 pairs
    let set_of = |i: u32| -> PacketFlag {
        flags.iter().enumerate().filter(|(k, _)| i >> k & 1 == 1).fold(PacketFlag::empty(), |a, (_, f)| a | *f)
    };
    for a in 0..128u32 {
        for b in 0..128u32 {
            let (fa, fb) = (set_of(a), set_of(b));
            let mut p = Packet::new_query(7);
            *p.opcode_mut() = OPCODE::Update;
            *p.rcode_mut() = RCODE::Refused;
            p.set_flags(fa);
            let mut ps = p.clone();
            ps.set_flags(fb);
            let mut pr = p.clone();
            pr.remove_flags(fb);
            let has = p.has_flags(fb);
            v.push(Case::new(format!("flags set {} {}", fa.bits(), fb.bits()), text::flag_bits(&ps).to_string()).tag("flags"));
            v.push(Case::new(format!("flags remove {} {}", fa.bits(), fb.bits()), text::flag_bits(&pr).to_string()).tag("flags"));
            v.push(Case::new(format!("flags has {} {}", fa.bits(), fb.bits()), (has as u8).to_string()).tag("flags"));
            let mut c = Case::oracle_only().tag("flags-oracle");
            let ok = text::flag_bits(&ps) == (fa | fb).bits()
                && text::flag_bits(&pr) == (fa - fb).bits()
                && has == (a & b == b)
                && ps.opcode() == OPCODE::Update && pr.opcode() == OPCODE::Update
                && ps.rcode() == RCODE::Refused && pr.rcode() == RCODE::Refused
                && ps.id() == 7 && pr.id() == 7;
            if !ok { c = c.fail("flag-algebra", format!("sets {:#x} {:#x}", fa.bits(), fb.bits())); }
            v.push(c);
        }
    }
    // build side
    for (oi, o) in crate::gen::Gen::OPCODES.iter().enumerate() {
        for r in crate::gen::Gen::RCODES.iter() {
            for i in 0..128u32 {
                let id = (oi as u16) << 12 | (*r as u16) << 7 | i as u16;
                let mut p = Packet::new_query(id);
                p.set_flags(set_of(i));
                *p.opcode_mut() = *o;
                *p.rcode_mut() = *r;
                let bytes = p.build_bytes_vec().unwrap();
                let mut c = Case::new(format!("build {}", text::packet(&p)), format!("ok {}", text::hex(&bytes))).tag("build");
                let w = u16::from_be_bytes([bytes[2], bytes[3]]);
                let s = rfc(w);
                let exp_bits = set_of(i).bits();
                let got_bits = s.qr << 15 | s.aa << 10 | s.tc << 9 | s.rd << 8 | s.ra << 7 | s.ad << 5 | s.cd << 4;
                let ok = bytes.len() == 12 && u16::from_be_bytes([bytes[0], bytes[1]]) == id
                    && s.opcode == (*o as u16) && s.rcode == (*r as u16) % 16 && s.z == 0 && got_bits == exp_bits
                    && bytes[4..] == [0u8; 8];
                if !ok { c = c.fail("header-written", format!("opcode {:?} rcode {:?} flags {:#x} written as {:#06x}", o, r, exp_bits, w)); }
                v.push(c);
            }
        }
    }
    // the same headers through a writer that accepts 5 or 8 bytes per call (`write_all` semantics: the
    // whole header must arrive) and through storage that is too short (an error, not a truncated header)
    {
        struct Chunky(Vec<u8>, usize);
        impl std::io::Write for Chunky {
            fn write(&mut self, buf: &[u8]) -> std::io::Result<usize> { let n = buf.len().min(self.1); self.0.extend_from_slice(&buf[..n]); Ok(n) }
            fn flush(&mut self) -> std::io::Result<()> { Ok(()) }
        }
        for (oi, o) in crate::gen::Gen::OPCODES.iter().enumerate() {
            for r in crate::gen::Gen::RCODES.iter() {
                let mut p = Packet::new_query(0x0102 + oi as u16);
                p.set_flags(set_of(0x55));
                *p.opcode_mut() = *o;
                *p.rcode_mut() = *r;
                p.questions.push(Question::new(Name::new_unchecked("q"), TYPE::A.into(), CLASS::IN.into(), false));
                let want = p.build_bytes_vec().unwrap();
                for chunk in [5usize, 8] {
                    let mut w = Chunky(vec![], chunk);
                    let ok = p.write_to(&mut w).is_ok();
                    let mut c = Case::oracle_only().tag("chunked-writer");
                    if !ok || w.0 != want { c = c.fail("header-chunked", format!("opcode {:?} rcode {:?}: through a writer taking {} bytes per call the message differs from build_bytes_vec", o, r, chunk)); }
                    v.push(c);
                }
                for cap in [0usize, 5, 11] {
                    let mut store = vec![0xEEu8; cap];
                    let res = p.write_to(&mut &mut store[..]);
                    let mut c = Case::oracle_only().tag("short-storage");
                    if res.is_ok() { c = c.fail("header-truncated", format!("writing into {} bytes of storage reports success", cap)); }
                    v.push(c);
                }
            }
        }
    }
    // constructor side: new_query / new_reply / into_reply / set_id
    for id in [0u16, 1, 255, 256, 0x1234, 0x8000, 0xFFFF] {
        let q = Packet::new_query(id);
        let qb = q.build_bytes_vec().unwrap();
        let mut c = Case::new(format!("api newq {}", id), format!("{} ok {}", text::packet(&q), text::hex(&qb))).tag("api");
        if qb.len() != 12 || qb[0..2] != id.to_be_bytes() || qb[2..] != [0u8; 10] { c = c.fail("new-query-header", format!("new_query({}) is not the id followed by ten zero bytes", id)); }
        v.push(c);
        let r = Packet::new_reply(id);
        let rb = r.build_bytes_vec().unwrap();
        let mut c = Case::new(format!("api newr {}", id), format!("{} ok {}", text::packet(&r), text::hex(&rb))).tag("api");
        if rb.len() != 12 || rb[0..2] != id.to_be_bytes() || rb[2..4] != [0x80, 0] || rb[4..] != [0u8; 8] { c = c.fail("new-reply-header", format!("new_reply({}) is not id, QR alone, zero counts", id)); }
        v.push(c);
    }
    {
        let mut g = crate::gen::Gen::new(_seed ^ 0xA91);
        for i in 0..(if _tier == "thorough" { 3000 } else { 300 }) {
            let mut p = g.packet(3);
            if i % 2 == 0 { *p.opcode_mut() = *g.rng.pick(&crate::gen::Gen::OPCODES); *p.rcode_mut() = *g.rng.pick(&crate::gen::Gen::RCODES); p.set_flags(set_of(g.rng.below(128) as u32)); }
            let before = p.clone();
            let reply = p.clone().into_reply();
            let mut c = Case::new(format!("api reply {}", text::packet(&before)), text::packet(&reply)).tag("api").tag("into_reply");
            let rb = reply.build_bytes_vec();
            let ok = reply.id() == before.id() && reply.opcode() == before.opcode() && reply.rcode() == RCODE::NoError
                && reply.opt().is_none() && text::flag_bits(&reply) == 0x8000
                && qtext(&reply) == qtext(&before) && reply.answers == before.answers
                && reply.name_servers == before.name_servers && reply.additional_records == before.additional_records;
            if !ok { c = c.fail("into-reply", "into_reply does not keep id, opcode and sections / does not reset flags, rcode, EDNS".into()); }
            if let Ok(b) = rb {
                let w = u16::from_be_bytes([b[2], b[3]]);
                let s = rfc(w);
                if !(s.qr == 1 && s.opcode == before.opcode() as u16 && s.rcode == 0 && s.z == 0 && s.aa + s.tc + s.rd + s.ra + s.ad + s.cd == 0) { c = c.fail("reply-header-written", format!("reply header word {:#06x}", w)); }
            }
            v.push(c);
            let nid = g.u16();
            let mut p2 = before.clone();
            p2.set_id(nid);
            let mut c = Case::new(format!("api setid {} {}", nid, text::packet(&before)), text::packet(&p2)).tag("api");
            if p2.id() != nid || p2.opcode() != before.opcode() || p2.rcode() != before.rcode() || text::flag_bits(&p2) != text::flag_bits(&before) || qtext(&p2) != qtext(&before) || p2.answers != before.answers { c = c.fail("set-id", "set_id touches more than the id".into()); }
            v.push(c);
            if let Some(r) = before.answers.first() {
                let f = r.to_cache_flush_record();
                let mut c = Case::new(format!("api flush {}", text::rr(r)), text::rr(&f)).tag("api");
                if !(f.cache_flush && f.name == r.name && f.class == r.class && f.ttl == r.ttl && f.rdata == r.rdata) { c = c.fail("to-cache-flush", "to_cache_flush_record changes more than the cache-flush bit".into()); }
                v.push(c);
            }
        }
    }
    // parse side with entries: the header of a message that carries questions and records - among them the shortest there
    // are (root-name questions, 5 octets each; root-owner records without RDATA, 11 octets) - reads like the header alone
    {
        for w in (0..=65535u32).step_by(97).chain([0x0100, 0x8180, 0x0120, 0x8400]) {
            let w = w as u16;
            let spec = rfc(w);
            if spec.z != 0 { continue; }
            for (qd, an, ar) in [(1u16, 0u16, 0u16), (2, 0, 0), (3, 0, 0), (0, 1, 0), (1, 1, 1), (0, 0, 2), (4, 2, 0)] {
                let id = w ^ 0x1357;
                let mut b = vec![(id >> 8) as u8, id as u8, (w >> 8) as u8, w as u8, 0, qd as u8, 0, an as u8, 0, 0, 0, ar as u8];
                for _ in 0..qd { b.extend_from_slice(&[0, 0, 2, 0, 1]); }
                for _ in 0..(an + ar) { b.extend_from_slice(&[0, 0, 1, 0, 1, 0, 0, 0, 5, 0, 0]); }
                let out = match Packet::parse(&b) { Ok(p) => format!("ok {}", text::packet(&p)), Err(_) => "err".to_string() };
                let mut c = Case::new(format!("parse {}", text::hex(&b)), out).tag("parse-with-entries");
                match Packet::parse(&b) {
                    Err(_) => { c = c.fail("header-rejected", format!("word {:#06x} with {} root question(s) and {} empty record(s): a legal message is rejected", w, qd, an + ar)); }
                    Ok(p) => {
                        let exp = [spec.qr, spec.aa, spec.tc, spec.rd, spec.ra, spec.ad, spec.cd];
                        let got: Vec<u16> = flags.iter().map(|f| p.has_flags(*f) as u16).collect();
                        if p.id() != id || got[..] != exp[..] || p.opcode() != opcode_of(spec.opcode) || p.rcode() != rcode_of(spec.rcode) || p.questions.len() != qd as usize || p.answers.len() != an as usize || p.additional_records.len() != ar as usize {
                            c = c.fail("header-layout", format!("word {:#06x} with entries: id / flags / counts read differently from the header alone", w));
                        }
                    }
                }
                v.push(c);
                // the counts say what the message holds, whatever the flags say: the same message with its last entry cut
                // short (or missing) does not come back as a packet with fewer entries than its header announces
                if an + ar > 0 {
                    for cut in [1usize, 6, 11] {
                        let short = &b[..b.len() - cut];
                        let out = match Packet::parse(short) { Ok(p) => format!("ok {}", text::packet(&p)), Err(_) => "err".to_string() };
                        let mut c = Case::new(format!("parse {}", text::hex(short)), out).tag("parse-with-entries-cut");
                        if let Ok(p) = Packet::parse(short) {
                            if p.answers.len() != an as usize || p.additional_records.len() != ar as usize {
                                c = c.fail("header-layout", format!("word {:#06x}: the header announces {} answer(s) and {} additional record(s), the last entry is {} octet(s) short, and a packet with {} / {} comes back", w, an, ar, cut, p.answers.len(), p.additional_records.len()));
                            }
                        }
                        v.push(c);
                    }
                }
            }
        }
    }
    // build side with entries: id (also after set_id), flags, opcode, rcode and the four counts land at their RFC 1035
    // positions whatever the sections hold, through both writers; judged on the 12 header bytes alone
    {
        use simple_dns::rdata::{RData, A};
        let mut k = 0u32;
        for counts in [[1usize, 0, 0, 0], [0, 1, 0, 0], [0, 0, 1, 0], [0, 0, 0, 1], [2, 3, 4, 5], [0, 300, 0, 2], [256, 257, 1, 255], [3, 0, 0, 0],
            // each count alone above 255, and all four different in both octets: a high octet taken from another count shows
            [256, 0, 0, 0], [0, 256, 0, 0], [0, 0, 256, 0], [0, 0, 0, 256], [1, 2, 300, 3], [3, 1, 2, 300], [258, 515, 772, 1029]] {
            for opc in [OPCODE::StandardQuery, OPCODE::InverseQuery, OPCODE::ServerStatusRequest, OPCODE::Notify, OPCODE::Update] {
                for rc in [RCODE::NoError, RCODE::FormatError, RCODE::Refused, RCODE::NOTZONE, RCODE::Reserved] {
                    k += 1;
                    let id0 = (k as u16).wrapping_mul(2749);
                    let mut p = if k % 2 == 0 { Packet::new_query(id0) } else { Packet::new_reply(id0) };
                    let mut fl = PacketFlag::empty();
                    for (i, f) in flags.iter().enumerate() { if i > 0 && (k >> i) & 1 == 1 { fl |= *f; } }
                    p.set_flags(fl);
                    *p.opcode_mut() = opc;
                    *p.rcode_mut() = rc;
                    let n = Name::new_unchecked("count.example");
                    for _ in 0..counts[0] { p.questions.push(Question::new(n.clone(), TYPE::A.into(), CLASS::IN.into(), false)); }
                    for (sec, c) in counts.iter().enumerate().skip(1) {
                        for j in 0..*c { let r = ResourceRecord::new(n.clone(), CLASS::IN, 1, RData::A(A { address: j as u32 })); match sec { 1 => p.answers.push(r), 2 => p.name_servers.push(r), _ => p.additional_records.push(r) } }
                    }
                    let id = if k % 3 == 0 { let nid = id0 ^ 0x5A5A; p.set_id(nid); nid } else { id0 };
                    let mut c = Case::oracle_only().tag("build-with-entries");
                    for (how, bytes) in [("plain", p.build_bytes_vec()), ("compressed", p.build_bytes_vec_compressed())] {
                        match bytes {
                            Ok(b) if b.len() >= 12 => {
                                let s3 = rfc(u16::from_be_bytes([b[2], b[3]]));
                                let want_flags = [(k % 2 == 1) as u16, (fl.contains(flags[1])) as u16, fl.contains(flags[2]) as u16, fl.contains(flags[3]) as u16, fl.contains(flags[4]) as u16, fl.contains(flags[5]) as u16, fl.contains(flags[6]) as u16];
                                let got_flags = [s3.qr, s3.aa, s3.tc, s3.rd, s3.ra, s3.ad, s3.cd];
                                let got_counts: Vec<usize> = (0..4).map(|i| u16::from_be_bytes([b[4 + 2 * i], b[5 + 2 * i]]) as usize).collect();
                                if u16::from_be_bytes([b[0], b[1]]) != id { c = c.fail("header-written", format!("{}: id {:#06x} written as {:#06x}", how, id, u16::from_be_bytes([b[0], b[1]]))); }
                                else if got_flags != want_flags || s3.z != 0 { c = c.fail("header-written", format!("{}: flags {:?} written as {:?}", how, want_flags, got_flags)); }
                                else if s3.opcode != opc as u16 || s3.rcode != (rc as u16 & 0xF) { c = c.fail("header-written", format!("{}: opcode {:?} rcode {:?} written as {} {}", how, opc, rc, s3.opcode, s3.rcode)); }
                                else if got_counts[..] != counts[..] { c = c.fail("header-written", format!("{}: counts {:?} written as {:?}", how, counts, got_counts)); }
                            }
                            _ => { c = c.fail("header-written", format!("{}: a packet with counts {:?} is not serialised", how, counts)); }
                        }
                    }
                    v.push(c);
                }
            }
        }
    }
    v
}
